(* C09 / C11 / C12 / C20 theorems about the Gin machine (Model/Gin.v, Model/GinEngine.v). *)
From Coq Require Import List String ZArith Bool Arith Lia.
From GinV Require Import Lib.Out Lib.PyStr Model.SelectorMap Model.Values Model.Gin Model.GinEngine.
From GinV Require Import Proofs.MachineFrame.
Import ListNotations. Open Scope string_scope. Open Scope list_scope.

(* ================================================================== *)
(* shapes of the primitive state transformers                          *)
(* ================================================================== *)
Lemma set_constants_id : forall s, set_constants (constants s) s = s.
Proof. destruct s; reflexivity. Qed.
Lemma set_operative_id : forall s, set_operative (operative s) s = s.
Proof. destruct s; reflexivity. Qed.
Lemma set_config_id : forall s, set_config (config s) s = s.
Proof. destruct s; reflexivity. Qed.

Lemma run_res_ok : forall x o s', run_res x o = (s', Ok tt) -> exists s1, x = (s1, Ok tt) /\ s' = emit o s1.
Proof.
  intros [s1 [[]|e]] o s' H; simpl in H; inversion H; subst. exists s1. split; reflexivity.
Qed.
Lemma run_res_raise : forall x o s' e, run_res x o = (s', Raise e) -> x = (s', Raise e).
Proof. intros [s1 [[]|e0]] o s' e H; simpl in H; inversion H; subst. reflexivity. Qed.
Lemma run_res_cases : forall x o s' r, run_res x o = (s', r) ->
  (exists s1, x = (s1, Ok tt) /\ s' = emit o s1 /\ r = Ok tt) \/ (exists e, x = (s', Raise e) /\ r = Raise e).
Proof.
  intros [s1 [[]|e0]] o s' r H; simpl in H; inversion H; subst.
  - left. exists s1. repeat split.
  - right. exists e0. split; reflexivity.
Qed.

(* ---- bind_split ---- *)
Lemma bind_split_shape : forall s sc sel a v s' r, bind_split s sc sel a v = (s', r) ->
  (s' = s /\ exists e, r = Raise e) \/ (exists c, s' = set_config c s /\ r = Ok tt).
Proof.
  intros s sc sel a v s' r H. unfold bind_split in H.
  destruct (locked s); [inversion H; subst; left; split; eauto|].
  destruct (pbk_validate s sc sel a) as [[ck a']|e]; inversion H; subst.
  - right. eexists. split; reflexivity.
  - left. split; eauto.
Qed.

(* ---- missing_overrides_hook ---- *)
Definition moh_step := (fun (acc : state * res bool) (t : ckey * string * value) =>
     let '(st, r) := acc in
     match r with
     | Raise e => (st, Raise e)
     | Ok false => (st, Ok false)
     | Ok true =>
         match snd t with
         | VRef sc "gin.constant" _ =>
             let st := oper_update st (scope_str sc, "gin.constant") [] in
             match fget (to_key (scope_str sc)) (sm_flat (constants st)) with
             | Some VReq => (st, Ok false)
             | Some _ => (st, Ok true)
             | None => (st, Raise "KeyError")
             end
         | _ => (st, Ok true)
         end
     end).

Arguments moh_step : simpl never.
Lemma moh_unfold : forall s, missing_overrides_hook s = fold_left moh_step (all_config_values s) (s, Ok true).
Proof. reflexivity. Qed.

Lemma match_gin_constant : forall {A} (sel : string) (a b : A),
  (match sel with "gin.constant" => a | _ => b end) = if String.eqb sel "gin.constant" then a else b.
Proof.
  intros.
  do 13 (destruct sel as [|[[] [] [] [] [] [] [] []] sel]; try reflexivity).
Qed.

Lemma moh_step_shape : forall st r t st' r', moh_step (st, r) t = (st', r') -> exists o, st' = set_operative o st.
Proof.
  intros st r t st' r' H. unfold moh_step in H.
  assert (Hid : exists o, st = set_operative o st) by (exists (operative st); symmetry; apply set_operative_id).
  destruct r as [[|]|e]; try (inversion H; subst; exact Hid).
  destruct (snd t); try (inversion H; subst; exact Hid).
  rewrite (match_gin_constant sel) in H.
  destruct (String.eqb sel "gin.constant"); [|inversion H; subst; exact Hid].
  cbv zeta in H.
  match type of H with (match ?x with _ => _ end) = _ => destruct x as [w|] end.
  - destruct w; inversion H; subst; eexists; reflexivity.
  - inversion H; subst; eexists; reflexivity.
Qed.

Lemma moh_fold_shape : forall l st r st' r',
  fold_left moh_step l (st, r) = (st', r') -> exists o, st' = set_operative o st.
Proof.
  induction l as [|t l IH]; intros st r st' r' H; simpl in H.
  - inversion H; subst. exists (operative st'). symmetry; apply set_operative_id.
  - destruct (moh_step (st, r) t) as [st1 r1] eqn:E.
    apply moh_step_shape in E. destruct E as [o1 ->].
    apply IH in H. destruct H as [o ->]. exists o. reflexivity.
Qed.

Lemma moh_shape : forall s s1 r, missing_overrides_hook s = (s1, r) -> exists o, s1 = set_operative o s.
Proof. intros s s1 r H. rewrite moh_unfold in H. eapply moh_fold_shape; eassumption. Qed.

(* ---- finalize ---- *)
Definition fin_step := (fun (st : state) (pv : pbk * value) =>
   let '((ck, a), v) := pv in
   let d := match cget ck (config st) with Some d => d | None => [] end in
   set_config (cset ck (sset a v d) (config st)) st).

Lemma fin_fold_shape : forall upd st, exists c, fold_left fin_step upd st = set_config c st.
Proof.
  induction upd as [|pv upd IH]; intros st.
  - exists (config st). symmetry; apply set_config_id.
  - change (fold_left fin_step (pv :: upd) st) with (fold_left fin_step upd (fin_step st pv)).
    destruct (IH (fin_step st pv)) as [c Hc]. exists c. rewrite Hc.
    destruct pv as [[ck a] v]. reflexivity.
Qed.

Lemma finalize_unfold : forall s, finalize s =
  if locked s then (s, Raise "RuntimeError") else
  if negb (macros_hook_ok s) then (s, Raise "ValueError") else
  if negb (unknown_refs_hook_ok s) then (s, Raise "ValueError") else
  let '(s1, r) := missing_overrides_hook s in
  match r with
  | Raise e => (s1, Raise e)
  | Ok false => (s1, Raise "ValueError")
  | Ok true =>
      match collect_hooks s1 (hooks s1) [] with
      | Raise e => (s1, Raise e)
      | Ok upd => (set_locked true (fold_left fin_step upd s1), Ok tt)
      end
  end.
Proof. reflexivity. Qed.

Lemma finalize_shape : forall s s' r, finalize s = (s', r) ->
  ((exists o, s' = set_operative o s) /\ exists e, r = Raise e) \/
  (locked s = false /\ (exists o c, s' = set_locked true (set_config c (set_operative o s))) /\ r = Ok tt).
Proof.
  intros s s' r H. rewrite finalize_unfold in H.
  assert (Hid : exists o, s = set_operative o s) by (exists (operative s); symmetry; apply set_operative_id).
  destruct (locked s); [inversion H; subst; left; split; eauto|].
  destruct (negb (macros_hook_ok s)); [inversion H; subst; left; split; eauto|].
  destruct (negb (unknown_refs_hook_ok s)); [inversion H; subst; left; split; eauto|].
  destruct (missing_overrides_hook s) as [s1 r1] eqn:E. apply moh_shape in E. destruct E as [o ->].
  destruct r1 as [[|]|e]; try solve [inversion H; subst; left; split; eauto].
  destruct (collect_hooks _ _ _) as [upd|e]; [|inversion H; subst; left; split; eauto].
  destruct (fin_fold_shape upd (set_operative o s)) as [c Hc]. rewrite Hc in H.
  inversion H; subst. right. split; [reflexivity|]. split; eauto.
Qed.

(* ---- define_constant ---- *)
Lemma define_constant_shape : forall s name v s' r, define_constant s name v = (s', r) ->
  (s' = s /\ exists e, r = Raise e) \/ (s' = set_constants (sm_set (to_key name) v (constants s)) s /\ r = Ok tt).
Proof.
  intros s name v s' r H. unfold define_constant in H.
  destruct (negb (is_selector name)); [inversion H; subst; left; split; eauto|].
  match type of H with (if ?b then _ else _) = _ => destruct b end; inversion H; subst.
  - left; split; eauto.
  - right; split; reflexivity.
Qed.

(* ---- clear_config ---- *)
Definition clr_step := (fun (acc : state * res unit) (kv : key * value) =>
   let '(st, r) := acc in
   match r with
   | Raise e => (st, Raise e)
   | Ok _ => define_constant st (of_key (fst kv)) (snd kv)
   end).

Arguments clr_step : simpl never.
Lemma clr_fold_shape : forall l st r st' r', fold_left clr_step l (st, r) = (st', r') ->
  exists x, st' = set_constants x st.
Proof.
  induction l as [|kv l IH]; intros st r st' r' H; simpl in H.
  - inversion H; subst. exists (constants st'). symmetry; apply set_constants_id.
  - destruct (clr_step (st, r) kv) as [st1 r1] eqn:E.
    assert (E' : exists x, st1 = set_constants x st).
    { unfold clr_step in E. destruct r.
      - apply define_constant_shape in E. destruct E as [[-> _]|[-> _]].
        + exists (constants st). symmetry; apply set_constants_id.
        + eexists; reflexivity.
      - inversion E; subst. exists (constants st1). symmetry; apply set_constants_id. }
    destruct E' as [x1 ->]. apply IH in H. destruct H as [x ->]. exists x. reflexivity.
Qed.

Definition cleared (s : state) : state := set_singletons [] (set_config [] (set_locked false s)).

Lemma clear_config_unfold : forall s b, clear_config s b =
  if b then (set_operative [] (set_constants req_constants (cleared s)), Ok tt)
  else
    let '(s1, r) := fold_left clr_step (sm_flat (constants s)) (set_constants sm_empty (cleared s), Ok tt) in
    match r with
    | Raise e => (s1, Raise e)
    | Ok _ => (set_operative [] s1, Ok tt)
    end.
Proof. reflexivity. Qed.

Lemma clear_config_shape : forall s b s' r, clear_config s b = (s', r) ->
  exists x o, s' = set_operative o (set_constants x (cleared s)) /\
    (r = Ok tt -> o = [] /\ (b = true -> x = req_constants)) /\ (r = Ok tt \/ exists e, r = Raise e).
Proof.
  intros s b s' r H. rewrite clear_config_unfold in H. destruct b.
  - inversion H; subst. exists req_constants, []. split; [reflexivity|]. split; auto.
  - destruct (fold_left clr_step _ _) as [s1 r1] eqn:E. apply clr_fold_shape in E. destruct E as [x ->].
    destruct r1 as [[]|e]; inversion H; subst.
    + exists x, []. split; [reflexivity|]. split; [|auto]. intros _. split; [reflexivity|discriminate].
    + exists x, (operative s). split; [reflexivity|]. split; [discriminate|eauto].
Qed.

(* ---- register ---- *)
Lemma register_shape : forall s c b s' r, register s c b = (s', r) ->
  (s' = s /\ exists e, r = Raise e) \/
  (s' = set_reg (sm_set (to_key (c_sel c)) c (reg s)) s /\ r = Ok tt /\ locked s = false /\
   (negb (interactive s) && fmem (to_key (c_sel c)) (sm_flat (reg s)) && negb b = false)).
Proof.
  intros s c b s' r H. unfold register in H.
  destruct (locked s); [inversion H; subst; left; split; eauto|].
  repeat match type of H with
  | (if ?b then _ else _) = _ => destruct b eqn:?; [inversion H; subst; left; split; eauto|]
  end.
  inversion H; subst. right. repeat split; assumption.
Qed.

(* ================================================================== *)
(* exec: unfolding                                                     *)
(* ================================================================== *)
Definition exec_body (f : nat) :=
  fix go (s : state) (body : list op) : state * res unit :=
    match body with
    | [] => (s, Ok tt)
    | x :: t => let '(s1, r) := exec f s x in
                match r with Raise e => (s1, Raise e) | Ok _ => go s1 t end
    end.

Lemma exec_body_nil : forall f s, exec_body f s [] = (s, Ok tt).
Proof. reflexivity. Qed.
Lemma exec_body_cons : forall f s x t, exec_body f s (x :: t) =
  let '(s1, r) := exec f s x in match r with Raise e => (s1, Raise e) | Ok _ => exec_body f s1 t end.
Proof. reflexivity. Qed.

Lemma exec_0 : forall s o, exec 0 s o = (s, Raise "RecursionError").
Proof. reflexivity. Qed.

Lemma exec_OBind : forall f s key v, exec (S f) s (OBind key v) =
  match resolve s v with
  | Raise e => (s, Raise e)
  | Ok v' => let '(scope, sel, arg) := parse_binding_key key in
             run_res (bind_split s scope sel arg v') ONone
  end.
Proof. reflexivity. Qed.
Lemma exec_OParse : forall f s key v, exec (S f) s (OParse key v) =
  match resolve s v with
  | Raise e => (s, Raise e)
  | Ok v' => let '(scope, sel, arg) := parse_binding_key key in
             if String.eqb arg "" then
               run_res (bind_split s (if String.eqb scope "" then sel else scope ++ "/" ++ sel)
                                   "gin.macro" "value" v') ONone
             else run_res (bind_split s scope sel arg v') ONone
  end.
Proof. reflexivity. Qed.
Lemma exec_OBindT : forall f s scope sel arg v, exec (S f) s (OBindT scope sel arg v) =
  match resolve s v with
  | Raise e => (s, Raise e)
  | Ok v' => run_res (bind_split s scope sel arg v') ONone
  end.
Proof. reflexivity. Qed.
Lemma exec_OQuery : forall f s key, exec (S f) s (OQuery key) =
  let cm := if is_selector key then sm_matching (to_key key) (constants s) else [] in
  match cm with
  | [k] => match fget k (sm_flat (constants s)) with
           | Some v => (emit (value_out v) s, Ok tt)
           | None => (s, Raise "ModelError")
           end
  | _ :: _ :: _ => (s, Raise "ValueError")
  | [] =>
      let '(scope, sel, arg) := parse_binding_key key in
      match pbk_validate s scope sel arg with
      | Raise e => (s, Raise e)
      | Ok (ck, a) =>
          match cget ck (config s) with
          | None => (s, Raise "ValueError")
          | Some d => match sget a d with
                      | None => (s, Raise "ValueError")
                      | Some v => (emit (value_out v) s, Ok tt)
                      end
          end
      end
  end.
Proof. reflexivity. Qed.
Lemma exec_OCall : forall f s sel args kwargs, exec (S f) s (OCall sel args kwargs) =
  let '(s1, r) := call f s sel args kwargs in
  match r with
  | Ok v => (emit (value_out v) s1, Ok tt)
  | Raise e => (s1, Raise e)
  end.
Proof. reflexivity. Qed.
Lemma exec_OCallVia : forall f s target args kwargs, exec (S f) s (OCallVia target args kwargs) =
  let parts := split_slash target in
  match reg_lookup s (last parts "") with
  | LAmbiguous => (s, Raise "KeyError")
  | LNone => (s, Raise "ValueError")
  | LFound c =>
      let sc := match removelast parts with [] => current_scope s | sc => sc end in
      let '(s1, r) := call_handle f s sc (c_sel c) args kwargs in
      match r with
      | Ok v => (emit (value_out v) s1, Ok tt)
      | Raise e => (s1, Raise e)
      end
  end.
Proof. reflexivity. Qed.
Lemma exec_OWith : forall f s a body, exec (S f) s (OWith a body) =
  let '(new_scope, valid) := enter_scope_value (current_scope s) a in
  let s1 := set_scopes (new_scope :: scopes s) s in
  if negb valid || negb (scope_valid new_scope)
  then (set_scopes (scopes s) s1, Raise "ValueError")
  else
    let s1 := emit (OL (map OS new_scope)) s1 in
    let '(s2, r) := exec_body f s1 body in
    (set_scopes (tl (scopes s2)) s2, r).
Proof. reflexivity. Qed.
Lemma exec_OGetBindings : forall f s target resolve_refs inherit,
  exec (S f) s (OGetBindings target resolve_refs inherit) =
  let parts := split_slash target in
  let sc := removelast parts in
  let sel := last parts "" in
  match reg_lookup s sel with
  | LAmbiguous => (s, Raise "KeyError")
  | LNone => (s, Raise "ValueError")
  | LFound c =>
      let b := get_bindings_for (config s)
                 (match (match sc with [] => current_scope s | _ => sc end) with
                  | [] => current_scope s | _ => (match sc with [] => current_scope s | _ => sc end) end)
                 (c_sel c) inherit in
      if resolve_refs then
        let '(s1, r) := eval f s (VDict (map (fun kv => (VStr (fst kv), snd kv)) b)) in
        match r with
        | Ok (VDict l) => (emit (OL (map (fun kv => OL [value_out (fst kv); value_out (snd kv)]) l)) s1, Ok tt)
        | Ok _ => (s1, Raise "ModelError")
        | Raise e => (s1, Raise e)
        end
      else (emit (pdict_out b) s, Ok tt)
  end.
Proof. reflexivity. Qed.
Lemma exec_OFinalize : forall f s, exec (S f) s OFinalize = run_res (finalize s) ONone.
Proof. reflexivity. Qed.
Lemma exec_OUnlock : forall f s body, exec (S f) s (OUnlock body) =
  let '(s1, r) := exec_body f (set_locked false s) body in (set_locked (locked s) s1, r).
Proof. reflexivity. Qed.
Lemma exec_OClear : forall f s b, exec (S f) s (OClear b) = run_res (clear_config s b) ONone.
Proof. reflexivity. Qed.
Lemma exec_OConstant : forall f s name v, exec (S f) s (OConstant name v) = run_res (define_constant s name v) ONone.
Proof. reflexivity. Qed.
Lemma exec_OInteractive : forall f s body, exec (S f) s (OInteractive body) =
  let '(s1, r) := exec_body f (set_interactive true s) body in (set_interactive false s1, r).
Proof. reflexivity. Qed.
Lemma exec_ORegister : forall f s c, exec (S f) s (ORegister c) = run_res (register s c false) ONone.
Proof. reflexivity. Qed.
Lemma exec_OHook : forall f s h, exec (S f) s (OHook h) = (emit ONone (set_hooks (hooks s ++ [h]) s), Ok tt).
Proof. reflexivity. Qed.

(* ================================================================== *)
(* C09: scope stack restored by every op                               *)
(* ================================================================== *)
Definition xframe (s s' : state) : Prop :=
  scopes s' = scopes s /\ (interactive s' = interactive s \/ interactive s' = false).

Lemma xf_refl : forall s, xframe s s.
Proof. intro s; split; auto. Qed.
Lemma xf_trans : forall s1 s2 s3, xframe s1 s2 -> xframe s2 s3 -> xframe s1 s3.
Proof.
  intros s1 s2 s3 [A1 A2] [B1 B2]. split; [congruence|].
  destruct B2 as [B2|B2]; [|right; exact B2]. destruct A2 as [A2|A2]; [left|right]; congruence.
Qed.
Lemma xf_eq : forall s s', scopes s' = scopes s -> interactive s' = interactive s -> xframe s s'.
Proof. intros; split; auto. Qed.
Lemma xf_ss : forall s s', same_static s s' -> xframe s s'.
Proof. intros s s' (A1&A2&A3&A4&A5&A6&A7). split; auto. Qed.

Lemma bind_split_xf : forall s sc sel a v s' r, bind_split s sc sel a v = (s', r) -> xframe s s'.
Proof.
  intros s sc sel a v s' r H. apply bind_split_shape in H.
  destruct H as [[-> _]|[c [-> _]]]; apply xf_eq; reflexivity.
Qed.
Lemma finalize_xf : forall s s' r, finalize s = (s', r) -> xframe s s'.
Proof.
  intros s s' r H. apply finalize_shape in H.
  destruct H as [[[o ->] _]|[_ [[o [c ->]] _]]]; apply xf_eq; reflexivity.
Qed.
Lemma clear_config_xf : forall s b s' r, clear_config s b = (s', r) -> xframe s s'.
Proof.
  intros s b s' r H. apply clear_config_shape in H.
  destruct H as [x [o [-> _]]]. apply xf_eq; reflexivity.
Qed.
Lemma define_constant_xf : forall s n v s' r, define_constant s n v = (s', r) -> xframe s s'.
Proof.
  intros s n v s' r H. apply define_constant_shape in H.
  destruct H as [[-> _]|[-> _]]; apply xf_eq; reflexivity.
Qed.
Lemma register_xf : forall s c b s' r, register s c b = (s', r) -> xframe s s'.
Proof.
  intros s c b s' r H. apply register_shape in H.
  destruct H as [[-> _]|[-> _]]; apply xf_eq; reflexivity.
Qed.
Lemma run_res_xf : forall s x o s' r, (forall s1 r1, x = (s1, r1) -> xframe s s1) -> run_res x o = (s', r) -> xframe s s'.
Proof.
  intros s x o s' r Hx H. apply run_res_cases in H.
  destruct H as [[s1 [E [-> _]]]|[e [E _]]].
  - eapply xf_trans; [eapply Hx; exact E|apply xf_eq; reflexivity].
  - eapply Hx; exact E.
Qed.

Definition exec_xf (f : nat) : Prop := forall s o s' r, exec f s o = (s', r) -> xframe s s'.

Lemma exec_body_xf : forall f, exec_xf f -> forall body s s' r, exec_body f s body = (s', r) -> xframe s s'.
Proof.
  intros f IH body. induction body as [|x t IHb]; intros s s' r H.
  - rewrite exec_body_nil in H. inversion H; subst. apply xf_refl.
  - rewrite exec_body_cons in H. destruct (exec f s x) as [s1 r1] eqn:E. apply IH in E.
    destruct r1 as [u|e].
    + eapply xf_trans; [exact E|eapply IHb; exact H].
    + inversion H; subst. exact E.
Qed.

Lemma exec_xframe : forall fuel, exec_xf fuel.
Proof.
  induction fuel as [|f IH]; intros s o s' r H.
  - rewrite exec_0 in H. inversion H; subst. apply xf_refl.
  - destruct o.
    + rewrite exec_OBind in H. destruct (resolve s v); [|inversion H; subst; apply xf_refl].
      destruct (parse_binding_key key) as [[scope sel] arg].
      eapply run_res_xf; [|exact H]. intros s1 r1 E. eapply bind_split_xf; exact E.
    + rewrite exec_OBindT in H. destruct (resolve s v); [|inversion H; subst; apply xf_refl].
      eapply run_res_xf; [|exact H]. intros s1 r1 E. eapply bind_split_xf; exact E.
    + rewrite exec_OParse in H. destruct (resolve s v); [|inversion H; subst; apply xf_refl].
      destruct (parse_binding_key key) as [[scope sel] arg].
      destruct (String.eqb arg "");
        (eapply run_res_xf; [|exact H]; intros s1 r1 E; eapply bind_split_xf; exact E).
    + rewrite exec_OQuery in H. cbv zeta in H.
      destruct (if is_selector key then sm_matching (to_key key) (constants s) else []) as [|k [|k2 l]].
      * destruct (parse_binding_key key) as [[scope sel] arg].
        destruct (pbk_validate s scope sel arg) as [[ck a]|e]; [|inversion H; subst; apply xf_refl].
        destruct (cget ck (config s)) as [d|]; [|inversion H; subst; apply xf_refl].
        destruct (sget a d); inversion H; subst; [apply xf_eq; reflexivity|apply xf_refl].
      * destruct (fget k (sm_flat (constants s))); inversion H; subst; [apply xf_eq; reflexivity|apply xf_refl].
      * inversion H; subst; apply xf_refl.
    + rewrite exec_OCall in H. destruct (call f s sel args kwargs) as [s1 r1] eqn:E.
      apply call_frame in E. apply xf_ss in E.
      destruct r1; inversion H; subst; [|exact E].
      eapply xf_trans; [exact E|apply xf_eq; reflexivity].
    + rewrite exec_OCallVia in H. cbv zeta in H.
      destruct (reg_lookup s (last (split_slash target) "")); try (inversion H; subst; apply xf_refl).
      destruct (call_handle f s _ (c_sel c) args kwargs) as [s1 r1] eqn:E.
      apply call_handle_frame in E. apply xf_ss in E.
      destruct r1; inversion H; subst; [|exact E].
      eapply xf_trans; [exact E|apply xf_eq; reflexivity].
    + rewrite exec_OWith in H.
      destruct (enter_scope_value (current_scope s) a) as [new_scope valid]. cbv zeta in H.
      destruct (negb valid || negb (scope_valid new_scope)); [inversion H; subst; apply xf_eq; reflexivity|].
      destruct (exec_body f _ body) as [s2 r2] eqn:E. apply (exec_body_xf f IH) in E.
      inversion H; subst. destruct E as [E1 E2]. simpl in E1, E2. split; simpl.
      * rewrite E1. reflexivity.
      * exact E2.
    + simpl in H. inversion H; subst. apply xf_refl.
    + simpl in H. inversion H; subst. apply xf_eq; reflexivity.
    + rewrite exec_OGetBindings in H. cbv zeta in H.
      destruct (reg_lookup s (last (split_slash target) "")); try (inversion H; subst; apply xf_refl).
      destruct resolve; [|inversion H; subst; apply xf_eq; reflexivity].
      destruct (eval f s _) as [s1 r1] eqn:E. apply eval_frame in E. apply xf_ss in E.
      destruct r1 as [w|e]; [|inversion H; subst; exact E].
      destruct w; inversion H; subst; exact E.
    + rewrite exec_OFinalize in H. eapply run_res_xf; [|exact H]. intros s1 r1 E. eapply finalize_xf; exact E.
    + rewrite exec_OUnlock in H. destruct (exec_body f _ body) as [s2 r2] eqn:E.
      apply (exec_body_xf f IH) in E. inversion H; subst. destruct E as [E1 E2]. simpl in E1, E2.
      split; simpl; assumption.
    + rewrite exec_OClear in H. eapply run_res_xf; [|exact H]. intros s1 r1 E. eapply clear_config_xf; exact E.
    + simpl in H. inversion H; subst. apply xf_eq; reflexivity.
    + rewrite exec_OConstant in H. eapply run_res_xf; [|exact H]. intros s1 r1 E. eapply define_constant_xf; exact E.
    + rewrite exec_OInteractive in H. destruct (exec_body f _ body) as [s2 r2] eqn:E.
      apply (exec_body_xf f IH) in E. inversion H; subst. destruct E as [E1 E2]. simpl in E1, E2.
      split; simpl; [assumption|right; reflexivity].
    + rewrite exec_ORegister in H. eapply run_res_xf; [|exact H]. intros s1 r1 E. eapply register_xf; exact E.
    + rewrite exec_OHook in H. inversion H; subst. apply xf_eq; reflexivity.
    + simpl in H. inversion H; subst. apply xf_eq; reflexivity.
    + simpl in H. inversion H; subst. apply xf_eq; reflexivity.
    + simpl in H. inversion H; subst. apply xf_eq; reflexivity.
Qed.

Theorem exec_scopes_restored : forall fuel s o s' r, exec fuel s o = (s', r) -> scopes s' = scopes s.
Proof. intros fuel s o s' r H. apply exec_xframe in H. apply H. Qed.

Theorem run_top_scopes : forall fuel ops s, scopes (run_top fuel s ops) = scopes s.
Proof.
  intros fuel ops. induction ops as [|o ops IH]; intros s; simpl; [reflexivity|].
  destruct (exec fuel s o) as [s1 r1] eqn:E. apply exec_scopes_restored in E.
  rewrite IH. destruct r1; simpl; assumption.
Qed.
