(* C09 / C11 / C12 / C20 theorems about the Gin machine (Model/Gin.v, Model/GinEngine.v). *)
From Coq Require Import List String ZArith Bool Arith Lia.
From GinV Require Import Lib.Out Lib.PyStr Model.SelectorMap Model.Values Model.Gin Model.GinEngine.
From GinV Require Import Proofs.SelectorMapLemmas Proofs.MachineFrame.
Import ListNotations. Open Scope string_scope. Open Scope list_scope.

(* ================================================================== *)
(* shapes of the primitive state transformers                          *)
(* ================================================================== *)
Lemma set_constants_id : forall s, set_constants (constants s) s = s.
Proof. destruct s; reflexivity. Qed.
Lemma set_operative_id : forall s, set_operative (operative s) s = s.
Proof. destruct s; reflexivity. Qed.
Lemma set_config_id : forall s, set_config (config s) s = s.
Proof. destruct s; reflexivity. Qed.

Lemma run_res_ok : forall x o s', run_res x o = (s', Ok tt) -> exists s1, x = (s1, Ok tt) /\ s' = emit o s1.
Proof.
  intros [s1 [[]|e]] o s' H; simpl in H; inversion H; subst. exists s1. split; reflexivity.
Qed.
Lemma run_res_raise : forall x o s' e, run_res x o = (s', Raise e) -> x = (s', Raise e).
Proof. intros [s1 [[]|e0]] o s' e H; simpl in H; inversion H; subst. reflexivity. Qed.
Lemma run_res_cases : forall x o s' r, run_res x o = (s', r) ->
  (exists s1, x = (s1, Ok tt) /\ s' = emit o s1 /\ r = Ok tt) \/ (exists e, x = (s', Raise e) /\ r = Raise e).
Proof.
  intros [s1 [[]|e0]] o s' r H; simpl in H; inversion H; subst.
  - left. exists s1. repeat split.
  - right. exists e0. split; reflexivity.
Qed.

(* ---- bind_split ---- *)
Lemma bind_split_shape : forall s sc sel a v s' r, bind_split s sc sel a v = (s', r) ->
  (s' = s /\ exists e, r = Raise e) \/ (exists c, s' = set_config c s /\ r = Ok tt).
Proof.
  intros s sc sel a v s' r H. unfold bind_split in H.
  destruct (locked s); [inversion H; subst; left; split; eauto|].
  destruct (pbk_validate s sc sel a) as [[ck a']|e]; inversion H; subst.
  - right. eexists. split; reflexivity.
  - left. split; eauto.
Qed.

(* ---- missing_overrides_hook ---- *)
Definition moh_step := (fun (acc : state * res bool) (t : ckey * string * value) =>
     let '(st, r) := acc in
     match r with
     | Raise e => (st, Raise e)
     | Ok false => (st, Ok false)
     | Ok true =>
         match snd t with
         | VRef sc "gin.constant" _ =>
             let st := oper_update st (scope_str sc, "gin.constant") [] in
             match fget (to_key (scope_str sc)) (sm_flat (constants st)) with
             | Some VReq => (st, Ok false)
             | Some _ => (st, Ok true)
             | None => (st, Raise "KeyError")
             end
         | _ => (st, Ok true)
         end
     end).

Arguments moh_step : simpl never.
Lemma moh_unfold : forall s, missing_overrides_hook s = fold_left moh_step (all_config_values s) (s, Ok true).
Proof. reflexivity. Qed.

Lemma match_gin_constant : forall {A} (sel : string) (a b : A),
  (match sel with "gin.constant" => a | _ => b end) = if String.eqb sel "gin.constant" then a else b.
Proof.
  intros.
  do 13 (destruct sel as [|[[] [] [] [] [] [] [] []] sel]; try reflexivity).
Qed.

Lemma moh_step_shape : forall st r t st' r', moh_step (st, r) t = (st', r') -> exists o, st' = set_operative o st.
Proof.
  intros st r t st' r' H. unfold moh_step in H.
  assert (Hid : exists o, st = set_operative o st) by (exists (operative st); symmetry; apply set_operative_id).
  destruct r as [[|]|e]; try (inversion H; subst; exact Hid).
  destruct (snd t); try (inversion H; subst; exact Hid).
  rewrite (match_gin_constant sel) in H.
  destruct (String.eqb sel "gin.constant"); [|inversion H; subst; exact Hid].
  cbv zeta in H.
  match type of H with (match ?x with _ => _ end) = _ => destruct x as [w|] end.
  - destruct w; inversion H; subst; eexists; reflexivity.
  - inversion H; subst; eexists; reflexivity.
Qed.

Lemma moh_fold_shape : forall l st r st' r',
  fold_left moh_step l (st, r) = (st', r') -> exists o, st' = set_operative o st.
Proof.
  induction l as [|t l IH]; intros st r st' r' H; simpl in H.
  - inversion H; subst. exists (operative st'). symmetry; apply set_operative_id.
  - destruct (moh_step (st, r) t) as [st1 r1] eqn:E.
    apply moh_step_shape in E. destruct E as [o1 ->].
    apply IH in H. destruct H as [o ->]. exists o. reflexivity.
Qed.

Lemma moh_shape : forall s s1 r, missing_overrides_hook s = (s1, r) -> exists o, s1 = set_operative o s.
Proof. intros s s1 r H. rewrite moh_unfold in H. eapply moh_fold_shape; eassumption. Qed.

(* ---- finalize ---- *)
Definition fin_step := (fun (st : state) (pv : pbk * value) =>
   let '((ck, a), v) := pv in
   let d := match cget ck (config st) with Some d => d | None => [] end in
   set_config (cset ck (sset a v d) (config st)) st).

Lemma fin_fold_shape : forall upd st, exists c, fold_left fin_step upd st = set_config c st.
Proof.
  induction upd as [|pv upd IH]; intros st.
  - exists (config st). symmetry; apply set_config_id.
  - change (fold_left fin_step (pv :: upd) st) with (fold_left fin_step upd (fin_step st pv)).
    destruct (IH (fin_step st pv)) as [c Hc]. exists c. rewrite Hc.
    destruct pv as [[ck a] v]. reflexivity.
Qed.

Lemma finalize_unfold : forall s, finalize s =
  if locked s then (s, Raise "RuntimeError") else
  if negb (macros_hook_ok s) then (s, Raise "ValueError") else
  if negb (unknown_refs_hook_ok s) then (s, Raise "ValueError") else
  let '(s1, r) := missing_overrides_hook s in
  match r with
  | Raise e => (s1, Raise e)
  | Ok false => (s1, Raise "ValueError")
  | Ok true =>
      match collect_hooks s1 (hooks s1) [] with
      | Raise e => (s1, Raise e)
      | Ok upd => (set_locked true (fold_left fin_step upd s1), Ok tt)
      end
  end.
Proof. reflexivity. Qed.

Lemma finalize_shape : forall s s' r, finalize s = (s', r) ->
  ((exists o, s' = set_operative o s) /\ exists e, r = Raise e) \/
  (locked s = false /\ (exists o c, s' = set_locked true (set_config c (set_operative o s))) /\ r = Ok tt).
Proof.
  intros s s' r H. rewrite finalize_unfold in H.
  assert (Hid : exists o, s = set_operative o s) by (exists (operative s); symmetry; apply set_operative_id).
  destruct (locked s); [inversion H; subst; left; split; eauto|].
  destruct (negb (macros_hook_ok s)); [inversion H; subst; left; split; eauto|].
  destruct (negb (unknown_refs_hook_ok s)); [inversion H; subst; left; split; eauto|].
  destruct (missing_overrides_hook s) as [s1 r1] eqn:E. apply moh_shape in E. destruct E as [o ->].
  destruct r1 as [[|]|e]; try solve [inversion H; subst; left; split; eauto].
  destruct (collect_hooks _ _ _) as [upd|e]; [|inversion H; subst; left; split; eauto].
  destruct (fin_fold_shape upd (set_operative o s)) as [c Hc]. rewrite Hc in H.
  inversion H; subst. right. split; [reflexivity|]. split; eauto.
Qed.

(* ---- define_constant ---- *)
Lemma define_constant_shape : forall s name v s' r, define_constant s name v = (s', r) ->
  (s' = s /\ exists e, r = Raise e) \/ (s' = set_constants (sm_set (to_key name) v (constants s)) s /\ r = Ok tt).
Proof.
  intros s name v s' r H. unfold define_constant in H.
  destruct (negb (is_selector name)); [inversion H; subst; left; split; eauto|].
  match type of H with (if ?b then _ else _) = _ => destruct b end; inversion H; subst.
  - left; split; eauto.
  - right; split; reflexivity.
Qed.

(* ---- clear_config ---- *)
Definition clr_step := (fun (acc : state * res unit) (kv : key * value) =>
   let '(st, r) := acc in
   match r with
   | Raise e => (st, Raise e)
   | Ok _ => define_constant st (of_key (fst kv)) (snd kv)
   end).

Arguments clr_step : simpl never.
Lemma clr_fold_shape : forall l st r st' r', fold_left clr_step l (st, r) = (st', r') ->
  exists x, st' = set_constants x st.
Proof.
  induction l as [|kv l IH]; intros st r st' r' H; simpl in H.
  - inversion H; subst. exists (constants st'). symmetry; apply set_constants_id.
  - destruct (clr_step (st, r) kv) as [st1 r1] eqn:E.
    assert (E' : exists x, st1 = set_constants x st).
    { unfold clr_step in E. destruct r.
      - apply define_constant_shape in E. destruct E as [[-> _]|[-> _]].
        + exists (constants st). symmetry; apply set_constants_id.
        + eexists; reflexivity.
      - inversion E; subst. exists (constants st1). symmetry; apply set_constants_id. }
    destruct E' as [x1 ->]. apply IH in H. destruct H as [x ->]. exists x. reflexivity.
Qed.

Definition cleared (s : state) : state := set_singletons [] (set_config [] (set_locked false s)).

Lemma clear_config_orig_unfold : forall s b, clear_config_orig s b =
  if b then (set_operative [] (set_constants req_constants (cleared s)), Ok tt)
  else
    let '(s1, r) := fold_left clr_step (sm_flat (constants s)) (set_constants sm_empty (cleared s), Ok tt) in
    match r with
    | Raise e => (s1, Raise e)
    | Ok _ => (set_operative [] s1, Ok tt)
    end.
Proof. reflexivity. Qed.

Lemma clear_config_orig_shape : forall s b s' r, clear_config_orig s b = (s', r) ->
  exists x o, s' = set_operative o (set_constants x (cleared s)) /\
    (r = Ok tt -> o = [] /\ (b = true -> x = req_constants)) /\ (r = Ok tt \/ exists e, r = Raise e).
Proof.
  intros s b s' r H. rewrite clear_config_orig_unfold in H. destruct b.
  - inversion H; subst. exists req_constants, []. split; [reflexivity|]. split; auto.
  - destruct (fold_left clr_step _ _) as [s1 r1] eqn:E. apply clr_fold_shape in E. destruct E as [x ->].
    destruct r1 as [[]|e]; inversion H; subst.
    + exists x, []. split; [reflexivity|]. split; [|auto]. intros _. split; [reflexivity|discriminate].
    + exists x, (operative s). split; [reflexivity|]. split; [discriminate|eauto].
Qed.

(* the repaired clear_config: saved constants are re-inserted directly *)
Definition rebuild (l : flat value) : smap value :=
  fold_left (fun m kv => sm_set (fst kv) (snd kv) m) l sm_empty.

Lemma clear_config_unfold : forall s b, clear_config s b =
  (set_operative [] (set_constants (if b then req_constants else rebuild (sm_flat (constants s))) (cleared s)), Ok tt).
Proof. intros s b. destruct b; reflexivity. Qed.

Lemma clear_config_shape : forall s b s' r, clear_config s b = (s', r) ->
  exists x o, s' = set_operative o (set_constants x (cleared s)) /\
    (r = Ok tt -> o = [] /\ (b = true -> x = req_constants)) /\ (r = Ok tt \/ exists e, r = Raise e).
Proof.
  intros s b s' r H. rewrite clear_config_unfold in H. inversion H; subst.
  eexists. exists []. split; [reflexivity|]. split; [|auto]. intros _. split; [reflexivity|].
  intros ->. reflexivity.
Qed.

(* ---- register ---- *)
Lemma register_shape : forall s c b s' r, register s c b = (s', r) ->
  (s' = s /\ exists e, r = Raise e) \/
  (s' = set_reg (sm_set (to_key (c_sel c)) c (reg s)) s /\ r = Ok tt /\ locked s = false /\
   (negb (interactive s) && fmem (to_key (c_sel c)) (sm_flat (reg s)) && negb b = false)).
Proof.
  intros s c b s' r H. unfold register in H.
  destruct (locked s); [inversion H; subst; left; split; eauto|].
  repeat match type of H with
  | (if ?b then _ else _) = _ => destruct b eqn:?; [inversion H; subst; left; split; eauto|]
  end.
  inversion H; subst. right. repeat split; assumption.
Qed.

(* ================================================================== *)
(* exec: unfolding                                                     *)
(* ================================================================== *)
Definition exec_body (f : nat) :=
  fix go (s : state) (body : list op) : state * res unit :=
    match body with
    | [] => (s, Ok tt)
    | x :: t => let '(s1, r) := exec f s x in
                match r with Raise e => (s1, Raise e) | Ok _ => go s1 t end
    end.

Lemma exec_body_nil : forall f s, exec_body f s [] = (s, Ok tt).
Proof. reflexivity. Qed.
Lemma exec_body_cons : forall f s x t, exec_body f s (x :: t) =
  let '(s1, r) := exec f s x in match r with Raise e => (s1, Raise e) | Ok _ => exec_body f s1 t end.
Proof. reflexivity. Qed.

Lemma exec_0 : forall s o, exec 0 s o = (s, Raise "RecursionError").
Proof. reflexivity. Qed.

Lemma exec_OBind : forall f s key v, exec (S f) s (OBind key v) =
  match resolve s v with
  | Raise e => (s, Raise e)
  | Ok v' => let '(scope, sel, arg) := parse_binding_key key in
             run_res (bind_split s scope sel arg v') ONone
  end.
Proof. reflexivity. Qed.
Lemma exec_OParse : forall f s key v, exec (S f) s (OParse key v) =
  match resolve s v with
  | Raise e => (s, Raise e)
  | Ok v' => let '(scope, sel, arg) := parse_binding_key key in
             if String.eqb arg "" then
               run_res (bind_split s (if String.eqb scope "" then sel else scope ++ "/" ++ sel)
                                   "gin.macro" "value" v') ONone
             else run_res (bind_split s scope sel arg v') ONone
  end.
Proof. reflexivity. Qed.
Lemma exec_OBindT : forall f s scope sel arg v, exec (S f) s (OBindT scope sel arg v) =
  match resolve s v with
  | Raise e => (s, Raise e)
  | Ok v' => run_res (bind_split s scope sel arg v') ONone
  end.
Proof. reflexivity. Qed.
Lemma exec_OQuery : forall f s key, exec (S f) s (OQuery key) =
  let cm := if is_selector key then sm_matching (to_key key) (constants s) else [] in
  match cm with
  | [k] => match fget k (sm_flat (constants s)) with
           | Some v => (emit (value_out v) s, Ok tt)
           | None => (s, Raise "ModelError")
           end
  | _ :: _ :: _ => (s, Raise "ValueError")
  | [] =>
      let '(scope, sel, arg) := parse_binding_key key in
      match pbk_validate s scope sel arg with
      | Raise e => (s, Raise e)
      | Ok (ck, a) =>
          match cget ck (config s) with
          | None => (s, Raise "ValueError")
          | Some d => match sget a d with
                      | None => (s, Raise "ValueError")
                      | Some v => (emit (value_out v) s, Ok tt)
                      end
          end
      end
  end.
Proof. reflexivity. Qed.
Lemma exec_OCall : forall f s sel args kwargs, exec (S f) s (OCall sel args kwargs) =
  let '(s1, r) := call f s sel args kwargs in
  match r with
  | Ok v => (emit (value_out v) s1, Ok tt)
  | Raise e => (s1, Raise e)
  end.
Proof. reflexivity. Qed.
Lemma exec_OCallVia : forall f s target args kwargs, exec (S f) s (OCallVia target args kwargs) =
  let parts := split_slash target in
  match reg_lookup s (last parts "") with
  | LAmbiguous => (s, Raise "KeyError")
  | LNone => (s, Raise "ValueError")
  | LFound c =>
      let sc := match removelast parts with [] => current_scope s | sc => sc end in
      let '(s1, r) := call_handle f s sc (c_sel c) args kwargs in
      match r with
      | Ok v => (emit (value_out v) s1, Ok tt)
      | Raise e => (s1, Raise e)
      end
  end.
Proof. reflexivity. Qed.
Lemma exec_OWith : forall f s a body, exec (S f) s (OWith a body) =
  let '(new_scope, valid) := enter_scope_value (current_scope s) a in
  let s1 := set_scopes (new_scope :: scopes s) s in
  if negb valid || negb (scope_valid new_scope)
  then (set_scopes (scopes s) s1, Raise "ValueError")
  else
    let s1 := emit (OL (map OS new_scope)) s1 in
    let '(s2, r) := exec_body f s1 body in
    (set_scopes (tl (scopes s2)) s2, r).
Proof. reflexivity. Qed.
Lemma exec_OGetBindings : forall f s target resolve_refs inherit,
  exec (S f) s (OGetBindings target resolve_refs inherit) =
  let parts := split_slash target in
  let sc := removelast parts in
  let sel := last parts "" in
  match reg_lookup s sel with
  | LAmbiguous => (s, Raise "KeyError")
  | LNone => (s, Raise "ValueError")
  | LFound c =>
      let b := get_bindings_for (config s)
                 (match (match sc with [] => current_scope s | _ => sc end) with
                  | [] => current_scope s | _ => (match sc with [] => current_scope s | _ => sc end) end)
                 (c_sel c) inherit in
      if resolve_refs then
        let '(s1, r) := eval f s (VDict (map (fun kv => (VStr (fst kv), snd kv)) b)) in
        match r with
        | Ok (VDict l) => (emit (OL (map (fun kv => OL [value_out (fst kv); value_out (snd kv)]) l)) s1, Ok tt)
        | Ok _ => (s1, Raise "ModelError")
        | Raise e => (s1, Raise e)
        end
      else (emit (pdict_out b) s, Ok tt)
  end.
Proof. reflexivity. Qed.
Lemma exec_OFinalize : forall f s, exec (S f) s OFinalize = run_res (finalize s) ONone.
Proof. reflexivity. Qed.
Lemma exec_OUnlock : forall f s body, exec (S f) s (OUnlock body) =
  let '(s1, r) := exec_body f (set_locked false s) body in (set_locked (locked s) s1, r).
Proof. reflexivity. Qed.
Lemma exec_OClear : forall f s b, exec (S f) s (OClear b) = run_res (clear_config s b) ONone.
Proof. reflexivity. Qed.
Lemma exec_OConstant : forall f s name v, exec (S f) s (OConstant name v) = run_res (define_constant s name v) ONone.
Proof. reflexivity. Qed.
Lemma exec_OInteractive : forall f s body, exec (S f) s (OInteractive body) =
  let '(s1, r) := exec_body f (set_interactive true s) body in (set_interactive false s1, r).
Proof. reflexivity. Qed.
Lemma exec_ORegister : forall f s c, exec (S f) s (ORegister c) = run_res (register s c false) ONone.
Proof. reflexivity. Qed.
Lemma exec_OHook : forall f s h, exec (S f) s (OHook h) = (emit ONone (set_hooks (hooks s ++ [h]) s), Ok tt).
Proof. reflexivity. Qed.

(* ================================================================== *)
(* C09: scope stack restored by every op                               *)
(* ================================================================== *)
Definition xframe (s s' : state) : Prop :=
  scopes s' = scopes s /\ (interactive s' = interactive s \/ interactive s' = false).

Lemma xf_refl : forall s, xframe s s.
Proof. intro s; split; auto. Qed.
Lemma xf_trans : forall s1 s2 s3, xframe s1 s2 -> xframe s2 s3 -> xframe s1 s3.
Proof.
  intros s1 s2 s3 [A1 A2] [B1 B2]. split; [congruence|].
  destruct B2 as [B2|B2]; [|right; exact B2]. destruct A2 as [A2|A2]; [left|right]; congruence.
Qed.
Lemma xf_eq : forall s s', scopes s' = scopes s -> interactive s' = interactive s -> xframe s s'.
Proof. intros; split; auto. Qed.
Lemma xf_ss : forall s s', same_static s s' -> xframe s s'.
Proof. intros s s' (A1&A2&A3&A4&A5&A6&A7). split; auto. Qed.

Lemma bind_split_xf : forall s sc sel a v s' r, bind_split s sc sel a v = (s', r) -> xframe s s'.
Proof.
  intros s sc sel a v s' r H. apply bind_split_shape in H.
  destruct H as [[-> _]|[c [-> _]]]; apply xf_eq; reflexivity.
Qed.
Lemma finalize_xf : forall s s' r, finalize s = (s', r) -> xframe s s'.
Proof.
  intros s s' r H. apply finalize_shape in H.
  destruct H as [[[o ->] _]|[_ [[o [c ->]] _]]]; apply xf_eq; reflexivity.
Qed.
Lemma clear_config_xf : forall s b s' r, clear_config s b = (s', r) -> xframe s s'.
Proof.
  intros s b s' r H. apply clear_config_shape in H.
  destruct H as [x [o [-> _]]]. apply xf_eq; reflexivity.
Qed.
Lemma define_constant_xf : forall s n v s' r, define_constant s n v = (s', r) -> xframe s s'.
Proof.
  intros s n v s' r H. apply define_constant_shape in H.
  destruct H as [[-> _]|[-> _]]; apply xf_eq; reflexivity.
Qed.
Lemma register_xf : forall s c b s' r, register s c b = (s', r) -> xframe s s'.
Proof.
  intros s c b s' r H. apply register_shape in H.
  destruct H as [[-> _]|[-> _]]; apply xf_eq; reflexivity.
Qed.
Lemma run_res_xf : forall s x o s' r, (forall s1 r1, x = (s1, r1) -> xframe s s1) -> run_res x o = (s', r) -> xframe s s'.
Proof.
  intros s x o s' r Hx H. apply run_res_cases in H.
  destruct H as [[s1 [E [-> _]]]|[e [E _]]].
  - eapply xf_trans; [eapply Hx; exact E|apply xf_eq; reflexivity].
  - eapply Hx; exact E.
Qed.

Definition exec_xf (f : nat) : Prop := forall s o s' r, exec f s o = (s', r) -> xframe s s'.

Lemma exec_body_xf : forall f, exec_xf f -> forall body s s' r, exec_body f s body = (s', r) -> xframe s s'.
Proof.
  intros f IH body. induction body as [|x t IHb]; intros s s' r H.
  - rewrite exec_body_nil in H. inversion H; subst. apply xf_refl.
  - rewrite exec_body_cons in H. destruct (exec f s x) as [s1 r1] eqn:E. apply IH in E.
    destruct r1 as [u|e].
    + eapply xf_trans; [exact E|eapply IHb; exact H].
    + inversion H; subst. exact E.
Qed.

Lemma exec_xframe : forall fuel, exec_xf fuel.
Proof.
  induction fuel as [|f IH]; intros s o s' r H.
  - rewrite exec_0 in H. inversion H; subst. apply xf_refl.
  - destruct o.
    + rewrite exec_OBind in H. destruct (resolve s v); [|inversion H; subst; apply xf_refl].
      destruct (parse_binding_key key) as [[scope sel] arg].
      eapply run_res_xf; [|exact H]. intros s1 r1 E. eapply bind_split_xf; exact E.
    + rewrite exec_OBindT in H. destruct (resolve s v); [|inversion H; subst; apply xf_refl].
      eapply run_res_xf; [|exact H]. intros s1 r1 E. eapply bind_split_xf; exact E.
    + rewrite exec_OParse in H. destruct (resolve s v); [|inversion H; subst; apply xf_refl].
      destruct (parse_binding_key key) as [[scope sel] arg].
      destruct (String.eqb arg "");
        (eapply run_res_xf; [|exact H]; intros s1 r1 E; eapply bind_split_xf; exact E).
    + rewrite exec_OQuery in H. cbv zeta in H.
      destruct (if is_selector key then sm_matching (to_key key) (constants s) else []) as [|k [|k2 l]].
      * destruct (parse_binding_key key) as [[scope sel] arg].
        destruct (pbk_validate s scope sel arg) as [[ck a]|e]; [|inversion H; subst; apply xf_refl].
        destruct (cget ck (config s)) as [d|]; [|inversion H; subst; apply xf_refl].
        destruct (sget a d); inversion H; subst; [apply xf_eq; reflexivity|apply xf_refl].
      * destruct (fget k (sm_flat (constants s))); inversion H; subst; [apply xf_eq; reflexivity|apply xf_refl].
      * inversion H; subst; apply xf_refl.
    + rewrite exec_OCall in H. destruct (call f s sel args kwargs) as [s1 r1] eqn:E.
      apply call_frame in E. apply xf_ss in E.
      destruct r1; inversion H; subst; [|exact E].
      eapply xf_trans; [exact E|apply xf_eq; reflexivity].
    + rewrite exec_OCallVia in H. cbv zeta in H.
      destruct (reg_lookup s (last (split_slash target) "")); try (inversion H; subst; apply xf_refl).
      destruct (call_handle f s _ (c_sel c) args kwargs) as [s1 r1] eqn:E.
      apply call_handle_frame in E. apply xf_ss in E.
      destruct r1; inversion H; subst; [|exact E].
      eapply xf_trans; [exact E|apply xf_eq; reflexivity].
    + rewrite exec_OWith in H.
      destruct (enter_scope_value (current_scope s) a) as [new_scope valid]. cbv zeta in H.
      destruct (negb valid || negb (scope_valid new_scope)); [inversion H; subst; apply xf_eq; reflexivity|].
      destruct (exec_body f _ body) as [s2 r2] eqn:E. apply (exec_body_xf f IH) in E.
      inversion H; subst. destruct E as [E1 E2]. simpl in E1, E2. split; simpl.
      * rewrite E1. reflexivity.
      * exact E2.
    + simpl in H. inversion H; subst. apply xf_refl.
    + simpl in H. inversion H; subst. apply xf_eq; reflexivity.
    + rewrite exec_OGetBindings in H. cbv zeta in H.
      destruct (reg_lookup s (last (split_slash target) "")); try (inversion H; subst; apply xf_refl).
      destruct resolve; [|inversion H; subst; apply xf_eq; reflexivity].
      destruct (eval f s _) as [s1 r1] eqn:E. apply eval_frame in E. apply xf_ss in E.
      destruct r1 as [w|e]; [|inversion H; subst; exact E].
      destruct w; inversion H; subst; exact E.
    + rewrite exec_OFinalize in H. eapply run_res_xf; [|exact H]. intros s1 r1 E. eapply finalize_xf; exact E.
    + rewrite exec_OUnlock in H. destruct (exec_body f _ body) as [s2 r2] eqn:E.
      apply (exec_body_xf f IH) in E. inversion H; subst. destruct E as [E1 E2]. simpl in E1, E2.
      split; simpl; assumption.
    + rewrite exec_OClear in H. eapply run_res_xf; [|exact H]. intros s1 r1 E. eapply clear_config_xf; exact E.
    + simpl in H. inversion H; subst. apply xf_eq; reflexivity.
    + rewrite exec_OConstant in H. eapply run_res_xf; [|exact H]. intros s1 r1 E. eapply define_constant_xf; exact E.
    + rewrite exec_OInteractive in H. destruct (exec_body f _ body) as [s2 r2] eqn:E.
      apply (exec_body_xf f IH) in E. inversion H; subst. destruct E as [E1 E2]. simpl in E1, E2.
      split; simpl; [assumption|right; reflexivity].
    + rewrite exec_ORegister in H. eapply run_res_xf; [|exact H]. intros s1 r1 E. eapply register_xf; exact E.
    + rewrite exec_OHook in H. inversion H; subst. apply xf_eq; reflexivity.
    + simpl in H. inversion H; subst. apply xf_eq; reflexivity.
    + simpl in H. inversion H; subst. apply xf_eq; reflexivity.
    + simpl in H. inversion H; subst. apply xf_eq; reflexivity.
Qed.

Theorem exec_scopes_restored : forall fuel s o s' r, exec fuel s o = (s', r) -> scopes s' = scopes s.
Proof. intros fuel s o s' r H. apply exec_xframe in H. apply H. Qed.

Theorem run_top_scopes : forall fuel ops s, scopes (run_top fuel s ops) = scopes s.
Proof.
  intros fuel ops. induction ops as [|o ops IH]; intros s; simpl; [reflexivity|].
  destruct (exec fuel s o) as [s1 r1] eqn:E. apply exec_scopes_restored in E.
  rewrite IH. destruct r1; simpl; assumption.
Qed.

(* ---- OWith ---- *)
Theorem with_body_scope : forall f s a body new_scope,
  enter_scope_value (current_scope s) a = (new_scope, true) -> scope_valid new_scope = true ->
  exists s1, current_scope s1 = new_scope /\ scopes s1 = new_scope :: scopes s /\
    exec (S f) s (OWith a body) =
      (let '(s2, r) := (fix go (s : state) (body : list op) : state * res unit :=
                           match body with [] => (s, Ok tt) | x :: t => let '(s1, r) := exec f s x in
                              match r with Raise e => (s1, Raise e) | Ok _ => go s1 t end end) s1 body in
       (set_scopes (tl (scopes s2)) s2, r)).
Proof.
  intros f s a body new_scope He Hv.
  exists (emit (OL (map OS new_scope)) (set_scopes (new_scope :: scopes s) s)).
  split; [reflexivity|]. split; [reflexivity|].
  rewrite exec_OWith, He. cbv zeta. rewrite Hv. simpl negb. simpl orb. cbv iota. reflexivity.
Qed.

(* the same, phrased with [exec_body] and the explicit entry state *)
Theorem with_body_scope_exec_body : forall f s a body new_scope,
  enter_scope_value (current_scope s) a = (new_scope, true) -> scope_valid new_scope = true ->
  exec (S f) s (OWith a body) =
    (let '(s2, r) := exec_body f (emit (OL (map OS new_scope)) (set_scopes (new_scope :: scopes s) s)) body in
     (set_scopes (tl (scopes s2)) s2, r)).
Proof.
  intros f s a body new_scope He Hv.
  rewrite exec_OWith, He. cbv zeta. rewrite Hv. reflexivity.
Qed.

Theorem with_invalid_raises : forall f s a body new_scope valid,
  enter_scope_value (current_scope s) a = (new_scope, valid) -> (valid = false \/ scope_valid new_scope = false) ->
  exists s', exec (S f) s (OWith a body) = (s', Raise "ValueError") /\ scopes s' = scopes s /\ config s' = config s /\ obs s' = obs s.
Proof.
  intros f s a body new_scope valid He Hv.
  exists (set_scopes (scopes s) (set_scopes (new_scope :: scopes s) s)).
  split; [|repeat split].
  rewrite exec_OWith, He. cbv zeta.
  assert (E : negb valid || negb (scope_valid new_scope) = true).
  { destruct Hv as [-> | ->]; [reflexivity|apply orb_true_r]. }
  rewrite E. reflexivity.
Qed.

Theorem enter_scope_compose : forall cur,
  (forall l, enter_scope_value cur (SList l) = (l, true)) /\
  (forall str, str <> "" -> enter_scope_value cur (SStr str) = (cur ++ split_slash str, true)) /\
  enter_scope_value cur (SStr "") = ([], true) /\ enter_scope_value cur SNone = ([], true).
Proof.
  intro cur. split; [reflexivity|]. split; [|split; reflexivity].
  intros str Hne. unfold enter_scope_value.
  destruct (String.eqb_spec str ""); [contradiction|reflexivity].
Qed.

(* ================================================================== *)
(* C11: only validated keys reach the store                            *)
(* ================================================================== *)
Theorem bind_split_reject_frame : forall s sc sel a v s' e, bind_split s sc sel a v = (s', Raise e) -> s' = s.
Proof.
  intros s sc sel a v s' e H. apply bind_split_shape in H.
  destruct H as [[-> _]|[c [_ H]]]; [reflexivity|discriminate].
Qed.

Definition accept_cond (sel a : string) (c : cfgable) : Prop :=
  (c_method c = true -> contains_char dot sel = true) /\
  might_have_parameter (c_sig c) a = true /\
  (c_allow c = [] \/ str_in a (c_allow c) = true) /\ str_in a (c_deny c) = false.

Lemma allow_test : forall a l,
  negb (match l with [] => true | _ => false end) && negb (str_in a l) = false <-> (l = [] \/ str_in a l = true).
Proof.
  intros a l. destruct l as [|x l].
  - simpl. split; auto.
  - simpl negb at 1. rewrite andb_true_l. split.
    + intros H. right. apply negb_false_iff. exact H.
    + intros [H|H]; [discriminate|]. rewrite H. reflexivity.
Qed.

Lemma pbk_validate_ok_iff : forall s sc sel a p,
  pbk_validate s sc sel a = Ok p <->
  exists c, reg_lookup s sel = LFound c /\ accept_cond sel a c /\ p = ((sc, c_sel c), a).
Proof.
  intros s sc sel a p. unfold pbk_validate, accept_cond.
  destruct (reg_lookup s sel) as [| |c].
  - split; [discriminate|intros [c [H _]]; discriminate].
  - split; [discriminate|intros [c [H _]]; discriminate].
  - destruct (c_method c && negb (contains_char dot sel)) eqn:E1.
    { split; [discriminate|]. intros [c' [Hc [[H1 _] _]]]. inversion Hc; subst c'.
      apply andb_true_iff in E1. destruct E1 as [E1 E2]. rewrite (H1 E1) in E2. discriminate. }
    destruct (negb (might_have_parameter (c_sig c) a)) eqn:E2.
    { split; [discriminate|]. intros [c' [Hc [[_ [H2 _]] _]]]. inversion Hc; subst c'.
      rewrite H2 in E2. discriminate. }
    destruct (negb (match c_allow c with [] => true | _ => false end) && negb (str_in a (c_allow c))) eqn:E3.
    { split; [discriminate|]. intros [c' [Hc [[_ [_ [H3 _]]] _]]]. inversion Hc; subst c'.
      apply allow_test in H3. rewrite H3 in E3. discriminate. }
    destruct (str_in a (c_deny c)) eqn:E4.
    { split; [discriminate|]. intros [c' [Hc [[_ [_ [_ H4]]] _]]]. inversion Hc; subst c'. congruence. }
    split.
    + intros H. inversion H; subst. exists c. split; [reflexivity|]. split; [|reflexivity].
      split; [|split; [|split]].
      * intros Hm. rewrite Hm in E1. simpl in E1. apply negb_false_iff in E1. exact E1.
      * apply negb_false_iff in E2. exact E2.
      * apply allow_test. exact E3.
      * exact E4.
    + intros [c' [Hc [_ ->]]]. inversion Hc; subst c'. reflexivity.
Qed.

Theorem bind_split_accept_iff : forall s sc sel a v,
  (exists s', bind_split s sc sel a v = (s', Ok tt)) <->
  (locked s = false /\ exists c, reg_lookup s sel = LFound c /\
     (c_method c = true -> contains_char dot sel = true) /\
     might_have_parameter (c_sig c) a = true /\
     (c_allow c = [] \/ str_in a (c_allow c) = true) /\ str_in a (c_deny c) = false).
Proof.
  intros s sc sel a v. unfold bind_split. split.
  - intros [s' H]. destruct (locked s); [discriminate|]. split; [reflexivity|].
    destruct (pbk_validate s sc sel a) as [p|e] eqn:E; [|discriminate].
    apply pbk_validate_ok_iff in E. destruct E as [c [Hc [Ha _]]]. exists c. split; assumption.
  - intros [Hl [c [Hc Ha]]]. rewrite Hl.
    assert (E : pbk_validate s sc sel a = Ok ((sc, c_sel c), a)).
    { apply pbk_validate_ok_iff. exists c. repeat split; try assumption; apply Ha. }
    rewrite E. eexists; reflexivity.
Qed.

Theorem bind_split_effect : forall s sc sel a v s', bind_split s sc sel a v = (s', Ok tt) ->
  exists c, reg_lookup s sel = LFound c /\
    config s' = cset (sc, c_sel c) (sset a v (match cget (sc, c_sel c) (config s) with Some d => d | None => [] end)) (config s) /\
    reg s' = reg s /\ locked s' = locked s /\ operative s' = operative s /\ scopes s' = scopes s.
Proof.
  intros s sc sel a v s' H. unfold bind_split in H.
  destruct (locked s) eqn:L; [discriminate|].
  destruct (pbk_validate s sc sel a) as [p|e] eqn:E; [|discriminate].
  apply pbk_validate_ok_iff in E. destruct E as [c [Hc [Ha ->]]].
  inversion H; subst. exists c. split; [exact Hc|]. repeat split; simpl; auto.
Qed.

Theorem exec_bind_reject_frame : forall f s o s' e,
  (exists k v, o = OBind k v) \/ (exists a b c v, o = OBindT a b c v) \/ (exists k v, o = OParse k v) ->
  exec f s o = (s', Raise e) -> s' = s.
Proof.
  intros f s o s' e Ho H. destruct f as [|f].
  - rewrite exec_0 in H. inversion H; reflexivity.
  - destruct Ho as [[k [v ->]]|[[a [b [c [v ->]]]]|[k [v ->]]]].
    + rewrite exec_OBind in H. destruct (resolve s v); [|inversion H; reflexivity].
      destruct (parse_binding_key k) as [[scope sel] arg].
      apply run_res_raise in H. eapply bind_split_reject_frame; exact H.
    + rewrite exec_OBindT in H. destruct (resolve s v); [|inversion H; reflexivity].
      apply run_res_raise in H. eapply bind_split_reject_frame; exact H.
    + rewrite exec_OParse in H. destruct (resolve s v); [|inversion H; reflexivity].
      destruct (parse_binding_key k) as [[scope sel] arg].
      destruct (String.eqb arg ""); apply run_res_raise in H; eapply bind_split_reject_frame; exact H.
Qed.

(* ================================================================== *)
(* C12: lock automaton                                                 *)
(* ================================================================== *)
Lemma bind_split_locked : forall s sc sel a v, locked s = true -> bind_split s sc sel a v = (s, Raise "RuntimeError").
Proof. intros s sc sel a v L. unfold bind_split. rewrite L. reflexivity. Qed.

Theorem locked_bind_frame : forall f s o, locked s = true ->
  (exists k v, o = OBind k v) \/ (exists a b c v, o = OBindT a b c v) \/ (exists k v, o = OParse k v) \/ (exists c, o = ORegister c) \/ o = OFinalize ->
  exists e, exec (S f) s o = (s, Raise e).
Proof.
  intros f s o L Ho.
  destruct Ho as [[k [v ->]]|[[a [b [c [v ->]]]]|[[k [v ->]]|[[c ->]| ->]]]].
  - rewrite exec_OBind. destruct (resolve s v); [|eexists; reflexivity].
    destruct (parse_binding_key k) as [[scope sel] arg]. rewrite bind_split_locked by exact L.
    eexists; reflexivity.
  - rewrite exec_OBindT. destruct (resolve s v); [|eexists; reflexivity].
    rewrite bind_split_locked by exact L. eexists; reflexivity.
  - rewrite exec_OParse. destruct (resolve s v); [|eexists; reflexivity].
    destruct (parse_binding_key k) as [[scope sel] arg].
    destruct (String.eqb arg ""); rewrite bind_split_locked by exact L; eexists; reflexivity.
  - rewrite exec_ORegister. unfold register. rewrite L. eexists; reflexivity.
  - rewrite exec_OFinalize. unfold finalize. rewrite L. eexists; reflexivity.
Qed.

Theorem unlock_restores_lock_strong : forall fuel s body s' r, exec fuel s (OUnlock body) = (s', r) -> locked s' = locked s.
Proof.
  intros fuel s body s' r H. destruct fuel as [|f].
  - rewrite exec_0 in H. inversion H; reflexivity.
  - rewrite exec_OUnlock in H. destruct (exec_body f (set_locked false s) body) as [s1 r1].
    inversion H; subst. reflexivity.
Qed.

Theorem unlock_restores_lock : forall fuel s body s' r, exec fuel s (OUnlock body) = (s', r) -> locked s' = locked s \/ (fuel = 0).
Proof. intros. left. eapply unlock_restores_lock_strong; eassumption. Qed.

Theorem finalize_ok_locks : forall s s', finalize s = (s', Ok tt) -> locked s' = true /\ locked s = false.
Proof.
  intros s s' H. apply finalize_shape in H.
  destruct H as [[_ [e He]]|[L [[o [c ->]] _]]]; [discriminate|]. split; [reflexivity|exact L].
Qed.

Theorem finalize_reject_atomic : forall s s' e, finalize s = (s', Raise e) ->
  config s' = config s /\ locked s' = locked s /\ reg s' = reg s /\ scopes s' = scopes s /\ hooks s' = hooks s.
Proof.
  intros s s' e H. apply finalize_shape in H.
  destruct H as [[[o ->] _]|[_ [_ H]]]; [|discriminate]. repeat split.
Qed.

Theorem finalize_twice : forall s, locked s = true -> finalize s = (s, Raise "RuntimeError").
Proof. intros s L. unfold finalize. rewrite L. reflexivity. Qed.

(* ---- hooks ---- *)
Definition hk_go (s : state) :=
  fix go (kvs : list (string * value)) (acc : list (pbk * value)) : res (list (pbk * value)) :=
    match kvs with
    | [] => Ok acc
    | (k, v) :: t =>
        let '(scope, sel, arg) := parse_binding_key k in
        match pbk_validate s scope sel arg with
        | Raise e => Raise e
        | Ok p => if amem pbk_eqb p acc then Raise "ValueError" else go t (acc ++ [(p, v)])
        end
    end.
Definition key_pbk (s : state) (k : string) : res pbk :=
  let '(a, b, c) := parse_binding_key k in pbk_validate s a b c.

Lemma hk_go_cons : forall s k v t acc, hk_go s ((k, v) :: t) acc =
  match key_pbk s k with
  | Raise e => Raise e
  | Ok p => if amem pbk_eqb p acc then Raise "ValueError" else hk_go s t (acc ++ [(p, v)])
  end.
Proof. intros. unfold key_pbk. simpl. destruct (parse_binding_key k) as [[a b] c]. reflexivity. Qed.

Lemma collect_hooks_cons : forall s kvs r acc, collect_hooks s (HReturn kvs :: r) acc =
  match hk_go s kvs acc with Raise e => Raise e | Ok acc' => collect_hooks s r acc' end.
Proof. reflexivity. Qed.

Lemma pbk_eqb_refl : forall p, pbk_eqb p p = true.
Proof.
  intros [[a b] c]. unfold pbk_eqb, ckey_eqb. simpl. rewrite !String.eqb_refl. reflexivity.
Qed.

Lemma amem_app_l : forall (p : pbk) (l1 l2 : list (pbk * value)),
  amem pbk_eqb p l1 = true -> amem pbk_eqb p (l1 ++ l2) = true.
Proof.
  intros p l1 l2. unfold amem. induction l1 as [|[j w] l1 IH]; simpl; [discriminate|].
  destruct (pbk_eqb p j); auto.
Qed.
Lemma amem_app_last : forall (p : pbk) v (l1 : list (pbk * value)), amem pbk_eqb p (l1 ++ [(p, v)]) = true.
Proof.
  intros p v l1. unfold amem. induction l1 as [|[j w] l1 IH]; simpl.
  - rewrite pbk_eqb_refl. reflexivity.
  - destruct (pbk_eqb p j); auto.
Qed.

Lemma hk_go_spec : forall s kvs acc acc', hk_go s kvs acc = Ok acc' ->
  (forall p, amem pbk_eqb p acc = true -> amem pbk_eqb p acc' = true) /\
  (forall k v p, In (k, v) kvs -> key_pbk s k = Ok p -> amem pbk_eqb p acc = false /\ amem pbk_eqb p acc' = true).
Proof.
  intros s kvs. induction kvs as [|[k v] t IH]; intros acc acc' H.
  - simpl in H. inversion H; subst. split; [auto|]. intros k v p [].
  - rewrite hk_go_cons in H. destruct (key_pbk s k) as [p0|e] eqn:Ek; [|discriminate].
    destruct (amem pbk_eqb p0 acc) eqn:Em; [discriminate|].
    destruct (IH _ _ H) as [M1 M2]. split.
    + intros p Hp. apply M1. apply amem_app_l. exact Hp.
    + intros k' v' p [Hin|Hin] Hk.
      * inversion Hin; subst k' v'. rewrite Ek in Hk. inversion Hk; subst p0.
        split; [exact Em|]. apply M1. apply amem_app_last.
      * destruct (M2 _ _ _ Hin Hk) as [N1 N2]. split; [|exact N2].
        destruct (amem pbk_eqb p acc) eqn:Ea; [|reflexivity].
        rewrite (amem_app_l p acc [(p0, v)] Ea) in N1. discriminate.
Qed.

Lemma collect_hooks_spec : forall s hs acc acc', collect_hooks s hs acc = Ok acc' ->
  (forall p, amem pbk_eqb p acc = true -> amem pbk_eqb p acc' = true) /\
  (forall kvs k v p, In (HReturn kvs) hs -> In (k, v) kvs -> key_pbk s k = Ok p ->
     amem pbk_eqb p acc = false /\ amem pbk_eqb p acc' = true).
Proof.
  intros s hs. induction hs as [|h r IH]; intros acc acc' H.
  - simpl in H. inversion H; subst. split; [auto|]. intros kvs k v p [].
  - destruct h as [kvs0|e]; [|simpl in H; discriminate].
    rewrite collect_hooks_cons in H. destruct (hk_go s kvs0 acc) as [acc1|e] eqn:Eg; [|discriminate].
    destruct (hk_go_spec _ _ _ _ Eg) as [G1 G2]. destruct (IH _ _ H) as [M1 M2]. split.
    + intros p Hp. apply M1, G1, Hp.
    + intros kvs k v p [Hin|Hin] Hkv Hk.
      * inversion Hin; subst kvs0. destruct (G2 _ _ _ Hkv Hk) as [N1 N2]. split; [exact N1|apply M1, N2].
      * destruct (M2 _ _ _ _ Hin Hkv Hk) as [N1 N2]. split; [|exact N2].
        destruct (amem pbk_eqb p acc) eqn:Ea; [|reflexivity]. rewrite (G1 _ Ea) in N1. discriminate.
Qed.

Lemma collect_hooks_app : forall s h1 h2 acc, collect_hooks s (h1 ++ h2) acc =
  match collect_hooks s h1 acc with Raise e => Raise e | Ok a => collect_hooks s h2 a end.
Proof.
  intros s h1. induction h1 as [|h r IH]; intros h2 acc; [reflexivity|].
  destruct h as [kvs|e]; [|reflexivity].
  rewrite <- app_comm_cons, !collect_hooks_cons. destruct (hk_go s kvs acc); [apply IH|reflexivity].
Qed.

Theorem hook_conflict_rejected : forall s hs1 kvs1 hs2 kvs2 hs3 k1 v1 k2 v2 p,
  In (k1, v1) kvs1 -> In (k2, v2) kvs2 ->
  (let '(a,b,c) := parse_binding_key k1 in pbk_validate s a b c) = Ok p ->
  (let '(a,b,c) := parse_binding_key k2 in pbk_validate s a b c) = Ok p ->
  exists e, collect_hooks s (hs1 ++ HReturn kvs1 :: hs2 ++ HReturn kvs2 :: hs3) [] = Raise e.
Proof.
  intros s hs1 kvs1 hs2 kvs2 hs3 k1 v1 k2 v2 p I1 I2 K1 K2.
  fold (key_pbk s k1) in K1. fold (key_pbk s k2) in K2.
  destruct (collect_hooks s (hs1 ++ HReturn kvs1 :: hs2 ++ HReturn kvs2 :: hs3) []) as [acc|e] eqn:E;
    [exfalso|eexists; reflexivity].
  rewrite collect_hooks_app in E. destruct (collect_hooks s hs1 []) as [a1|] eqn:E1; [|discriminate].
  change (HReturn kvs1 :: hs2 ++ HReturn kvs2 :: hs3) with ((HReturn kvs1 :: hs2) ++ HReturn kvs2 :: hs3) in E.
  rewrite collect_hooks_app in E.
  destruct (collect_hooks s (HReturn kvs1 :: hs2) a1) as [a2|] eqn:E2; [|discriminate].
  destruct (collect_hooks_spec _ _ _ _ E2) as [_ M2].
  destruct (M2 kvs1 k1 v1 p (or_introl eq_refl) I1 K1) as [_ N2].
  destruct (collect_hooks_spec _ _ _ _ E) as [_ M3].
  destruct (M3 kvs2 k2 v2 p (or_introl eq_refl) I2 K2) as [N3 _]. congruence.
Qed.

Theorem finalize_builtin_hooks : forall s, locked s = false ->
  (macros_hook_ok s = false \/ unknown_refs_hook_ok s = false) -> exists s', finalize s = (s', Raise "ValueError").
Proof.
  intros s L H. rewrite finalize_unfold, L.
  destruct (macros_hook_ok s) eqn:M; simpl; [|eexists; reflexivity].
  destruct H as [H|H]; [discriminate|]. rewrite H. simpl. eexists; reflexivity.
Qed.

Theorem clear_unlocks : forall s b s' r, clear_config s b = (s', r) ->
  locked s' = false /\ config s' = [] /\ singletons s' = [] /\ reg s' = reg s /\ hooks s' = hooks s.
Proof.
  intros s b s' r H. apply clear_config_shape in H. destruct H as [x [o [-> _]]]. repeat split.
Qed.

(* ================================================================== *)
(* C20: clear_config                                                   *)
(* ================================================================== *)
Theorem clear_ok_pristine : forall s b s', clear_config s b = (s', Ok tt) ->
  config s' = [] /\ operative s' = [] /\ singletons s' = [] /\ locked s' = false /\ reg s' = reg s /\
  scopes s' = scopes s /\ (b = true -> constants s' = req_constants).
Proof.
  intros s b s' H. apply clear_config_shape in H. destruct H as [x [o [-> [H _]]]].
  destruct (H eq_refl) as [-> Hb]. repeat split. exact Hb.
Qed.

Lemma fset_append : forall {V} (k : key) (v : V) m, fget k m = None -> fset k v m = m ++ [(k, v)].
Proof.
  intros V k v m. induction m as [|[j w] m IH]; simpl; intros H; [reflexivity|].
  destruct (key_eqb k j); [discriminate|]. rewrite IH by exact H. reflexivity.
Qed.

Lemma matching_nil_absent : forall {V} (k : key) (m : smap V), sm_matching k m = [] -> fget k (sm_flat m) = None.
Proof.
  intros V k m H. unfold sm_matching, fmem in H. destruct (fget k (sm_flat m)); [discriminate|reflexivity].
Qed.

Theorem clear_total : forall s b, exists s', clear_config s b = (s', Ok tt).
Proof. intros s b. rewrite clear_config_unfold. eexists. reflexivity. Qed.

Theorem clear_constants_true_total : forall s, exists s', clear_config s true = (s', Ok tt).
Proof. intro s. apply clear_total. Qed.

(* ---- the ORIGINAL clear_config (saved constants re-defined through constant()) can fail: F8 ---- *)
Theorem clear_can_fail_refuted : exists s, (exists s0 ops, s = run_top 50 init_state ops /\ s0 = s) /\
  exists s' e, clear_config_orig s false = (s', Raise e).
Proof.
  exists (run_top 50 init_state [OInteractive [OConstant "a.b.X" (VInt 1); OConstant "b.X" (VInt 2)]]).
  split.
  - eexists. exists [OInteractive [OConstant "a.b.X" (VInt 1); OConstant "b.X" (VInt 2)]]. split; reflexivity.
  - eexists. exists "ValueError". vm_compute. reflexivity.
Qed.

(* on the same state the repaired clear_config succeeds and keeps all three constants *)
Theorem clear_repaired_on_witness :
  let s := run_top 50 init_state [OInteractive [OConstant "a.b.X" (VInt 1); OConstant "b.X" (VInt 2)]] in
  exists s', clear_config s false = (s', Ok tt) /\ sm_flat (constants s') = sm_flat (constants s).
Proof. eexists. split; vm_compute; reflexivity. Qed.

(* ---- the repaired clear_config(False) keeps the constants' flat map ---- *)
Lemma rebuild_from_flat : forall (l : flat value) (m0 : smap value), NoDup (map fst l) ->
  (forall k, In k (map fst l) -> fget k (sm_flat m0) = None) ->
  sm_flat (fold_left (fun m kv => sm_set (fst kv) (snd kv) m) l m0) = sm_flat m0 ++ l.
Proof.
  induction l as [|[k v] t IH]; intros m0 Hnd Hfresh; simpl.
  - rewrite app_nil_r. reflexivity.
  - simpl in Hnd. inversion Hnd as [|? ? Hnotin Hnd']; subst.
    rewrite IH.
    + simpl. rewrite (fset_append k v (sm_flat m0)) by (apply Hfresh; left; reflexivity).
      rewrite <- app_assoc. reflexivity.
    + exact Hnd'.
    + intros k' Hk'. simpl. rewrite fget_fset.
      destruct (key_eqb_spec k' k) as [->|N]; [contradiction|]. apply Hfresh. right. exact Hk'.
Qed.

Lemma rebuild_flat : forall l : flat value, NoDup (map fst l) -> sm_flat (rebuild l) = l.
Proof.
  intros l Hnd. unfold rebuild. rewrite rebuild_from_flat; [reflexivity|exact Hnd|intros; reflexivity].
Qed.

(* hypothesis: the keys of the constants' flat map are pairwise distinct (Leibniz equality on
   component lists, which key_eqb decides) *)
Theorem clear_keeps_constants : forall s s', NoDup (map fst (sm_flat (constants s))) ->
  clear_config s false = (s', Ok tt) -> sm_flat (constants s') = sm_flat (constants s).
Proof.
  intros s s' Hnd H. rewrite clear_config_unfold in H. inversion H; subst. simpl.
  apply rebuild_flat. exact Hnd.
Qed.

(* the hypothesis is an invariant: flat maps built by fset have distinct keys *)
Definition kinv (s : state) : Prop := NoDup (map fst (sm_flat (constants s))).

Lemma kinv_init : kinv init_state.
Proof. unfold kinv. simpl. constructor; [intros []|constructor]. Qed.
Lemma define_constant_kinv : forall s n v s' r, kinv s -> define_constant s n v = (s', r) -> kinv s'.
Proof.
  intros s n v s' r K H. apply define_constant_shape in H.
  destruct H as [[-> _]|[-> _]]; [exact K|]. unfold kinv. simpl. apply fset_nodup. exact K.
Qed.
Lemma clear_config_kinv : forall s b s' r, kinv s -> clear_config s b = (s', r) -> kinv s'.
Proof.
  intros s b s' r K H. rewrite clear_config_unfold in H. inversion H; subst. unfold kinv. simpl.
  destruct b; [simpl; constructor; [intros []|constructor]|].
  rewrite rebuild_flat; exact K.
Qed.

(* ---- positive part for the ORIGINAL clear_config: constants defined outside interactive mode survive ---- *)
Lemma split_aux_nonempty : forall sep s cur, split_aux sep s cur <> [].
Proof.
  intros sep s. induction s as [|c r IH]; intros cur; simpl; [discriminate|].
  destruct (Ascii.eqb c sep); [discriminate|apply IH].
Qed.

Lemma str_app_assoc : forall a b c : string, ((a ++ b) ++ c = a ++ (b ++ c))%string.
Proof. induction a as [|x a IH]; intros b c; simpl; [reflexivity|rewrite IH; reflexivity]. Qed.
Lemma str_app_nil_r : forall a : string, (a ++ "" = a)%string.
Proof. induction a as [|x a IH]; simpl; [reflexivity|rewrite IH; reflexivity]. Qed.

Lemma join_split_aux : forall s cur, join "." (split_aux dot s cur) = (cur ++ s)%string.
Proof.
  induction s as [|c r IH]; intros cur; simpl.
  - rewrite str_app_nil_r. reflexivity.
  - destruct (Ascii.eqb_spec c dot) as [->|Hne].
    + pose proof (IH EmptyString) as H. pose proof (split_aux_nonempty dot r EmptyString) as Hn.
      destruct (split_aux dot r "") as [|y l]; [contradiction|].
      change (join "." (cur :: y :: l)) with (cur ++ "." ++ join "." (y :: l))%string.
      rewrite H. reflexivity.
    + rewrite IH. rewrite str_app_assoc. reflexivity.
Qed.

Lemma of_key_to_key : forall name, of_key (to_key name) = name.
Proof. intro name. unfold of_key, to_key, join_dot, split_dot, split. apply join_split_aux. Qed.

(* constant maps reachable from the pristine one by successful non-interactive gin.constant() calls *)
Inductive built_ni : smap value -> Prop :=
| built_init : built_ni req_constants
| built_def : forall m name v, built_ni m -> is_selector name = true ->
    sm_matching (to_key name) m = [] -> built_ni (sm_set (to_key name) v m).

Lemma define_constant_built : forall s name v s', interactive s = false -> built_ni (constants s) ->
  define_constant s name v = (s', Ok tt) -> built_ni (constants s').
Proof.
  intros s name v s' Hi Hb H. unfold define_constant in H. rewrite Hi in H.
  destruct (is_selector name) eqn:Es; simpl in H; [|discriminate].
  destruct (sm_matching (to_key name) (constants s)) eqn:Em; simpl in H; [|discriminate].
  inversion H; subst. simpl. apply built_def; assumption.
Qed.

Lemma define_constant_fresh : forall st name v, is_selector name = true ->
  sm_matching (to_key name) (constants st) = [] ->
  define_constant st name v = (set_constants (sm_set (to_key name) v (constants st)) st, Ok tt).
Proof.
  intros st name v Hs Hm. unfold define_constant. rewrite Hs, Hm. simpl. rewrite andb_false_r. reflexivity.
Qed.

Lemma clr_fold_built : forall m, built_ni m -> forall st, constants st = sm_empty ->
  fold_left clr_step (sm_flat m) (st, Ok tt) = (set_constants m st, Ok tt).
Proof.
  intros m Hb. induction Hb as [|m name v Hb IH Hs Hm]; intros st Hc.
  - simpl. unfold clr_step. simpl fst. simpl snd.
    change (of_key ["gin"; "REQUIRED"]) with "gin.REQUIRED".
    rewrite define_constant_fresh; [rewrite Hc; reflexivity|reflexivity|rewrite Hc; reflexivity].
  - simpl sm_flat. rewrite (fset_append _ _ _ (matching_nil_absent _ _ Hm)).
    rewrite fold_left_app, (IH st Hc). simpl. unfold clr_step. simpl fst. simpl snd.
    rewrite of_key_to_key. rewrite define_constant_fresh; [reflexivity|exact Hs|exact Hm].
Qed.

(* for such maps the repaired clear_config rebuilds the very same map (tree included) *)
Lemma rebuild_built : forall m, built_ni m -> rebuild (sm_flat m) = m.
Proof.
  intros m Hb. unfold rebuild. induction Hb as [|m name v Hb IH Hs Hm]; [reflexivity|].
  simpl sm_flat. rewrite (fset_append _ _ _ (matching_nil_absent _ _ Hm)).
  rewrite fold_left_app, IH. reflexivity.
Qed.

Theorem clear_keeps_constants_partial : forall s, built_ni (constants s) ->
  exists s', clear_config_orig s false = (s', Ok tt) /\ constants s' = constants s /\
    sm_flat (constants s') = sm_flat (constants s) /\
    config s' = [] /\ operative s' = [] /\ singletons s' = [] /\ locked s' = false.
Proof.
  intros s Hb. exists (set_operative [] (set_constants (constants s) (cleared s))).
  split; [|repeat split].
  rewrite clear_config_orig_unfold.
  rewrite (clr_fold_built _ Hb (set_constants sm_empty (cleared s)) eq_refl). reflexivity.
Qed.

(* on such states the original and the repaired clear_config agree *)
Theorem clear_orig_agrees_on_built : forall s b, built_ni (constants s) -> clear_config_orig s b = clear_config s b.
Proof.
  intros s b Hb. destruct b; [reflexivity|].
  destruct (clear_keeps_constants_partial s Hb) as [s' [E _]].
  rewrite clear_config_orig_unfold in *. rewrite clear_config_unfold.
  rewrite (clr_fold_built _ Hb (set_constants sm_empty (cleared s)) eq_refl).
  rewrite (rebuild_built _ Hb). reflexivity.
Qed.

Lemma clear_config_built : forall s b s' r, built_ni (constants s) -> clear_config s b = (s', r) ->
  built_ni (constants s').
Proof.
  intros s b s' r Hb H. rewrite clear_config_unfold in H. inversion H; subst. simpl.
  destruct b; [apply built_init|]. rewrite (rebuild_built _ Hb). exact Hb.
Qed.

Print Assumptions call_frame.
Print Assumptions exec_scopes_restored.
Print Assumptions exec_bind_reject_frame.
Print Assumptions unlock_restores_lock.
Print Assumptions finalize_reject_atomic.
Print Assumptions clear_ok_pristine.
Print Assumptions hook_conflict_rejected.
Print Assumptions clear_keeps_constants_partial.
Print Assumptions clear_total.
Print Assumptions clear_keeps_constants.
Print Assumptions clear_can_fail_refuted.
Print Assumptions clear_unlocks.
