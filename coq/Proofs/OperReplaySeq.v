(* C07, continued: replaying a whole SEQUENCE of calls made under one fixed store, in the store that holds ALL the
   recorded sections at once (what parsing operative_config_str() into a cleared config gives).
   get_bindings_for merges the sections of every prefix of the scope, so in the replay store a call in scope a/b
   also sees what was recorded for calls of the same configurable in scope a and in the root scope: this adds
   nothing new.  Axiom-free, stdlib only.  Builds on OperReplayProofs.v. *)
From Coq Require Import List String ZArith Bool Arith Lia.
From GinV Require Import Lib.Out Lib.PyStr Model.SelectorMap Model.Values Model.Gin Model.GinEngine Model.CallSpec
                         Proofs.CallLemmas Proofs.CallProofs Proofs.MachineFrame Proofs.MachineProofs
                         Proofs.MacroOperProofs Proofs.OperReplayProofs.
Import ListNotations.
Open Scope string_scope.
Open Scope list_scope.

(* ================================================================== *)
(* the recorded store of a list of calls                               *)
(* ================================================================== *)
(* one call: (scope at the call, configurable, positional arguments, keyword arguments) *)
Definition callrecd := (list string * cfgable * list value * pdict)%type.
Definition k_scope (x : callrecd) : list string := fst (fst (fst x)).
Definition k_cfg (x : callrecd) : cfgable := snd (fst (fst x)).
Definition k_args (x : callrecd) : list value := snd (fst x).
Definition k_kwargs (x : callrecd) : pdict := snd x.

Definition call_key (x : callrecd) : ckey := (scope_str (k_scope x), c_sel (k_cfg x)).
(* what the call contributes to its section when made under the store cfg *)
Definition call_d (cfg : cdict) (x : callrecd) : pdict :=
  prep_operative (k_cfg x) (k_args x) (k_kwargs x) (prep_bindings cfg (k_scope x) (k_cfg x) (k_args x) (k_kwargs x)).

Definition sec_of (R : cdict) (k : ckey) : pdict := match cget k R with Some d => d | None => [] end.

Definition record_step (dfun : callrecd -> pdict) (R : cdict) (x : callrecd) : cdict :=
  cset (call_key x) (supdate (sec_of R (call_key x)) (dfun x)) R.
Definition recorded_with (dfun : callrecd -> pdict) (cs : list callrecd) : cdict := fold_left (record_step dfun) cs [].
Definition recorded (cfg : cdict) (cs : list callrecd) : cdict := recorded_with (call_d cfg) cs.

(* this is exactly what oper_update does *)
Lemma record_step_is_oper_update : forall cfg s x,
  operative (oper_update s (call_key x) (call_d cfg x)) = record_step (call_d cfg) (operative s) x.
Proof. reflexivity. Qed.

Lemma call_d_nodup : forall cfg x, NoDup (map fst (call_d cfg x)).
Proof. intros. unfold call_d. apply prep_operative_nodup. Qed.

(* ---- the value a section holds for a parameter: the last call that recorded it wins ---- *)
Fixpoint rec_val (dfun : callrecd -> pdict) (cs : list callrecd) (k : ckey) (p : string) (acc : option value)
  : option value :=
  match cs with
  | [] => acc
  | x :: r => rec_val dfun r k p
                (if ckey_eqb k (call_key x) then match sget p (dfun x) with Some v => Some v | None => acc end else acc)
  end.

Lemma sec_of_step : forall dfun R x k,
  sec_of (record_step dfun R x) k =
  if ckey_eqb k (call_key x) then supdate (sec_of R (call_key x)) (dfun x) else sec_of R k.
Proof.
  intros dfun R x k. unfold sec_of at 1, record_step. rewrite cget_cset.
  destruct (ckey_eqb k (call_key x)); reflexivity.
Qed.

Lemma sget_sec_fold : forall dfun, (forall x, NoDup (map fst (dfun x))) ->
  forall cs R k p, sget p (sec_of (fold_left (record_step dfun) cs R) k) = rec_val dfun cs k p (sget p (sec_of R k)).
Proof.
  intros dfun Hd cs. induction cs as [|x r IH]; intros R k p; [reflexivity|].
  cbn [fold_left rec_val]. rewrite IH. f_equal. rewrite sec_of_step.
  destruct (ckey_eqb_spec k (call_key x)) as [E|N]; [|reflexivity].
  subst k. apply sget_supdate_nodup. apply Hd.
Qed.

Lemma sget_recorded : forall dfun, (forall x, NoDup (map fst (dfun x))) ->
  forall cs k p, sget p (sec_of (recorded_with dfun cs) k) = rec_val dfun cs k p None.
Proof. intros dfun Hd cs k p. unfold recorded_with. rewrite sget_sec_fold by exact Hd. reflexivity. Qed.

Lemma rec_val_some_acc : forall dfun cs k p a, exists v, rec_val dfun cs k p (Some a) = Some v.
Proof.
  intros dfun cs k p. induction cs as [|x r IH]; intros a; [exists a; reflexivity|].
  cbn [rec_val]. destruct (ckey_eqb k (call_key x)); [|apply IH].
  destruct (sget p (dfun x)); apply IH.
Qed.

Lemma rec_val_source : forall dfun cs k p acc v, rec_val dfun cs k p acc = Some v ->
  acc = Some v \/ exists x, In x cs /\ ckey_eqb k (call_key x) = true /\ sget p (dfun x) = Some v.
Proof.
  intros dfun cs k p. induction cs as [|x r IH]; intros acc v H; [left; exact H|].
  cbn [rec_val] in H. apply IH in H. destruct H as [H|[y [Hy [Hk Hv]]]].
  - destruct (ckey_eqb k (call_key x)) eqn:Ek; [|left; exact H].
    destruct (sget p (dfun x)) as [w|] eqn:Ew; [|left; exact H].
    right. exists x. split; [left; reflexivity|]. split; [exact Ek|]. rewrite Ew. exact H.
  - right. exists y. split; [right; exact Hy|]. split; assumption.
Qed.

Lemma rec_val_recorded : forall dfun cs k p acc x v, In x cs -> ckey_eqb k (call_key x) = true ->
  sget p (dfun x) = Some v -> exists v', rec_val dfun cs k p acc = Some v'.
Proof.
  intros dfun cs k p. induction cs as [|y r IH]; intros acc x v Hin Hk Hv; [inversion Hin|].
  cbn [rec_val]. destruct Hin as [E|Hin].
  - subst y. rewrite Hk, Hv. apply rec_val_some_acc.
  - eapply IH; eassumption.
Qed.

Lemma rec_val_ext : forall d1 d2 cs k p acc, (forall x, In x cs -> sget p (d1 x) = sget p (d2 x)) ->
  rec_val d1 cs k p acc = rec_val d2 cs k p acc.
Proof.
  intros d1 d2 cs k p. induction cs as [|x r IH]; intros acc H; [reflexivity|].
  cbn [rec_val]. rewrite (H x (or_introl eq_refl)). apply IH. intros y Hy. apply H. right; exact Hy.
Qed.

(* ---- sections of the recorded store have distinct keys; the section keys depend on the calls only ---- *)
Lemma record_step_wf : forall dfun R x, cfg_wf R -> cfg_wf (record_step dfun R x).
Proof.
  intros dfun R x Hwf k d H. unfold record_step in H. rewrite cget_cset in H.
  destruct (ckey_eqb k (call_key x)); [|eapply Hwf; exact H].
  inversion H; subst. apply keys_supdate_nodup. unfold sec_of.
  destruct (cget (call_key x) R) as [d0|] eqn:E; [eapply Hwf; exact E|constructor].
Qed.

Lemma recorded_wf : forall dfun cs, cfg_wf (recorded_with dfun cs).
Proof.
  intros dfun cs. unfold recorded_with.
  assert (H : forall R, cfg_wf R -> cfg_wf (fold_left (record_step dfun) cs R)).
  { induction cs as [|x r IH]; intros R Hwf; [exact Hwf|]. cbn [fold_left]. apply IH. apply record_step_wf. exact Hwf. }
  apply H. intros k d Hk. discriminate.
Qed.

Lemma cset_keys : forall (R1 R2 : cdict) k d1 d2, map fst R1 = map fst R2 -> map fst (cset k d1 R1) = map fst (cset k d2 R2).
Proof.
  induction R1 as [|[j w] R1 IH]; intros R2 k d1 d2 H.
  - destruct R2; [reflexivity|discriminate].
  - destruct R2 as [|[j2 w2] R2]; [discriminate|]. simpl in H. inversion H; subst j2.
    change (cset k d1 ((j, w) :: R1)) with (if ckey_eqb k j then (j, d1) :: R1 else (j, w) :: cset k d1 R1).
    change (cset k d2 ((j, w2) :: R2)) with (if ckey_eqb k j then (j, d2) :: R2 else (j, w2) :: cset k d2 R2).
    destruct (ckey_eqb k j); simpl; f_equal; [assumption|]. apply IH. assumption.
Qed.

Lemma recorded_keys : forall d1 d2 cs, map fst (recorded_with d1 cs) = map fst (recorded_with d2 cs).
Proof.
  intros d1 d2 cs. unfold recorded_with.
  assert (H : forall R1 R2, map fst R1 = map fst R2 ->
            map fst (fold_left (record_step d1) cs R1) = map fst (fold_left (record_step d2) cs R2)).
  { induction cs as [|x r IH]; intros R1 R2 H; [exact H|]. cbn [fold_left]. apply IH.
    unfold record_step. apply cset_keys. exact H. }
  apply H. reflexivity.
Qed.

(* ================================================================== *)
(* what one call records, as a function of the store                  *)
(* ================================================================== *)
(* the value Gin has for p of configurable c under scope: the applicable binding, else the recordable default *)
Definition gin_value (cfg : cdict) (scope : list string) (c : cfgable) (p : string) : option value :=
  match sget p (get_bindings_for cfg scope (c_sel c) true) with
  | Some v => Some v
  | None => sget p (configurable_defaults c)
  end.

Lemma call_d_sget : forall cfg x p,
  sget p (call_d cfg x) =
  if supplied_b (k_cfg x) (k_args x) (k_kwargs x) p then None else gin_value cfg (k_scope x) (k_cfg x) p.
Proof.
  intros cfg x p. unfold call_d, gin_value.
  rewrite prep_operative_sget_supplied by apply prep_bindings_nodup.
  rewrite prep_bindings_sget_supplied. destruct (supplied_b _ _ _ p); reflexivity.
Qed.

Lemma gbf_none_iff : forall cfg scope sel p,
  sget p (get_bindings_for cfg scope sel true) = None <->
  forall q, is_prefix q scope -> sget p (dict_at cfg sel q) = None.
Proof.
  intros cfg scope sel p. rewrite gbf_inherit_eq, sget_fold_supdate. rewrite sget_nil.
  assert (E : (match first_some (fun q => sget_last p (dict_at cfg sel q)) (rev (prefixes scope)) with
               | Some v => Some v | None => None end = None) <->
              first_some (fun q => sget_last p (dict_at cfg sel q)) (rev (prefixes scope)) = None).
  { destruct (first_some _ _); split; congruence. }
  rewrite E, first_some_prefixes_none. split; intros H q Hq; apply sget_last_none_sget; apply H; exact Hq.
Qed.

Lemma is_prefix_trans : forall {A} (a b c : list A), is_prefix a b -> is_prefix b c -> is_prefix a c.
Proof. intros A a b c [r1 E1] [r2 E2]. subst. exists (r1 ++ r2). rewrite app_assoc. reflexivity. Qed.
Lemma is_prefix_refl : forall {A} (a : list A), is_prefix a a.
Proof. intros A a. exists []. rewrite app_nil_r. reflexivity. Qed.
Lemma is_prefix_length : forall {A} (a b : list A), is_prefix a b -> List.length a <= List.length b.
Proof. intros A a b [r E]. subst. rewrite app_length. lia. Qed.

Lemma gbf_prefix_some : forall cfg q scope sel p v, is_prefix q scope ->
  sget p (get_bindings_for cfg q sel true) = Some v -> sget p (get_bindings_for cfg scope sel true) <> None.
Proof.
  intros cfg q scope sel p v Hq Hv Hn.
  assert (E : sget p (get_bindings_for cfg q sel true) = None); [|congruence].
  apply gbf_none_iff. intros q0 Hq0. apply (proj1 (gbf_none_iff cfg scope sel p) Hn). eapply is_prefix_trans; eassumption.
Qed.

(* ================================================================== *)
(* the key lemma: looking a parameter up in the replay store           *)
(* ================================================================== *)
Definition one_cfgable_per_selector (cs : list callrecd) : Prop :=
  forall x y, In x cs -> In y cs -> c_sel (k_cfg x) = c_sel (k_cfg y) -> k_cfg x = k_cfg y.
Definition scopes_ok (cs : list callrecd) : Prop := forall x, In x cs -> scope_ok (k_scope x).

(* whatever the replay store holds for p under a prefix q of the call's scope is the value Gin had for p under q *)
Lemma recorded_bound_at : forall cfg cs x0 q p v, In x0 cs -> one_cfgable_per_selector cs -> scopes_ok cs ->
  is_prefix q (k_scope x0) ->
  bound_at (recorded cfg cs) q (c_sel (k_cfg x0)) p = Some v -> gin_value cfg q (k_cfg x0) p = Some v.
Proof.
  intros cfg cs x0 q p v Hin Hone Hok Hq Hb.
  rewrite bound_at_dict_at in Hb.
  change (dict_at (recorded cfg cs) (c_sel (k_cfg x0)) q) with (sec_of (recorded cfg cs) (scope_str q, c_sel (k_cfg x0))) in Hb.
  unfold recorded in Hb. rewrite sget_recorded in Hb by apply call_d_nodup.
  apply rec_val_source in Hb. destruct Hb as [Hb|[x [Hx [Hk Hv]]]]; [discriminate|].
  destruct (ckey_eqb_spec (scope_str q, c_sel (k_cfg x0)) (call_key x)) as [E|]; [|discriminate].
  unfold call_key in E. inversion E as [[E1 E2]].
  assert (Ec : k_cfg x = k_cfg x0) by (apply Hone; [exact Hx|exact Hin|symmetry; exact E2]).
  assert (Es : k_scope x = q).
  { symmetry. apply join_slash_inj; [eapply scope_ok_prefix; [apply (Hok x0 Hin)|exact Hq]|apply (Hok x Hx)|exact E1]. }
  rewrite call_d_sget, Ec, Es in Hv. destruct (supplied_b _ _ _ p); [discriminate|exact Hv].
Qed.

Theorem C07_replay_store_lookup : forall cfg cs x0 p, In x0 cs -> one_cfgable_per_selector cs -> scopes_ok cs ->
  supplied_b (k_cfg x0) (k_args x0) (k_kwargs x0) p = false ->
  sget p (get_bindings_for (recorded cfg cs) (k_scope x0) (c_sel (k_cfg x0)) true) =
  gin_value cfg (k_scope x0) (k_cfg x0) p.
Proof.
  intros cfg cs x0 p Hin Hone Hok Hsup.
  rewrite overlay_correct by apply recorded_wf.
  destruct (gin_value cfg (k_scope x0) (k_cfg x0) p) as [v|] eqn:Eg.
  - apply overlay_longest. exists (k_scope x0). split; [apply is_prefix_refl|]. split.
    + assert (Hd : sget p (call_d cfg x0) = Some v) by (rewrite call_d_sget, Hsup; exact Eg).
      destruct (rec_val_recorded (call_d cfg) cs (call_key x0) p None x0 v Hin) as [v' Hv'].
      * destruct (ckey_eqb_spec (call_key x0) (call_key x0)); [reflexivity|congruence].
      * exact Hd.
      * assert (Hb : bound_at (recorded cfg cs) (k_scope x0) (c_sel (k_cfg x0)) p = Some v').
        { rewrite bound_at_dict_at.
          change (dict_at (recorded cfg cs) (c_sel (k_cfg x0)) (k_scope x0)) with (sec_of (recorded cfg cs) (call_key x0)).
          unfold recorded. rewrite sget_recorded by apply call_d_nodup. exact Hv'. }
        pose proof (recorded_bound_at cfg cs x0 _ p v' Hin Hone Hok (is_prefix_refl _) Hb) as Hg.
        rewrite Eg in Hg. inversion Hg; subst v'. exact Hb.
    + intros q' Hq' Hlen. apply is_prefix_length in Hq'. lia.
  - apply overlay_none. intros q Hq.
    destruct (bound_at (recorded cfg cs) q (c_sel (k_cfg x0)) p) as [v'|] eqn:Eb; [|reflexivity]. exfalso.
    pose proof (recorded_bound_at cfg cs x0 q p v' Hin Hone Hok Hq Eb) as Hg.
    unfold gin_value in Eg, Hg.
    destruct (sget p (get_bindings_for cfg (k_scope x0) (c_sel (k_cfg x0)) true)) eqn:E1; [discriminate|].
    destruct (sget p (get_bindings_for cfg q (c_sel (k_cfg x0)) true)) as [w|] eqn:E2; [|congruence].
    exact (gbf_prefix_some cfg q (k_scope x0) _ p w Hq E2 E1).
Qed.

(* the bindings the replayed call gets: those of the original call, plus explicit recordable defaults *)
Lemma replay_seq_bindings : forall cfg cs x0 p, In x0 cs -> one_cfgable_per_selector cs -> scopes_ok cs ->
  sget p (prep_bindings (recorded cfg cs) (k_scope x0) (k_cfg x0) (k_args x0) (k_kwargs x0)) =
  match sget p (prep_bindings cfg (k_scope x0) (k_cfg x0) (k_args x0) (k_kwargs x0)) with
  | Some v => Some v
  | None => if supplied_b (k_cfg x0) (k_args x0) (k_kwargs x0) p then None
            else sget p (configurable_defaults (k_cfg x0))
  end.
Proof.
  intros cfg cs x0 p Hin Hone Hok. rewrite !prep_bindings_sget_supplied.
  destruct (supplied_b (k_cfg x0) (k_args x0) (k_kwargs x0) p) eqn:Hsup; [reflexivity|].
  rewrite (C07_replay_store_lookup cfg cs x0 p Hin Hone Hok Hsup). unfold gin_value.
  destruct (sget p (get_bindings_for cfg (k_scope x0) (c_sel (k_cfg x0)) true)); reflexivity.
Qed.

(* ================================================================== *)
(* merge_call / py_bind on bindings extended by explicit defaults,     *)
(* without any assumption on the ORDER of the keys                     *)
(* ================================================================== *)
Definition extends_by_defaults_weak (c : cfgable) (args : list value) (kwargs nk nk' : pdict) : Prop :=
  NoDup (map fst nk) /\ NoDup (map fst nk') /\
  (forall p, sget p nk' = match sget p nk with
                          | Some v => Some v
                          | None => if supplied_b c args kwargs p then None else sget p (configurable_defaults c)
                          end).

Theorem replay_merge_call_weak : forall c args kwargs nk nk' na fk,
  extends_by_defaults_weak c args kwargs nk nk' ->
  merge_call c args kwargs nk = Ok (na, fk) ->
  exists fk', merge_call c args kwargs nk' = Ok (na, fk') /\
    List.length na = List.length args /\
    NoDup (map fst fk) /\ NoDup (map fst fk') /\
    (forall p v, sget p fk = Some v -> sget p fk' = Some v) /\
    (forall p v, sget p fk = None -> sget p fk' = Some v ->
       sget p (configurable_defaults c) = Some v /\
       str_in p (supplied_positional_names (c_sig c) args) = false /\ str_in p (map fst kwargs) = false).
Proof.
  intros c args kwargs nk nk' na fk (Hn & Hn' & Hs) H.
  destruct (fill_required (supplied_positional_names (c_sig c) args) args nk) as [[na0 nka] miss1] eqn:Ef.
  rewrite (merge_call_eq c args kwargs nk na0 nka miss1 Ef) in H.
  destruct (miss1 ++ miss2_of c args kwargs nka ++ miss3_of kwargs nka) as [|m ms] eqn:Em; [|discriminate].
  inversion H; subst na0 fk. clear H.
  apply app_eq_nil in Em. destruct Em as [Em1 Em]. apply app_eq_nil in Em. destruct Em as [Em2 Em3]. subst miss1.
  assert (Hm : forall p v, sget p nk = Some v -> sget p nk' = Some v).
  { intros p v Hp. rewrite Hs, Hp. reflexivity. }
  destruct (fill_required_mono _ _ _ _ _ _ Hn Hn' Hm Ef) as [nka' Ef'].
  pose proof (fill_required_ok_shape _ _ _ _ _ Ef) as Sh.
  pose proof (fill_required_ok_shape _ _ _ _ _ Ef') as Sh'.
  set (rq := required_positions (supplied_positional_names (c_sig c) args) args) in *.
  assert (G : forall p, sget p nka = if str_in p rq then None else sget p nk).
  { intro p. rewrite Sh. apply sget_fold_sdel. exact Hn. }
  assert (G' : forall p, sget p nka' = if str_in p rq then None else sget p nk').
  { intro p. rewrite Sh'. apply sget_fold_sdel. exact Hn'. }
  assert (Na : NoDup (map fst nka)) by (rewrite Sh; apply fold_sdel_nodup; exact Hn).
  assert (Na' : NoDup (map fst nka')) by (rewrite Sh'; apply fold_sdel_nodup; exact Hn').
  assert (M1 : forall p v, sget p nka = Some v -> sget p nka' = Some v).
  { intros p v. rewrite G, G'. destruct (str_in p rq); [discriminate|apply Hm]. }
  assert (M1s : forall p, smem p nka = true -> smem p nka' = true).
  { intros p. rewrite !smem_sget. destruct (sget p nka) as [v|] eqn:E; [|discriminate].
    rewrite (M1 p v E). reflexivity. }
  assert (Em2' : miss2_of c args kwargs nka' = []).
  { unfold miss2_of in *. apply filter_all_false. intros r Hr.
    pose proof (filter_nil_forall _ _ Em2 r Hr) as Hc. cbv beta in Hc.
    destruct (smem r nka) eqn:Es; [rewrite (M1s r Es); simpl; apply andb_false_r|].
    simpl in Hc. rewrite andb_true_r in Hc. rewrite Hc. reflexivity. }
  assert (Em3' : miss3_of kwargs nka' = []).
  { unfold miss3_of in *. apply filter_all_false. intros r Hr.
    pose proof (filter_nil_forall _ _ Em3 r Hr) as Hc. cbv beta in Hc.
    apply negb_false_iff in Hc. rewrite (M1s r Hc). reflexivity. }
  assert (Crk : forall p, str_in p (caller_req_kw kwargs) = true -> smem p nka = true).
  { intros p Hp. apply str_in_iff in Hp. unfold miss3_of in Em3.
    pose proof (filter_nil_forall _ _ Em3 p Hp) as Hc. cbv beta in Hc. apply negb_false_iff in Hc. exact Hc. }
  assert (Ek : kwargs_kept kwargs nka' = kwargs_kept kwargs nka).
  { unfold kwargs_kept. apply filter_ext_in'. intros [k v] _. cbn [fst].
    destruct (str_in k (caller_req_kw kwargs)) eqn:Ec; [|reflexivity].
    rewrite (Crk k Ec), (M1s k (Crk k Ec)). reflexivity. }
  exists (supdate nka' (kwargs_kept kwargs nka)).
  split; [|split; [|split; [|split; [|split]]]].
  - rewrite (merge_call_eq c args kwargs nk' na nka' [] Ef'), Em2', Em3', Ek. reflexivity.
  - eapply fill_required_length; exact Ef.
  - apply keys_supdate_nodup. exact Na.
  - apply keys_supdate_nodup. exact Na'.
  - intros p v. rewrite !sget_supdate. destruct (sget_last p (kwargs_kept kwargs nka)); [auto|apply M1].
  - intros p v. rewrite !sget_supdate. destruct (sget_last p (kwargs_kept kwargs nka)); [discriminate|].
    intros Hp Hp'. rewrite G in Hp. rewrite G' in Hp'.
    destruct (str_in p rq) eqn:Er; [discriminate|].
    rewrite Hs, Hp in Hp'. destruct (supplied_b c args kwargs p) eqn:Esup; [discriminate|].
    split; [exact Hp'|]. unfold supplied_b in Esup. fold rq in Esup. rewrite Er in Esup.
    apply orb_false_iff in Esup. destruct Esup as [E1 E2]. simpl in E1. rewrite andb_true_r in E1.
    split; [exact E1|].
    destruct (str_in p (caller_req_kw kwargs)) eqn:Ec.
    + exfalso. pose proof (Crk p Ec) as Hc. rewrite smem_sget, G, Er, Hp in Hc. discriminate.
    + simpl in E2. rewrite andb_true_r in E2. exact E2.
Qed.

(* for a signature without **kwargs, Python's binding does not depend on the order of the keywords *)
Theorem py_bind_ext_novarkw : forall sg na fk fk', s_varkw sg = false ->
  NoDup (map fst fk) -> NoDup (map fst fk') ->
  (forall p v, sget p fk = Some v -> sget p fk' = Some v) ->
  (forall p v, sget p fk = None -> sget p fk' = Some v ->
     sig_name sg p = true /\ str_in p (firstn (List.length na) (s_args sg)) = false /\
     sget p (kwarg_defaults sg) = Some v) ->
  py_bind sg na fk' = py_bind sg na fk.
Proof.
  intros sg na fk fk' Hvk Hn Hn' F1 F2. unfold py_bind.
  pose proof (bind_pos_keys (s_args sg) na) as Hk.
  destruct (bind_pos (s_args sg) na) as [bpos surplus]. cbn [fst] in Hk.
  destruct (negb (s_varargs sg) && negb (match surplus with [] => true | _ => false end)); [reflexivity|].
  rewrite !bind_kw_char by assumption.
  assert (Hq : forallb (kwQ sg bpos) fk' = forallb (kwQ sg bpos) fk).
  { destruct (forallb (kwQ sg bpos) fk) eqn:E1; destruct (forallb (kwQ sg bpos) fk') eqn:E2; try reflexivity; exfalso.
    - assert (E : forallb (kwQ sg bpos) fk' = true); [|congruence].
      rewrite forallb_forall in E1. apply forallb_forall. intros [k v] Hin.
      destruct (sget k fk) as [w|] eqn:Eg.
      + apply sget_some_in in Eg. exact (E1 _ Eg).
      + pose proof (in_sget_nodup k fk' v Hn' Hin) as Eg'.
        destruct (F2 k v Eg Eg') as [S1 [S2 _]]. unfold kwQ. cbn [fst]. rewrite S1, smem_str_in, Hk, S2. reflexivity.
    - assert (E : forallb (kwQ sg bpos) fk = true); [|congruence].
      rewrite forallb_forall in E2. apply forallb_forall. intros [k v] Hin.
      pose proof (in_sget_nodup k fk v Hn Hin) as Eg. apply F1 in Eg. apply sget_some_in in Eg. exact (E2 _ Eg). }
  rewrite Hq, Hvk. destruct (forallb (kwQ sg bpos) fk); [|reflexivity].
  rewrite (fill_defaults_ext _ _ (bpos ++ kf (sig_name sg) fk) (bpos ++ kf (sig_name sg) fk')); [reflexivity|].
  intros n Hin. rewrite !sget_app. destruct (sget n bpos); [reflexivity|].
  assert (Sn : sig_name sg n = true) by (apply sig_name_named; exact Hin).
  rewrite !sget_kf, Sn.
  destruct (sget n fk) as [w|] eqn:Eg; [rewrite (F1 n w Eg); reflexivity|].
  destruct (sget n fk') as [v|] eqn:Eg'; [|reflexivity].
  destruct (F2 n v Eg Eg') as [_ [_ Hd]]. rewrite Hd. reflexivity.
Qed.

(* ================================================================== *)
(* replay of a sequence                                                *)
(* ================================================================== *)
Lemma replay_seq_extends_weak : forall cfg cs x0, In x0 cs -> one_cfgable_per_selector cs -> scopes_ok cs ->
  extends_by_defaults_weak (k_cfg x0) (k_args x0) (k_kwargs x0)
    (prep_bindings cfg (k_scope x0) (k_cfg x0) (k_args x0) (k_kwargs x0))
    (prep_bindings (recorded cfg cs) (k_scope x0) (k_cfg x0) (k_args x0) (k_kwargs x0)).
Proof.
  intros cfg cs x0 Hin Hone Hok. split; [apply prep_bindings_nodup|]. split; [apply prep_bindings_nodup|].
  intro p. apply replay_seq_bindings; assumption.
Qed.

(* general form (any signature): the replayed call gets the same positional arguments, and a keyword dict that
   agrees with the original one except for explicitly passed recordable defaults of parameters nobody supplied *)
Theorem C07_replay_sequence_merge : forall cfg cs scope c args kwargs na fk,
  In (scope, c, args, kwargs) cs -> one_cfgable_per_selector cs -> scopes_ok cs ->
  merge_call c args kwargs (prep_bindings cfg scope c args kwargs) = Ok (na, fk) ->
  exists fk',
    merge_call c args kwargs (prep_bindings (recorded cfg cs) scope c args kwargs) = Ok (na, fk') /\
    (forall p v, sget p fk = Some v -> sget p fk' = Some v) /\
    (forall p v, sget p fk = None -> sget p fk' = Some v ->
       sget p (configurable_defaults c) = Some v /\ sget p (kwarg_defaults (c_sig c)) = Some v /\
       str_in p (supplied_positional_names (c_sig c) args) = false /\ str_in p (map fst kwargs) = false).
Proof.
  intros cfg cs scope c args kwargs na fk Hin Hone Hok Hm.
  destruct (replay_merge_call_weak c args kwargs _ _ na fk
              (replay_seq_extends_weak cfg cs (scope, c, args, kwargs) Hin Hone Hok) Hm)
    as [fk' [Hm' [Hl [Hn [Hn' [F1 F2]]]]]].
  exists fk'. split; [exact Hm'|]. split; [exact F1|].
  intros p v Hp Hp'. destruct (F2 p v Hp Hp') as [D1 [D2 D3]].
  destruct (configurable_default_is_default c p v D1) as [D4 _]. auto.
Qed.

(* THE sequence theorem, for configurables without **kwargs: same arguments, same environment *)
Theorem C07_replay_sequence : forall cfg cs scope c args kwargs na fk,
  In (scope, c, args, kwargs) cs -> one_cfgable_per_selector cs -> scopes_ok cs ->
  s_varkw (c_sig c) = false ->
  merge_call c args kwargs (prep_bindings cfg scope c args kwargs) = Ok (na, fk) ->
  exists fk',
    merge_call c args kwargs (prep_bindings (recorded cfg cs) scope c args kwargs) = Ok (na, fk') /\
    py_bind (c_sig c) na fk' = py_bind (c_sig c) na fk.
Proof.
  intros cfg cs scope c args kwargs na fk Hin Hone Hok Hvk Hm.
  destruct (replay_merge_call_weak c args kwargs _ _ na fk
              (replay_seq_extends_weak cfg cs (scope, c, args, kwargs) Hin Hone Hok) Hm)
    as [fk' [Hm' [Hl [Hn [Hn' [F1 F2]]]]]].
  exists fk'. split; [exact Hm'|].
  apply py_bind_ext_novarkw; try assumption.
  intros p v Hp Hp'. destruct (F2 p v Hp Hp') as [D1 [D2 _]].
  destruct (configurable_default_is_default c p v D1) as [D3 D4].
  split; [exact D4|]. split; [|exact D3]. rewrite Hl. exact D2.
Qed.

(* with **kwargs the same holds as soon as the replay store lists the bindings of non-signature names in the
   same order as the original store did (see the counterexample below for why this is needed) *)
Theorem C07_replay_sequence_varkw : forall cfg cs scope c args kwargs na fk,
  In (scope, c, args, kwargs) cs -> one_cfgable_per_selector cs -> scopes_ok cs ->
  kf (nsig c) (prep_bindings (recorded cfg cs) scope c args kwargs) =
  kf (nsig c) (prep_bindings cfg scope c args kwargs) ->
  merge_call c args kwargs (prep_bindings cfg scope c args kwargs) = Ok (na, fk) ->
  exists fk',
    merge_call c args kwargs (prep_bindings (recorded cfg cs) scope c args kwargs) = Ok (na, fk') /\
    py_bind (c_sig c) na fk' = py_bind (c_sig c) na fk.
Proof.
  intros cfg cs scope c args kwargs na fk Hin Hone Hok Hord Hm.
  destruct (replay_seq_extends_weak cfg cs (scope, c, args, kwargs) Hin Hone Hok) as (E1 & E2 & E3).
  destruct (replay_merge_call c args kwargs _ _ na fk (conj E1 (conj E2 (conj E3 Hord))) Hm)
    as [fk' [Hm' [Hl [Hn [Hn' [F1 [F2 F3]]]]]]].
  exists fk'. split; [exact Hm'|].
  apply py_bind_ext; try assumption.
  intros p v Hp Hp'. destruct (F2 p v Hp Hp') as [D1 [D2 _]].
  destruct (configurable_default_is_default c p v D1) as [D3 D4].
  split; [exact D4|]. split; [|exact D3]. rewrite Hl. exact D2.
Qed.

(* the remainder of the wrapper is the same, for every kind of configurable *)
Corollary C07_replay_sequence_call_tail : forall f sel sstr s cfg cs scope c args kwargs na fk,
  In (scope, c, args, kwargs) cs -> one_cfgable_per_selector cs -> scopes_ok cs ->
  s_varkw (c_sig c) = false ->
  merge_call c args kwargs (prep_bindings cfg scope c args kwargs) = Ok (na, fk) ->
  call_tail f c sel sstr args kwargs s (Ok (prep_bindings (recorded cfg cs) scope c args kwargs)) =
  call_tail f c sel sstr args kwargs s (Ok (prep_bindings cfg scope c args kwargs)).
Proof.
  intros f sel sstr s cfg cs scope c args kwargs na fk Hin Hone Hok Hvk Hm.
  destruct (C07_replay_sequence cfg cs scope c args kwargs na fk Hin Hone Hok Hvk Hm) as [fk' [Hm' Hb]].
  unfold call_tail. rewrite Hm, Hm', Hb. reflexivity.
Qed.

(* ================================================================== *)
(* the record reproduces itself                                        *)
(* ================================================================== *)
Lemma call_d_reproduces : forall cfg cs x p, In x cs -> one_cfgable_per_selector cs -> scopes_ok cs ->
  sget p (call_d (recorded cfg cs) x) = sget p (call_d cfg x).
Proof.
  intros cfg cs x p Hin Hone Hok. unfold call_d.
  rewrite !prep_operative_sget_supplied by apply prep_bindings_nodup.
  rewrite (replay_seq_bindings cfg cs x p Hin Hone Hok).
  destruct (supplied_b (k_cfg x) (k_args x) (k_kwargs x) p); [reflexivity|].
  destruct (sget p (prep_bindings cfg (k_scope x) (k_cfg x) (k_args x) (k_kwargs x))); [reflexivity|].
  destruct (sget p (configurable_defaults (k_cfg x))); reflexivity.
Qed.

(* replaying all the calls in the replay store records the replay store again: same section keys in the same
   order, and every section holds the same value for every parameter *)
Theorem C07_record_reproduces_sequence : forall cfg cs, one_cfgable_per_selector cs -> scopes_ok cs ->
  map fst (recorded (recorded cfg cs) cs) = map fst (recorded cfg cs) /\
  forall k p, sget p (sec_of (recorded (recorded cfg cs) cs) k) = sget p (sec_of (recorded cfg cs) k).
Proof.
  intros cfg cs Hone Hok. split; [apply recorded_keys|].
  intros k p. unfold recorded at 1 3. rewrite !sget_recorded by apply call_d_nodup.
  apply rec_val_ext. intros x Hx. apply call_d_reproduces; assumption.
Qed.

(* the recorded store has a section for exactly the keys of the calls *)
Theorem recorded_has_section_iff : forall dfun cs k,
  cget k (recorded_with dfun cs) <> None <-> exists x, In x cs /\ call_key x = k.
Proof.
  intros dfun cs k. unfold recorded_with.
  assert (H : forall R, cget k (fold_left (record_step dfun) cs R) <> None <->
                        (cget k R <> None \/ exists x, In x cs /\ call_key x = k)).
  { induction cs as [|x r IH]; intros R.
    - simpl. split; [intros H; left; exact H|intros [H|[x [[] _]]]; exact H].
    - cbn [fold_left]. rewrite IH. unfold record_step at 1. rewrite cget_cset. split.
      + intros [H|[y [Hy Hk]]].
        * destruct (ckey_eqb_spec k (call_key x)) as [E|N].
          -- right. exists x. split; [left; reflexivity|symmetry; exact E].
          -- left. exact H.
        * right. exists y. split; [right; exact Hy|exact Hk].
      + intros [H|[y [[E|Hy] Hk]]].
        * left. destruct (ckey_eqb k (call_key x)); [discriminate|exact H].
        * subst y. left. rewrite <- Hk. destruct (ckey_eqb_spec (call_key x) (call_key x)); [discriminate|congruence].
        * right. exists y. split; assumption. }
  rewrite H. split; [intros [Hn|Hx]; [exfalso; apply Hn; reflexivity|exact Hx]|intros Hx; right; exact Hx].
Qed.

(* ================================================================== *)
(* scopes admitted by config_scope are well formed                     *)
(* ================================================================== *)
Lemma contains_char_app : forall ch (a b : string),
  contains_char ch (a ++ b)%string = contains_char ch a || contains_char ch b.
Proof.
  intros ch a b. induction a as [|x a IH]; [reflexivity|]. simpl. rewrite IH, orb_assoc. reflexivity.
Qed.

Lemma all_word_no_slash : forall r, all_chars is_word r = true -> contains_char slash r = false.
Proof.
  induction r as [|d r IH]; intros H; [reflexivity|]. simpl in H. apply andb_true_iff in H. destruct H as [H1 H2].
  change (contains_char slash (String d r)) with (Ascii.eqb slash d || contains_char slash r).
  rewrite (IH H2), orb_false_r. destruct (Ascii.eqb_spec slash d) as [E|N]; [|reflexivity].
  subst d. vm_compute in H1. discriminate.
Qed.

Lemma identifier_comp_ok : forall s, is_identifier s = true -> comp_ok s.
Proof.
  intros s H. destruct s as [|c r]; [discriminate|]. simpl in H. apply andb_true_iff in H. destruct H as [H1 H2].
  split; [discriminate|].
  change (contains_char slash (String c r)) with (Ascii.eqb slash c || contains_char slash r).
  rewrite (all_word_no_slash r H2), orb_false_r.
  destruct (Ascii.eqb_spec slash c) as [E|N]; [|reflexivity]. subst c. vm_compute in H1. discriminate.
Qed.

Lemma split_dot_no_slash : forall s cur, forallb is_identifier (split_aux dot s cur) = true ->
  contains_char slash (cur ++ s)%string = false.
Proof.
  induction s as [|c r IH]; intros cur H.
  - simpl in H. rewrite andb_true_r in H. rewrite str_app_nil_r. apply identifier_comp_ok in H. apply H.
  - simpl in H. destruct (Ascii.eqb_spec c dot) as [E|N].
    + subst c. simpl in H. apply andb_true_iff in H. destruct H as [H1 H2].
      apply identifier_comp_ok in H1. specialize (IH EmptyString H2). simpl in IH.
      rewrite contains_char_app. simpl. rewrite (proj2 H1), IH. reflexivity.
    + specialize (IH _ H). rewrite str_app_assoc in IH. exact IH.
Qed.

Lemma selector_comp_ok : forall s, is_selector s = true -> comp_ok s.
Proof.
  intros s H. split.
  - intros ->. vm_compute in H. discriminate.
  - unfold is_selector, split_dot, split in H. apply split_dot_no_slash in H. exact H.
Qed.

Theorem scope_valid_scope_ok : forall sc, scope_valid sc = true -> scope_ok sc.
Proof.
  intros sc H. unfold scope_valid in H. rewrite forallb_forall in H. apply Forall_forall.
  intros x Hx. apply selector_comp_ok. apply H. exact Hx.
Qed.

Corollary scopes_ok_of_valid : forall cs, (forall x, In x cs -> scope_valid (k_scope x) = true) -> scopes_ok cs.
Proof. intros cs H x Hx. apply scope_valid_scope_ok. apply H. exact Hx. Qed.

(* ================================================================== *)
(* examples                                                            *)
(* ================================================================== *)
Definition replay_env (cfg0 : cdict) (x : callrecd) : option (list value * option (list (string * value))) :=
  match merge_call (k_cfg x) (k_args x) (k_kwargs x)
                   (prep_bindings cfg0 (k_scope x) (k_cfg x) (k_args x) (k_kwargs x)) with
  | Ok (na, fk) => Some (na, py_bind (c_sig (k_cfg x)) na fk)
  | Raise _ => None
  end.

(* two configurables; bindings at the root, under a and under a/b; f.c is denylisted (so its default is never
   recorded, yet f receives it); one call supplies d itself, one passes a positionally, one supplies g.y *)
Example replay_sequence_example :
  let sgf := {| s_args := ["a"; "b"; "c"; "d"]; s_defaults := [VInt 10; VInt 20; VInt 30];
                s_varargs := false; s_kwonly := []; s_varkw := false |} in
  let sgg := {| s_args := ["x"]; s_defaults := []; s_varargs := false; s_kwonly := [("y", Some (VInt 5))]; s_varkw := false |} in
  let pf := {| c_sel := "m.f"; c_kind := KProbe; c_sig := sgf; c_allow := []; c_deny := ["c"]; c_method := false |} in
  let pg := {| c_sel := "m.g"; c_kind := KProbe; c_sig := sgg; c_allow := []; c_deny := []; c_method := false |} in
  let cfg := [(("", "m.f"), [("a", VInt 1)]); (("a", "m.f"), [("b", VInt 2)]); (("a/b", "m.f"), [("a", VInt 3)]);
              (("a", "m.g"), [("x", VInt 7)])] in
  let cs := [([], pf, [], []); (["a"], pf, [], [("d", VInt 99)]); (["a"; "b"], pf, [VInt 0], []);
             (["a"; "b"], pf, [], []); (["a"], pg, [], []); (["a"; "b"], pg, [], [("y", VInt 6)])] in
  recorded cfg cs =
    [(("", "m.f"), [("b", VInt 10); ("d", VInt 30); ("a", VInt 1)]);
     (("a", "m.f"), [("b", VInt 2); ("a", VInt 1)]);
     (("a/b", "m.f"), [("b", VInt 2); ("d", VInt 30); ("a", VInt 3)]);
     (("a", "m.g"), [("y", VInt 5); ("x", VInt 7)]);
     (("a/b", "m.g"), [("x", VInt 7)])] /\
  map (replay_env (recorded cfg cs)) cs = map (replay_env cfg) cs /\
  map (replay_env cfg) cs =
    [Some ([], Some [("a", VInt 1); ("b", VInt 10); ("c", VInt 20); ("d", VInt 30)]);
     Some ([], Some [("a", VInt 1); ("b", VInt 2); ("c", VInt 20); ("d", VInt 99)]);
     Some ([VInt 0], Some [("a", VInt 0); ("b", VInt 2); ("c", VInt 20); ("d", VInt 30)]);
     Some ([], Some [("a", VInt 3); ("b", VInt 2); ("c", VInt 20); ("d", VInt 30)]);
     Some ([], Some [("x", VInt 7); ("y", VInt 5)]);
     Some ([], Some [("x", VInt 7); ("y", VInt 6)])] /\
  recorded (recorded cfg cs) cs = recorded cfg cs.
Proof. vm_compute. repeat split; reflexivity. Qed.

(* with **kwargs the ORDER of the extra keywords can change: the first call supplies k1 itself, so the section
   starts with k2; the second call is replayed with the extras in the order k2, k1 instead of k1, k2.  The two
   dicts hold the same entries; only exact (ordered) equality of the environment fails. *)
Example replay_sequence_varkw_order :
  let sgh := {| s_args := []; s_defaults := []; s_varargs := false; s_kwonly := []; s_varkw := true |} in
  let ph := {| c_sel := "m.h"; c_kind := KProbe; c_sig := sgh; c_allow := []; c_deny := []; c_method := false |} in
  let cfg := [(("", "m.h"), [("k1", VInt 1); ("k2", VInt 2)])] in
  let cs := [([], ph, [], [("k1", VInt 0)]); ([], ph, [], [])] in
  recorded cfg cs = [(("", "m.h"), [("k2", VInt 2); ("k1", VInt 1)])] /\
  replay_env cfg ([], ph, [], []) = Some ([], Some [("**", VDict [(VStr "k1", VInt 1); (VStr "k2", VInt 2)])]) /\
  replay_env (recorded cfg cs) ([], ph, [], []) = Some ([], Some [("**", VDict [(VStr "k2", VInt 2); (VStr "k1", VInt 1)])]).
Proof. vm_compute. repeat split; reflexivity. Qed.

Print Assumptions C07_replay_store_lookup.
Print Assumptions C07_replay_sequence_merge.
Print Assumptions C07_replay_sequence.
Print Assumptions C07_replay_sequence_varkw.
Print Assumptions C07_replay_sequence_call_tail.
Print Assumptions C07_record_reproduces_sequence.
Print Assumptions recorded_has_section_iff.
Print Assumptions scope_valid_scope_ok.
Print Assumptions replay_sequence_example.
Print Assumptions replay_sequence_varkw_order.
