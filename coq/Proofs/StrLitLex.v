(* Connection of Model/StrLit.v with the tokenizer model (Model/Lexer.v, printable-ASCII texts): the text repr writes
   for an ASCII str, alone on a line, is lexed as ONE STRING token with that text, the NEWLINE, the end marker;
   the text of a non-negative int as ONE NUMBER token. *)
From Coq Require Import List String Ascii NArith ZArith Bool Arith Lia.
From GinV Require Import Lib.Out Lib.PyStr Model.Parser Model.ParserSpec Model.Repr Model.Lexer Model.ReprText Model.StrLit.
From GinV Require Import Proofs.ParserLemmas Proofs.LexerProofs Proofs.ReprTextProofs Proofs.StrLitProofs.
Import ListNotations.
Open Scope list_scope.
Open Scope nat_scope.

(* a text of code points below 256 as the lexer's characters / a Coq string *)
Definition to_chars (t : list N) : chars := map ascii_of_N t.
Definition to_string (t : list N) : string := string_of_list_ascii (to_chars t).
Definition atom_token (k : ttype) (t : list N) : token :=
  {| ty := k; text := to_string t; srow := 0; scol := 0; erow := 0; ecol := 0 |}.
Definition str_token (pr : N -> bool) (s : list N) : token := atom_token STRING (py_repr_str pr s).
Definition int_token (z : Z) : token := atom_token NUMBER (py_repr_int z).

Lemma a_eqb : forall x y, (x < 256)%N -> (y < 256)%N -> Ascii.eqb (ascii_of_N x) (ascii_of_N y) = (x =? y)%N.
Proof.
  intros x y Hx Hy. destruct (N.eqb_spec x y) as [->|Hne]; [apply Ascii.eqb_refl|].
  apply Ascii.eqb_neq. intro E. apply Hne.
  rewrite <- (N_ascii_embedding x Hx), <- (N_ascii_embedding y Hy), E. reflexivity.
Qed.

(* the lexer's scan of a one-line string body is [body1] *)
Definition scan_of (q : N) (r : option (list N * list N)) : scan :=
  match r with Some (b, rest) => Some (to_chars (b ++ [q]), to_chars rest) | None => None end.
Lemma str1_body1_len : forall n q l, (q < 256)%N -> Forall (fun c => (c < 256)%N) l -> List.length l <= n ->
  str1 (ascii_of_N q) (to_chars l) = scan_of q (body1 q l).
Proof.
  induction n as [n IH] using lt_wf_ind. intros q l Hq Hl Hn.
  destruct l as [|c r]; [reflexivity|]. cbn [to_chars map str1 body1].
  pose proof (Forall_inv Hl) as Hc. pose proof (Forall_inv_tail Hl) as Hr.
  change nl with (ascii_of_N 10). change "\"%char with (ascii_of_N 92).
  rewrite (a_eqb c 10 Hc ltac:(lia)), (a_eqb c q Hc Hq), (a_eqb c 92 Hc ltac:(lia)).
  change (c =? LF)%N with (c =? 10)%N. change (c =? BS)%N with (c =? 92)%N.
  destruct (c =? 10)%N; [reflexivity|]. destruct (c =? q)%N eqn:Eq.
  { apply N.eqb_eq in Eq. subst c. reflexivity. }
  destruct (c =? 92)%N.
  - destruct r as [|d r']; [reflexivity|]. cbn [map].
    cbn [List.length] in Hn. fold (to_chars r').
    rewrite (IH (List.length r') ltac:(lia) q r' Hq (Forall_inv_tail Hr) (le_n _)).
    destruct (body1 q r') as [[b rest]|]; reflexivity.
  - cbn [List.length] in Hn. fold (to_chars r).
    rewrite (IH (List.length r) ltac:(lia) q r Hq Hr (le_n _)).
    destruct (body1 q r) as [[b rest]|]; reflexivity.
Qed.
Lemma str1_body1 : forall q l, (q < 256)%N -> Forall (fun c => (c < 256)%N) l ->
  str1 (ascii_of_N q) (to_chars l) = scan_of q (body1 q l).
Proof. intros q l Hq Hl. exact (str1_body1_len (List.length l) q l Hq Hl (le_n _)). Qed.

Lemma low_256 : forall l, Forall low l -> Forall (fun c => (c < 256)%N) l.
Proof. intros l H. eapply Forall_impl; [|exact H]. intros c [_ Hc]. lia. Qed.

(* a text  q body q  with the properties of repr_str_quote_closed is scanned as one string lexeme *)
Lemma scan_string_closed : forall q body, is_quote_n q = true -> Forall (fun c => (c < 256)%N) body ->
  (body = [] \/ exists x r, body = x :: r /\ x <> q) ->
  (forall rest, body1 q (body ++ q :: rest) = Some (body, rest)) ->
  scan_string (to_chars (q :: body ++ [q]) ++ [nl]) = Some (to_chars (q :: body ++ [q]), [nl]).
Proof.
  intros q body Hq Hb Hh Hbody.
  assert (Hq256 : (q < 256)%N) by (destruct (quote_cases q Hq) as [-> | ->]; unfold SQ, DQ; lia).
  assert (Hs : str1 (ascii_of_N q) (to_chars (body ++ [q]) ++ [nl]) = Some (to_chars (body ++ [q]), [nl])).
  { change [nl] with (to_chars [10%N]). unfold to_chars at 1 2. rewrite <- map_app. fold (to_chars ((body ++ [q]) ++ [10%N])).
    rewrite <- app_assoc. cbn [app]. rewrite str1_body1; [|exact Hq256|].
    - rewrite (Hbody [10%N]). reflexivity.
    - apply Forall_app. split; [exact Hb|]. constructor; [exact Hq256|]. constructor; [lia | constructor]. }
  cbn [to_chars map app]. fold (to_chars (body ++ [q])).
  unfold scan_string.
  assert (Hsingle : pre [ascii_of_N q] (str1 (ascii_of_N q) (to_chars (body ++ [q]) ++ [nl])) =
                    Some (ascii_of_N q :: to_chars (body ++ [q]), [nl])) by (rewrite Hs; reflexivity).
  destruct Hh as [-> | [x [r [-> Hx]]]].
  - cbn [app to_chars map]. cbn [app to_chars map] in Hsingle. change nl with (ascii_of_N 10).
    rewrite (a_eqb 10 q ltac:(lia) Hq256).
    assert (E : (10 =? q)%N = false) by (destruct (quote_cases q Hq) as [-> | ->]; reflexivity).
    rewrite E, andb_false_r. exact Hsingle.
  - assert (Hx256 : (x < 256)%N) by exact (Forall_inv Hb).
    cbn [app to_chars map]. cbn [app to_chars map] in Hsingle.
    assert (E : Ascii.eqb (ascii_of_N x) (ascii_of_N q) = false) by (rewrite (a_eqb x q Hx256 Hq256); apply N.eqb_neq; exact Hx).
    destruct (map ascii_of_N (r ++ [q]) ++ [nl]) as [|y rest'] eqn:Er.
    + destruct r; discriminate Er.
    + rewrite E. cbn [andb]. exact Hsingle.
Qed.

Lemma chars_of_string : forall t, list_ascii_of_string (to_string t) = to_chars t.
Proof. intro t. unfold to_string. apply list_ascii_of_string_of_list_ascii. Qed.

Theorem repr_str_atom_scans : forall pr s, Forall (fun c => (c < 128)%N) s -> atom_scans (str_token pr s).
Proof.
  intros pr s Hs.
  assert (Hb : Forall (fun c => (c <= 0x10FFFF)%N) s) by (eapply Forall_impl; [|exact Hs]; intros c Hc; cbv beta in Hc; lia).
  assert (Hp : Forall (fun c => (c < 128)%N \/ pr c = false) s) by (eapply Forall_impl; [|exact Hs]; intros c Hc; left; exact Hc).
  pose proof (low_256 _ (repr_str_low pr s Hb Hp)) as H256.
  destruct (repr_str_quote_closed pr s Hb) as [q [body [E [Hq [_ [Hh Hbody]]]]]].
  unfold atom_scans, str_token, atom_token. cbn [text ty]. rewrite chars_of_string, E. rewrite E in H256.
  assert (Hb256 : Forall (fun c => (c < 256)%N) body).
  { apply Forall_inv_tail in H256. apply Forall_app in H256. exact (proj1 H256). }
  pose proof (scan_string_closed q body Hq Hb256 Hh Hbody) as Hscan.
  exists (ascii_of_N q), (to_chars (body ++ [q])). split; [reflexivity|].
  cbn [to_chars map app] in Hscan. fold (to_chars (body ++ [q])) in Hscan.
  destruct (quote_cases q Hq) as [-> | ->].
  - split; [reflexivity|]. change (ascii_of_N SQ) with "'"%char in *. unfold scan_atom.
    change (is_alpha_ "'") with false. change (is_digit "'") with false. change (Ascii.eqb "'" ".") with false.
    cbn [orb andb]. cbv iota. rewrite Hscan. reflexivity.
  - split; [reflexivity|]. change (ascii_of_N DQ) with """"%char in *. unfold scan_atom.
    change (is_alpha_ """") with false. change (is_digit """") with false. change (Ascii.eqb """" ".") with false.
    cbn [orb andb]. cbv iota. rewrite Hscan. reflexivity.
Qed.

(* from "scans as one atom" to the token list of the whole text *)
Lemma atom_scans_lex_raw : forall t, atom_scans t ->
  exists t' n e, lex_raw (text t) = [t'; n; e] /\ ty t' = ty t /\ text t' = text t /\
                 ty n = NEWLINE /\ text n = EmptyString /\ ty e = ENDMARKER /\ text e = EmptyString.
Proof.
  intros t Ht.
  destruct (lex_chars_value (PStr t) (Forall_cons _ Ht (Forall_nil _)) (Nat.le_0_l _))
    as [toks [n [e [E [Sp [H1 [H2 [H3 H4]]]]]]]].
  cbn [repr_chars repr_toks] in E, Sp. unfold spell in Sp. cbn [map] in Sp.
  destruct toks as [|t' [|x r]]; try discriminate Sp. cbn [map] in Sp. unfold tk in Sp.
  assert (S1 : ty t' = ty t) by congruence. assert (S2 : text t' = text t) by congruence.
  exists t', n, e. unfold lex_raw. fold (cs (text t)). rewrite E. repeat split; assumption.
Qed.

Lemma low_char_ok : forall l, Forall low l -> forallb char_ok (to_chars l) = true.
Proof.
  intros l H. induction H as [|c l [A B] Hl IH]; [reflexivity|]. cbn [to_chars map forallb]. fold (to_chars l). rewrite IH, andb_true_r.
  unfold char_ok, nat_of_ascii. rewrite N_ascii_embedding by lia.
  apply orb_true_iff. right. apply andb_true_iff. split; apply Nat.leb_le; lia.
Qed.

Lemma atom_scans_lexable_b : forall t, atom_scans t -> in_types (ty t) [NAME; NUMBER; STRING] = true ->
  supported (text t) = true -> atom_lexable_b t = true.
Proof.
  intros t Ht Hty Hs. destruct (atom_scans_lex_raw t Ht) as [t' [n [e [E [E1 [E2 _]]]]]].
  unfold atom_lexable_b, lex. rewrite Hty, Hs, E, E1, E2, String.eqb_refl.
  destruct (ty t); reflexivity.
Qed.

Theorem repr_str_lexes : forall pr s, Forall (fun c => (c < 128)%N) s ->
  exists t' n e, lex_raw (to_string (py_repr_str pr s)) = [t'; n; e] /\ ty t' = STRING /\
                 text t' = to_string (py_repr_str pr s) /\
                 ty n = NEWLINE /\ text n = EmptyString /\ ty e = ENDMARKER /\ text e = EmptyString.
Proof. intros pr s H. exact (atom_scans_lex_raw (str_token pr s) (repr_str_atom_scans pr s H)). Qed.

(* the lexer model refuses (conservatively) every text in which an f-string prefix -- f, fr, rf in front of a quote --
   stands where a token may start, also inside a string: the repr of the one-letter string f is such a text.
   Hence the hypothesis [no_fquote]. *)
Theorem repr_str_atom_lexable : forall pr s, Forall (fun c => (c < 128)%N) s ->
  no_fquote (to_chars (py_repr_str pr s)) = true -> atom_lexable_b (str_token pr s) = true.
Proof.
  intros pr s Hs Hf. apply atom_scans_lexable_b; [exact (repr_str_atom_scans pr s Hs) | reflexivity|].
  unfold str_token, atom_token. cbn [text]. unfold supported, supported_chars. rewrite chars_of_string, Hf, andb_true_r.
  apply low_char_ok. apply repr_str_low.
  - eapply Forall_impl; [|exact Hs]. intros c Hc. cbv beta in Hc. lia.
  - eapply Forall_impl; [|exact Hs]. intros c Hc. left. exact Hc.
Qed.
Example repr_str_atom_lexable_refuted :
  to_string (py_repr_str (fun _ => false) [102%N]) = "'f'"%string /\
  atom_lexable_b (str_token (fun _ => false) [102%N]) = false /\
  (exists t' n e, lex_raw "'f'" = [t'; n; e] /\ ty t' = STRING /\ text t' = "'f'"%string).
Proof. split; [reflexivity|]. split; [vm_compute; reflexivity|]. vm_compute. eexists _, _, _. repeat split. Qed.

(* ---- int ---- *)
Lemma decc_cases : forall x, decc x -> In x [48; 49; 50; 51; 52; 53; 54; 55; 56; 57]%N.
Proof.
  intros x [A B]. cbn [In].
  destruct (N.eq_dec x 48) as [->|N0]; [tauto|]. destruct (N.eq_dec x 49) as [->|N1]; [tauto|].
  destruct (N.eq_dec x 50) as [->|N2]; [tauto|]. destruct (N.eq_dec x 51) as [->|N3]; [tauto|].
  destruct (N.eq_dec x 52) as [->|N4]; [tauto|]. destruct (N.eq_dec x 53) as [->|N5]; [tauto|].
  destruct (N.eq_dec x 54) as [->|N6]; [tauto|]. destruct (N.eq_dec x 55) as [->|N7]; [tauto|].
  destruct (N.eq_dec x 56) as [->|N8]; [tauto|]. destruct (N.eq_dec x 57) as [->|N9]; [tauto|]. lia.
Qed.
Ltac digit_cases H :=
  apply decc_cases in H; cbn [In] in H;
  repeat (let E := fresh "E" in destruct H as [E|H]; [subst|]); [..|contradiction].

Lemma is_digit_a : forall x, decc x -> is_digit (ascii_of_N x) = true.
Proof. intros x H. digit_cases H; reflexivity. Qed.
Lemma number_head : forall x l, decc x -> x <> 48%N ->
  atom_start (ascii_of_N x) l = true /\
  scan_atom (ascii_of_N x :: l) = (NUMBER, pre [ascii_of_N x] (andthen (digits_tail is_digit l) after_int)).
Proof. intros x l H H0. digit_cases H; try (exfalso; apply H0; reflexivity); split; reflexivity. Qed.
Lemma digits_tail_digits : forall r, Forall decc r ->
  digits_tail is_digit (to_chars r ++ [nl]) = Some (to_chars r, [nl]).
Proof.
  intros r H. induction H as [|c r Hc Hr IH]; [reflexivity|]. cbn [to_chars map app digits_tail]. fold (to_chars r).
  rewrite (is_digit_a c Hc), IH. reflexivity.
Qed.

Theorem repr_int_atom_scans : forall z, (0 <= z)%Z -> atom_scans (int_token z).
Proof.
  intros z Hz. unfold atom_scans, int_token, atom_token. cbn [text ty]. rewrite chars_of_string.
  assert (E : py_repr_int z = py_repr_nat (Z.to_N z)) by (destruct z; [reflexivity | reflexivity | lia]).
  rewrite E. destruct (N.eq_0_gt_0_cases (Z.to_N z)) as [-> | Hn].
  - exists "0"%char, []. repeat split; reflexivity.
  - destruct (nat_text_shape _ Hn) as [c [r [Ec [H0 [_ [Hall _]]]]]]. rewrite Ec.
    pose proof (Forall_inv Hall) as Hc. pose proof (Forall_inv_tail Hall) as Hr.
    apply N.eqb_neq in H0.
    exists (ascii_of_N c), (to_chars r). split; [reflexivity|].
    destruct (number_head c (to_chars r ++ [nl]) Hc H0) as [A B]. split; [exact A|].
    rewrite B, (digits_tail_digits r Hr). cbn [andthen].
    change (after_int [nl]) with (Some (@nil ascii, [nl])). cbn [pre]. rewrite app_nil_r. reflexivity.
Qed.

Lemma no_fprefix_digits : forall r st, Forall decc r -> no_fprefix st (to_chars r) = true.
Proof.
  intros r st H. revert st. induction H as [|c r Hc Hr IH]; intro st; [reflexivity|].
  cbn [to_chars map no_fprefix]. fold (to_chars r). rewrite IH, andb_true_r.
  assert (F : fprefix_here (ascii_of_N c :: to_chars r) = false).
  { unfold fprefix_here. destruct (to_chars r) as [|b r']; [reflexivity|]. digit_cases Hc; reflexivity. }
  rewrite F. destruct st; reflexivity.
Qed.

Theorem repr_int_atom_lexable : forall z, (0 <= z)%Z -> atom_lexable_b (int_token z) = true.
Proof.
  intros z Hz. apply atom_scans_lexable_b; [exact (repr_int_atom_scans z Hz) | reflexivity|].
  unfold int_token, atom_token. cbn [text]. unfold supported, supported_chars. rewrite chars_of_string.
  pose proof (int_repr_digits z Hz) as Hd. apply andb_true_iff. split.
  - apply low_char_ok. eapply Forall_impl; [|exact Hd]. intros c [A B]. unfold low. lia.
  - exact (no_fprefix_digits _ FBound Hd).
Qed.
Theorem repr_int_lexes : forall z, (0 <= z)%Z ->
  exists t' n e, lex (to_string (py_repr_int z)) = Some [t'; n; e] /\ ty t' = NUMBER /\ text t' = to_string (py_repr_int z) /\
                 ty n = NEWLINE /\ text n = EmptyString /\ ty e = ENDMARKER /\ text e = EmptyString.
Proof.
  intros z Hz. destruct (atom_scans_lex_raw (int_token z) (repr_int_atom_scans z Hz)) as [t' [n [e [E R]]]].
  exists t', n, e. split; [|exact R].
  pose proof (repr_int_atom_lexable z Hz) as Hb. unfold atom_lexable_b in Hb. apply andb_true_iff in Hb. destruct Hb as [_ Hb].
  unfold lex in *. destruct (supported (text (int_token z))) eqn:Es; [|discriminate Hb].
  cbn [int_token atom_token text] in *. rewrite Es, E. reflexivity.
Qed.
