(* Proofs about Model/StrLit.v: the text repr writes for a str / bytes / int means that value again
   (ast.literal_eval), is one line, is closed by its quote; adjacent literals concatenate. *)
From Coq Require Import List NArith ZArith Bool Lia.
From GinV Require Import Model.StrLit.
Import ListNotations.
Open Scope N_scope.

(* ================================================================== *)
(* 1. digits *)

Ltac small_cases d :=
  let p := fresh "p" in
  destruct d as [|p]; [|do 5 (try destruct p as [p|p|])]; try (exfalso; lia).

Lemma hex_digit_roundtrip : forall d, d < 16 -> hex_val (hex_char d) = Some d.
Proof. intros d H. small_cases d; reflexivity. Qed.

Lemma hex_char_range : forall d, d < 16 ->
  (48 <= hex_char d /\ hex_char d <= 57) \/ (97 <= hex_char d /\ hex_char d <= 102).
Proof.
  intros d H. unfold hex_char. destruct (d <? 10) eqn:E; [apply N.ltb_lt in E | apply N.ltb_ge in E]; lia.
Qed.

Lemma div_lt : forall v a b, b <> 0 -> v < a * b -> v / b < a.
Proof. intros v a b Hb H. apply N.div_lt_upper_bound; [exact Hb | lia]. Qed.

Lemma hex2_value : forall v acc l, v < 256 -> hex_value acc (hex2 v ++ l) = hex_value (256 * acc + v) l.
Proof.
  intros v acc l H. unfold hex2. cbn [app hex_value].
  assert (H1 : v / 16 < 16) by (apply div_lt; lia).
  assert (H2 : v mod 16 < 16) by (apply N.mod_lt; lia).
  rewrite (hex_digit_roundtrip _ H1), (hex_digit_roundtrip _ H2).
  pose proof (N.div_mod v 16 ltac:(lia)) as E.
  f_equal. lia.
Qed.
Lemma hex4_value : forall v acc l, v < 65536 -> hex_value acc (hex4 v ++ l) = hex_value (65536 * acc + v) l.
Proof.
  intros v acc l H. unfold hex4. rewrite <- app_assoc.
  assert (H1 : v / 256 < 256) by (apply div_lt; lia).
  assert (H2 : v mod 256 < 256) by (apply N.mod_lt; lia).
  rewrite (hex2_value _ _ _ H1), (hex2_value _ _ _ H2).
  pose proof (N.div_mod v 256 ltac:(lia)) as E.
  f_equal. lia.
Qed.
Lemma hex8_value : forall v acc l, v < 4294967296 -> hex_value acc (hex8 v ++ l) = hex_value (4294967296 * acc + v) l.
Proof.
  intros v acc l H. unfold hex8. rewrite <- app_assoc.
  assert (H1 : v / 65536 < 65536) by (apply div_lt; lia).
  assert (H2 : v mod 65536 < 65536) by (apply N.mod_lt; lia).
  rewrite (hex4_value _ _ _ H1), (hex4_value _ _ _ H2).
  pose proof (N.div_mod v 65536 ltac:(lia)) as E.
  f_equal. lia.
Qed.
Lemma hex2_roundtrip : forall v, v < 256 -> hex_value 0 (hex2 v) = Some v.
Proof. intros v H. rewrite <- (app_nil_r (hex2 v)), (hex2_value _ _ _ H). cbn [hex_value]; f_equal; lia. Qed.
Lemma hex4_roundtrip : forall v, v < 65536 -> hex_value 0 (hex4 v) = Some v.
Proof. intros v H. rewrite <- (app_nil_r (hex4 v)), (hex4_value _ _ _ H). cbn [hex_value]; f_equal; lia. Qed.
Lemma hex8_roundtrip : forall v, v < 4294967296 -> hex_value 0 (hex8 v) = Some v.
Proof. intros v H. rewrite <- (app_nil_r (hex8 v)), (hex8_value _ _ _ H). cbn [hex_value]; f_equal; lia. Qed.

(* the characters repr writes behind a backslash, and the hex digits: harmless everywhere *)
Definition inert (c : N) : Prop := 48 <= c /\ c <= 122 /\ c <> BS.
Lemma hex_char_inert : forall d, d < 16 -> inert (hex_char d).
Proof. intros d H. destruct (hex_char_range d H) as [[A B]|[A B]]; unfold inert, BS; lia. Qed.
Lemma hex2_inert : forall v, v < 256 -> Forall inert (hex2 v).
Proof.
  intros v H. unfold hex2. constructor; [|constructor; [|constructor]]; apply hex_char_inert; [apply div_lt; lia | apply N.mod_lt; lia].
Qed.
Lemma hex4_inert : forall v, v < 65536 -> Forall inert (hex4 v).
Proof.
  intros v H. unfold hex4. apply Forall_app. split; apply hex2_inert; [apply div_lt; lia | apply N.mod_lt; lia].
Qed.
Lemma hex8_inert : forall v, v < 4294967296 -> Forall inert (hex8 v).
Proof.
  intros v H. unfold hex8. apply Forall_app. split; apply hex4_inert; [apply div_lt; lia | apply N.mod_lt; lia].
Qed.

(* ================================================================== *)
(* 2. what repr writes for one character *)

Definition simple_esc (q d c : N) : Prop :=
  (d = c /\ (c = q \/ c = BS)) \/ (d = 116 /\ c = 9) \/ (d = 110 /\ c = 10) \/ (d = 114 /\ c = 13).

(* [wide]: a str (the escapes \u and \U exist); [pr]: the printable function *)
Inductive piece_view (pr : N -> bool) (wide : bool) (q c : N) : list N -> Prop :=
| PV_raw : c <> q -> c <> BS -> 32 <= c -> c <> 127 -> (c < 127 \/ (wide = true /\ pr c = true)) -> piece_view pr wide q c [c]
| PV_simple : forall d, simple_esc q d c -> piece_view pr wide q c [BS; d]
| PV_x : c < 256 -> (c < 32 \/ 127 <= c) -> (wide = true -> 127 < c -> pr c = false) -> piece_view pr wide q c (BS :: 120 :: hex2 c)
| PV_u : wide = true -> c < 65536 -> 127 < c -> pr c = false -> piece_view pr wide q c (BS :: 117 :: hex4 c)
| PV_U : wide = true -> c <= 0x10FFFF -> 127 < c -> pr c = false -> piece_view pr wide q c (BS :: 85 :: hex8 c).

Ltac ntest H := first [apply N.eqb_eq in H | apply N.eqb_neq in H | apply N.ltb_lt in H | apply N.ltb_ge in H
                       | apply N.leb_le in H | apply N.leb_gt in H].

Lemma repr_str_char_view : forall pr q c, c <= 0x10FFFF -> piece_view pr true q c (repr_str_char pr q c).
Proof.
  intros pr q c Hc. unfold repr_str_char.
  destruct (c =? q) eqn:E1; [ntest E1; apply PV_simple; left; auto|]. ntest E1.
  destruct (c =? BS) eqn:E2; [ntest E2; apply PV_simple; left; auto|]. ntest E2. cbn [orb].
  destruct (c =? 9) eqn:E3; [ntest E3; apply PV_simple; right; left; auto|]. ntest E3.
  destruct (c =? 10) eqn:E4; [ntest E4; apply PV_simple; right; right; left; auto|]. ntest E4.
  destruct (c =? 13) eqn:E5; [ntest E5; apply PV_simple; right; right; right; auto|]. ntest E5.
  destruct (c <? 32) eqn:E6; [ntest E6; apply PV_x; [lia | lia | intros _ Hx; lia]|]. ntest E6. cbn [orb].
  destruct (c =? 127) eqn:E7; [ntest E7; apply PV_x; [lia | lia | intros _ Hx; lia]|]. ntest E7.
  destruct (c <? 127) eqn:E8; [ntest E8; apply PV_raw; auto|]. ntest E8.
  destruct (pr c) eqn:E9; [apply PV_raw; auto|].
  destruct (c <=? 255) eqn:E10; [ntest E10; apply PV_x; [lia | lia | auto]|]. ntest E10.
  destruct (c <=? 65535) eqn:E11; [ntest E11; apply PV_u; auto; lia|]. ntest E11.
  apply PV_U; auto; lia.
Qed.

Lemma repr_bytes_char_view : forall pr q c, c <= 255 -> piece_view pr false q c (repr_bytes_char q c).
Proof.
  intros pr q c Hc. unfold repr_bytes_char.
  destruct (c =? q) eqn:E1; [ntest E1; apply PV_simple; left; auto|]. ntest E1.
  destruct (c =? BS) eqn:E2; [ntest E2; apply PV_simple; left; auto|]. ntest E2. cbn [orb].
  destruct (c =? 9) eqn:E3; [ntest E3; apply PV_simple; right; left; auto|]. ntest E3.
  destruct (c =? 10) eqn:E4; [ntest E4; apply PV_simple; right; right; left; auto|]. ntest E4.
  destruct (c =? 13) eqn:E5; [ntest E5; apply PV_simple; right; right; right; auto|]. ntest E5.
  destruct (c <? 32) eqn:E6; [ntest E6; apply PV_x; [lia | lia | intro; discriminate]|]. ntest E6. cbn [orb].
  destruct (127 <=? c) eqn:E7; [ntest E7; apply PV_x; [lia | lia | intro; discriminate]|]. ntest E7.
  apply PV_raw; auto; lia.
Qed.

(* the shape of a piece: one raw character, or a backslash, a harmless character, harmless characters *)
Definition raw_piece (q : N) (p : list N) : Prop :=
  exists c, p = [c] /\ c <> q /\ c <> BS /\ 32 <= c.
Definition esc_piece (q : N) (p : list N) : Prop :=
  exists d tail, p = BS :: d :: tail /\ (inert d \/ d = q \/ d = BS) /\ Forall inert tail.

Lemma quote_cases : forall q, is_quote_n q = true -> q = SQ \/ q = DQ.
Proof.
  intros q H. unfold is_quote_n in H. apply orb_true_iff in H. destruct H as [H|H]; ntest H; auto.
Qed.

Lemma piece_shape : forall pr wide q c p, piece_view pr wide q c p -> raw_piece q p \/ esc_piece q p.
Proof.
  intros pr wide q c p H. destruct H as [H1 H2 H3 H4 H5 | d Hd | H1 H2 H3 | Hw H1 H2 H3 | Hw H1 H2 H3].
  - left. exists c. auto.
  - right. exists d, []. split; [reflexivity|]. split; [|constructor].
    destruct Hd as [[-> [->| ->]]|[[-> _]|[[-> _]|[-> _]]]]; auto; left; unfold inert, BS; lia.
  - right. exists 120, (hex2 c). split; [reflexivity|]. split; [left; unfold inert, BS; lia | apply hex2_inert; exact H1].
  - right. exists 117, (hex4 c). split; [reflexivity|]. split; [left; unfold inert, BS; lia | apply hex4_inert; exact H1].
  - right. exists 85, (hex8 c). split; [reflexivity|]. split; [left; unfold inert, BS; lia | apply hex8_inert; lia].
Qed.

(* ================================================================== *)
(* 3. the decoder on one piece *)

Lemma unescape_raw : forall b c r, c <> BS -> unescape b (c :: r) = option_map (cons c) (unescape b r).
Proof.
  intros b c r H. cbn [unescape]. destruct (c =? BS) eqn:E; [ntest E; contradiction | reflexivity].
Qed.
Lemma unescape_simple : forall b q d c r, is_quote_n q = true -> simple_esc q d c ->
  unescape b (BS :: d :: r) = option_map (cons c) (unescape b r).
Proof.
  intros b q d c r Hq Hd. destruct (quote_cases q Hq) as [-> | ->];
    destruct Hd as [[-> [->| ->]]|[[-> ->]|[[-> ->]|[-> ->]]]]; reflexivity.
Qed.
Lemma unescape_x : forall b h1 h2 r,
  unescape b (BS :: 120 :: h1 :: h2 :: r) =
  match hex_value 0 [h1; h2] with Some v => option_map (cons v) (unescape b r) | None => None end.
Proof. reflexivity. Qed.
Lemma unescape_u : forall h1 h2 h3 h4 r,
  unescape false (BS :: 117 :: h1 :: h2 :: h3 :: h4 :: r) =
  match hex_value 0 [h1; h2; h3; h4] with Some v => option_map (cons v) (unescape false r) | None => None end.
Proof. reflexivity. Qed.
Lemma unescape_U : forall h1 h2 h3 h4 h5 h6 h7 h8 r,
  unescape false (BS :: 85 :: h1 :: h2 :: h3 :: h4 :: h5 :: h6 :: h7 :: h8 :: r) =
  match hex_value 0 [h1; h2; h3; h4; h5; h6; h7; h8] with
  | Some v => if v <=? 0x10FFFF then option_map (cons v) (unescape false r) else None
  | None => None
  end.
Proof. reflexivity. Qed.

Lemma unescape_piece : forall pr wide q c p r, is_quote_n q = true -> piece_view pr wide q c p ->
  unescape (negb wide) (p ++ r) = option_map (cons c) (unescape (negb wide) r).
Proof.
  intros pr wide q c p r Hq H. destruct H as [H1 H2 H3 H4 H5 | d Hd | H1 H2 H3 | Hw H1 H2 H3 | Hw H1 H2 H3].
  - cbn [app]. apply unescape_raw. exact H2.
  - cbn [app]. exact (unescape_simple _ q d c r Hq Hd).
  - unfold hex2. cbn [app]. rewrite unescape_x.
    change [hex_char (c / 16); hex_char (c mod 16)] with (hex2 c). rewrite (hex2_roundtrip c H1). reflexivity.
  - subst wide. unfold hex4, hex2. cbn [app negb]. rewrite unescape_u.
    change [hex_char (c / 256 / 16); hex_char ((c / 256) mod 16); hex_char (c mod 256 / 16); hex_char ((c mod 256) mod 16)]
      with (hex4 c).
    rewrite (hex4_roundtrip c H1). reflexivity.
  - subst wide. unfold hex8, hex4, hex2. cbn [app negb]. rewrite unescape_U.
    match goal with |- context [hex_value 0 ?l] => change l with (hex8 c) end.
    rewrite (hex8_roundtrip c ltac:(lia)).
    destruct (c <=? 1114111) eqn:E; [reflexivity | ntest E; lia].
Qed.

(* the extent of the body *)
Lemma pre_body_app : forall a b x, pre_body a (pre_body b x) = pre_body (a ++ b) x.
Proof. intros a b [[y rest]|]; cbn [pre_body]; [rewrite app_assoc|]; reflexivity. Qed.
Lemma body1_raw : forall q c r, c <> LF -> c <> q -> c <> BS -> body1 q (c :: r) = pre_body [c] (body1 q r).
Proof.
  intros q c r H1 H2 H3. cbn [body1].
  destruct (c =? LF) eqn:E1; [ntest E1; contradiction|].
  destruct (c =? q) eqn:E2; [ntest E2; contradiction|].
  destruct (c =? BS) eqn:E3; [ntest E3; contradiction|]. reflexivity.
Qed.
Lemma body1_esc : forall q d r, is_quote_n q = true -> body1 q (BS :: d :: r) = pre_body [BS; d] (body1 q r).
Proof. intros q d r Hq. destruct (quote_cases q Hq) as [-> | ->]; reflexivity. Qed.
Lemma inert_not : forall q c, is_quote_n q = true -> inert c -> c <> LF /\ c <> CR /\ c <> q /\ c <> BS /\ 32 <= c /\ c <= 126.
Proof.
  intros q c Hq [H1 [H2 H3]]. destruct (quote_cases q Hq) as [-> | ->]; unfold LF, CR, SQ, DQ, BS in *; lia.
Qed.
Lemma body1_inert : forall q l r, is_quote_n q = true -> Forall inert l -> body1 q (l ++ r) = pre_body l (body1 q r).
Proof.
  intros q l r Hq H. induction H as [|c l Hc Hl IH]; cbn [app].
  - destruct (body1 q r) as [[y rest]|]; reflexivity.
  - destruct (inert_not q c Hq Hc) as [A [_ [B [C _]]]]. rewrite (body1_raw q c _ A B C), IH.
    rewrite pre_body_app. reflexivity.
Qed.
Lemma body1_piece : forall q p r, is_quote_n q = true -> raw_piece q p \/ esc_piece q p ->
  body1 q (p ++ r) = pre_body p (body1 q r).
Proof.
  intros q p r Hq [[c [-> [H1 [H2 H3]]]] | [d [tail [-> [Hd Ht]]]]]; cbn [app].
  - apply body1_raw; auto. unfold LF. lia.
  - rewrite (body1_esc q d _ Hq), (body1_inert q tail r Hq Ht), pre_body_app. reflexivity.
Qed.
Lemma body1_pieces : forall q (ps : list (list N)) rest, is_quote_n q = true ->
  Forall (fun p => raw_piece q p \/ esc_piece q p) ps ->
  body1 q (concat ps ++ q :: rest) = Some (concat ps, rest).
Proof.
  intros q ps rest Hq H. induction H as [|p ps Hp Hps IH]; cbn [concat app].
  - cbn [body1]. destruct (quote_cases q Hq) as [-> | ->]; reflexivity.
  - rewrite <- app_assoc, (body1_piece q p _ Hq Hp), IH. cbn [pre_body]. reflexivity.
Qed.

(* ================================================================== *)
(* 4. the characters of a piece *)
Definition low (c : N) : Prop := 32 <= c /\ c <= 126.

Lemma esc_piece_low : forall q p, is_quote_n q = true -> esc_piece q p -> Forall low p.
Proof.
  intros q p Hq [d [tail [-> [Hd Ht]]]].
  constructor; [unfold low, BS; lia|]. constructor.
  - destruct Hd as [Hd|[-> | ->]]; [destruct (inert_not q d Hq Hd) as [_ [_ [_ [_ [A B]]]]]; split; assumption | |unfold low, BS; lia].
    destruct (quote_cases q Hq) as [-> | ->]; unfold low, SQ, DQ; lia.
  - eapply Forall_impl; [|exact Ht]. intros c Hc. destruct (inert_not q c Hq Hc) as [_ [_ [_ [_ [A B]]]]]. split; assumption.
Qed.

Lemma piece_shape2 : forall pr wide q c p, piece_view pr wide q c p ->
  (p = [c] /\ c <> q /\ c <> BS /\ 32 <= c /\ c <> 127 /\ (c < 127 \/ (wide = true /\ pr c = true))) \/ esc_piece q p.
Proof.
  intros pr wide q c p H. destruct (piece_shape _ _ _ _ _ H) as [S|S]; [|right; exact S].
  destruct H as [H1 H2 H3 H4 H5 | d Hd | H1 H2 H3 | Hw H1 H2 H3 | Hw H1 H2 H3];
    try (destruct S as [c' [E _]]; discriminate E).
  left. repeat split; assumption.
Qed.

Lemma low_src_ok : forall c, low c -> src_char_ok c = true.
Proof.
  intros c [A B]. unfold src_char_ok, is_surrogate.
  destruct (c =? 0) eqn:E1; [ntest E1; lia|].
  destruct (55296 <=? c) eqn:E2; [ntest E2; lia|].
  destruct (c <=? 1114111) eqn:E3; [reflexivity | ntest E3; lia].
Qed.

Lemma piece_src_ok : forall pr wide q c p, is_quote_n q = true -> piece_view pr wide q c p ->
  c <= 0x10FFFF -> (is_surrogate c = true -> pr c = false) -> Forall (fun x => src_char_ok x = true) p.
Proof.
  intros pr wide q c p Hq H Hc Hs. destruct (piece_shape2 _ _ _ _ _ H) as [[-> [A [B [C [D E]]]]]|S].
  - constructor; [|constructor]. unfold src_char_ok.
    destruct (c =? 0) eqn:E1; [ntest E1; lia|].
    destruct (c <=? 1114111) eqn:E3; [|ntest E3; lia].
    destruct (is_surrogate c) eqn:E2; [|reflexivity]. exfalso.
    destruct E as [E|[_ E]]; [|rewrite (Hs eq_refl) in E; discriminate].
    unfold is_surrogate in E2. apply andb_true_iff in E2. destruct E2 as [E2 _]. ntest E2. lia.
  - eapply Forall_impl; [|exact (esc_piece_low q p Hq S)]. exact low_src_ok.
Qed.

Lemma piece_ge32 : forall pr wide q c p, is_quote_n q = true -> piece_view pr wide q c p -> Forall (fun x => 32 <= x) p.
Proof.
  intros pr wide q c p Hq H. destruct (piece_shape2 _ _ _ _ _ H) as [[-> [A [B [C [D E]]]]]|S].
  - constructor; [exact C | constructor].
  - eapply Forall_impl; [|exact (esc_piece_low q p Hq S)]. intros x [Hx _]. exact Hx.
Qed.

Lemma piece_low : forall pr wide q c p, is_quote_n q = true -> piece_view pr wide q c p ->
  (c < 128 \/ pr c = false) -> Forall low p.
Proof.
  intros pr wide q c p Hq H Hc. destruct (piece_shape2 _ _ _ _ _ H) as [[-> [A [B [C [D E]]]]]|S].
  - constructor; [|constructor]. split; [exact C|].
    destruct E as [E|[_ E]]; [lia|]. destruct Hc as [Hc|Hc]; [lia | rewrite Hc in E; discriminate].
  - exact (esc_piece_low q p Hq S).
Qed.

Lemma piece_head : forall q p, is_quote_n q = true -> raw_piece q p \/ esc_piece q p -> exists x r, p = x :: r /\ x <> q.
Proof.
  intros q p Hq [[c [-> [A _]]]|[d [tail [-> _]]]].
  - exists c, []. auto.
  - exists BS, (d :: tail). split; [reflexivity|]. destruct (quote_cases q Hq) as [-> | ->]; discriminate.
Qed.

(* ================================================================== *)
(* 5. whole literals *)

Lemma pick_quote_is : forall s, is_quote_n (pick_quote s) = true.
Proof. intros s. unfold pick_quote. destruct (existsb (N.eqb SQ) s && negb (existsb (N.eqb DQ) s)); reflexivity. Qed.

Lemma translate_id : forall l, Forall (fun c => c <> CR) l -> translate_newlines l = l.
Proof.
  intros l H. induction H as [|c l Hc Hl IH]; [reflexivity|]. cbn [translate_newlines].
  destruct (c =? CR) eqn:E; [ntest E; contradiction|]. rewrite IH. reflexivity.
Qed.

Lemma Forall_forallb : forall (f : N -> bool) l, Forall (fun x => f x = true) l -> forallb f l = true.
Proof. intros f l H. apply forallb_forall. apply Forall_forall. exact H. Qed.

Lemma Forall_flat_map : forall (A B : Type) (P : B -> Prop) (f : A -> list B) l,
  Forall (fun a => Forall P (f a)) l -> Forall P (flat_map f l).
Proof.
  intros A B P f l H. induction H as [|a l Ha Hl IH]; cbn [flat_map]; [constructor|]. apply Forall_app. split; assumption.
Qed.

Lemma quoted_body_single : forall q body, is_quote_n q = true ->
  (body = [] \/ exists x r, body = x :: r /\ x <> q) ->
  body1 q (body ++ [q]) = Some (body, []) -> quoted_body (q :: body ++ [q]) = Some body.
Proof.
  intros q body Hq Hh Hb. unfold quoted_body. rewrite Hq, Hb.
  destruct Hh as [-> | [x [r [-> Hx]]]]; [reflexivity|].
  apply N.eqb_neq in Hx. destruct r as [|y r]; cbn [app]; rewrite Hx; reflexivity.
Qed.

(* the body of a repr text: pieces *)
Lemma body1_flat : forall (f : N -> list N) q s rest, is_quote_n q = true ->
  Forall (fun c => raw_piece q (f c) \/ esc_piece q (f c)) s ->
  body1 q (flat_map f s ++ q :: rest) = Some (flat_map f s, rest).
Proof.
  intros f q s rest Hq H. rewrite flat_map_concat_map. apply body1_pieces; [exact Hq|].
  apply Forall_map. exact H.
Qed.
Lemma flat_head : forall (f : N -> list N) q s, is_quote_n q = true ->
  Forall (fun c => raw_piece q (f c) \/ esc_piece q (f c)) s ->
  flat_map f s = [] \/ exists x r, flat_map f s = x :: r /\ x <> q.
Proof.
  intros f q s Hq H. destruct H as [|c s Hc Hs]; [left; reflexivity|]. right. cbn [flat_map].
  destruct (piece_head q (f c) Hq Hc) as [x [r [E Hx]]]. rewrite E. exists x, (r ++ flat_map f s). auto.
Qed.
Lemma unescape_flat : forall pr wide (f : N -> list N) q s, is_quote_n q = true ->
  Forall (fun c => piece_view pr wide q c (f c)) s -> unescape (negb wide) (flat_map f s) = Some s.
Proof.
  intros pr wide f q s Hq H. induction H as [|c s Hc Hs IH]; [reflexivity|]. cbn [flat_map].
  rewrite (unescape_piece pr wide q c (f c) _ Hq Hc), IH. reflexivity.
Qed.

(* ---- str ---- *)
Definition str_ok (pr : N -> bool) (s : list N) : Prop :=
  Forall (fun c => c <= 0x10FFFF /\ (is_surrogate c = true -> pr c = false)) s.

Lemma str_views : forall pr s, Forall (fun c => c <= 0x10FFFF) s ->
  Forall (fun c => piece_view pr true (pick_quote s) c (repr_str_char pr (pick_quote s) c)) s.
Proof. intros pr s H. eapply Forall_impl; [|exact H]. intros c Hc. apply repr_str_char_view. exact Hc. Qed.

Lemma str_ok_bound : forall pr s, str_ok pr s -> Forall (fun c => c <= 0x10FFFF) s.
Proof. intros pr s H. eapply Forall_impl; [|exact H]. intros c [Hc _]. exact Hc. Qed.

Lemma views_shapes : forall pr wide q (f : N -> list N) s, Forall (fun c => piece_view pr wide q c (f c)) s ->
  Forall (fun c => raw_piece q (f c) \/ esc_piece q (f c)) s.
Proof. intros pr wide q f s H. eapply Forall_impl; [|exact H]. intros c Hc. exact (piece_shape _ _ _ _ _ Hc). Qed.

Theorem repr_str_ge32 : forall pr s, Forall (fun c => c <= 0x10FFFF) s -> Forall (fun c => 32 <= c) (py_repr_str pr s).
Proof.
  intros pr s H. unfold py_repr_str. pose proof (pick_quote_is s) as Hq. set (q := pick_quote s) in *.
  assert (Hq32 : 32 <= q) by (destruct (quote_cases q Hq) as [E|E]; rewrite E; unfold SQ, DQ; lia).
  constructor; [exact Hq32|]. apply Forall_app. split; [|constructor; [exact Hq32 | constructor]].
  apply Forall_flat_map. pose proof (str_views pr s H) as Hv. fold q in Hv.
  eapply Forall_impl; [|exact Hv]. intros c Hc. exact (piece_ge32 _ _ _ _ _ Hq Hc).
Qed.

Theorem str_roundtrip : forall pr s, str_ok pr s -> decode_str_literal (py_repr_str pr s) = Some s.
Proof.
  intros pr s Hok. pose proof (str_ok_bound pr s Hok) as Hb.
  pose proof (repr_str_ge32 pr s Hb) as H32.
  unfold decode_str_literal.
  assert (Hsrc : forallb src_char_ok (py_repr_str pr s) = true).
  { apply Forall_forallb. unfold py_repr_str. pose proof (pick_quote_is s) as Hq. set (q := pick_quote s) in *.
    assert (Hqs : src_char_ok q = true) by (destruct (quote_cases q Hq) as [E|E]; rewrite E; reflexivity).
    constructor; [exact Hqs|]. apply Forall_app. split; [|constructor; [exact Hqs | constructor]].
    apply Forall_flat_map. pose proof (str_views pr s Hb) as Hv. fold q in Hv.
    assert (Hboth : Forall (fun c => piece_view pr true q c (repr_str_char pr q c) /\
                                     (c <= 0x10FFFF /\ (is_surrogate c = true -> pr c = false))) s).
    { apply Forall_forall. intros c Hin. split; [exact (proj1 (Forall_forall _ _) Hv c Hin) | exact (proj1 (Forall_forall _ _) Hok c Hin)]. }
    eapply Forall_impl; [|exact Hboth]. intros c [Hc [H1 H2]]. exact (piece_src_ok _ _ _ _ _ Hq Hc H1 H2). }
  rewrite Hsrc. rewrite translate_id.
  2:{ eapply Forall_impl; [|exact H32]. intros c Hc. cbv beta in Hc. unfold CR. lia. }
  unfold py_repr_str. pose proof (pick_quote_is s) as Hq. pose proof (str_views pr s Hb) as Hv. set (q := pick_quote s) in *.
  unfold split_prefix. rewrite Hq.
  pose proof (views_shapes _ _ _ _ _ Hv) as Hsh.
  rewrite (quoted_body_single q _ Hq (flat_head _ q s Hq Hsh) (body1_flat _ q s [] Hq Hsh)).
  cbn [option_bind]. exact (unescape_flat pr true _ q s Hq Hv).
Qed.

Corollary str_roundtrip_python : forall pr s, (forall c, is_surrogate c = true -> pr c = false) ->
  Forall (fun c => c <= 0x10FFFF) s -> decode_str_literal (py_repr_str pr s) = Some s.
Proof.
  intros pr s Hpr H. apply str_roundtrip. eapply Forall_impl; [|exact H]. intros c Hc. split; [exact Hc | apply Hpr].
Qed.

(* a printable function that calls a surrogate printable (CPython's does not: category Cs) makes repr write the lone
   surrogate itself, and a source text with a lone surrogate cannot be encoded: UnicodeEncodeError *)
Example str_roundtrip_refuted :
  Forall (fun c => c <= 0x10FFFF) [0xD800] /\ decode_str_literal (py_repr_str (fun _ => true) [0xD800]) = None.
Proof. split; [repeat constructor; discriminate | vm_compute; reflexivity]. Qed.

(* ---- bytes ---- *)
Lemma bytes_views : forall b, Forall (fun c => c <= 255) b ->
  Forall (fun c => piece_view (fun _ => false) false (pick_quote b) c (repr_bytes_char (pick_quote b) c)) b.
Proof. intros b H. eapply Forall_impl; [|exact H]. intros c Hc. apply repr_bytes_char_view. exact Hc. Qed.

Lemma flat_low : forall pr wide q (f : N -> list N) s, is_quote_n q = true ->
  Forall (fun c => piece_view pr wide q c (f c) /\ (c < 128 \/ pr c = false)) s -> Forall low (flat_map f s).
Proof.
  intros pr wide q f s Hq H. apply Forall_flat_map. eapply Forall_impl; [|exact H].
  intros c [Hc Hp]. exact (piece_low _ _ _ _ _ Hq Hc Hp).
Qed.

Lemma quote_low : forall q, is_quote_n q = true -> low q.
Proof. intros q Hq. destruct (quote_cases q Hq) as [-> | ->]; unfold low, SQ, DQ; lia. Qed.

Lemma bytes_body_low : forall b, Forall (fun c => c <= 255) b -> Forall low (flat_map (repr_bytes_char (pick_quote b)) b).
Proof.
  intros b H. apply (flat_low (fun _ => false) false (pick_quote b)); [apply pick_quote_is|].
  pose proof (bytes_views b H) as Hv. eapply Forall_impl; [|exact Hv]. intros c Hc. split; [exact Hc | right; reflexivity].
Qed.

Theorem repr_bytes_low : forall b, Forall (fun c => c <= 255) b -> Forall low (py_repr_bytes b).
Proof.
  intros b H. unfold py_repr_bytes. pose proof (quote_low _ (pick_quote_is b)) as Hq.
  constructor; [unfold low; lia|]. constructor; [exact Hq|]. apply Forall_app. split; [exact (bytes_body_low b H)|].
  constructor; [exact Hq | constructor].
Qed.

Lemma split_prefix_b : forall q l, is_quote_n q = true -> split_prefix (98 :: q :: l) = Some (KBytes, q :: l).
Proof. intros q l Hq. destruct (quote_cases q Hq) as [-> | ->]; reflexivity. Qed.

Theorem bytes_roundtrip : forall b, Forall (fun c => c <= 255) b -> decode_bytes_literal (py_repr_bytes b) = Some b.
Proof.
  intros b H. pose proof (repr_bytes_low b H) as Hlow. pose proof (bytes_body_low b H) as Hbl.
  unfold decode_bytes_literal.
  rewrite (Forall_forallb src_char_ok); [|eapply Forall_impl; [|exact Hlow]; exact low_src_ok].
  rewrite translate_id; [|eapply Forall_impl; [|exact Hlow]; intros c [Hc _]; unfold CR; lia].
  unfold py_repr_bytes. pose proof (pick_quote_is b) as Hq. pose proof (bytes_views b H) as Hv. set (q := pick_quote b) in *.
  rewrite (split_prefix_b q _ Hq).
  pose proof (views_shapes _ _ _ _ _ Hv) as Hsh.
  rewrite (quoted_body_single q _ Hq (flat_head _ q b Hq Hsh) (body1_flat _ q b [] Hq Hsh)).
  cbn [option_bind].
  rewrite (Forall_forallb (fun c => c <? 128)); [|eapply Forall_impl; [|exact Hbl]; intros c [_ Hc]; apply N.ltb_lt; lia].
  exact (unescape_flat (fun _ => false) false _ q b Hq Hv).
Qed.

(* ---- one line, printable ASCII ---- *)
Lemma low_printable : forall c, low c -> printable_ascii c = true.
Proof. intros c [A B]. unfold printable_ascii. apply andb_true_iff. split; apply N.leb_le; assumption. Qed.
Lemma ge32_no_break : forall c, 32 <= c -> no_line_break c = true.
Proof.
  intros c H. unfold no_line_break, LF, CR.
  destruct (c =? 10) eqn:E1; [ntest E1; lia|]. destruct (c =? 13) eqn:E2; [ntest E2; lia|]. reflexivity.
Qed.

Theorem repr_str_low : forall pr s, Forall (fun c => c <= 0x10FFFF) s -> Forall (fun c => c < 128 \/ pr c = false) s ->
  Forall low (py_repr_str pr s).
Proof.
  intros pr s Hb Hp. unfold py_repr_str. pose proof (pick_quote_is s) as Hq. pose proof (str_views pr s Hb) as Hv.
  set (q := pick_quote s) in *. pose proof (quote_low q Hq) as Hql.
  constructor; [exact Hql|]. apply Forall_app. split; [|constructor; [exact Hql | constructor]].
  apply (flat_low pr true q); [exact Hq|].
  apply Forall_forall. intros c Hin. split; [exact (proj1 (Forall_forall _ _) Hv c Hin) | exact (proj1 (Forall_forall _ _) Hp c Hin)].
Qed.

Theorem repr_str_single_line : forall pr s, Forall (fun c => c <= 0x10FFFF) s ->
  Forall (fun c => no_line_break c = true) (py_repr_str pr s) /\
  (Forall (fun c => c < 128 \/ pr c = false) s -> Forall (fun c => printable_ascii c = true) (py_repr_str pr s)).
Proof.
  intros pr s Hb. split.
  - eapply Forall_impl; [|exact (repr_str_ge32 pr s Hb)]. exact ge32_no_break.
  - intro Hp. eapply Forall_impl; [|exact (repr_str_low pr s Hb Hp)]. exact low_printable.
Qed.

Theorem repr_bytes_single_line : forall b, Forall (fun c => c <= 255) b ->
  Forall (fun c => no_line_break c = true) (py_repr_bytes b) /\ Forall (fun c => printable_ascii c = true) (py_repr_bytes b).
Proof.
  intros b H. pose proof (repr_bytes_low b H) as Hl. split.
  - eapply Forall_impl; [|exact Hl]. intros c [Hc _]. apply ge32_no_break. exact Hc.
  - eapply Forall_impl; [|exact Hl]. exact low_printable.
Qed.

(* ---- closed by its quote ---- *)
Lemma no_unescaped_inert : forall q l r, is_quote_n q = true -> Forall inert l -> no_unescaped q (l ++ r) = no_unescaped q r.
Proof.
  intros q l r Hq H. induction H as [|c l Hc Hl IH]; [reflexivity|]. cbn [app no_unescaped].
  destruct (inert_not q c Hq Hc) as [_ [_ [A [B _]]]].
  destruct (c =? BS) eqn:E1; [ntest E1; contradiction|]. destruct (c =? q) eqn:E2; [ntest E2; contradiction|]. exact IH.
Qed.
Lemma no_unescaped_piece : forall q p r, is_quote_n q = true -> raw_piece q p \/ esc_piece q p ->
  no_unescaped q (p ++ r) = no_unescaped q r.
Proof.
  intros q p r Hq [[c [-> [A [B _]]]]|[d [tail [-> [_ Ht]]]]]; cbn [app no_unescaped].
  - destruct (c =? BS) eqn:E1; [ntest E1; contradiction|]. destruct (c =? q) eqn:E2; [ntest E2; contradiction|]. reflexivity.
  - change (BS =? BS) with true. cbv iota. exact (no_unescaped_inert q tail r Hq Ht).
Qed.
Lemma no_unescaped_flat : forall (f : N -> list N) q s, is_quote_n q = true ->
  Forall (fun c => raw_piece q (f c) \/ esc_piece q (f c)) s -> no_unescaped q (flat_map f s) = true.
Proof.
  intros f q s Hq H. induction H as [|c s Hc Hs IH]; [reflexivity|]. cbn [flat_map].
  rewrite (no_unescaped_piece q _ _ Hq Hc). exact IH.
Qed.

(* the text is  q body q  with no unprotected q inside, the body does not begin with q (no triple quote opens):
   whatever follows, the tokenizer's scan of the string ends at the last character *)
Theorem repr_str_quote_closed : forall pr s, Forall (fun c => c <= 0x10FFFF) s ->
  exists q body, py_repr_str pr s = q :: body ++ [q] /\ is_quote_n q = true /\ no_unescaped q body = true /\
                 (body = [] \/ exists x r, body = x :: r /\ x <> q) /\
                 forall rest, body1 q (body ++ q :: rest) = Some (body, rest).
Proof.
  intros pr s Hb. pose proof (pick_quote_is s) as Hq. pose proof (str_views pr s Hb) as Hv.
  pose proof (views_shapes _ _ _ _ _ Hv) as Hsh.
  exists (pick_quote s), (flat_map (repr_str_char pr (pick_quote s)) s).
  split; [reflexivity|]. split; [exact Hq|]. split; [exact (no_unescaped_flat _ _ s Hq Hsh)|].
  split; [exact (flat_head _ _ s Hq Hsh)|].
  intro rest. exact (body1_flat _ _ s rest Hq Hsh).
Qed.
Theorem repr_bytes_quote_closed : forall b, Forall (fun c => c <= 255) b ->
  exists q body, py_repr_bytes b = 98 :: q :: body ++ [q] /\ is_quote_n q = true /\ no_unescaped q body = true /\
                 (body = [] \/ exists x r, body = x :: r /\ x <> q) /\
                 forall rest, body1 q (body ++ q :: rest) = Some (body, rest).
Proof.
  intros b Hb. pose proof (pick_quote_is b) as Hq. pose proof (bytes_views b Hb) as Hv.
  pose proof (views_shapes _ _ _ _ _ Hv) as Hsh.
  exists (pick_quote b), (flat_map (repr_bytes_char (pick_quote b)) b).
  split; [reflexivity|]. split; [exact Hq|]. split; [exact (no_unescaped_flat _ _ b Hq Hsh)|].
  split; [exact (flat_head _ _ b Hq Hsh)|].
  intro rest. exact (body1_flat _ _ b rest Hq Hsh).
Qed.

(* ---- adjacent literals ---- *)
Lemma pieces_roundtrip : forall pr pieces, Forall (str_ok pr) pieces ->
  decode_str_pieces (map (py_repr_str pr) pieces) = Some (concat pieces).
Proof.
  intros pr pieces H. induction H as [|s l Hs Hl IH]; [reflexivity|].
  cbn [map decode_str_pieces concat]. rewrite (str_roundtrip pr s Hs), IH. reflexivity.
Qed.
Theorem concat_roundtrip : forall pr pieces, pieces <> [] -> Forall (str_ok pr) pieces ->
  decode_str_literals (map (py_repr_str pr) pieces) = Some (concat pieces).
Proof.
  intros pr pieces Hne H. unfold decode_str_literals.
  destruct pieces as [|s l]; [contradiction|]. cbn [map]. rewrite <- (pieces_roundtrip pr (s :: l) H). reflexivity.
Qed.

(* ================================================================== *)
(* 6. integers *)
Definition decc (c : N) : Prop := 48 <= c /\ c <= 57.
Fixpoint val_rev (l : list N) : N := match l with [] => 0 | d :: r => (d - 48) + 10 * val_rev r end.
Definition dstep (a d : N) : N := 10 * a + (d - 48).

Lemma pow2_succ : forall f, 2 ^ N.of_nat (S f) = 2 * 2 ^ N.of_nat f.
Proof. intro f. rewrite Nat2N.inj_succ. apply N.pow_succ_r'. Qed.
Lemma pow10_succ : forall k, 10 ^ N.of_nat (S k) = 10 * 10 ^ N.of_nat k.
Proof. intro k. rewrite Nat2N.inj_succ. apply N.pow_succ_r'. Qed.

Lemma div10_bound : forall n b, n < 2 * b -> n / 10 < b.
Proof. intros n b H. apply N.div_lt_upper_bound; lia. Qed.

Lemma dec_rev_spec : forall f n, n < 2 ^ N.of_nat f -> Forall decc (dec_rev f n) /\ val_rev (dec_rev f n) = n.
Proof.
  induction f as [|f IH]; intros n H.
  - change (2 ^ N.of_nat 0) with 1 in H. assert (n = 0) by lia. subst n. split; [repeat constructor; unfold decc; cbn; lia | reflexivity].
  - cbn [dec_rev]. destruct (n <? 10) eqn:E; ntest E.
    + split; [constructor; [unfold decc; lia | constructor] | cbn [val_rev]; lia].
    + rewrite pow2_succ in H. destruct (IH (n / 10) (div10_bound _ _ H)) as [A B].
      pose proof (N.div_mod n 10 ltac:(lia)) as Ed. pose proof (N.mod_lt n 10 ltac:(lia)) as Em.
      set (m := n mod 10) in *. clearbody m.
      split; [constructor; [unfold decc; split; lia | exact A] | cbn [val_rev]; rewrite B; lia].
Qed.
Lemma dec_rev_last : forall f n, n < 2 ^ N.of_nat f -> 0 < n ->
  exists ds m, dec_rev f n = ds ++ [48 + m] /\ 1 <= m /\ m <= 9.
Proof.
  induction f as [|f IH]; intros n H Hn.
  - change (2 ^ N.of_nat 0) with 1 in H. lia.
  - cbn [dec_rev]. destruct (n <? 10) eqn:E; ntest E.
    + exists [], n. split; [reflexivity | lia].
    + rewrite pow2_succ in H.
      assert (Hd : 0 < n / 10) by (apply N.div_str_pos; lia).
      destruct (IH (n / 10) (div10_bound _ _ H) Hd) as [ds [m [E1 Hm]]].
      exists ((48 + n mod 10) :: ds), m. rewrite E1. split; [reflexivity | exact Hm].
Qed.
Lemma dec_rev_length : forall f n k, 10 <= 10 ^ N.of_nat k -> n < 10 ^ N.of_nat k -> (length (dec_rev f n) <= k)%nat.
Proof.
  induction f as [|f IH]; intros n k Hk H.
  - cbn [dec_rev length]. destruct k as [|k]; [change (10 ^ N.of_nat 0) with 1 in Hk; lia | lia].
  - cbn [dec_rev]. destruct k as [|k]; [change (10 ^ N.of_nat 0) with 1 in Hk; lia|].
    destruct (n <? 10) eqn:E; ntest E; cbn [length]; [lia|].
    rewrite pow10_succ in H. apply le_n_S. apply IH.
    + destruct k as [|k]; [change (10 ^ N.of_nat 0) with 1 in H; lia|]. rewrite pow10_succ.
      assert (0 < 10 ^ N.of_nat k) by (apply N.neq_0_lt_0; apply N.pow_nonzero; lia). lia.
    + apply N.div_lt_upper_bound; lia.
Qed.

Lemma decc_val : forall c, decc c -> dec_val c = Some (c - 48) /\ (c =? 95) = false.
Proof.
  intros c [A B]. unfold dec_val. split.
  - destruct (48 <=? c) eqn:E1; [|ntest E1; lia]. destruct (c <=? 57) eqn:E2; [reflexivity | ntest E2; lia].
  - apply N.eqb_neq. lia.
Qed.
Lemma digits_val_digits : forall l acc, Forall decc l -> digits_val 10 dec_val acc l = Some (fold_left dstep l acc).
Proof.
  intros l acc H. revert acc. induction H as [|c l Hc Hl IH]; intro acc; [reflexivity|].
  cbn [digits_val fold_left]. destruct (decc_val c Hc) as [A B]. rewrite B, A. apply IH.
Qed.
Lemma fold_rev_val : forall l, fold_left dstep (rev l) 0 = val_rev l.
Proof.
  induction l as [|d r IH]; [reflexivity|]. cbn [rev val_rev]. rewrite fold_left_app, IH. cbn [fold_left]. unfold dstep. lia.
Qed.
Lemma filter_digits : forall l, Forall decc l -> filter (fun c => negb (c =? 95)) l = l.
Proof.
  intros l H. induction H as [|c l Hc Hl IH]; [reflexivity|]. cbn [filter].
  rewrite (proj2 (decc_val c Hc)). cbn [negb]. rewrite IH. reflexivity.
Qed.

(* the text of a positive number: a non-zero digit and digits, meaning the number *)
Lemma nat_text_shape : forall n, 0 < n ->
  exists c r, py_repr_nat n = c :: r /\ (c =? 48) = false /\ dec_val c = Some (c - 48) /\ Forall decc (c :: r) /\
              digits_val 10 dec_val (c - 48) r = Some n.
Proof.
  intros n Hn. unfold py_repr_nat.
  assert (Hs : n < 2 ^ N.of_nat (N.to_nat (N.size n))) by (rewrite N2Nat.id; apply N.size_gt).
  set (f := N.to_nat (N.size n)) in *.
  destruct (dec_rev_spec f n Hs) as [Hd Hv]. destruct (dec_rev_last f n Hs Hn) as [ds [m [E Hm]]].
  pose proof (fold_rev_val (dec_rev f n)) as Hf. rewrite Hv in Hf.
  assert (Hr : Forall decc (rev (dec_rev f n))) by (apply Forall_rev; exact Hd).
  rewrite E, rev_app_distr in *. cbn [rev app] in *.
  exists (48 + m), (rev ds). split; [reflexivity|].
  split; [apply N.eqb_neq; lia|]. split; [exact (proj1 (decc_val _ (Forall_inv Hr)))|]. split; [exact Hr|].
  rewrite (digits_val_digits _ _ (Forall_inv_tail Hr)). cbn [fold_left] in Hf. unfold dstep at 2 in Hf.
  replace (10 * 0 + (48 + m - 48)) with (48 + m - 48) in Hf by lia. rewrite Hf. reflexivity.
Qed.

Theorem nat_roundtrip_nolimit : forall n, decode_nat_literal_nolimit (py_repr_nat n) = Some n.
Proof.
  intro n. destruct (N.eq_0_gt_0_cases n) as [-> | Hn]; [reflexivity|].
  destruct (nat_text_shape n Hn) as [c [r [E [H0 [Hv [_ Hd]]]]]]. rewrite E.
  unfold decode_nat_literal_nolimit. rewrite H0, Hv. exact Hd.
Qed.

Theorem nat_roundtrip : forall n, n < 10 ^ int_max_str_digits -> decode_nat_literal (py_repr_nat n) = Some n.
Proof.
  intros n Hlim. destruct (N.eq_0_gt_0_cases n) as [-> | Hn]; [reflexivity|].
  destruct (nat_text_shape n Hn) as [c [r [E [H0 [Hv [Hall Hd]]]]]].
  assert (Hlen : N.of_nat (length (py_repr_nat n)) <= int_max_str_digits).
  { unfold py_repr_nat. rewrite rev_length.
    rewrite <- (N2Nat.id int_max_str_digits) in Hlim |- *.
    set (k := N.to_nat int_max_str_digits) in *.
    assert (Hk : 10 <= 10 ^ N.of_nat k).
    { unfold k. rewrite N2Nat.id. unfold int_max_str_digits. change 10 with (10 ^ 1) at 1. apply N.pow_le_mono_r; lia. }
    pose proof (dec_rev_length (N.to_nat (N.size n)) n k Hk Hlim). lia. }
  rewrite E in *. unfold decode_nat_literal. rewrite H0, Hv.
  unfold count_digits. rewrite (filter_digits _ Hall).
  destruct (N.of_nat (length (c :: r)) <=? int_max_str_digits) eqn:El; [exact Hd | ntest El; lia].
Qed.

Theorem int_roundtrip : forall z, (0 <= z)%Z -> (z < 10 ^ 4300)%Z -> decode_int_literal (py_repr_int z) = Some z.
Proof.
  intros z H0 H1. unfold decode_int_literal.
  assert (E : py_repr_int z = py_repr_nat (Z.to_N z)) by (destruct z; [reflexivity | reflexivity | lia]).
  rewrite E, nat_roundtrip.
  - cbn [option_map]. rewrite Z2N.id; [reflexivity | exact H0].
  - unfold int_max_str_digits. apply N2Z.inj_lt. rewrite Z2N.id by exact H0. rewrite N2Z.inj_pow. exact H1.
Qed.
Theorem int_roundtrip_nolimit : forall z, (0 <= z)%Z -> decode_int_literal_nolimit (py_repr_int z) = Some z.
Proof.
  intros z H0. unfold decode_int_literal_nolimit.
  assert (E : py_repr_int z = py_repr_nat (Z.to_N z)) by (destruct z; [reflexivity | reflexivity | lia]).
  rewrite E, nat_roundtrip_nolimit. cbn [option_map]. rewrite Z2N.id; [reflexivity | exact H0].
Qed.
Theorem int_repr_negative : forall z, (z < 0)%Z -> py_repr_int z = 45 :: py_repr_int (- z).
Proof. intros z H. destruct z; [lia | lia | reflexivity]. Qed.
Theorem int_repr_digits : forall z, (0 <= z)%Z -> Forall decc (py_repr_int z).
Proof.
  intros z H0.
  assert (E : py_repr_int z = py_repr_nat (Z.to_N z)) by (destruct z; [reflexivity | reflexivity | lia]).
  rewrite E. destruct (N.eq_0_gt_0_cases (Z.to_N z)) as [-> | Hn]; [repeat constructor; unfold decc; cbn; lia|].
  destruct (nat_text_shape _ Hn) as [c [r [Ec [_ [_ [Hall _]]]]]]. rewrite Ec. exact Hall.
Qed.

(* the digit limit is real: repr(10**4300) raises ValueError in CPython 3.12, and a decimal literal of 4301 digits is
   a SyntaxError: 1 and 4300 zeros is refused, 1 and 4299 zeros is read *)
Example int_limit_refuted :
  decode_int_literal (49 :: repeat 48 4300%nat) = None /\
  option_map (Z.eqb (10 ^ 4300)) (decode_int_literal_nolimit (49 :: repeat 48 4300%nat)) = Some true /\
  option_map (Z.eqb (10 ^ 4299)) (decode_int_literal (49 :: repeat 48 4299%nat)) = Some true.
Proof. split; [|split]; vm_compute; reflexivity. Qed.

(* ================================================================== *)
(* 7. the statements are not vacuous: concrete texts, as CPython 3.12.1 writes and reads them *)
Definition str_ok_b (pr : N -> bool) (s : list N) : bool :=
  forallb (fun c => (c <=? 0x10FFFF) && (negb (is_surrogate c) || negb (pr c))) s.
Lemma str_ok_b_ok : forall pr s, str_ok_b pr s = true -> str_ok pr s.
Proof.
  intros pr s H. unfold str_ok_b in H. apply Forall_forall. intros c Hin.
  pose proof (proj1 (forallb_forall _ _) H c Hin) as Hc. cbv beta in Hc. apply andb_true_iff in Hc. destruct Hc as [A B].
  split; [apply N.leb_le; exact A|]. intro Hs. rewrite Hs in B. cbn [negb orb] in B.
  destruct (pr c); [discriminate B | reflexivity].
Qed.

(* a, single quote, double quote, backslash, TAB LF CR NUL DEL  e-acute (printable)  U+00AD (not printable)  U+4E2D (printable)  U+200B (not printable)
   U+1F600 (printable)  U+10FFFF (not printable)  the lone surrogate U+D800 *)
Definition ex_str : list N := [97; 39; 34; 92; 9; 10; 13; 0; 127; 233; 173; 20013; 8203; 128512; 1114111; 55296].
Definition ex_pr (c : N) : bool := existsb (N.eqb c) [233; 20013; 128512].
Definition ex_str_text : list N :=
  [39; 97; 92; 39; 34; 92; 92; 92; 116; 92; 110; 92; 114; 92; 120; 48; 48; 92; 120; 55; 102; 233; 92; 120; 97; 100; 20013;
   92; 117; 50; 48; 48; 98; 128512; 92; 85; 48; 48; 49; 48; 102; 102; 102; 102; 92; 117; 100; 56; 48; 48; 39].
Example ex_str_repr : py_repr_str ex_pr ex_str = ex_str_text.
Proof. vm_compute. reflexivity. Qed.
Example ex_str_decode : decode_str_literal ex_str_text = Some ex_str.
Proof. vm_compute. reflexivity. Qed.
Example ex_str_ok : str_ok ex_pr ex_str.
Proof. apply str_ok_b_ok. vm_compute. reflexivity. Qed.
Example ex_str_roundtrip_applies : decode_str_literal (py_repr_str ex_pr ex_str) = Some ex_str.
Proof. exact (str_roundtrip ex_pr ex_str ex_str_ok). Qed.
(* the quote choice: a string with a single quote only is written in double quotes; one with a double quote (or both
   kinds, ex_str) in single quotes; the empty string *)
Example ex_str_quotes :
  py_repr_str ex_pr [105; 116; 39; 115] = [34; 105; 116; 39; 115; 34] /\
  py_repr_str ex_pr [115; 97; 121; 32; 34; 104; 105; 34] = [39; 115; 97; 121; 32; 34; 104; 105; 34; 39] /\
  py_repr_str ex_pr [] = [39; 39] /\
  decode_str_literal [34; 105; 116; 39; 115; 34] = Some [105; 116; 39; 115] /\ decode_str_literal [39; 39] = Some [].
Proof. repeat split; vm_compute; reflexivity. Qed.
(* not one line without repr: the string holds LF and CR, the text does not; and it is pure ASCII when the printable
   non-ASCII characters are left out *)
Example ex_str_single_line :
  existsb (N.eqb LF) ex_str = true /\ forallb no_line_break ex_str_text = true /\
  forallb printable_ascii (py_repr_str (fun _ => false) ex_str) = true /\ forallb printable_ascii ex_str_text = false.
Proof. repeat split; vm_compute; reflexivity. Qed.

Definition ex_bytes : list N := [97; 39; 34; 92; 9; 10; 13; 0; 127; 128; 255].
Definition ex_bytes_text : list N :=
  [98; 39; 97; 92; 39; 34; 92; 92; 92; 116; 92; 110; 92; 114; 92; 120; 48; 48; 92; 120; 55; 102; 92; 120; 56; 48; 92; 120;
   102; 102; 39].
Example ex_bytes_repr : py_repr_bytes ex_bytes = ex_bytes_text /\ py_repr_bytes [105; 116; 39; 115] = [98; 34; 105; 116; 39; 115; 34].
Proof. split; vm_compute; reflexivity. Qed.
Example ex_bytes_decode : decode_bytes_literal ex_bytes_text = Some ex_bytes.
Proof. vm_compute. reflexivity. Qed.
Example ex_bytes_roundtrip_applies : decode_bytes_literal (py_repr_bytes ex_bytes) = Some ex_bytes.
Proof. apply bytes_roundtrip. repeat constructor; discriminate. Qed.

Example ex_int :
  py_repr_int 1234567890123456789012345678901234567890 =
    [49; 50; 51; 52; 53; 54; 55; 56; 57; 48; 49; 50; 51; 52; 53; 54; 55; 56; 57; 48; 49; 50; 51; 52; 53; 54; 55; 56; 57; 48;
     49; 50; 51; 52; 53; 54; 55; 56; 57; 48] /\
  py_repr_int (-42) = [45; 52; 50] /\ py_repr_int 0 = [48] /\
  decode_int_literal [49; 95; 48; 48; 48] = Some 1000%Z /\          (* 1_000 *)
  decode_int_literal [48; 120; 95; 49; 102] = Some 31%Z /\           (* 0x_1f *)
  decode_int_literal [48; 95; 48] = Some 0%Z /\                      (* 0_0 *)
  decode_int_literal [48; 49] = None /\                               (* 01 *)
  decode_int_literal [49; 95; 95; 48] = None /\                       (* 1__0 *)
  decode_int_literal [49; 95] = None.                                 (* 1_ *)
Proof. repeat split; vm_compute; reflexivity. Qed.

(* adjacent literals of every kind: single quoted, double quoted, triple quoted with a raw line break, raw, u-prefixed
   with hex / octal / u / U escapes, an unknown escape and a line continuation *)
Example ex_concat :
  decode_str_literals
    [[39; 97; 39]; [34; 98; 39; 34]; [39; 39; 39; 99; 10; 100; 39; 39; 39]; [114; 39; 92; 110; 39];
     [117; 39; 92; 120; 52; 49; 92; 49; 48; 49; 92; 117; 48; 48; 52; 49; 92; 85; 48; 48; 48; 48; 48; 48; 52; 49; 92; 113; 92; 10; 39]]
  = Some [97; 98; 39; 99; 10; 100; 92; 110; 65; 65; 65; 65; 92; 113].
Proof. vm_compute. reflexivity. Qed.
Example ex_concat_roundtrip_applies :
  decode_str_literals (map (py_repr_str ex_pr) [ex_str; []; [105; 116; 39; 115]]) = Some (ex_str ++ [105; 116; 39; 115]).
Proof.
  rewrite (concat_roundtrip ex_pr [ex_str; []; [105; 116; 39; 115]]); [reflexivity | discriminate|].
  constructor; [|constructor; [|constructor; [|constructor]]]; apply str_ok_b_ok; vm_compute; reflexivity.
Qed.
(* malformed literals *)
Example ex_malformed :
  decode_str_literal [39; 97] = None /\                      (* unterminated *)
  decode_str_literal [39; 92; 39] = None /\                  (* quote backslash quote: the backslash protects the quote *)
  decode_str_literal [39; 92; 120; 52; 39] = None /\         (* truncated \x escape *)
  decode_str_literal [39; 92; 85; 48; 48; 49; 49; 48; 48; 48; 48; 39] = None /\   (* \U00110000 *)
  decode_str_literal [39; 97; 10; 39] = None /\              (* a raw line break in a one-quote literal *)
  decode_str_literal [39; 55296; 39] = None /\               (* a raw lone surrogate cannot be encoded *)
  decode_str_literal [102; 39; 97; 39] = None /\             (* an f-string is no literal *)
  decode_bytes_literal [98; 39; 233; 39] = None /\           (* bytes can only contain ASCII literal characters *)
  decode_bytes_literal [98; 39; 92; 52; 48; 48; 39] = Some [0].   (* \400 in bytes is \x00 *)
Proof. repeat split; vm_compute; reflexivity. Qed.

(* ================================================================== *)
(* 8. the decimal text of a power of ten; the digit limit refutes the unbounded int round trip *)
Lemma dec_rev_fuel : forall f f' n, n < 2 ^ N.of_nat f -> n < 2 ^ N.of_nat f' -> dec_rev f n = dec_rev f' n.
Proof.
  induction f as [|f IH]; intros f' n H H'.
  - change (2 ^ N.of_nat 0) with 1 in H. assert (n = 0) by lia. subst n. destruct f'; reflexivity.
  - destruct f' as [|f'].
    + change (2 ^ N.of_nat 0) with 1 in H'. assert (n = 0) by lia. subst n. reflexivity.
    + cbn [dec_rev]. destruct (n <? 10); [reflexivity|]. rewrite pow2_succ in H, H'.
      rewrite (IH f' (n / 10) (div10_bound _ _ H) (div10_bound _ _ H')). reflexivity.
Qed.
Lemma dec_rev_times10 : forall f n, 0 < n -> dec_rev (S f) (10 * n) = 48 :: dec_rev f n.
Proof.
  intros f n Hn. cbn [dec_rev]. destruct (10 * n <? 10) eqn:E; [ntest E; lia|].
  rewrite (N.mul_comm 10 n), N.mod_mul, N.div_mul by lia. reflexivity.
Qed.
Lemma py_repr_nat_times10 : forall n, 0 < n -> py_repr_nat (10 * n) = py_repr_nat n ++ [48].
Proof.
  intros n Hn. unfold py_repr_nat.
  assert (Hs : n < 2 ^ N.of_nat (N.to_nat (N.size n))) by (rewrite N2Nat.id; apply N.size_gt).
  assert (Hs10 : 10 * n < 2 ^ N.of_nat (N.to_nat (N.size (10 * n)))) by (rewrite N2Nat.id; apply N.size_gt).
  set (f := N.to_nat (N.size n)) in *. set (F := N.to_nat (N.size (10 * n))) in *.
  assert (Hf3 : n < 2 ^ N.of_nat (S (S (S f)))) by (rewrite !pow2_succ; lia).
  assert (HF : 10 * n < 2 ^ N.of_nat (S (S (S (S f))))) by (rewrite !pow2_succ; lia).
  rewrite (dec_rev_fuel F (S (S (S (S f)))) (10 * n) Hs10 HF), (dec_rev_times10 _ n Hn).
  rewrite (dec_rev_fuel (S (S (S f))) f n Hf3 Hs). reflexivity.
Qed.
Lemma py_repr_nat_pow10 : forall k, py_repr_nat (10 ^ N.of_nat k) = 49 :: repeat 48 k.
Proof.
  induction k as [|k IH]; [reflexivity|].
  rewrite pow10_succ, py_repr_nat_times10, IH.
  - cbn [app]. f_equal. symmetry. exact (repeat_cons k 48).
  - apply N.neq_0_lt_0. apply N.pow_nonzero. lia.
Qed.
Lemma py_repr_int_nonneg : forall z, (0 <= z)%Z -> py_repr_int z = py_repr_nat (Z.to_N z).
Proof. intros z H. destruct z; [reflexivity | reflexivity | lia]. Qed.

Theorem py_repr_int_pow10 : forall k, py_repr_int (10 ^ Z.of_nat k) = 49 :: repeat 48 k.
Proof.
  intro k. rewrite py_repr_int_nonneg by (apply Z.pow_nonneg; lia).
  rewrite Z2N.inj_pow by lia.
  replace (Z.to_N (Z.of_nat k)) with (N.of_nat k) by (rewrite <- nat_N_Z, N2Z.id; reflexivity).
  exact (py_repr_nat_pow10 k).
Qed.

(* int_roundtrip without the bound is false: the text of 10^4300 (4301 digits) is refused -- as CPython refuses it *)
Theorem int_roundtrip_refuted : (0 <= 10 ^ 4300)%Z /\ decode_int_literal (py_repr_int (10 ^ 4300)) = None.
Proof.
  split; [apply Z.pow_nonneg; lia|].
  change 4300%Z with (Z.of_nat 4300). rewrite py_repr_int_pow10. vm_compute. reflexivity.
Qed.
