(* C19, last clause: "the config string re-aliases colliding import names so that every selector it emits resolves
   to the same object".  About Model/DynReg.v:config_header (ImportManager.add_import / require_configurable /
   minimal_selector under dynamic registration). *)
From Coq Require Import List String Ascii ZArith Bool Arith Lia Permutation.
From GinV Require Import Lib.Out Lib.PyStr Model.SelectorMap Model.Serial Model.DynReg Proofs.SerialProofs Proofs.SerialProofs2 Proofs.SerialProofs3 Proofs.DynRegProofs Proofs.DynRegSkip.
Import ListNotations.
Open Scope string_scope.
Open Scope list_scope.

(* ------------------------------------------------------------------ *)
(* ---- the header, taken apart ---- *)
(* ------------------------------------------------------------------ *)
Definition dynamic_on (s : dstate) : bool :=
  existsb (fun d => String.eqb (d_module d) "__gin__.dynamic_registration") (ds_imports s).
(* the selectors config_str has to spell: configured ones and referenced ones *)
Definition needed (s : dstate) (refs : list ((string * string) * string * string)) : list string :=
  map (fun e => snd (fst e)) (ds_store s) ++ map (fun r => snd r) refs.
(* require_configurable *)
Definition require (reg : list centry) (st : im_state) (sel : string) : im_state :=
  match find_sel sel reg with
  | Some e => match ce_src e with
              | Some (d, _) => add_import st (to_simport d)
              | None => let m := fst (ce_home e) in
                        add_import st {| i_module := m; i_from := contains_char dot m; i_alias := None |}
              end
  | None => st
  end.
(* the ImportManager after __init__ and all require_configurable calls: (imports, module_selectors, names) *)
(* repaired code: under dynamic registration the reserved symbol gin counts as a name already taken *)
Definition names_init (s : dstate) : list string := if dynamic_on s then ["gin"] else [].
Definition header_state_from (n0 : list string) (s : dstate) (refs : list ((string * string) * string * string)) : im_state :=
  let st0 := fold_left add_import (sort_stable (fun x => x) import_key_ltb (map to_simport (ds_imports s))) ([], [], n0) in
  if negb (dynamic_on s) then st0 else fold_left (require (ds_reg s)) (needed s refs) st0.
Definition header_state (s : dstate) (refs : list ((string * string) * string * string)) : im_state :=
  header_state_from (names_init s) s refs.
(* the emitted import statements, in emitted order *)
Definition header_imports (s : dstate) (refs : list ((string * string) * string * string)) : list simport :=
  sorted_imports (fst (fst (header_state s refs))).
Definition msel_get (m : string) (msel : list (string * string)) : option string :=
  (fix go (l : list (string * string)) := match l with [] => None | (k, v) :: r => if String.eqb k m then Some v else go r end) msel.
(* minimal_selector under dynamic registration *)
Definition emitted_dyn (reg : list centry) (msel : list (string * string)) (sel : string) : string :=
  match find_sel sel reg with
  | Some c => match ce_src c with
              | Some (d, name) => match msel_get (d_module d) msel with Some m => (m ++ "." ++ name)%string | None => "?" end
              | None => match msel_get (fst (ce_home c)) msel with Some m => (m ++ "." ++ snd (ce_home c))%string | None => "?" end
              end
  | None => "?"
  end.
Definition emitted_selector (s : dstate) (refs : list ((string * string) * string * string)) (sel : string) : string :=
  emitted_dyn (ds_reg s) (snd (fst (header_state s refs))) sel.

(* config_header is exactly: the formatted header_imports, and (under dynamic registration) scope/emitted_selector lines *)
Theorem config_header_dynamic : forall s refs, dynamic_on s = true ->
  config_header s refs =
  OL [OL (map OS (map import_format (header_imports s refs)));
      OL (map OS (sort_strings (map (fun e => ((if String.eqb (fst (fst e)) "" then "" else fst (fst e) ++ "/")
                                                ++ emitted_selector s refs (snd (fst e)))%string) (ds_store s))))].
Proof.
  intros s refs Hd. unfold config_header, header_imports, emitted_selector, header_state, header_state_from, names_init. cbv zeta.
  fold (dynamic_on s). rewrite Hd. cbn [negb].
  fold (needed s refs). fold (require (ds_reg s)).
  destruct (fold_left (require (ds_reg s)) (needed s refs)
              (fold_left add_import (sort_stable (fun x => x) import_key_ltb (map to_simport (ds_imports s))) ([], [], ["gin"])))
    as [[imps msel] names].
  reflexivity.
Qed.
Theorem config_header_imports : forall s refs, exists lines,
  config_header s refs = OL [OL (map OS (map import_format (header_imports s refs))); OL lines].
Proof.
  intros s refs. unfold config_header, header_imports, header_state, header_state_from, names_init. cbv zeta.
  fold (dynamic_on s). fold (needed s refs). fold (require (ds_reg s)).
  destruct (if negb (dynamic_on s) then _ else _) as [[imps msel] names]. eexists. reflexivity.
Qed.

(* ------------------------------------------------------------------ *)
(* ---- the add_import invariant ---- *)
(* ------------------------------------------------------------------ *)
Definition has_alias_s (i : simport) : bool := match i_alias i with Some _ => true | None => false end.
(* module_selectors[module]: what the emitted selectors start with *)
Definition isel (i : simport) : string := if i_from i || has_alias_s i then bound_name i else i_module i.
(* the statement as emitted: re-aliased when its bound name is taken *)
Definition realias (i : simport) (names : list string) : simport :=
  let u := uniquify_name (bound_name i) names in
  if String.eqb u (bound_name i) then i else {| i_module := i_module i; i_from := i_from i; i_alias := Some u |}.
Lemma add_import_eq : forall imps msel names i, add_import (imps, msel, names) i =
  if existsb (fun kv => String.eqb (fst kv) (i_module i)) msel then (imps, msel, names)
  else (imps ++ [realias i names], msel ++ [(i_module (realias i names), isel (realias i names))],
        names ++ [bound_name (realias i names)]).
Proof. reflexivity. Qed.
Lemma realias_module : forall i names, i_module (realias i names) = i_module i.
Proof. intros i names. unfold realias. cbv zeta. destruct (String.eqb _ _); reflexivity. Qed.
Lemma realias_from : forall i names, i_from (realias i names) = i_from i.
Proof. intros i names. unfold realias. cbv zeta. destruct (String.eqb _ _); reflexivity. Qed.
Lemma realias_bound : forall i names, bound_name (realias i names) = uniquify_name (bound_name i) names.
Proof. intros i names. unfold realias. cbv zeta. apply im_step_bound_name. Qed.

Definition im_ok (n0 : list string) (B k : nat) (st : im_state) : Prop :=
  let '(imps, msel, names) := st in
  names = n0 ++ map bound_name imps /\ msel = map (fun i => (i_module i, isel i)) imps /\ NoDup names /\
  NoDup (map i_module imps) /\ List.length names + k + 3 <= B.
Lemma im_ok_weaken : forall n0 B k k' st, k' <= k -> im_ok n0 B k st -> im_ok n0 B k' st.
Proof. intros n0 B k k' [[imps msel] names] Hk (H1 & H2 & H3 & H4 & H5). repeat split; try assumption. lia. Qed.
Lemma add_import_ok : forall n0 k st i, im_ok n0 (10 ^ 20) (S k) st -> im_ok n0 (10 ^ 20) k (add_import st i).
Proof.
  intros n0 k [[imps msel] names] i (Hn & Hm & Hnd & Hmd & Hb). rewrite add_import_eq.
  destruct (existsb _ msel) eqn:Ex; [repeat split; try assumption; lia|].
  set (B := 10 ^ 20) in *. repeat split.
  - rewrite map_app, Hn, app_assoc. reflexivity.
  - rewrite map_app, Hm. reflexivity.
  - apply SerialProofs.NoDup_snoc; [exact Hnd|]. rewrite realias_bound. apply uniquify_name_fresh. fold B. lia.
  - rewrite map_app. cbn [map]. rewrite realias_module. apply SerialProofs.NoDup_snoc; [exact Hmd|].
    intro Hin. assert (Ht : existsb (fun kv : string * string => String.eqb (fst kv) (i_module i)) msel = true); [|congruence].
    apply existsb_exists. subst msel. apply in_map_iff in Hin. destruct Hin as [j [Hj Hin]].
    exists (i_module j, isel j). split; [apply (in_map (fun i0 => (i_module i0, isel i0))); exact Hin|].
    cbn [fst]. rewrite Hj. apply String.eqb_refl.
  - rewrite app_length. cbn [List.length]. lia.
Qed.
Lemma require_ok : forall n0 reg k st sel, im_ok n0 (10 ^ 20) (S k) st -> im_ok n0 (10 ^ 20) k (require reg st sel).
Proof.
  intros n0 reg k st sel H. unfold require. destruct (find_sel sel reg) as [e|]; [|eapply im_ok_weaken; [|exact H]; lia].
  destruct (ce_src e) as [[d r]|]; apply add_import_ok; exact H.
Qed.
Lemma fold_ok : forall n0 (A : Type) (f : im_state -> A -> im_state),
  (forall k st a, im_ok n0 (10 ^ 20) (S k) st -> im_ok n0 (10 ^ 20) k (f st a)) ->
  forall l k st, im_ok n0 (10 ^ 20) (List.length l + k) st -> im_ok n0 (10 ^ 20) k (fold_left f l st).
Proof.
  intros n0 A f Hf. induction l as [|a l IH]; intros k st H; cbn [fold_left]; [exact H|].
  apply IH. apply Hf. cbn [List.length] in H. replace (S (List.length l + k)) with (S (List.length l) + k) by lia. exact H.
Qed.

Definition header_bound (s : dstate) (refs : list ((string * string) * string * string)) : Prop :=
  List.length (ds_imports s) + List.length (ds_store s) + List.length refs + 4 <= 10 ^ 20.
Lemma header_state_from_ok : forall n0 s refs, header_bound s refs -> NoDup n0 -> List.length n0 <= 1 ->
  im_ok n0 (10 ^ 20) 0 (header_state_from n0 s refs).
Proof.
  intros n0 s refs Hb Hn0 Hl0. unfold header_bound in Hb. unfold header_state_from. cbv zeta.
  set (recorded := sort_stable (fun x => x) import_key_ltb (map to_simport (ds_imports s))).
  assert (Hlen : List.length recorded = List.length (ds_imports s)).
  { subst recorded. rewrite (Permutation_length (sort_stable_perm _ _ _ _ _)). apply map_length. }
  assert (Hneed : List.length (needed s refs) = List.length (ds_store s) + List.length refs).
  { unfold needed. rewrite app_length, !map_length. reflexivity. }
  assert (H0 : im_ok n0 (10 ^ 20) (List.length (needed s refs)) (fold_left add_import recorded ([], [], n0))).
  { apply fold_ok; [intros k st a; apply add_import_ok|].
    repeat split; [cbn [map]; rewrite app_nil_r; reflexivity|exact Hn0|constructor|]. set (B := 10 ^ 20) in *. lia. }
  destruct (negb (dynamic_on s)).
  - eapply im_ok_weaken; [|exact H0]. lia.
  - apply fold_ok; [intros k st a; apply require_ok|]. rewrite Nat.add_0_r. exact H0.
Qed.
Lemma names_init_nodup : forall s, NoDup (names_init s) /\ List.length (names_init s) <= 1.
Proof. intros s. unfold names_init. destruct (dynamic_on s); cbn; split; try lia; repeat constructor. intros []. Qed.
Lemma header_state_ok : forall s refs, header_bound s refs -> im_ok (names_init s) (10 ^ 20) 0 (header_state s refs).
Proof. intros s refs Hb. destruct (names_init_nodup s). apply header_state_from_ok; assumption. Qed.

Lemma NoDup_app_r' : forall (A : Type) (l1 l2 : list A), NoDup (l1 ++ l2) -> NoDup l2.
Proof. intros A l1 l2. induction l1 as [|x l1 IH]; intros H; [exact H|]. cbn [app] in H. inversion H; subst. auto. Qed.

(* (1) the bound names of the emitted import statements are pairwise distinct *)
Theorem C19_header_bound_names_unique : forall s refs, header_bound s refs ->
  NoDup (map bound_name (header_imports s refs)).
Proof.
  intros s refs Hb. pose proof (header_state_ok s refs Hb) as H. unfold header_imports.
  destruct (header_state s refs) as [[imps msel] names]. destruct H as (Hn & _ & Hnd & _). cbn [fst].
  apply (Permutation_NoDup (l := map bound_name imps)).
  - apply Permutation_map. apply Permutation_sym. unfold sorted_imports. apply sort_stable_perm.
  - rewrite Hn in Hnd. exact (NoDup_app_r' _ _ _ Hnd).
Qed.
(* ... and, under dynamic registration, none of them is the reserved name gin *)
Theorem C19_header_no_reserved_name : forall s refs, header_bound s refs -> dynamic_on s = true ->
  forall i, In i (header_imports s refs) -> bound_name i <> "gin".
Proof.
  intros s refs Hb Hd i Hi Hc. pose proof (header_state_ok s refs Hb) as H. unfold header_imports in Hi.
  unfold names_init in H. rewrite Hd in H.
  destruct (header_state s refs) as [[imps msel] names]. destruct H as (Hn & _ & Hnd & _). cbn [fst] in Hi.
  unfold sorted_imports in Hi. apply (Permutation_in _ (sort_stable_perm _ _ _ _ _)) in Hi.
  rewrite Hn in Hnd. cbn [app] in Hnd. inversion Hnd as [|? ? Hnotin _]; subst. apply Hnotin.
  rewrite <- Hc. apply in_map. exact Hi.
Qed.

(* ------------------------------------------------------------------ *)
(* ---- strings: split / dots ---- *)
(* ------------------------------------------------------------------ *)
Lemma split_aux_app_sep : forall a r cur,
  split_aux dot (a ++ String dot r) cur = split_aux dot a cur ++ split_aux dot r "".
Proof.
  induction a as [|c a IH]; intros r cur; cbn [String.append split_aux].
  - rewrite Ascii.eqb_refl. reflexivity.
  - destruct (Ascii.eqb c dot); [rewrite IH; reflexivity|apply IH].
Qed.
Lemma split_dot_app : forall a r, split_dot (a ++ "." ++ r) = split_dot a ++ split_dot r.
Proof. intros a r. unfold split_dot, split. apply (split_aux_app_sep a r ""). Qed.
Lemma split_dot_nonempty : forall s, split_dot s <> [].
Proof. intro s. apply (to_key_nonempty s). Qed.

Lemma contains_char_app : forall c a b, contains_char c (a ++ b) = contains_char c a || contains_char c b.
Proof.
  intros c a b. induction a as [|x a IH]; cbn [String.append contains_char]; [reflexivity|].
  rewrite IH. apply orb_assoc.
Qed.
Lemma split_aux_components : forall s cur x, contains_char dot cur = false -> In x (split_aux dot s cur) ->
  contains_char dot x = false.
Proof.
  induction s as [|c s IH]; intros cur x Hc Hin; cbn [split_aux] in Hin.
  - destruct Hin as [<-|[]]. exact Hc.
  - destruct (Ascii.eqb c dot) eqn:E.
    + destruct Hin as [<-|Hin]; [exact Hc|]. eapply IH; [|exact Hin]. reflexivity.
    + eapply IH; [|exact Hin]. rewrite contains_char_app, Hc. cbn [contains_char]. rewrite Ascii.eqb_sym, E. reflexivity.
Qed.
Lemma split_dot_components : forall s x, In x (split_dot s) -> contains_char dot x = false.
Proof. intros s x H. eapply split_aux_components; [|exact H]. reflexivity. Qed.
Lemma split_aux_nodot : forall s cur, contains_char dot s = false -> split_aux dot s cur = [(cur ++ s)%string].
Proof.
  induction s as [|c s IH]; intros cur H; cbn [split_aux].
  - rewrite str_app_nil_r'. reflexivity.
  - cbn [contains_char] in H. apply orb_false_iff in H. destruct H as [H1 H2].
    rewrite Ascii.eqb_sym, H1. rewrite IH by exact H2. rewrite str_app_assoc'. reflexivity.
Qed.
Lemma split_dot_nodot : forall b, contains_char dot b = false -> split_dot b = [b].
Proof. intros b H. unfold split_dot, split. rewrite split_aux_nodot by exact H. reflexivity. Qed.

Lemma nat_digits_nodot : forall f n, contains_char dot (nat_digits f n) = false.
Proof.
  induction f as [|f IH]; intros n; cbn [nat_digits]; [reflexivity|].
  rewrite contains_char_app. apply orb_false_iff. split.
  - destruct (n <? 10)%nat; [reflexivity|apply IH].
  - cbn [contains_char]. rewrite orb_false_r.
    assert (Hlt : n mod 10 < 10) by (apply Nat.mod_upper_bound; lia).
    destruct (n mod 10) as [|[|[|[|[|[|[|[|[|[|k]]]]]]]]]]; try reflexivity. lia.
Qed.
Lemma uniquify_nodot : forall f k cand names, contains_char dot cand = false ->
  contains_char dot (uniquify f k cand names) = false.
Proof.
  induction f as [|f IH]; intros k cand names H; cbn [uniquify]; [exact H|].
  destruct (str_in _ names); [apply IH; exact H|].
  rewrite contains_char_app, H. apply nat_digits_nodot.
Qed.
Lemma uniquify_name_nodot : forall cand names, contains_char dot cand = false ->
  contains_char dot (uniquify_name cand names) = false.
Proof. intros cand names H. unfold uniquify_name. destruct (str_in cand names); [apply uniquify_nodot|]; exact H. Qed.

(* an alias is an identifier: no dot in it *)
Definition alias_ok (i : simport) : Prop := match i_alias i with Some a => contains_char dot a = false | None => True end.
Lemma bound_name_nodot : forall i, alias_ok i -> contains_char dot (bound_name i) = false.
Proof.
  intros i H. unfold bound_name, alias_ok in *. destruct (i_alias i) as [a|]; [exact H|]. cbv zeta.
  pose proof (split_dot_components (i_module i)) as Hc.
  destruct (split_dot (i_module i)) as [|x l]; [destruct (i_from i); reflexivity|].
  destruct (i_from i).
  - apply Hc. clear Hc. revert x. induction l as [|y l IH]; intros x; [left; reflexivity|].
    change (last (x :: y :: l) "") with (last (y :: l) ""). right. apply IH.
  - apply Hc. left. reflexivity.
Qed.

(* ------------------------------------------------------------------ *)
(* ---- more of the invariant: modules, selectors, dot-free bound names ---- *)
(* ------------------------------------------------------------------ *)
Definition mods (st : im_state) : list string := map fst (snd (fst st)).
Definition imps_of (st : im_state) : list simport := fst (fst st).
Lemma add_import_mods : forall st i M, In M (mods st) \/ M = i_module i -> In M (mods (add_import st i)).
Proof.
  intros [[imps msel] names] i M H. rewrite add_import_eq. unfold mods. cbn [fst snd].
  destruct (existsb (fun kv => String.eqb (fst kv) (i_module i)) msel) eqn:E; cbn [fst snd].
  - destruct H as [H|H]; [exact H|]. subst M. apply existsb_exists in E. destruct E as [kv [Hin Hk]].
    apply String.eqb_eq in Hk. rewrite <- Hk. apply in_map. exact Hin.
  - rewrite map_app, in_app_iff. cbn [map fst]. rewrite realias_module.
    destruct H as [H|H]; [left; exact H|right; left; symmetry; exact H].
Qed.
Lemma require_mods : forall reg st sel M, In M (mods st) -> In M (mods (require reg st sel)).
Proof.
  intros reg st sel M H. unfold require. destruct (find_sel sel reg) as [e|]; [|exact H].
  destruct (ce_src e) as [[d r]|]; apply add_import_mods; left; exact H.
Qed.
Lemma fold_require_mods : forall reg l st M, In M (mods st) -> In M (mods (fold_left (require reg) l st)).
Proof. intros reg l. induction l as [|a l IH]; intros st M H; cbn [fold_left]; [exact H|]. apply IH, require_mods, H. Qed.
Lemma fold_require_has : forall reg l st sel e d rest, In sel l -> find_sel sel reg = Some e -> ce_src e = Some (d, rest) ->
  In (d_module d) (mods (fold_left (require reg) l st)).
Proof.
  intros reg l. induction l as [|a l IH]; intros st sel e d rest Hin Hf Hs; [destruct Hin|]. cbn [fold_left].
  destruct Hin as [Heq|Hin]; [|eapply IH; eauto].
  subst a. apply fold_require_mods. unfold require. rewrite Hf, Hs. apply add_import_mods. right. reflexivity.
Qed.
Lemma msel_get_map : forall M imps, In M (map i_module imps) ->
  exists i, In i imps /\ i_module i = M /\ msel_get M (map (fun i => (i_module i, isel i)) imps) = Some (isel i).
Proof.
  intros M imps. induction imps as [|x r IH]; intros H; [destruct H|]. cbn [map] in *.
  unfold msel_get. destruct (String.eqb (i_module x) M) eqn:E.
  - apply String.eqb_eq in E. exists x. split; [left; reflexivity|]. split; [exact E|]. reflexivity.
  - destruct H as [H|H]; [rewrite H, String.eqb_refl in E; discriminate|].
    destruct (IH H) as [i [Hi [Hm Hg]]]. exists i. split; [right; exact Hi|]. split; [exact Hm|exact Hg].
Qed.

Definition bn_ok (st : im_state) : Prop := forall i, In i (imps_of st) -> contains_char dot (bound_name i) = false.
Lemma add_import_bn_ok : forall st i, alias_ok i -> bn_ok st -> bn_ok (add_import st i).
Proof.
  intros [[imps msel] names] i Ha H. rewrite add_import_eq. destruct (existsb _ msel); [exact H|].
  intros j Hj. unfold imps_of in Hj. cbn [fst] in Hj. apply in_app_or in Hj. destruct Hj as [Hj|[Hj|[]]]; [exact (H j Hj)|].
  subst j. rewrite realias_bound. apply uniquify_name_nodot. apply bound_name_nodot. exact Ha.
Qed.
Definition aliases_ok (s : dstate) : Prop :=
  (forall d, In d (ds_imports s) -> alias_ok (to_simport d)) /\
  (forall e d r, In e (ds_reg s) -> ce_src e = Some (d, r) -> alias_ok (to_simport d)).
(* the statement require_configurable adds for a registered entry *)
Definition src_stmt (e : centry) : simport :=
  match ce_src e with
  | Some (d, _) => to_simport d
  | None => let m := fst (ce_home e) in {| i_module := m; i_from := contains_char dot m; i_alias := None |}
  end.
Lemma require_src : forall reg st sel, require reg st sel =
  match find_sel sel reg with Some e => add_import st (src_stmt e) | None => st end.
Proof. intros reg st sel. unfold require, src_stmt. destruct (find_sel sel reg) as [e|]; [|reflexivity]. destruct (ce_src e) as [[d r]|]; reflexivity. Qed.
(* induction principle: a property of the manager that add_import keeps for good input statements *)
Lemma header_state_from_ind : forall (P : im_state -> Prop) (Q : simport -> Prop) n0 s refs,
  P ([], [], n0) -> (forall st i, Q i -> P st -> P (add_import st i)) ->
  (forall d, In d (ds_imports s) -> Q (to_simport d)) -> (forall e, In e (ds_reg s) -> Q (src_stmt e)) ->
  P (header_state_from n0 s refs).
Proof.
  intros P Q n0 s refs H0 Hstep Hi Hr. unfold header_state_from. cbv zeta.
  set (recorded := sort_stable (fun x => x) import_key_ltb (map to_simport (ds_imports s))).
  assert (Hrec : forall i, In i recorded -> Q i).
  { intros i Hin. subst recorded. apply (Permutation_in _ (sort_stable_perm _ _ _ _ _)) in Hin.
    apply in_map_iff in Hin. destruct Hin as [d [<- Hd]]. exact (Hi d Hd). }
  assert (H1 : P (fold_left add_import recorded ([], [], n0))).
  { assert (G : forall l st, (forall i, In i l -> Q i) -> P st -> P (fold_left add_import l st)).
    { induction l as [|a l IH]; intros st Hl Hst; cbn [fold_left]; [exact Hst|].
      apply IH; [intros i Hin; apply Hl; right; exact Hin|]. apply Hstep; [apply Hl; left; reflexivity|exact Hst]. }
    apply G; [exact Hrec|exact H0]. }
  destruct (negb (dynamic_on s)); [exact H1|].
  generalize (needed s refs). intro l. revert H1. generalize (fold_left add_import recorded ([], [], n0)).
  induction l as [|a l IH]; intros st Hst; cbn [fold_left]; [exact Hst|]. apply IH.
  rewrite require_src. destruct (find_sel a (ds_reg s)) as [e|] eqn:Ef; [|exact Hst].
  apply Hstep; [|exact Hst]. apply Hr. exact (proj1 (find_sel_Some _ _ _ Ef)).
Qed.
Lemma aliases_ok_src : forall s, aliases_ok s -> forall e, In e (ds_reg s) -> alias_ok (src_stmt e).
Proof.
  intros s [_ Hr] e He. unfold src_stmt. destruct (ce_src e) as [[d r]|] eqn:Es; [exact (Hr e d r He Es)|exact I].
Qed.
Lemma header_state_from_bn_ok : forall n0 s refs, aliases_ok s -> bn_ok (header_state_from n0 s refs).
Proof.
  intros n0 s refs Hal. apply (header_state_from_ind bn_ok alias_ok).
  - intros i [].
  - intros st i Hi Hst. apply add_import_bn_ok; assumption.
  - exact (proj1 Hal).
  - exact (aliases_ok_src s Hal).
Qed.
Lemma header_state_bn_ok : forall s refs, aliases_ok s -> bn_ok (header_state s refs).
Proof. intros s refs. apply header_state_from_bn_ok. Qed.

(* ------------------------------------------------------------------ *)
(* ---- parsing the header again ---- *)
(* ------------------------------------------------------------------ *)
Definition to_dimport (i : simport) : dimport := {| d_module := i_module i; d_from := i_from i; d_alias := i_alias i |}.
Definition feature_stmt : simport := {| i_module := "__gin__.dynamic_registration"; i_from := true; i_alias := None |}.
Definition is_feature_stmt (i : simport) : bool := i_from i && String.prefix gin_feature_prefix (i_module i).
(* the statements of a header, processed in order by one ParseContext *)
Fixpoint process_all (univ : list (string * pyobj)) (c : dctx) (l : list simport) : dres dctx :=
  match l with
  | [] => DOk c
  | i :: r => match process_import univ c (to_dimport i) with DOk c' => process_all univ c' r | DErr e => DErr e end
  end.
(* what an import statement binds its name to: the leaf module, or the top package for a plain `import a.b.c` *)
Definition bound_obj (univ : list (string * pyobj)) (i : simport) (leaf : pyobj) : pyobj :=
  if i_from i || has_alias_s i then leaf
  else match pget (hd "" (split_dot (i_module i))) univ with Some m => m | None => POther end.
(* every statement of a header body is an ordinary import that succeeds in this universe and does not bind gin *)
Definition body_ok (univ : list (string * pyobj)) (body : list simport) : Prop :=
  forall i, In i body -> is_feature_stmt i = false /\ bound_name i <> "gin" /\
                         exists leaf, import_path univ (split_dot (i_module i)) = Some leaf.
(* the modules named by the header exist in this universe *)
Definition header_importable (univ : list (string * pyobj)) (hdr : list simport) : Prop :=
  forall i, In i hdr -> is_feature_module (i_module i) = false ->
            exists leaf, import_path univ (split_dot (i_module i)) = Some leaf.

Lemma process_all_table : forall univ body c0, c_dynamic c0 = true -> NoDup (map bound_name body) ->
  body_ok univ body ->
  exists c', process_all univ c0 body = DOk c' /\ c_dynamic c' = true /\
    (forall i leaf, In i body -> import_path univ (split_dot (i_module i)) = Some leaf ->
       tget (bound_name i) (c_table c') = Some (bound_obj univ i leaf, to_dimport i)) /\
    (forall n, ~ In n (map bound_name body) -> tget n (c_table c') = tget n (c_table c0)).
Proof.
  intros univ body. induction body as [|i r IH]; intros c0 Hd Hnd Himp.
  - exists c0. split; [reflexivity|]. split; [exact Hd|]. split; [intros i leaf []|reflexivity].
  - cbn [map] in Hnd. inversion Hnd as [|? ? Hni Hnd']; subst.
    destruct (Himp i (or_introl eq_refl)) as [Hf [Hg [leaf Hl]]].
    assert (Hp : exists c1, process_import univ c0 (to_dimport i) = DOk c1).
    { unfold process_import. cbn [to_dimport d_from d_module d_alias]. unfold is_feature_stmt in Hf. rewrite Hf, Hl, Hd.
      change (d_bound_name (to_dimport i)) with (bound_name i).
      destruct (String.eqb (bound_name i) "gin") eqn:E; [apply String.eqb_eq in E; contradiction|]. eexists. reflexivity. }
    destruct Hp as [c1 Hp].
    destruct (C19_import_binds univ c0 (to_dimport i) c1 leaf Hd Hf Hl Hg Hp) as [Hb [Ho Hd1]].
    change (d_bound_name (to_dimport i)) with (bound_name i) in Hb, Ho.
    destruct (IH c1 Hd1 Hnd' (fun j Hj => Himp j (or_intror Hj))) as [c' [Hpa [Hd' [Hin Hout]]]].
    exists c'. cbn [process_all]. rewrite Hp. split; [exact Hpa|]. split; [exact Hd'|]. split.
    + intros j leafj [Hj|Hj] Hlj.
      * subst j. rewrite (Hout _ Hni), Hb. rewrite Hl in Hlj. injection Hlj as Hlj. subst leafj. reflexivity.
      * exact (Hin j leafj Hj Hlj).
    + intros n Hn. cbn [map] in Hn. rewrite Hout by (intro Hc; apply Hn; right; exact Hc).
      apply Ho. intro Hc. apply Hn. left. symmetry. exact Hc.
Qed.

(* ---- attribute chains ---- *)
Lemma follow_acc : forall names o acc,
  follow o names acc = match follow o names [] with Some ch => Some (acc ++ ch) | None => None end.
Proof.
  induction names as [|n r IH]; intros o acc; cbn [follow]; [reflexivity|].
  destruct (pget n (attrs_of o)) as [o'|]; [|reflexivity].
  rewrite (IH o' (acc ++ [o])), (IH o' ([] ++ [o])). destruct (follow o' r []) as [ch|]; [|reflexivity].
  rewrite <- app_assoc. reflexivity.
Qed.
Lemma last_app_nonempty : forall (A : Type) (l1 l2 : list A) d, l2 <> [] -> last (l1 ++ l2) d = last l2 d.
Proof.
  intros A l1 l2 d H. induction l1 as [|x l1 IH]; [reflexivity|]. cbn [app].
  destruct (l1 ++ l2) as [|a l] eqn:E; [apply app_eq_nil in E; destruct E; contradiction|].
  change (last (x :: a :: l) d) with (last (a :: l) d). exact IH.
Qed.
(* __import__(a.b.c) is the top package followed along b.c *)
Lemma import_path_follow : forall parts univ leaf, import_path univ parts = Some leaf ->
  exists t, pget (hd "" parts) univ = Some t /\
    forall more acc, exists acc', follow t (tl parts ++ more) acc = follow leaf more acc'.
Proof.
  induction parts as [|p r IH]; intros univ leaf H; cbn [import_path] in H; [discriminate|].
  destruct r as [|q r'].
  - destruct (pget p univ) as [[a|? ?| |]|] eqn:Eg; try discriminate. inversion H; subst.
    exists (PMod a). split; [exact Eg|]. intros more acc. exists acc. reflexivity.
  - destruct (pget p univ) as [[a|? ?| |]|] eqn:Eg; try discriminate.
    destruct (IH a leaf H) as [t' [Hg' Hf']]. cbn [hd] in Hg'.
    exists (PMod a). split; [exact Eg|]. intros more acc. cbn [tl app follow attrs_of]. rewrite Hg'.
    cbn [tl] in Hf'. apply Hf'.
Qed.

(* ------------------------------------------------------------------ *)
(* ---- the enabling statement comes first, unchanged ---- *)
(* ------------------------------------------------------------------ *)
(* The enabling statement is recorded in its canonical form (process_import accepts no other `from __gin__...`), and
   no OTHER statement lives in the __gin__ name space.  For the recorded imports this is an invariant of parse_call
   (parse_call_imports_ok below). *)
Definition stmt_ok (x : simport) : Prop := is_feature_module (i_module x) = true -> x = feature_stmt.
Definition canonical_feature (s : dstate) : Prop :=
  (forall d, In d (ds_imports s) -> stmt_ok (to_simport d)) /\ (forall e, In e (ds_reg s) -> stmt_ok (src_stmt e)).
(* what process_import guarantees about `from __gin__...` statements *)
Lemma process_import_feature_canonical : forall univ c d c', process_import univ c d = DOk c' ->
  d_from d = true -> is_feature_module (d_module d) = true -> to_simport d = feature_stmt.
Proof.
  intros univ c d c' H Hf Hm. unfold process_import in H. unfold is_feature_module in Hm.
  change gin_feature_prefix with "__gin__." in H. rewrite Hf, Hm in H. cbn [andb] in H.
  destruct d as [m f a]. cbn [d_alias d_module d_from] in *. destruct a; [discriminate|].
  destruct (String.eqb m "__gin__.dynamic_registration") eqn:E; [|discriminate].
  apply String.eqb_eq in E. subst. reflexivity.
Qed.

Lemma not_In_str_in : forall c names, ~ In c names -> str_in c names = false.
Proof.
  intros c names H. destruct (str_in c names) eqn:E; [|reflexivity]. exfalso. apply H.
  unfold str_in in E. apply existsb_exists in E. destruct E as [x [Hx Hc]]. apply String.eqb_eq in Hc. subst x. exact Hx.
Qed.

(* repaired code: the recorded imports are added feature statements first *)
Lemma import_key_le_feature : forall x y, key_le (fun x : simport => x) import_key_ltb x y ->
  SerialProofs2.is_feature x = false -> SerialProofs2.is_feature y = false.
Proof.
  intros x y H Hx. unfold key_le, import_key_ltb, import_key_ltb_noalias, SerialProofs2.is_feature in *. rewrite Hx in H.
  destruct (is_feature_module (i_module y)); [cbn in H; discriminate H|reflexivity].
Qed.
Lemma recorded_feature_first : forall l, exists l1 l2, sort_stable (fun x : simport => x) import_key_ltb l = l1 ++ l2 /\
  (forall i, In i l1 -> is_feature_module (i_module i) = true) /\ (forall i, In i l2 -> is_feature_module (i_module i) = false).
Proof.
  intros l. set (r := sort_stable (fun x : simport => x) import_key_ltb l).
  exists (filter SerialProofs2.is_feature r), (filter (fun x => negb (SerialProofs2.is_feature x)) r). split; [|split].
  - apply (sorted_split _ _ SerialProofs2.is_feature _ import_key_le_feature (import_manager_sort_sorted l)).
  - intros i Hi. apply filter_In in Hi. exact (proj2 Hi).
  - intros i Hi. apply filter_In in Hi. destruct Hi as [_ Hi]. apply negb_true_iff in Hi. exact Hi.
Qed.

Definition feat_inv (st : im_state) : Prop :=
  forall i, In i (imps_of st) -> is_feature_module (i_module i) = true -> i = feature_stmt.
Lemma add_import_keep : forall st x, In (i_module x) (mods st) -> add_import st x = st.
Proof.
  intros [[imps msel] names] x H. rewrite add_import_eq. unfold mods in H. cbn [fst snd] in H.
  assert (Ht : existsb (fun kv : string * string => String.eqb (fst kv) (i_module x)) msel = true); [|rewrite Ht; reflexivity].
  apply existsb_exists. apply in_map_iff in H. destruct H as [kv [Hk Hin]]. exists kv. split; [exact Hin|]. rewrite Hk. apply String.eqb_refl.
Qed.
Lemma add_import_nonfeat : forall st x, is_feature_module (i_module x) = false -> feat_inv st -> feat_inv (add_import st x).
Proof.
  intros [[imps msel] names] x Hx H. rewrite add_import_eq. destruct (existsb _ msel); [exact H|].
  intros i Hi Hf. unfold imps_of in Hi. cbn [fst] in Hi. apply in_app_or in Hi. destruct Hi as [Hi|[Hi|[]]]; [exact (H i Hi Hf)|].
  subst i. rewrite realias_module in Hf. congruence.
Qed.
Lemma fold_add_import_nonfeat : forall l st, (forall i, In i l -> is_feature_module (i_module i) = false) ->
  feat_inv st -> feat_inv (fold_left add_import l st).
Proof.
  induction l as [|a l IH]; intros st Hl Hst; cbn [fold_left]; [exact Hst|].
  apply IH; [intros i Hin; apply Hl; right; exact Hin|]. apply add_import_nonfeat; [apply Hl; left; reflexivity|exact Hst].
Qed.
Definition feat_inv_on (st : im_state) : Prop := feat_inv st /\ In "__gin__.dynamic_registration" (mods st).
Lemma add_import_feat_inv_on : forall st x, stmt_ok x -> feat_inv_on st -> feat_inv_on (add_import st x).
Proof.
  intros st x Hx [H1 H2]. destruct (is_feature_module (i_module x)) eqn:Ef.
  - rewrite add_import_keep; [split; assumption|]. rewrite (Hx Ef). exact H2.
  - split; [apply add_import_nonfeat; assumption|]. apply add_import_mods. left. exact H2.
Qed.
Lemma header_state_from_feat_inv : forall n0 s refs, ~ In "dynamic_registration" n0 -> canonical_feature s ->
  feat_inv (header_state_from n0 s refs).
Proof.
  intros n0 s refs Hn0 [Hi Hr]. unfold header_state_from. cbv zeta.
  destruct (recorded_feature_first (map to_simport (ds_imports s))) as (l1 & l2 & Heq & Hl1 & Hl2).
  assert (Hrec : forall i, In i (l1 ++ l2) -> stmt_ok i).
  { intros i Hin. rewrite <- Heq in Hin. apply (Permutation_in _ (sort_stable_perm _ _ _ _ _)) in Hin.
    apply in_map_iff in Hin. destruct Hin as [d [<- Hd]]. exact (Hi d Hd). }
  assert (Gon : forall l st, (forall i, In i l -> stmt_ok i) -> feat_inv_on st -> feat_inv_on (fold_left add_import l st)).
  { induction l as [|a l IH]; intros st Hl Hst; cbn [fold_left]; [exact Hst|].
    apply IH; [intros i Hin; apply Hl; right; exact Hin|]. apply add_import_feat_inv_on; [apply Hl; left; reflexivity|exact Hst]. }
  assert (Greq : forall l st, feat_inv_on st -> feat_inv_on (fold_left (require (ds_reg s)) l st)).
  { induction l as [|a l IH]; intros st Hst; cbn [fold_left]; [exact Hst|]. apply IH. rewrite require_src.
    destruct (find_sel a (ds_reg s)) as [e|] eqn:Ef; [|exact Hst].
    apply add_import_feat_inv_on; [|exact Hst]. apply Hr. exact (proj1 (find_sel_Some _ _ _ Ef)). }
  rewrite Heq. destruct l1 as [|x l1'].
  - (* no feature statement recorded: dynamic registration is off *)
    cbn [app] in *.
    assert (Hoff : dynamic_on s = false).
    { destruct (dynamic_on s) eqn:Hd; [|reflexivity]. exfalso. unfold dynamic_on in Hd. apply existsb_exists in Hd.
      destruct Hd as [d [Hin Hm]]. apply String.eqb_eq in Hm.
      assert (Hin' : In (to_simport d) l2).
      { rewrite <- Heq. apply (Permutation_in _ (Permutation_sym (sort_stable_perm _ _ _ _ _))). apply in_map. exact Hin. }
      pose proof (Hl2 _ Hin') as Hc. cbn [to_simport i_module] in Hc. rewrite Hm in Hc. cbn in Hc. discriminate. }
    rewrite Hoff. cbn [negb]. apply fold_add_import_nonfeat; [exact Hl2|]. intros i [].
  - (* the first statement added is the enabling statement: nothing is taken yet, it stays as it is *)
    assert (Hx : x = feature_stmt) by (apply (Hrec x); [left; reflexivity|apply Hl1; left; reflexivity]). subst x.
    cbn [app fold_left].
    assert (H1 : feat_inv_on (add_import ([], [], n0) feature_stmt)).
    { rewrite add_import_eq. cbn [existsb]. unfold realias. cbv zeta. change (bound_name feature_stmt) with "dynamic_registration".
      unfold uniquify_name. rewrite (not_In_str_in _ _ Hn0). cbn [String.eqb Ascii.eqb Bool.eqb]. cbn.
      split; [|left; reflexivity]. intros i [Hi'|[]] _. symmetry. exact Hi'. }
    pose proof (Gon (l1' ++ l2) _ (fun i Hin => Hrec i (or_intror Hin)) H1) as H2.
    destruct (negb (dynamic_on s)); [exact (proj1 H2)|]. exact (proj1 (Greq _ _ H2)).
Qed.
Lemma fold_add_import_mods : forall l st M, In M (mods st) -> In M (mods (fold_left add_import l st)).
Proof. induction l as [|a l IH]; intros st M H; cbn [fold_left]; [exact H|]. apply IH, add_import_mods. left. exact H. Qed.
Lemma fold_add_import_has : forall l st x, In x l -> In (i_module x) (mods (fold_left add_import l st)).
Proof.
  induction l as [|a l IH]; intros st x Hin; [destruct Hin|]. cbn [fold_left]. destruct Hin as [Heq|Hin]; [|apply IH, Hin].
  subst a. apply fold_add_import_mods, add_import_mods. right. reflexivity.
Qed.
Lemma header_state_has_feature : forall n0 s refs, dynamic_on s = true ->
  In "__gin__.dynamic_registration" (mods (header_state_from n0 s refs)).
Proof.
  intros n0 s refs Hd. unfold dynamic_on in Hd. apply existsb_exists in Hd. destruct Hd as [d [Hin Hm]].
  apply String.eqb_eq in Hm. unfold header_state_from. cbv zeta.
  assert (H0 : In "__gin__.dynamic_registration"
                 (mods (fold_left add_import (sort_stable (fun x => x) import_key_ltb (map to_simport (ds_imports s))) ([], [], n0)))).
  { rewrite <- Hm. change (d_module d) with (i_module (to_simport d)). apply fold_add_import_has.
    apply (Permutation_in _ (Permutation_sym (sort_stable_perm _ _ _ _ _))). apply in_map. exact Hin. }
  destruct (negb (dynamic_on s)); [exact H0|]. apply fold_require_mods. exact H0.
Qed.

(* the emitted header begins with the enabling statement, in its canonical form; nothing else in it is a __gin__ statement *)
Theorem C19_header_feature_first : forall s refs, dynamic_on s = true -> header_bound s refs -> canonical_feature s ->
  exists body, header_imports s refs = feature_stmt :: body /\
               forall i, In i body -> is_feature_module (i_module i) = false.
Proof.
  intros s refs Hd Hb Hcf. pose proof (header_state_ok s refs Hb) as Hok.
  assert (Hn0 : ~ In "dynamic_registration" (names_init s)).
  { unfold names_init. destruct (dynamic_on s); [intros [H|[]]; discriminate|intros []]. }
  pose proof (header_state_from_feat_inv (names_init s) s refs Hn0 Hcf) as Hfi.
  pose proof (header_state_has_feature (names_init s) s refs Hd) as Hhas.
  unfold header_imports. fold (header_state s refs) in Hfi, Hhas. unfold mods in Hhas.
  destruct (header_state s refs) as [[imps msel] names]. cbn [fst snd] in *.
  destruct Hok as (_ & Hm & _ & Hmd & _). unfold feat_inv, imps_of in Hfi. cbn [fst] in Hfi. pose proof Hfi as H1. subst msel. rewrite map_map in Hhas. cbn [fst] in Hhas.
  assert (Hfeat : In feature_stmt imps).
  { apply in_map_iff in Hhas. destruct Hhas as [i [Him Hi]]. rewrite <- (H1 i Hi); [exact Hi|]. rewrite Him. reflexivity. }
  destruct (sorted_imports_feature_first imps) as (l1 & l2 & Heq & Hl1 & Hl2).
  assert (Hperm : Permutation (l1 ++ l2) imps) by (rewrite <- Heq; apply sort_stable_perm).
  rewrite Forall_forall in Hl1, Hl2. unfold SerialProofs2.is_feature in Hl1, Hl2.
  assert (Hall1 : forall i, In i l1 -> i = feature_stmt).
  { intros i Hi. apply H1; [|exact (Hl1 i Hi)]. apply (Permutation_in _ Hperm). apply in_or_app. left. exact Hi. }
  assert (Hin1 : In feature_stmt l1).
  { apply (Permutation_in _ (Permutation_sym Hperm)) in Hfeat. apply in_app_or in Hfeat. destruct Hfeat as [H|H]; [exact H|].
    pose proof (Hl2 _ H) as Hc. cbn in Hc. discriminate. }
  assert (Hndm : NoDup (map i_module (l1 ++ l2))).
  { apply (Permutation_NoDup (l := map i_module imps)); [apply Permutation_map, Permutation_sym, Hperm|exact Hmd]. }
  exists l2. rewrite Heq. split; [|exact Hl2].
  destruct l1 as [|x [|y l1']]; [destruct Hin1| |].
  - rewrite (Hall1 x (or_introl eq_refl)). reflexivity.
  - exfalso. rewrite (Hall1 x (or_introl eq_refl)), (Hall1 y (or_intror (or_introl eq_refl))) in Hndm.
    cbn [app map] in Hndm. inversion Hndm as [|? ? Hni _]; subst. apply Hni. left. reflexivity.
Qed.

(* ------------------------------------------------------------------ *)
(* ---- (2) every emitted selector resolves, in a fresh process, to the same object ---- *)
(* ------------------------------------------------------------------ *)
Theorem C19_emitted_selector_resolves : forall univ s refs sel e d rest leaf chain,
  dynamic_on s = true -> header_bound s refs -> aliases_ok s -> canonical_feature s ->
  (* the modules named by the header exist in this universe *)
  header_importable univ (header_imports s refs) ->
  (* sel is configured or referenced, and its registration came from an import *)
  In sel (needed s refs) -> find_sel sel (ds_reg s) = Some e -> ce_src e = Some (d, rest) ->
  d_module d <> "__gin__.dynamic_registration" ->
  (* in this universe the import source denotes an object: module d, then the attributes rest *)
  import_path univ (split_dot (d_module d)) = Some leaf ->
  follow leaf (split_dot rest) [] = Some chain ->
  exists c' i root chain',
    process_all univ empty_ctx (header_imports s refs) = DOk c' /\ c_dynamic c' = true /\
    In i (header_imports s refs) /\ i_module i = d_module d /\
    emitted_selector s refs sel = (isel i ++ "." ++ rest)%string /\
    tget (hd "" (split_dot (emitted_selector s refs sel))) (c_table c') = Some (root, to_dimport i) /\
    follow root (tl (split_dot (emitted_selector s refs sel))) [] = Some chain' /\
    last chain' POther = last chain POther.
Proof.
  intros univ s refs sel e d rest leaf chain Hdyn Hb Hal Hcf Himp0 Hneed Hfs Hsrc Hnf Hleaf Hfol.
  destruct (C19_header_feature_first s refs Hdyn Hb Hcf) as [body [Hhdr Hbody]].
  assert (Himp : body_ok univ body).
  { intros i Hi. pose proof (Hbody i Hi) as Hnf'. split; [|split].
    - unfold is_feature_stmt. change gin_feature_prefix with "__gin__.". unfold is_feature_module in Hnf'. rewrite Hnf'. apply andb_false_r.
    - apply (C19_header_no_reserved_name s refs Hb Hdyn). rewrite Hhdr. right. exact Hi.
    - apply Himp0; [rewrite Hhdr; right; exact Hi|exact Hnf']. }
  pose proof (header_state_ok s refs Hb) as Hok.
  pose proof (header_state_bn_ok s refs Hal) as Hbn.
  pose proof (C19_header_bound_names_unique s refs Hb) as Hnd.
  assert (Hmod : In (d_module d) (mods (header_state s refs))).
  { unfold header_state, header_state_from. cbv zeta. rewrite Hdyn. cbn [negb]. eapply fold_require_has; eauto. }
  unfold emitted_selector, header_imports in *. unfold bn_ok, imps_of, mods in *.
  destruct (header_state s refs) as [[imps msel] names]. cbn [fst snd] in *.
  destruct Hok as (Hn & Hm & _ & _). subst msel. rewrite map_map in Hmod. cbn [fst] in Hmod.
  destruct (msel_get_map _ _ Hmod) as [i [Hi [Him Hget]]].
  assert (Hperm : Permutation (feature_stmt :: body) imps).
  { rewrite <- Hhdr. unfold sorted_imports. apply sort_stable_perm. }
  assert (Hib : In i body).
  { apply (Permutation_in _ (Permutation_sym Hperm)) in Hi. destruct Hi as [Hi|Hi]; [|exact Hi].
    subst i. cbn in Him. congruence. }
  rewrite Hhdr in Hnd. cbn [map] in Hnd. inversion Hnd as [|? ? _ Hndb]; subst.
  (* the fresh process *)
  set (c1 := {| c_dynamic := true; c_imports := [to_dimport feature_stmt]; c_table := [] |}).
  destruct (process_all_table univ body c1 eq_refl Hndb Himp) as [c' [Hpa [Hd' [Hin _]]]].
  assert (Hli : import_path univ (split_dot (i_module i)) = Some leaf) by (rewrite Him; exact Hleaf).
  pose proof (Hin i leaf Hib Hli) as Htg.
  assert (Hem : emitted_dyn (ds_reg s) (map (fun i0 => (i_module i0, isel i0)) imps) sel = (isel i ++ "." ++ rest)%string).
  { unfold emitted_dyn. rewrite Hfs, Hsrc, Hget. reflexivity. }
  rewrite Hem. rewrite split_dot_app.
  assert (Hchain : chain <> []).
  { destruct (follow_spec _ _ _ _ Hfol) as [Hlen _]. intro Hc. subst chain. cbn in Hlen. lia. }
  exists c', i. unfold isel, bound_obj in *.
  destruct (i_from i || has_alias_s i) eqn:Efa.
  - (* the name is bound to the module itself *)
    rewrite (split_dot_nodot _ (Hbn i Hi)). cbn [app hd tl].
    exists leaf, chain. rewrite Hhdr. cbn [process_all]. change (process_import univ empty_ctx (to_dimport feature_stmt)) with (@DOk dctx c1).
    split; [exact Hpa|]. split; [exact Hd'|]. split; [right; exact Hib|]. split; [exact Him|]. split; [reflexivity|].
    split; [exact Htg|]. split; [exact Hfol|reflexivity].
  - (* plain `import a.b.c`: the name is bound to the top package *)
    destruct (import_path_follow _ _ _ Hli) as [t [Ht Hft]]. rewrite Ht in Htg.
    assert (Hbi : bound_name i = hd "" (split_dot (i_module i))).
    { unfold bound_name. apply orb_false_iff in Efa. destruct Efa as [E1 E2]. unfold has_alias_s in E2.
      destruct (i_alias i); [discriminate|]. cbv zeta. rewrite E1. reflexivity. }
    pose proof (split_dot_nonempty (i_module i)) as Hne.
    destruct (split_dot (i_module i)) as [|p ps] eqn:Esp; [contradiction|]. cbn [app hd tl] in *.
    destruct (Hft (split_dot rest) []) as [acc' Hfa]. rewrite (follow_acc (split_dot rest) leaf acc'), Hfol in Hfa.
    exists t, (acc' ++ chain). rewrite Hhdr. cbn [process_all]. change (process_import univ empty_ctx (to_dimport feature_stmt)) with (@DOk dctx c1).
    split; [exact Hpa|]. split; [exact Hd'|]. split; [right; exact Hib|]. split; [exact Him|]. split; [reflexivity|].
    split; [rewrite <- Hbi; exact Htg|]. split; [exact Hfa|].
    apply last_app_nonempty. exact Hchain.
Qed.
(* ... hence to the object with the id of the registered entry *)
Corollary C19_emitted_selector_same_object : forall univ s refs sel e d rest leaf chain,
  dynamic_on s = true -> header_bound s refs -> aliases_ok s -> canonical_feature s ->
  header_importable univ (header_imports s refs) ->
  In sel (needed s refs) -> find_sel sel (ds_reg s) = Some e -> ce_src e = Some (d, rest) ->
  d_module d <> "__gin__.dynamic_registration" ->
  import_path univ (split_dot (d_module d)) = Some leaf ->
  follow leaf (split_dot rest) [] = Some chain -> obj_id (last chain POther) = Some (ce_obj e) ->
  exists c' root d' chain',
    process_all univ empty_ctx (header_imports s refs) = DOk c' /\
    tget (hd "" (split_dot (emitted_selector s refs sel))) (c_table c') = Some (root, d') /\
    follow root (tl (split_dot (emitted_selector s refs sel))) [] = Some chain' /\
    obj_id (last chain' POther) = Some (ce_obj e).
Proof.
  intros univ s refs sel e d rest leaf chain Hdyn Hb Hal Hcf Himp Hneed Hfs Hsrc Hnf Hleaf Hfol Hid.
  destruct (C19_emitted_selector_resolves univ s refs sel e d rest leaf chain Hdyn Hb Hal Hcf Himp Hneed Hfs Hsrc Hnf Hleaf Hfol)
    as [c' [i [root [chain' [Hp [_ [_ [_ [_ [Ht [Hf Hl]]]]]]]]]]].
  exists c', root, (to_dimport i), chain'. repeat (split; [assumption|]). rewrite Hl. exact Hid.
Qed.

(* ------------------------------------------------------------------ *)
(* ---- where the universe hypotheses of (2) come from: _import_source is coherent ---- *)
(* ------------------------------------------------------------------ *)
Lemma split_join : forall l, l <> [] -> (forall x, In x l -> contains_char dot x = false) -> split_dot (join_dot l) = l.
Proof.
  induction l as [|x l IH]; intros Hne Hd; [contradiction|]. destruct l as [|y r].
  - cbn [join_dot join]. apply split_dot_nodot. apply Hd. left. reflexivity.
  - change (join_dot (x :: y :: r)) with (x ++ "." ++ join_dot (y :: r))%string.
    rewrite split_dot_app, split_dot_nodot by (apply Hd; left; reflexivity).
    rewrite IH; [reflexivity|discriminate|]. intros z Hz. apply Hd. right. exact Hz.
Qed.
Definition common_prefix_len : list string -> list string -> nat :=
  fix cnt (a b : list string) : nat :=
    match a, b with
    | x :: r, y :: q => if String.eqb x y then S (cnt r q) else 0
    | _, _ => 0
    end.
Lemma common_prefix_spec : forall a b, firstn (common_prefix_len a b) a = firstn (common_prefix_len a b) b /\
  common_prefix_len a b <= List.length a /\ common_prefix_len a b <= List.length b.
Proof.
  induction a as [|x r IH]; intros b; [cbn; repeat split; lia|]. destruct b as [|y q]; [cbn; repeat split; lia|].
  cbn [common_prefix_len]. destruct (String.eqb x y) eqn:E; [|cbn; repeat split; lia].
  apply String.eqb_eq in E. subst y. destruct (IH q) as [H1 [H2 H3]]. cbn [firstn List.length].
  split; [f_equal; exact H1|]. split; lia.
Qed.
Lemma firstn_removelast : forall (A : Type) (l : list A) n, n <= List.length (removelast l) -> firstn n (removelast l) = firstn n l.
Proof.
  intros A l. induction l as [|x l IH]; intros n Hn; [reflexivity|]. destruct l as [|y r].
  - cbn in Hn. assert (n = 0) by lia. subst n. reflexivity.
  - change (removelast (x :: y :: r)) with (x :: removelast (y :: r)) in *. destruct n as [|n]; [reflexivity|].
    cbn [firstn]. f_equal. apply IH. cbn [List.length] in Hn. lia.
Qed.
Lemma In_firstn' : forall (A : Type) n (l : list A) x, In x (firstn n l) -> In x l.
Proof. intros A n l x H. rewrite <- (firstn_skipn n l). apply in_or_app. left. exact H. Qed.
Lemma In_skipn' : forall (A : Type) n (l : list A) x, In x (skipn n l) -> In x l.
Proof. intros A n l x H. rewrite <- (firstn_skipn n l). apply in_or_app. right. exact H. Qed.
Lemma import_path_prefix : forall parts univ leaf n, import_path univ parts = Some leaf -> 1 <= n -> n <= List.length parts ->
  exists leafn, import_path univ (firstn n parts) = Some leafn.
Proof.
  induction parts as [|p r IH]; intros univ leaf n H H1 H2; [cbn in H2; lia|].
  destruct n as [|[|k]]; [lia| |].
  - cbn [firstn]. cbn [import_path] in *. destruct r as [|q r']; destruct (pget p univ) as [[a|? ?| |]|]; try discriminate; eauto.
  - destruct r as [|q r']; [cbn in H2; lia|]. cbn [import_path] in H.
    destruct (pget p univ) as [[a|? ?| |]|] eqn:Eg; try discriminate.
    destruct (IH a leaf (S k) H) as [leafn Hn]; [lia|cbn [List.length] in H2 |- *; lia|].
    exists leafn. cbn [firstn] in *. cbn [import_path]. rewrite Eg. exact Hn.
Qed.

(* the import source (statement, attribute path) recorded for a name denotes the very object the name denotes:
   module of the statement, then the attributes *)
Theorem import_source_denotes : forall univ d0 leaf0 names chain d rest,
  import_path univ (split_dot (d_module d0)) = Some leaf0 ->
  hd "" names = d_bound_name d0 -> 2 <= List.length names ->
  (forall x, In x names -> contains_char dot x = false) ->
  follow (bound_obj univ (to_simport d0) leaf0) (tl names) [] = Some chain ->
  import_source d0 names = (d, rest) ->
  exists leaf chain', import_path univ (split_dot (d_module d)) = Some leaf /\
    follow leaf (split_dot rest) [] = Some chain' /\ last chain' POther = last chain POther.
Proof.
  intros univ d0 leaf0 names chain d rest Himp Hhd Hlen Hdf Hfol Hsrc. unfold import_source in Hsrc.
  change (d_alias d0) with (i_alias (to_simport d0)) in Hsrc.
  unfold bound_obj in Hfol. cbn [to_simport i_from i_alias i_module] in Hfol. unfold has_alias_s in Hfol. cbn [to_simport i_alias] in Hfol, Hsrc.
  destruct names as [|h tn]; [cbn in Hlen; lia|]. destruct tn as [|h2 tn]; [cbn in Hlen; lia|]. cbn [tl hd] in *.
  destruct (d_from d0) eqn:Ef; [|destruct (d_alias d0) as [al|] eqn:Ea].
  - (* from: the name is bound to the module *)
    cbn [negb andb orb] in *. injection Hsrc as Hd Hr. subst d rest. exists leaf0, chain.
    split; [exact Himp|]. split; [|reflexivity]. cbn [tl]. rewrite split_join; [exact Hfol|discriminate|].
    intros x Hx. apply Hdf. right. exact Hx.
  - (* alias: likewise *)
    cbn [negb andb orb] in *. injection Hsrc as Hd Hr. subst d rest. exists leaf0, chain.
    split; [exact Himp|]. split; [|reflexivity]. cbn [tl]. rewrite split_join; [exact Hfol|discriminate|].
    intros x Hx. apply Hdf. right. exact Hx.
  - (* plain import: the name is bound to the top package *)
    cbn [negb andb orb] in *. cbv zeta in Hsrc.
    change (fix cnt (a b : list string) {struct a} : nat :=
              match a, b with x :: r, y :: q => if String.eqb x y then S (cnt r q) else 0 | _, _ => 0 end)
      with common_prefix_len in Hsrc.
    assert (Hmne : split_dot (d_module d0) <> []) by apply split_dot_nonempty.
    pose proof (split_dot_components (d_module d0)) as Hmdf.
    remember (split_dot (d_module d0)) as mparts eqn:Emp. remember (h :: h2 :: tn) as names eqn:Enames.
    assert (Hn0' : 1 <= common_prefix_len mparts (removelast names)).
    { subst names. change (removelast (h :: h2 :: tn)) with (h :: removelast (h2 :: tn)).
      destruct mparts as [|m0 mr]; [contradiction|].
      assert (h = m0).
      { rewrite Hhd. unfold d_bound_name, bound_name. cbn [to_simport i_alias i_from i_module]. rewrite Ea, Ef, <- Emp. reflexivity. }
      rewrite H. cbn [common_prefix_len]. rewrite String.eqb_refl. lia. }
    remember (common_prefix_len mparts (removelast names)) as n eqn:En.
    destruct (common_prefix_spec mparts (removelast names)) as [Hpre [Hn1 Hn2]]. rewrite <- En in Hpre, Hn1, Hn2.
    injection Hsrc as Hd Hr. subst d rest. cbn [d_module].
    pose proof Hn0' as Hn0.
    rewrite firstn_removelast in Hpre by exact Hn2.
    assert (Hrl : List.length (removelast names) = S (List.length tn)).
    { subst names. change (removelast (h :: h2 :: tn)) with (h :: removelast (h2 :: tn)). cbn [List.length]. f_equal.
      clear. revert h2. induction tn as [|a t IH]; intros h2; [reflexivity|].
      change (removelast (h2 :: a :: t)) with (h2 :: removelast (a :: t)). cbn [List.length]. f_equal. apply IH. }
    assert (Hnames : names = firstn n mparts ++ skipn n names) by (rewrite Hpre; symmetry; apply firstn_skipn).
    assert (Hfn : firstn n mparts <> []).
    { destruct n; [lia|]. destruct mparts; [contradiction|]. discriminate. }
    assert (Hsk : skipn n names <> []).
    { intro Hc. pose proof (f_equal (@List.length string) Hc) as Hl. rewrite skipn_length in Hl. subst names.
      cbn [List.length] in Hl, Hrl. lia. }
    destruct (import_path_prefix mparts univ leaf0 n Himp Hn0 Hn1) as [leafn Hln].
    rewrite split_join; [|exact Hfn|intros x Hx; apply Hmdf; exact (In_firstn' _ _ _ _ Hx)].
    rewrite split_join; [|exact Hsk|intros x Hx; apply Hdf; exact (In_skipn' _ _ _ _ Hx)].
    destruct (import_path_follow _ _ _ Hln) as [t [Ht Hft]].
    assert (Hhd2 : hd "" (firstn n mparts) = hd "" mparts).
    { destruct n; [lia|]. destruct mparts; reflexivity. }
    rewrite Hhd2 in Ht. rewrite Ht in Hfol.
    assert (Htl : tl (firstn n mparts) ++ skipn n names = h2 :: tn).
    { assert (Ht2 : tl names = h2 :: tn) by (rewrite Enames; reflexivity). rewrite <- Ht2.
      rewrite Hnames at 2. destruct (firstn n mparts); [contradiction|]. reflexivity. }
    destruct (Hft (skipn n names) []) as [acc' Hfa]. rewrite Htl, Hfol in Hfa.
    rewrite (follow_acc (skipn n names) leafn acc') in Hfa.
    destruct (follow leafn (skipn n names) []) as [ch0|] eqn:E0; [|discriminate].
    injection Hfa as Hfa. exists leafn, ch0. split; [exact Hln|]. split; [exact E0|].
    rewrite Hfa. symmetry. apply last_app_nonempty.
    destruct (follow_spec _ _ _ _ E0) as [Hl0 _]. intro Hc. subst ch0. cbn in Hl0. lia.
Qed.

(* ------------------------------------------------------------------ *)
(* ---- canonical_feature is an invariant of parsing ---- *)
(* ------------------------------------------------------------------ *)
(* In a universe without a top-level module called __gin__ (there is none), the only statement of the __gin__ name
   space that process_import accepts is the enabling statement in its canonical form. *)
Lemma prefix_app : forall p m, String.prefix p m = true -> exists r, m = (p ++ r)%string.
Proof.
  induction p as [|c p IH]; intros m H; [exists m; reflexivity|]. destruct m as [|c' m]; [discriminate|]. cbn [String.prefix] in H.
  destruct (Ascii.ascii_dec c c') as [->|Hne]; [|discriminate]. destruct (IH m H) as [r ->]. exists r. reflexivity.
Qed.
Lemma feature_module_hd : forall m, is_feature_module m = true -> hd "" (split_dot m) = "__gin__".
Proof.
  intros m H. unfold is_feature_module in H. destruct (prefix_app _ _ H) as [r ->].
  change ("__gin__." ++ r)%string with ("__gin__" ++ "." ++ r)%string. rewrite split_dot_app. reflexivity.
Qed.
Lemma import_path_hd : forall univ parts leaf, import_path univ parts = Some leaf -> pget (hd "" parts) univ <> None.
Proof. intros univ parts leaf H. destruct (import_path_follow _ _ _ H) as [t [Ht _]]. congruence. Qed.
Lemma process_import_stmt_ok : forall univ c d c', pget "__gin__" univ = None ->
  process_import univ c d = DOk c' -> stmt_ok (to_simport d).
Proof.
  intros univ c d c' Hu H Hf. cbn [to_simport i_module] in Hf. destruct (d_from d) eqn:Efrom.
  - eapply process_import_feature_canonical; eauto.
  - exfalso. unfold process_import in H. rewrite Efrom in H. cbn [andb] in H.
    destruct (import_path univ (split_dot (d_module d))) as [leaf|] eqn:Ei; [|discriminate].
    apply (import_path_hd _ _ _ Ei). rewrite (feature_module_hd _ Hf). exact Hu.
Qed.
Lemma process_import_imports : forall univ c d c', process_import univ c d = DOk c' -> c_imports c' = c_imports c ++ [d].
Proof.
  intros univ c d c' H. unfold process_import in H.
  destruct (d_from d && String.prefix gin_feature_prefix (d_module d)).
  - destruct (d_alias d); [discriminate|]. destruct (String.eqb _ _); [|discriminate].
    destruct (c_imports c) eqn:E; [|discriminate]. inversion H; subst. reflexivity.
  - destruct (import_path univ _); [|discriminate]. destruct (c_dynamic c).
    + destruct (String.eqb _ "gin"); [discriminate|]. inversion H; reflexivity.
    + inversion H; reflexivity.
Qed.

Definition imports_ok (l : list dimport) : Prop := forall d, In d l -> stmt_ok (to_simport d).
(* run_stmts: the context's imports stay canonical; the recorded imports of the state are not touched *)
Lemma run_stmts_imports : forall univ stmts s refs c s' refs' c' e, pget "__gin__" univ = None ->
  imports_ok (c_imports c) -> run_stmts univ stmts s refs c = (s', refs', c', e) ->
  imports_ok (c_imports c') /\ ds_imports s' = ds_imports s.
Proof.
  intros univ stmts. induction stmts as [|st rest IH]; intros s refs c s' refs' c' e Hu Hok Hrun.
  - cbn [run_stmts] in Hrun. inversion Hrun; subst. split; [exact Hok|reflexivity].
  - destruct st as [d | scope sel param v | scope sel]; cbn [run_stmts] in Hrun.
    + destruct (process_import univ c d) as [c1|err] eqn:Ep.
      * eapply IH; [exact Hu| |exact Hrun]. rewrite (process_import_imports _ _ _ _ Ep).
        intros d0 Hin. apply in_app_or in Hin. destruct Hin as [Hin|[<-|[]]]; [exact (Hok d0 Hin)|].
        eapply process_import_stmt_ok; eauto.
      * inversion Hrun; subst. split; [exact Hok|reflexivity].
    + destruct v as [z | scopes rsel].
      * destruct (get_configurable (ds_reg s) c sel) as [[[reg2 full] rp2]|err].
        -- destruct (IH _ _ _ _ _ _ _ Hu Hok Hrun) as [H1 H2]. split; [exact H1|exact H2].
        -- inversion Hrun; subst. split; [exact Hok|reflexivity].
      * destruct (get_configurable (ds_reg s) c rsel) as [[[reg1 rfull] rp1]|err].
        -- destruct (get_configurable reg1 c sel) as [[[reg2 full] rp2]|err].
           ++ destruct (IH _ _ _ _ _ _ _ Hu Hok Hrun) as [H1 H2]. split; [exact H1|exact H2].
           ++ inversion Hrun; subst. split; [exact Hok|reflexivity].
        -- inversion Hrun; subst. split; [exact Hok|reflexivity].
    + destruct (get_configurable (ds_reg s) c sel) as [[[reg2 full] rp2]|err].
      * destruct (IH _ _ _ _ _ _ _ Hu Hok Hrun) as [H1 H2]. split; [exact H1|exact H2].
      * inversion Hrun; subst. split; [exact Hok|reflexivity].
Qed.
Theorem parse_call_imports_ok : forall univ stmts sr, pget "__gin__" univ = None ->
  imports_ok (ds_imports (fst sr)) -> imports_ok (ds_imports (fst (fst (parse_call univ stmts sr)))).
Proof.
  intros univ stmts [s refs] Hu Hok. unfold parse_call.
  destruct (run_stmts univ stmts s refs empty_ctx) as [[[s' refs'] c'] e] eqn:Hrun.
  assert (H0 : imports_ok (c_imports empty_ctx)) by (intros d []).
  destruct (run_stmts_imports _ _ _ _ _ _ _ _ _ Hu H0 Hrun) as [Hc Hs].
  cbn [fst] in Hok. destruct e as [cls|]; unfold record_imports; cbn [fst ds_imports];
    (intros d Hin; apply in_app_or in Hin; destruct Hin as [Hin|Hin]; [rewrite Hs in Hin; exact (Hok d Hin)|];
     apply filter_In in Hin; exact (Hc d (proj1 Hin))).
Qed.
(* the same with skip_unknown *)
Lemma run_stmts_sk_imports : forall skipf univ sk stmts s refs c s' refs' c' e, pget "__gin__" univ = None ->
  imports_ok (c_imports c) -> run_stmts_sk skipf univ sk stmts s refs c = (s', refs', c', e) ->
  imports_ok (c_imports c') /\ ds_imports s' = ds_imports s.
Proof.
  intros skipf univ sk stmts s refs c s' refs' c' e Hu Hok Hrun.
  eapply (run_stmts_sk_inv skipf univ (fun s0 _ c0 => imports_ok (c_imports c0) /\ ds_imports s0 = ds_imports s));
    [|split; [exact Hok|reflexivity]|exact Hrun].
  intros stmts0 s0 refs0 c0 s1 refs1 c1 e1 [H1 H2] Hr.
  destruct (run_stmts_imports _ _ _ _ _ _ _ _ _ Hu H1 Hr) as [H3 H4]. split; [exact H3|congruence].
Qed.
Theorem parse_call_sk_imports_ok : forall univ sk stmts sr, pget "__gin__" univ = None ->
  imports_ok (ds_imports (fst sr)) -> imports_ok (ds_imports (fst (fst (parse_call_sk univ sk stmts sr)))).
Proof.
  intros univ sk stmts [s refs] Hu Hok. unfold parse_call_sk.
  destruct (run_stmts_sk should_skip_dyn univ sk stmts s refs empty_ctx) as [[[s' refs'] c'] e] eqn:Hrun.
  assert (H0 : imports_ok (c_imports empty_ctx)) by (intros d []).
  destruct (run_stmts_sk_imports _ _ _ _ _ _ _ _ _ _ _ Hu H0 Hrun) as [Hc Hs].
  cbn [fst] in Hok. destruct e as [cls|]; unfold record_imports; cbn [fst ds_imports];
    (intros d Hin; apply in_app_or in Hin; destruct Hin as [Hin|Hin]; [rewrite Hs in Hin; exact (Hok d Hin)|];
     apply filter_In in Hin; exact (Hc d (proj1 Hin))).
Qed.
(* the states reached by a sequence of parse calls (each with its own skip_unknown), from a start with some
   pre-registered configurables: exactly the fold of DynReg.run *)
Inductive reachable (univ : list (string * pyobj)) (pre : list centry)
  : dstate * list ((string * string) * string * string) -> Prop :=
| reach_init : reachable univ pre ({| ds_reg := pre; ds_store := []; ds_imports := []; ds_dynamic_seen := false |}, [])
| reach_call : forall sr sk stmts, reachable univ pre sr -> reachable univ pre (fst (parse_call_sk univ sk stmts sr)).
(* a plain parse_call is the call with skip_unknown=False *)
Lemma reach_parse_call : forall univ pre sr stmts, class_ids_ok (PMod univ) = true ->
  reachable univ pre sr -> reachable univ pre (fst (parse_call univ stmts sr)).
Proof. intros univ pre sr stmts Hu H. rewrite <- (parse_call_sk_false univ stmts sr Hu). apply reach_call. exact H. Qed.
Theorem reachable_imports_ok : forall univ pre sr, pget "__gin__" univ = None -> reachable univ pre sr ->
  imports_ok (ds_imports (fst sr)).
Proof.
  intros univ pre sr Hu H. induction H as [|sr sk stmts H IH]; [intros d []|]. apply parse_call_sk_imports_ok; assumption.
Qed.

(* ------------------------------------------------------------------ *)
(* ---- eager recording of imports (repaired parse_config): an import that took effect is recorded whatever ---- *)
(* ---- happens to the statements after it                                                                  ---- *)
(* ------------------------------------------------------------------ *)
Definition dimport_key_eqb (x d : dimport) : bool :=
  String.eqb (d_module x) (d_module d) && Bool.eqb (d_from x) (d_from d)
  && match d_alias x, d_alias d with Some a, Some b => String.eqb a b | None, None => true | _, _ => false end.
Lemma dimport_key_eqb_eq : forall x d, dimport_key_eqb x d = true -> x = d.
Proof.
  intros [m1 f1 a1] [m2 f2 a2] H. unfold dimport_key_eqb in H. cbn [d_module d_from d_alias] in H.
  apply andb_true_iff in H. destruct H as [H Ha]. apply andb_true_iff in H. destruct H as [Hm Hf].
  apply String.eqb_eq in Hm. apply Bool.eqb_prop in Hf. subst m2 f2.
  destruct a1 as [a1|], a2 as [a2|]; try discriminate; [apply String.eqb_eq in Ha; subst a2|]; reflexivity.
Qed.
Lemma record_imports_spec : forall s imps d,
  In d (ds_imports (record_imports s imps)) <-> In d (ds_imports s) \/ In d imps.
Proof.
  intros s imps d. unfold record_imports. cbn [ds_imports]. rewrite in_app_iff, filter_In. split.
  - intros [H|[H _]]; [left|right]; exact H.
  - intros [H|H]; [left; exact H|].
    destruct (existsb (fun x => dimport_key_eqb x d) (ds_imports s)) eqn:E.
    + left. apply existsb_exists in E. destruct E as [x [Hx Hk]]. rewrite <- (dimport_key_eqb_eq x d Hk). exact Hx.
    + right. split; [exact H|]. unfold dimport_key_eqb in E. rewrite E. reflexivity.
Qed.
(* nothing but parse_call touches the recorded imports *)
Lemma run_stmts_ds_imports : forall univ stmts s refs c s' refs' c' e,
  run_stmts univ stmts s refs c = (s', refs', c', e) -> ds_imports s' = ds_imports s.
Proof.
  intros univ stmts. induction stmts as [|st rest IH]; intros s refs c s' refs' c' e Hrun.
  - cbn [run_stmts] in Hrun. inversion Hrun; subst. reflexivity.
  - destruct st as [d | scope sel param v | scope sel]; cbn [run_stmts] in Hrun.
    + destruct (process_import univ c d) as [c1|err]; [exact (IH _ _ _ _ _ _ _ Hrun)|inversion Hrun; subst; reflexivity].
    + destruct v as [z | scopes rsel].
      * destruct (get_configurable (ds_reg s) c sel) as [[[reg2 full] rp2]|err];
          [exact (IH _ _ _ _ _ _ _ Hrun)|inversion Hrun; subst; reflexivity].
      * destruct (get_configurable (ds_reg s) c rsel) as [[[reg1 rfull] rp1]|err]; [|inversion Hrun; subst; reflexivity].
        destruct (get_configurable reg1 c sel) as [[[reg2 full] rp2]|err];
          [exact (IH _ _ _ _ _ _ _ Hrun)|inversion Hrun; subst; reflexivity].
    + destruct (get_configurable (ds_reg s) c sel) as [[[reg2 full] rp2]|err];
        [exact (IH _ _ _ _ _ _ _ Hrun)|inversion Hrun; subst; reflexivity].
Qed.
Lemma run_stmts_sk_ds_imports : forall skipf univ sk stmts s refs c s' refs' c' e,
  run_stmts_sk skipf univ sk stmts s refs c = (s', refs', c', e) -> ds_imports s' = ds_imports s.
Proof.
  intros skipf univ sk stmts s refs c s' refs' c' e Hrun.
  eapply (run_stmts_sk_inv skipf univ (fun s0 _ _ => ds_imports s0 = ds_imports s)); [|reflexivity|exact Hrun].
  intros stmts0 s0 refs0 c0 s1 refs1 c1 e1 H0 Hr. rewrite (run_stmts_ds_imports _ _ _ _ _ _ _ _ _ Hr). exact H0.
Qed.
(* the context's list of imports only grows *)
Lemma run_stmts_imports_grow : forall univ stmts s refs c s' refs' c' e,
  run_stmts univ stmts s refs c = (s', refs', c', e) -> exists l, c_imports c' = c_imports c ++ l.
Proof.
  intros univ stmts s refs c s' refs' c' e Hrun.
  eapply (run_stmts_ctx_inv (fun c0 => exists l, c_imports c0 = c_imports c ++ l) univ); [| |exact Hrun].
  - intros c0 d c1 [l Hl] Hp. exists (l ++ [d]). rewrite (process_import_imports _ _ _ _ Hp), Hl, app_assoc. reflexivity.
  - exists []. rewrite app_nil_r. reflexivity.
Qed.
Lemma run_stmts_sk_imports_grow : forall skipf univ sk stmts s refs c s' refs' c' e,
  run_stmts_sk skipf univ sk stmts s refs c = (s', refs', c', e) -> exists l, c_imports c' = c_imports c ++ l.
Proof.
  intros skipf univ sk stmts s refs c s' refs' c' e Hrun.
  eapply (run_stmts_sk_inv skipf univ (fun _ _ c0 => exists l, c_imports c0 = c_imports c ++ l));
    [|exists []; rewrite app_nil_r; reflexivity|exact Hrun].
  intros stmts0 s0 refs0 c0 s1 refs1 c1 e1 [l Hl] Hr.
  destruct (run_stmts_imports_grow _ _ _ _ _ _ _ _ _ Hr) as [l2 Hl2]. exists (l ++ l2). rewrite Hl2, Hl, app_assoc. reflexivity.
Qed.
(* a run over  pre ++ post  is the run over pre, then (if it did not fail) the run over post *)
Lemma then_run_assoc : forall r k1 k2, then_run (then_run r k1) k2 = then_run r (fun s refs c => then_run (k1 s refs c) k2).
Proof. intros [[[s refs] c] [x|]] k1 k2; reflexivity. Qed.
Lemma then_run_ext : forall r k1 k2, (forall s refs c, k1 s refs c = k2 s refs c) -> then_run r k1 = then_run r k2.
Proof. intros [[[s refs] c] [x|]] k1 k2 H; [reflexivity|apply H]. Qed.
Lemma run_stmts_sk_app : forall skipf univ sk pre post s refs c,
  run_stmts_sk skipf univ sk (pre ++ post) s refs c =
  then_run (run_stmts_sk skipf univ sk pre s refs c) (run_stmts_sk skipf univ sk post).
Proof.
  intros skipf univ sk pre post. induction pre as [|st rest IH]; intros s refs c; [reflexivity|].
  rewrite <- app_comm_cons. destruct st as [d | scope sel param v | scope sel].
  - rewrite !run_stmts_sk_import. destruct (process_import univ c d) as [c1|err]; [apply IH|].
    destruct (dsk_truthy sk && String.eqb err "ModuleNotFoundError"); [apply IH|reflexivity].
  - destruct v as [z | scopes rsel].
    + rewrite !run_stmts_sk_bind_val. destruct (skipf sk (ds_reg s) c sel); [apply IH|].
      rewrite then_run_assoc. apply then_run_ext. intros. apply IH.
    + rewrite !run_stmts_sk_bind_ref. destruct (skipf sk (ds_reg s) c rsel).
      * destruct (skipf sk (ds_reg s) c sel); [apply IH|]. rewrite then_run_assoc. apply then_run_ext. intros. apply IH.
      * rewrite then_run_assoc. apply then_run_ext. intros s1 refs1 c1.
        destruct (skipf sk (ds_reg s1) c1 sel); [apply IH|]. rewrite then_run_assoc. apply then_run_ext. intros. apply IH.
  - rewrite !run_stmts_sk_block. destruct (skipf sk (ds_reg s) c sel); [apply IH|].
    rewrite then_run_assoc. apply then_run_ext. intros. apply IH.
Qed.
(* what a parse call records, failed or not: what was recorded before, and the imports of the context the run ended in *)
Theorem parse_call_sk_imports_exact : forall univ sk stmts s refs s' refs' c' e,
  run_stmts_sk should_skip_dyn univ sk stmts s refs empty_ctx = (s', refs', c', e) ->
  forall d, In d (ds_imports (fst (fst (parse_call_sk univ sk stmts (s, refs))))) <-> In d (ds_imports s) \/ In d (c_imports c').
Proof.
  intros univ sk stmts s refs s' refs' c' e Hrun d. unfold parse_call_sk. rewrite Hrun.
  rewrite <- (run_stmts_sk_ds_imports _ _ _ _ _ _ _ _ _ _ _ Hrun).
  destruct e as [cls|]; cbn [fst]; apply record_imports_spec.
Qed.
(* THE clause: the imports of every successfully processed prefix of the text are recorded, whatever the statements
   after it do (fail or not) *)
Theorem C19_effective_imports_recorded : forall univ sk pre post s refs s1 refs1 c1,
  run_stmts_sk should_skip_dyn univ sk pre s refs empty_ctx = (s1, refs1, c1, None) ->
  forall d, In d (c_imports c1) -> In d (ds_imports (fst (fst (parse_call_sk univ sk (pre ++ post) (s, refs))))).
Proof.
  intros univ sk pre post s refs s1 refs1 c1 Hpre d Hin.
  destruct (run_stmts_sk should_skip_dyn univ sk (pre ++ post) s refs empty_ctx) as [[[s' refs'] c'] e] eqn:Hrun.
  apply (proj2 (parse_call_sk_imports_exact _ _ _ _ _ _ _ _ _ Hrun d)). right.
  rewrite run_stmts_sk_app, Hpre, then_run_none in Hrun.
  destruct (run_stmts_sk_imports_grow _ _ _ _ _ _ _ _ _ _ _ Hrun) as [l Hl]. rewrite Hl. apply in_or_app. left. exact Hin.
Qed.
(* and what was recorded before the call stays recorded *)
Theorem C19_recorded_imports_kept : forall univ sk stmts sr d,
  In d (ds_imports (fst sr)) -> In d (ds_imports (fst (fst (parse_call_sk univ sk stmts sr)))).
Proof.
  intros univ sk stmts [s refs] d Hin.
  destruct (run_stmts_sk should_skip_dyn univ sk stmts s refs empty_ctx) as [[[s' refs'] c'] e] eqn:Hrun.
  apply (proj2 (parse_call_sk_imports_exact _ _ _ _ _ _ _ _ _ Hrun d)). left. exact Hin.
Qed.

(* the code before the repair recorded the imports once, after the last statement:
     from __gin__ import dynamic_registration / import dmod / nosuch.fn.x = 1
   fails at its third line with NameError and had recorded nothing, although both imports had taken effect *)
Module OrigImports.
  Definition feat : dimport := {| d_module := "__gin__.dynamic_registration"; d_from := true; d_alias := None |}.
  Definition imp_dmod : dimport := {| d_module := "dmod"; d_from := false; d_alias := None |}.
  Definition univ : list (string * pyobj) := [("dmod", PMod [("fn", PFunc 1)])].
  Definition stmts : list dstmt := [DImport feat; DImport imp_dmod; DBind "" "nosuch.fn" "x" (DVal 1)].
  Definition init : dstate * list ((string * string) * string * string) :=
    ({| ds_reg := []; ds_store := []; ds_imports := []; ds_dynamic_seen := false |}, []).
  Definition obs (r : (dstate * list ((string * string) * string * string)) * out) := (ds_imports (fst (fst r)), snd r).
  Eval vm_compute in (obs (parse_call_sk_orig univ DSkFalse stmts init), obs (parse_call_sk univ DSkFalse stmts init)).
  Theorem C19_orig_failed_parse_loses_imports :
    obs (parse_call_sk_orig univ DSkFalse stmts init) = ([], OErr "NameError") /\
    obs (parse_call_orig univ stmts init) = ([], OErr "NameError") /\
    obs (parse_call_sk univ DSkFalse stmts init) = ([feat; imp_dmod], OErr "NameError") /\
    obs (parse_call univ stmts init) = ([feat; imp_dmod], OErr "NameError") /\
    (* the property instance the old code violates: the first two statements alone succeed with these imports *)
    (let '(_, _, c, e) := run_stmts_sk should_skip_dyn univ DSkFalse [DImport feat; DImport imp_dmod] (fst init) (snd init) empty_ctx in
     (c_imports c, e)) = ([feat; imp_dmod], None).
  Proof. vm_compute. repeat split; reflexivity. Qed.
End OrigImports.

(* ---- the import sources of registered configurables are not in the __gin__ name space either ---- *)
Definition hd_ok (d : dimport) : Prop := hd "" (split_dot (d_module d)) <> "__gin__".
Definition tab_ok (c : dctx) : Prop := forall n root d, tget n (c_table c) = Some (root, d) -> hd_ok d.
Definition reg_src_ok (reg : list centry) : Prop := forall e, In e reg -> stmt_ok (src_stmt e).

Lemma process_import_tab_ok : forall univ c d c1, pget "__gin__" univ = None -> tab_ok c ->
  process_import univ c d = DOk c1 -> tab_ok c1.
Proof.
  intros univ c d c1 Hu Hok Hp. unfold process_import in Hp.
  destruct (d_from d && String.prefix gin_feature_prefix (d_module d)).
  - destruct (d_alias d); [discriminate|]. destruct (String.eqb _ _); [|discriminate].
    destruct (c_imports c); [|discriminate]. inversion Hp; subst c1. exact Hok.
  - destruct (import_path univ (split_dot (d_module d))) as [leaf|] eqn:Ei; [|discriminate].
    destruct (c_dynamic c).
    + destruct (String.eqb (d_bound_name d) "gin"); [discriminate|]. inversion Hp; subst c1; clear Hp.
      intros n root d0 Hg. cbn [c_table tget] in Hg. destruct (String.eqb n (d_bound_name d)) eqn:E.
      * injection Hg as _ Hd0. subst d0. intro Hc. apply (import_path_hd _ _ _ Ei). rewrite Hc. exact Hu.
      * rewrite tget_filter_neq in Hg; [exact (Hok _ _ _ Hg)|].
        intro Hc. subst n. rewrite String.eqb_refl in E. discriminate.
    + inversion Hp; subst c1. exact Hok.
Qed.
Lemma import_source_nonfeature : forall d0 names d rest, hd_ok d0 -> import_source d0 names = (d, rest) ->
  is_feature_module (d_module d) = false.
Proof.
  intros d0 names d rest Hok H. destruct (is_feature_module (d_module d)) eqn:Ef; [|reflexivity]. exfalso.
  apply feature_module_hd in Ef. unfold import_source in H.
  destruct (negb (d_from d0) && match d_alias d0 with None => true | Some _ => false end).
  - cbv zeta in H. injection H as Hd _. subst d. cbn [d_module] in Ef.
    match type of Ef with context [firstn ?n _] => set (k := n) in * end.
    pose proof (split_dot_components (d_module d0)) as Hdf.
    destruct (firstn k (split_dot (d_module d0))) as [|p l] eqn:Efn; [cbn in Ef; discriminate|].
    rewrite split_join in Ef; [|discriminate|intros x Hx; apply Hdf; apply (In_firstn' _ k); rewrite Efn; exact Hx].
    cbn [hd] in Ef. apply Hok. unfold hd_ok.
    destruct k; [discriminate|]. destruct (split_dot (d_module d0)) as [|m ms]; [discriminate|].
    cbn [firstn] in Efn. injection Efn as Hp _. cbn [hd]. congruence.
  - injection H as Hd _. subst d. exact (Hok Ef).
Qed.
Lemma src_stmt_import_source_ok : forall e d nm, hd_ok d -> ce_src e = Some (import_source d nm) -> stmt_ok (src_stmt e).
Proof.
  intros e d nm Hok Hs Hf. unfold src_stmt in Hf. rewrite Hs in Hf. destruct (import_source d nm) as [d' r] eqn:E.
  cbn [to_simport i_module] in Hf. rewrite (import_source_nonfeature _ _ _ _ Hok E) in Hf. discriminate.
Qed.
(* an entry of the new registry is an old one, or has the import statement of an old one (a re-registered object keeps
   its import source, F22), or has an import source made from the current import *)
Definition src_from_old (reg : list centry) (e : centry) : Prop := exists e0, In e0 reg /\ src_stmt e = src_stmt e0.
Lemma do_one_src : forall d reg names o m reg' sel rp, do_one d reg names o m = DOk (reg', sel, rp) ->
  forall e, In e reg' -> src_from_old reg e \/ ce_src e = Some (import_source d names).
Proof.
  intros d reg names o m reg' sel rp H e He. unfold do_one in H.
  destruct (obj_id o) as [i|]; [|discriminate]. cbv zeta in H.
  assert (Hentry : forall s0 m0, let en := {| ce_sel := s0; ce_obj := i; ce_method := m0;
                      ce_src := match find_obj i reg with Some e0 => ce_src e0 | None => Some (import_source d names) end;
                      ce_home := match find_obj i reg with Some e0 => ce_home e0 | None => ("", "") end |} in
                    src_from_old reg en \/ ce_src en = Some (import_source d names)).
  { intros s0 m0. cbv zeta. destruct (find_obj i reg) as [e0|] eqn:Efo; [left|right; reflexivity].
    exists e0. split; [exact (proj1 (find_obj_Some _ _ _ Efo))|reflexivity]. }
  match type of H with context [find_sel ?s reg] => destruct (find_sel s reg) as [e0|] end.
  - destruct (Nat.eqb (ce_obj e0) i); [|discriminate]. inversion H; subst; clear H.
    apply in_app_or in He. destruct He as [He|[<-|[]]]; [left; exists e; split; [apply filter_In in He; exact (proj1 He)|reflexivity]|apply Hentry].
  - inversion H; subst; clear H. apply in_app_or in He. destruct He as [He|[<-|[]]]; [left; exists e; split; [exact He|reflexivity]|apply Hentry].
Qed.
Lemma register_chain_src : forall reg d names chain reg' sel rp, register_chain reg d names chain = DOk (reg', sel, rp) ->
  forall e, In e reg' -> src_from_old reg e \/ exists nm, ce_src e = Some (import_source d nm).
Proof.
  intros reg d names chain reg' sel rp H e He. rewrite register_chain_unfold in H.
  destruct (rev chain) as [|leaf rc]; [discriminate|].
  destruct (rev (removelast chain)) as [|parent rp0]; [discriminate|].
  destruct (is_func leaf && is_class parent).
  - destruct (do_one d reg (removelast names) parent false) as [[[reg1 csel] rp1]|err] eqn:Ed; [|discriminate].
    assert (H1 : forall x, In x reg1 -> src_from_old reg x \/ exists nm, ce_src x = Some (import_source d nm)).
    { intros x Hx. destruct (do_one_src _ _ _ _ _ _ _ _ Ed x Hx) as [Hl|Hr]; [left; exact Hl|right; eexists; exact Hr]. }
    destruct (obj_id leaf) as [i|]; [|discriminate]. cbv zeta in H.
    destruct (find_obj i reg1); [inversion H; subst; exact (H1 e He)|].
    match type of H with context [find_sel ?s0 reg1] => destruct (find_sel s0 reg1) end; [discriminate|].
    inversion H; subst; clear H. apply in_app_or in He. destruct He as [He|[<-|[]]]; [exact (H1 e He)|].
    right. eexists. reflexivity.
  - destruct (do_one_src _ _ _ _ _ _ _ _ H e He) as [Hl|Hr]; [left; exact Hl|right; eexists; exact Hr].
Qed.
Lemma gc_src_ok : forall reg c sel reg' full rp, tab_ok c -> reg_src_ok reg ->
  get_configurable reg c sel = DOk (reg', full, rp) -> reg_src_ok reg'.
Proof.
  intros reg c sel reg' full rp Htab Hreg H. destruct (c_dynamic c) eqn:Hd.
  - destruct (get_configurable_dyn_inv _ _ _ _ _ _ Hd H) as [root [d [chain [i [Ht [Hf [Hi [[e1 [_ [Hr _]]]|[Hfo Hrc]]]]]]]]].
    + subst reg'. exact Hreg.
    + intros e He. destruct (register_chain_src _ _ _ _ _ _ _ Hrc e He) as [[e0 [Hin0 Heq0]]|[nm Hs]]; [rewrite Heq0; exact (Hreg e0 Hin0)|].
      eapply src_stmt_import_source_ok; [exact (Htab _ _ _ Ht)|exact Hs].
  - rewrite (get_configurable_static _ _ _ _ _ _ Hd H). exact Hreg.
Qed.
Lemma failed_reg_src_ok : forall reg c sel, tab_ok c -> reg_src_ok reg -> reg_src_ok (failed_reg reg c sel).
Proof.
  intros reg c sel Htab Hreg. unfold failed_reg.
  destruct (negb (c_dynamic c)); [exact Hreg|]. cbv zeta.
  destruct (tget (hd "" (split_dot sel)) (c_table c)) as [[root d]|] eqn:Ht; [|exact Hreg].
  destruct (follow root (tl (split_dot sel)) []) as [chain|]; [|exact Hreg].
  destruct (rev chain) as [|leaf rc]; [exact Hreg|].
  destruct (rev (removelast chain)) as [|parent rp0]; [exact Hreg|].
  destruct (obj_id leaf) as [i|]; [|exact Hreg].
  destruct (is_func leaf && is_class parent && match find_obj i reg with None => true | Some _ => false end); [|exact Hreg].
  destruct (do_one d reg (split_dot sel) leaf false) as [[[reg1 s1] rp1]|err1] eqn:E1; [|exact Hreg].
  destruct (do_one d reg (removelast (split_dot sel)) parent false) as [[[reg2 s2] rp2]|err2]; [exact Hreg|].
  intros e He. destruct (do_one_src _ _ _ _ _ _ _ _ E1 e He) as [[e0 [Hin0 Heq0]]|Hs]; [rewrite Heq0; exact (Hreg e0 Hin0)|].
  eapply src_stmt_import_source_ok; [exact (Htab _ _ _ Ht)|exact Hs].
Qed.
Lemma run_stmts_src_ok : forall univ stmts s refs c s' refs' c' e, pget "__gin__" univ = None ->
  tab_ok c -> reg_src_ok (ds_reg s) -> run_stmts univ stmts s refs c = (s', refs', c', e) -> reg_src_ok (ds_reg s').
Proof.
  intros univ stmts. induction stmts as [|st rest IH]; intros s refs c s' refs' c' e Hu Htab Hreg Hrun.
  - cbn [run_stmts] in Hrun. inversion Hrun; subst. exact Hreg.
  - destruct st as [d | scope sel param v | scope sel]; cbn [run_stmts] in Hrun.
    + destruct (process_import univ c d) as [c1|err] eqn:Ep.
      * eapply IH; [exact Hu|eapply process_import_tab_ok; eauto|exact Hreg|exact Hrun].
      * inversion Hrun; subst. exact Hreg.
    + destruct v as [z | scopes rsel].
      * destruct (get_configurable (ds_reg s) c sel) as [[[reg2 full] rp2]|err] eqn:E2.
        -- eapply IH; [exact Hu|exact Htab| |exact Hrun]. cbn [ds_reg]. eapply gc_src_ok; eauto.
        -- inversion Hrun; subst. cbn [ds_reg with_reg]. apply failed_reg_src_ok; assumption.
      * destruct (get_configurable (ds_reg s) c rsel) as [[[reg1 rfull] rp1]|err] eqn:E1.
        -- pose proof (gc_src_ok _ _ _ _ _ _ Htab Hreg E1) as Hreg1.
           destruct (get_configurable reg1 c sel) as [[[reg2 full] rp2]|err] eqn:E2.
           ++ eapply IH; [exact Hu|exact Htab| |exact Hrun]. cbn [ds_reg]. exact (gc_src_ok _ _ _ _ _ _ Htab Hreg1 E2).
           ++ inversion Hrun; subst. cbn [ds_reg with_reg]. apply failed_reg_src_ok; assumption.
        -- inversion Hrun; subst. cbn [ds_reg with_reg]. apply failed_reg_src_ok; assumption.
    + destruct (get_configurable (ds_reg s) c sel) as [[[reg2 full] rp2]|err] eqn:E2.
      * eapply IH; [exact Hu|exact Htab| |exact Hrun]. cbn [ds_reg]. eapply gc_src_ok; eauto.
      * inversion Hrun; subst. cbn [ds_reg with_reg]. apply failed_reg_src_ok; assumption.
Qed.
Theorem parse_call_src_ok : forall univ stmts sr, pget "__gin__" univ = None ->
  reg_src_ok (ds_reg (fst sr)) -> reg_src_ok (ds_reg (fst (fst (parse_call univ stmts sr)))).
Proof.
  intros univ stmts [s refs] Hu Hok. unfold parse_call.
  destruct (run_stmts univ stmts s refs empty_ctx) as [[[s' refs'] c'] e] eqn:Hrun.
  assert (H0 : tab_ok empty_ctx) by (intros n root d Hg; cbn in Hg; discriminate).
  pose proof (run_stmts_src_ok _ _ _ _ _ _ _ _ _ Hu H0 Hok Hrun) as H.
  destruct e as [cls|]; unfold record_imports; cbn [fst ds_reg]; exact H.
Qed.
Lemma run_stmts_tab_ok : forall univ stmts s refs c s' refs' c' e, pget "__gin__" univ = None -> tab_ok c ->
  run_stmts univ stmts s refs c = (s', refs', c', e) -> tab_ok c'.
Proof.
  intros univ stmts s refs c s' refs' c' e Hu Hc Hrun. eapply (run_stmts_ctx_inv tab_ok univ); [|exact Hc|exact Hrun].
  intros c0 d c1 H0 Hp. eapply process_import_tab_ok; eauto.
Qed.
Lemma run_stmts_sk_src_ok : forall skipf univ sk stmts s refs c s' refs' c' e, pget "__gin__" univ = None ->
  tab_ok c -> reg_src_ok (ds_reg s) -> run_stmts_sk skipf univ sk stmts s refs c = (s', refs', c', e) -> reg_src_ok (ds_reg s').
Proof.
  intros skipf univ sk stmts s refs c s' refs' c' e Hu Htab Hreg Hrun.
  assert (H : tab_ok c' /\ reg_src_ok (ds_reg s')); [|exact (proj2 H)].
  eapply (run_stmts_sk_inv skipf univ (fun s0 _ c0 => tab_ok c0 /\ reg_src_ok (ds_reg s0))); [|split; [exact Htab|exact Hreg]|exact Hrun].
  intros stmts0 s0 refs0 c0 s1 refs1 c1 e1 [H1 H2] Hr. split; [eapply run_stmts_tab_ok; eauto|eapply run_stmts_src_ok; eauto].
Qed.
Theorem parse_call_sk_src_ok : forall univ sk stmts sr, pget "__gin__" univ = None ->
  reg_src_ok (ds_reg (fst sr)) -> reg_src_ok (ds_reg (fst (fst (parse_call_sk univ sk stmts sr)))).
Proof.
  intros univ sk stmts [s refs] Hu Hok. unfold parse_call_sk.
  destruct (run_stmts_sk should_skip_dyn univ sk stmts s refs empty_ctx) as [[[s' refs'] c'] e] eqn:Hrun.
  assert (H0 : tab_ok empty_ctx) by (intros n root d Hg; cbn in Hg; discriminate).
  pose proof (run_stmts_sk_src_ok _ _ _ _ _ _ _ _ _ _ _ Hu H0 Hok Hrun) as H.
  destruct e as [cls|]; unfold record_imports; cbn [fst ds_reg]; exact H.
Qed.
(* ------------------------------------------------------------------ *)
(* ---- F22 (repaired code): one configurable per object ---- *)
(* ------------------------------------------------------------------ *)
(* no object has two registrations: the inverse registry is a function ... *)
Definition one_per_obj (reg : list centry) : Prop :=
  forall e1 e2, In e1 reg -> In e2 reg -> ce_obj e1 = ce_obj e2 -> e1 = e2.
(* ... and every registry entry's object maps back to that entry *)
Lemma one_per_obj_maps_back : forall reg, one_per_obj reg -> forall e, In e reg -> find_obj (ce_obj e) reg = Some e.
Proof.
  intros reg H e Hin. destruct (find_obj (ce_obj e) reg) as [e'|] eqn:E.
  - destruct (find_obj_Some _ _ _ E) as [Hin' Ho]. rewrite (H e' e Hin' Hin Ho). reflexivity.
  - exfalso. rewrite find_obj_None in E. exact (E e Hin eq_refl).
Qed.
Lemma one_per_obj_snoc : forall reg x, one_per_obj reg -> (forall y, In y reg -> ce_obj y <> ce_obj x) -> one_per_obj (reg ++ [x]).
Proof.
  intros reg x H Hx e1 e2 H1 H2 Ho. apply in_app_or in H1. apply in_app_or in H2.
  destruct H1 as [H1|[<-|[]]], H2 as [H2|[<-|[]]].
  - exact (H _ _ H1 H2 Ho).
  - exfalso. exact (Hx _ H1 Ho).
  - exfalso. exact (Hx _ H2 (eq_sym Ho)).
  - reflexivity.
Qed.
Lemma do_one_one_per_obj : forall d reg names o m reg' sel rp, one_per_obj reg ->
  do_one d reg names o m = DOk (reg', sel, rp) -> one_per_obj reg'.
Proof.
  intros d reg names o m reg' sel rp Hone H.
  destruct (do_one_shape _ _ _ _ _ _ _ _ H) as [i [entry [Hi [Hse [Hoe [Hr _]]]]]].
  destruct (do_one_sel_spec _ _ _ _ _ _ _ _ H) as [i' [Hi' [Hsome _]]]. rewrite Hi in Hi'. injection Hi' as <-.
  subst reg'. apply one_per_obj_snoc.
  - intros e1 e2 H1 H2. apply Hone; [exact (proj1 (proj1 (In_remove_sel _ _ _) H1))|exact (proj1 (proj1 (In_remove_sel _ _ _) H2))].
  - intros y Hy Ho. apply In_remove_sel in Hy. destruct Hy as [Hy Hne]. rewrite Hoe in Ho.
    destruct (find_obj i reg) as [e0|] eqn:Efo.
    + destruct (find_obj_Some _ _ _ Efo) as [Hin0 Ho0]. apply Hne.
      rewrite (Hone y e0 Hy Hin0 (eq_trans Ho (eq_sym Ho0))). symmetry. apply Hsome. reflexivity.
    + rewrite find_obj_None in Efo. exact (Efo y Hy Ho).
Qed.
Lemma register_chain_one_per_obj : forall reg d names chain reg' sel rp, one_per_obj reg ->
  register_chain reg d names chain = DOk (reg', sel, rp) -> one_per_obj reg'.
Proof.
  intros reg d names chain reg' sel rp Hone H. rewrite register_chain_unfold in H.
  destruct (rev chain) as [|leaf rc]; [discriminate|].
  destruct (rev (removelast chain)) as [|parent rp0]; [discriminate|].
  destruct (is_func leaf && is_class parent).
  - destruct (do_one d reg (removelast names) parent false) as [[[reg1 csel] rp1]|err] eqn:Ed; [|discriminate].
    pose proof (do_one_one_per_obj _ _ _ _ _ _ _ _ Hone Ed) as Hone1.
    destruct (obj_id leaf) as [i|]; [|discriminate]. cbv zeta in H.
    destruct (find_obj i reg1) eqn:Efo; [inversion H; subst; exact Hone1|].
    match type of H with context [find_sel ?s0 reg1] => destruct (find_sel s0 reg1) end; [discriminate|].
    inversion H; subst; clear H. apply one_per_obj_snoc; [exact Hone1|].
    intros y Hy. cbn [ce_obj]. rewrite find_obj_None in Efo. exact (Efo y Hy).
  - eapply do_one_one_per_obj; eauto.
Qed.
Theorem get_configurable_one_per_obj : forall reg c sel reg' full rp, one_per_obj reg ->
  get_configurable reg c sel = DOk (reg', full, rp) -> one_per_obj reg'.
Proof.
  intros reg c sel reg' full rp Hone H. destruct (c_dynamic c) eqn:Hd.
  - destruct (get_configurable_dyn_inv _ _ _ _ _ _ Hd H) as [root [d [chain [i [Ht [Hf [Hi [[e [_ [Hr _]]]|[Hfo Hreg]]]]]]]]].
    + subst reg'. exact Hone.
    + eapply register_chain_one_per_obj; eauto.
  - rewrite (get_configurable_static _ _ _ _ _ _ Hd H). exact Hone.
Qed.
Lemma failed_reg_one_per_obj : forall reg c sel, one_per_obj reg -> one_per_obj (failed_reg reg c sel).
Proof.
  intros reg c sel Hone. destruct (failed_reg_cases reg c sel) as [Heq|[d [names [o [sel' [rp Hdo]]]]]]; [rewrite Heq; exact Hone|].
  eapply do_one_one_per_obj; eauto.
Qed.
Lemma run_stmts_one_per_obj : forall univ stmts s refs c s' refs' c' e, one_per_obj (ds_reg s) ->
  run_stmts univ stmts s refs c = (s', refs', c', e) -> one_per_obj (ds_reg s').
Proof.
  intros univ. apply (run_stmts_reg_inv one_per_obj univ).
  - intros reg c sel reg' full rp Hr H. eapply get_configurable_one_per_obj; eauto.
  - intros reg c sel Hr. apply failed_reg_one_per_obj. exact Hr.
Qed.
Lemma run_stmts_sk_one_per_obj : forall skipf univ sk stmts s refs c s' refs' c' e, one_per_obj (ds_reg s) ->
  run_stmts_sk skipf univ sk stmts s refs c = (s', refs', c', e) -> one_per_obj (ds_reg s').
Proof.
  intros skipf univ sk stmts s refs c s' refs' c' e Hone Hrun.
  eapply (run_stmts_sk_inv skipf univ (fun s0 _ _ => one_per_obj (ds_reg s0))); [|exact Hone|exact Hrun].
  intros stmts0 s0 refs0 c0 s1 refs1 c1 e1 H0 Hr. eapply run_stmts_one_per_obj; eauto.
Qed.
Theorem parse_call_sk_one_per_obj : forall univ sk stmts sr, one_per_obj (ds_reg (fst sr)) ->
  one_per_obj (ds_reg (fst (fst (parse_call_sk univ sk stmts sr)))).
Proof.
  intros univ sk stmts [s refs] Hone. unfold parse_call_sk.
  destruct (run_stmts_sk should_skip_dyn univ sk stmts s refs empty_ctx) as [[[s' refs'] c'] e] eqn:Hrun.
  pose proof (run_stmts_sk_one_per_obj _ _ _ _ _ _ _ _ _ _ _ Hone Hrun) as H.
  destruct e as [cls|]; unfold record_imports; cbn [fst ds_reg]; exact H.
Qed.
(* after any sequence of parse calls (each with its own skip_unknown, failed or not) from a start in which no object is
   registered twice: no object has two registrations, and every registry entry's object maps back to that entry *)
Theorem C19_one_configurable_per_object : forall univ pre sr, one_per_obj pre -> reachable univ pre sr ->
  one_per_obj (ds_reg (fst sr)) /\
  (forall e, In e (ds_reg (fst sr)) -> find_obj (ce_obj e) (ds_reg (fst sr)) = Some e).
Proof.
  intros univ pre sr Hpre H.
  assert (Hone : one_per_obj (ds_reg (fst sr))).
  { induction H as [|sr sk stmts H IH]; [exact Hpre|]. apply parse_call_sk_one_per_obj. exact IH. }
  split; [exact Hone|apply one_per_obj_maps_back; exact Hone].
Qed.

(* ---- the code before the repair ---- *)
Module OrigRespelled.
  Definition feat : dimport := {| d_module := "__gin__.dynamic_registration"; d_from := true; d_alias := None |}.
  Definition imp_from : dimport := {| d_module := "pkgb.util"; d_from := true; d_alias := None |}.   (* from pkgb import util *)
  Definition imp_as : dimport := {| d_module := "pkgb.util"; d_from := false; d_alias := Some "u" |}. (* import pkgb.util as u *)
  Definition cls : pyobj := PClass 1 [("meth", PFunc 2); ("meth2", PFunc 3)].
  Definition univ : list (string * pyobj) := [("pkgb", PMod [("util", PMod [("C", cls)])])].
  Definition s0 : dstate := {| ds_reg := []; ds_store := []; ds_imports := []; ds_dynamic_seen := false |}.
  Definition ctx_of (imps : list dimport) : dctx :=
    let '(_, _, c, _) := run_stmts univ (map DImport imps) s0 [] empty_ctx in c.
  Definition c1 := ctx_of [feat; imp_from].       (* file 1 *)
  Definition c2 := ctx_of [feat; imp_as].         (* file 2 *)
  Definition regs (r : dres (list centry * string * list (string * string))) :=
    match r with DOk (reg, full, _) => inl (map (fun e => (ce_sel e, ce_obj e)) reg, full) | DErr cls => inr cls end.
  (* file 1:  util.C.x = 1   then file 2:  u.C.meth.x = 5 *)
  Definition after1 (gc : list centry -> dctx -> string -> dres (list centry * string * list (string * string))) : list centry :=
    match gc [] c1 "util.C" with DOk (reg, _, _) => reg | DErr _ => [] end.
  Eval vm_compute in (regs (get_configurable_orig (after1 get_configurable_orig) c2 "u.C.meth"),
                      regs (get_configurable (after1 get_configurable) c2 "u.C.meth")).
  Theorem C19_orig_class_registered_twice :
    one_per_obj [] /\
    regs (get_configurable_orig [] c1 "util.C") = inl ([("pkgb.util.C", 1)], "pkgb.util.C") /\
    (* code before the repair: the class (object 1) ends up with two configurables *)
    regs (get_configurable_orig (after1 get_configurable_orig) c2 "u.C.meth")
      = inl ([("pkgb.util.C", 1); ("pkgb.u.C", 1); ("pkgb.u.C.meth", 2)], "pkgb.u.C.meth") /\
    (forall reg full rp, get_configurable_orig (after1 get_configurable_orig) c2 "u.C.meth" = DOk (reg, full, rp) -> ~ one_per_obj reg) /\
    (* repaired code: the class keeps its selector, the method lives under it *)
    regs (get_configurable (after1 get_configurable) c2 "u.C.meth")
      = inl ([("pkgb.util.C", 1); ("pkgb.util.C.meth", 2)], "pkgb.util.C.meth").
  Proof.
    split; [intros e1 e2 []|]. split; [vm_compute; reflexivity|]. split; [vm_compute; reflexivity|].
    split; [|vm_compute; reflexivity].
    intros reg full rp H Hone. vm_compute in H. injection H as Hreg _ _. subst reg.
    assert (Heq : {| ce_sel := "pkgb.util.C"; ce_obj := 1; ce_method := false;
                     ce_src := Some (imp_from, "C"); ce_home := ("", "") |} =
                  {| ce_sel := "pkgb.u.C"; ce_obj := 1; ce_method := false;
                     ce_src := Some (imp_as, "C"); ce_home := ("", "") |}).
    { apply Hone; [left; reflexivity|right; left; reflexivity|reflexivity]. }
    discriminate Heq.
  Qed.
  (* file 1:  util.C.meth2.x = 7   then file 2:  u.C.meth.x = 5  (valid in file 2: u.C.meth resolves through its imports) *)
  Definition after1m (gc : list centry -> dctx -> string -> dres (list centry * string * list (string * string))) : list centry :=
    match gc [] c1 "util.C.meth2" with DOk (reg, _, _) => reg | DErr _ => [] end.
  Eval vm_compute in (regs (get_configurable_orig (after1m get_configurable_orig) c2 "u.C.meth"),
                      regs (get_configurable (after1m get_configurable) c2 "u.C.meth")).
  Theorem C19_orig_valid_method_statement_rejected :
    provides c2 "u.C.meth" = true /\
    regs (get_configurable_orig [] c1 "util.C.meth2") = inl ([("pkgb.util.C", 1); ("pkgb.util.C.meth2", 3)], "pkgb.util.C.meth2") /\
    (* code before the repair: the class is registered again under pkgb.u.C, which _find_registered_methods rejects because
       meth2 is registered under pkgb.util.C *)
    regs (get_configurable_orig (after1m get_configurable_orig) c2 "u.C.meth") = inr "ValueError" /\
    (* repaired code: accepted; one registration per object *)
    regs (get_configurable (after1m get_configurable) c2 "u.C.meth")
      = inl ([("pkgb.util.C.meth2", 3); ("pkgb.util.C", 1); ("pkgb.util.C.meth", 2)], "pkgb.util.C.meth").
  Proof. vm_compute. repeat split; reflexivity. Qed.
End OrigRespelled.

(* canonical_feature holds in every reachable state: C19_header_feature_first and the resolution theorems need no
   hypothesis about the recorded imports or the registry beyond reachability *)
Theorem reachable_canonical_feature : forall univ pre sr, pget "__gin__" univ = None -> reg_src_ok pre ->
  reachable univ pre sr -> canonical_feature (fst sr).
Proof.
  intros univ pre sr Hu Hpre H. split; [exact (reachable_imports_ok univ pre sr Hu H)|].
  induction H as [|sr sk stmts H IH]; [exact Hpre|]. apply parse_call_sk_src_ok; assumption.
Qed.
Corollary C19_header_feature_first_reachable : forall univ pre s refs, pget "__gin__" univ = None -> reg_src_ok pre ->
  reachable univ pre (s, refs) -> dynamic_on s = true -> header_bound s refs ->
  exists body, header_imports s refs = feature_stmt :: body /\
               forall i, In i body -> is_feature_module (i_module i) = false.
Proof.
  intros univ pre s refs Hu Hpre Hr Hd Hb. apply C19_header_feature_first; [exact Hd|exact Hb|].
  exact (reachable_canonical_feature univ pre (s, refs) Hu Hpre Hr).
Qed.

(* ------------------------------------------------------------------ *)
(* ---- (4) example: two modules imported under the same name ---- *)
(* ------------------------------------------------------------------ *)
Module Example.
  Definition feat : dimport := {| d_module := "__gin__.dynamic_registration"; d_from := true; d_alias := None |}.
  Definition univ : list (string * pyobj) :=
    [("pkga", PMod [("util", PMod [("f", PFunc 1)])]); ("pkgb", PMod [("util", PMod [("g", PFunc 2)])])].
  (* two config files, both with `from pkgX import util` *)
  Definition file1 : list dstmt :=
    [DImport feat; DImport {| d_module := "pkga.util"; d_from := true; d_alias := None |}; DBind "" "util.f" "x" (DVal 1)].
  Definition file2 : list dstmt :=
    [DImport feat; DImport {| d_module := "pkgb.util"; d_from := true; d_alias := None |}; DBind "" "util.g" "y" (DVal 2)].
  Definition init : dstate * list ((string * string) * string * string) :=
    ({| ds_reg := []; ds_store := []; ds_imports := []; ds_dynamic_seen := false |}, []).
  Definition final := fst (parse_call univ file2 (fst (parse_call univ file1 init))).
  Definition s := fst final.
  Definition refs := snd final.
  (* what a selector denotes in a context *)
  Definition resolve (c : dctx) (sel : string) : option nat :=
    match tget (hd "" (split_dot sel)) (c_table c) with
    | Some (root, _) => match follow root (tl (split_dot sel)) [] with Some ch => obj_id (last ch POther) | None => None end
    | None => None
    end.
  Definition report :=
    (map import_format (header_imports s refs),
     match process_all univ empty_ctx (header_imports s refs) with
     | DOk c' => map (fun k => let sel := snd (fst k) in
                               (sel, option_map ce_obj (find_sel sel (ds_reg s)), emitted_selector s refs sel,
                                resolve c' (emitted_selector s refs sel))) (ds_store s)
     | DErr _ => []
     end).
  Eval vm_compute in report.
  Eval vm_compute in config_header s refs.
  (* the second `util` is re-aliased util2; each emitted selector denotes, in a fresh process, the object it was
     registered for *)
  Example colliding_names_realiased : report =
    (["from __gin__ import dynamic_registration"; "from pkga import util"; "from pkgb import util as util2"],
     [("pkga.util.f", Some 1, "util.f", Some 1); ("pkgb.util.g", Some 2, "util2.g", Some 2)]).
  Proof. vm_compute. reflexivity. Qed.
End Example.

(* ------------------------------------------------------------------ *)
(* ---- the code before the repair: the emitted header could not be parsed back ---- *)
(* ------------------------------------------------------------------ *)
(* original ImportManager: no name taken initially, header sorted by module name only *)
(* ... and the recorded imports added in plain module order *)
Definition header_state_addorig (n0 : list string) (s : dstate) (refs : list ((string * string) * string * string)) : im_state :=
  let st0 := fold_left add_import (sort_stable (fun x => x) import_key_ltb_orig (map to_simport (ds_imports s))) ([], [], n0) in
  if negb (dynamic_on s) then st0 else fold_left (require (ds_reg s)) (needed s refs) st0.
Definition header_state_orig (s : dstate) (refs : list ((string * string) * string * string)) : im_state :=
  header_state_addorig [] s refs.
(* the intermediate code (gin reserved, enabling statement first in the header) that still ADDED in module order *)
Definition header_imports_addorig (s : dstate) (refs : list ((string * string) * string * string)) : list simport :=
  sorted_imports (fst (fst (header_state_addorig (names_init s) s refs))).
Definition header_imports_orig (s : dstate) (refs : list ((string * string) * string * string)) : list simport :=
  sorted_imports_orig (fst (fst (header_state_orig s refs))).

Module Findings.
  Import Example.
  (* (F-a) the original header was sorted by module name, and "__gin__..." does not sort first: a module whose name
     starts with an upper-case letter (PIL, Bio, ...) was emitted BEFORE the enabling statement, which then is a
     SyntaxError ("Dynamic registration should be enabled before any other modules are imported").
     Real gin before the repair: config_str() itself raised that SyntaxError. *)
  Definition univ_Z : list (string * pyobj) := [("Zmod", PMod [("f", PFunc 1)])].
  Definition file_Z : list dstmt :=
    [DImport feat; DImport {| d_module := "Zmod"; d_from := false; d_alias := None |}; DBind "" "Zmod.f" "x" (DVal 1)].
  Definition s_Z := fst (fst (parse_call univ_Z file_Z init)).
  Eval vm_compute in (map import_format (header_imports_orig s_Z []), map import_format (header_imports s_Z [])).
  Theorem C19_orig_header_not_reparsable_uppercase_module :
    snd (parse_call univ_Z file_Z init) = ONone /\
    map import_format (header_imports_orig s_Z []) = ["import Zmod"; "from __gin__ import dynamic_registration"] /\
    process_all univ_Z empty_ctx (header_imports_orig s_Z []) = DErr "SyntaxError".
  Proof. vm_compute. repeat split; reflexivity. Qed.
  (* repaired: the enabling statement first; the header parses and Zmod.f denotes object 1 *)
  Theorem C19_header_reparsable_uppercase_module :
    map import_format (header_imports s_Z []) = ["from __gin__ import dynamic_registration"; "import Zmod"] /\
    exists c', process_all univ_Z empty_ctx (header_imports s_Z []) = DOk c' /\
               resolve c' (emitted_selector s_Z [] "Zmod.f") = Some 1.
  Proof. split; [vm_compute; reflexivity|]. eexists. split; vm_compute; reflexivity. Qed.

  (* (F-b) a file WITHOUT dynamic registration may `import gin.something` (binding the reserved name gin - harmless
     there); once another file enables dynamic registration the header carries both, and processing it under dynamic
     registration was a ValueError ("The `gin` symbol is reserved").  Real gin before the repair: config_str() raised it. *)
  Definition univ_G : list (string * pyobj) := [("gin", PMod [("config", PMod [])]); ("m", PMod [("f", PFunc 1)])].
  Definition file_G1 : list dstmt := [DImport {| d_module := "gin.config"; d_from := false; d_alias := None |}].
  Definition file_G2 : list dstmt :=
    [DImport feat; DImport {| d_module := "m"; d_from := false; d_alias := None |}; DBind "" "m.f" "x" (DVal 1)].
  Definition s_G := fst (fst (parse_call univ_G file_G2 (fst (parse_call univ_G file_G1 init)))).
  Eval vm_compute in (map import_format (header_imports_orig s_G []), map import_format (header_imports s_G [])).
  Theorem C19_orig_header_not_reparsable_reserved_gin :
    snd (parse_call univ_G file_G1 init) = ONone /\
    snd (parse_call univ_G file_G2 (fst (parse_call univ_G file_G1 init))) = ONone /\
    map import_format (header_imports_orig s_G []) = ["from __gin__ import dynamic_registration"; "import gin.config"; "import m"] /\
    process_all univ_G empty_ctx (header_imports_orig s_G []) = DErr "ValueError".
  Proof. vm_compute. repeat split; reflexivity. Qed.
  (* repaired: gin is taken from the start, the statement is re-aliased gin2 *)
  Theorem C19_header_reparsable_reserved_gin :
    map import_format (header_imports s_G []) =
      ["from __gin__ import dynamic_registration"; "import gin.config as gin2"; "import m"] /\
    exists c', process_all univ_G empty_ctx (header_imports s_G []) = DOk c' /\
               resolve c' (emitted_selector s_G [] "m.f") = Some 1.
  Proof. split; [vm_compute; reflexivity|]. eexists. split; vm_compute; reflexivity. Qed.

  (* (F-c) the manager ADDED the recorded imports in module order, so `from Pkg import dynamic_registration`
     (upper-case P sorts before "_") took the name first and the ENABLING statement was re-aliased
     `... as dynamic_registration2`, which is a SyntaxError ("__gin__ imports do not support `as`").
     Real gin before the repair: config_str() raised it. *)
  Definition univ_P : list (string * pyobj) := [("Pkg", PMod [("dynamic_registration", PMod [("f", PFunc 1)])])].
  Definition file_P : list dstmt :=
    [DImport feat; DImport {| d_module := "Pkg.dynamic_registration"; d_from := true; d_alias := None |};
     DBind "" "dynamic_registration.f" "x" (DVal 1)].
  Definition s_P := fst (fst (parse_call univ_P file_P init)).
  Eval vm_compute in (map import_format (header_imports_addorig s_P []), map import_format (header_imports s_P [])).
  Theorem C19_orig_feature_statement_realiased :
    snd (parse_call univ_P file_P init) = ONone /\
    map import_format (header_imports_addorig s_P []) =
      ["from __gin__ import dynamic_registration as dynamic_registration2"; "from Pkg import dynamic_registration"] /\
    process_all univ_P empty_ctx (header_imports_addorig s_P []) = DErr "SyntaxError" /\
    process_all univ_P empty_ctx (header_imports_orig s_P []) = DErr "SyntaxError".
  Proof. vm_compute. repeat split; reflexivity. Qed.
  (* repaired: the enabling statement is added first and keeps its name; the OTHER import is re-aliased *)
  Theorem C19_feature_statement_kept :
    map import_format (header_imports s_P []) =
      ["from __gin__ import dynamic_registration"; "from Pkg import dynamic_registration as dynamic_registration2"] /\
    exists c', process_all univ_P empty_ctx (header_imports s_P []) = DOk c' /\
               emitted_selector s_P [] "Pkg.dynamic_registration.f" = "dynamic_registration2.f" /\
               resolve c' (emitted_selector s_P [] "Pkg.dynamic_registration.f") = Some 1.
  Proof. split; [vm_compute; reflexivity|]. eexists. repeat split; vm_compute; reflexivity. Qed.
End Findings.

(* ------------------------------------------------------------------ *)
(* ---- F37: the header does not depend on the order of the recorded imports (_IMPORTS is a set) ---- *)
(* ------------------------------------------------------------------ *)
Lemma existsb_perm : forall A (p : A -> bool) l1 l2, Permutation l1 l2 -> existsb p l1 = existsb p l2.
Proof.
  intros A p l1 l2 Hp. induction Hp as [|x l l' _ IH|x y l|l l' l'' _ IH1 _ IH2]; cbn [existsb].
  - reflexivity.
  - rewrite IH. reflexivity.
  - destruct (p x), (p y); reflexivity.
  - rewrite IH1. exact IH2.
Qed.

(* config_header reads ds_imports in two places only: the sorted list of recorded statements and the test for the
   enabling statement; both are invariant under permutation (the former by the F37 repair of the sort key) *)
Theorem config_header_import_order_independent : forall s1 s2 refs,
  ds_reg s1 = ds_reg s2 -> ds_store s1 = ds_store s2 ->
  Permutation (ds_imports s1) (ds_imports s2) ->
  Forall (fun d => d_alias d <> Some "") (ds_imports s1) ->
  config_header s1 refs = config_header s2 refs.
Proof.
  intros [reg1 store1 imps1 seen1] [reg2 store2 imps2 seen2] refs Hreg Hstore Hp Hal.
  cbn [ds_reg ds_store ds_imports] in *. subst reg2 store2.
  assert (Hrec : sort_stable (fun x : simport => x) import_key_ltb (map to_simport imps1) =
                 sort_stable (fun x : simport => x) import_key_ltb (map to_simport imps2)).
  { apply import_manager_sort_order_independent; [apply Permutation_map, Hp|].
    rewrite Forall_forall in Hal |- *. intros i Hi. apply in_map_iff in Hi. destruct Hi as [d [<- Hd]].
    exact (Hal d Hd). }
  assert (Hdyn : existsb (fun d => String.eqb (d_module d) "__gin__.dynamic_registration") imps1 =
                 existsb (fun d => String.eqb (d_module d) "__gin__.dynamic_registration") imps2)
    by (apply existsb_perm, Hp).
  unfold config_header. cbn [ds_reg ds_store ds_imports]. rewrite Hrec, Hdyn. reflexivity.
Qed.

Print Assumptions config_header_import_order_independent.
Print Assumptions config_header_dynamic.
Print Assumptions config_header_imports.
Print Assumptions C19_header_bound_names_unique.
Print Assumptions process_all_table.
Print Assumptions C19_emitted_selector_resolves.
Print Assumptions C19_emitted_selector_same_object.
Print Assumptions import_source_denotes.
Print Assumptions Example.colliding_names_realiased.
Print Assumptions C19_header_no_reserved_name.
Print Assumptions C19_header_feature_first.
Print Assumptions process_import_feature_canonical.
Print Assumptions parse_call_imports_ok.
Print Assumptions parse_call_sk_imports_ok.
Print Assumptions parse_call_sk_src_ok.
Print Assumptions reachable_canonical_feature.
Print Assumptions C19_header_feature_first_reachable.
Print Assumptions Findings.C19_orig_header_not_reparsable_uppercase_module.
Print Assumptions Findings.C19_header_reparsable_uppercase_module.
Print Assumptions Findings.C19_orig_header_not_reparsable_reserved_gin.
Print Assumptions Findings.C19_header_reparsable_reserved_gin.
Print Assumptions Findings.C19_orig_feature_statement_realiased.
Print Assumptions Findings.C19_feature_statement_kept.
Print Assumptions parse_call_sk_imports_exact.
Print Assumptions C19_effective_imports_recorded.
Print Assumptions C19_recorded_imports_kept.
Print Assumptions OrigImports.C19_orig_failed_parse_loses_imports.
Print Assumptions get_configurable_one_per_obj.
Print Assumptions C19_one_configurable_per_object.
Print Assumptions OrigRespelled.C19_orig_class_registered_twice.
Print Assumptions OrigRespelled.C19_orig_valid_method_statement_rejected.
