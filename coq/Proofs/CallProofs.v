(* C01 / C10: what the gin wrapper hands to the wrapped function (prep_bindings,
   merge_call, py_bind) and the REQUIRED protocol (fill_required, missing list,
   order_by_signature).  Axiom-free, stdlib only.  Builds on CallLemmas.v. *)
From Coq Require Import List String ZArith Bool Arith Lia.
From GinV Require Import Lib.PyStr Model.SelectorMap Model.Values Model.Gin Model.CallSpec.
From GinV Require Import Proofs.CallLemmas.
Import ListNotations.
Open Scope string_scope.
Open Scope list_scope.

(* ------------------------------------------------------------------ *)
(* small facts *)

Lemma is_req_true : forall a, is_req a = true -> a = VReq.
Proof. intros a H; destruct a; try discriminate; reflexivity. Qed.

Lemma existsb_false_forall : forall {A} (f : A -> bool) l,
  existsb f l = false -> Forall (fun x => f x = false) l.
Proof.
  intros A f l; induction l as [|a l IH]; intros H; [constructor|].
  simpl in H. apply orb_false_iff in H. constructor; tauto.
Qed.

Lemma nth_error_firstn_lt : forall {A} (l : list A) n i, i < n -> nth_error (firstn n l) i = nth_error l i.
Proof.
  intros A l; induction l as [|x l IH]; intros n i Hi.
  - rewrite firstn_nil. reflexivity.
  - destruct n as [|n]; [lia|]. destruct i as [|i]; [reflexivity|].
    simpl. apply IH. lia.
Qed.

Lemma nth_error_nil : forall {A} i, @nth_error A [] i = None.
Proof. intros A [|i]; reflexivity. Qed.

Lemma sig_wf_nodup_args : forall sg, sig_wf sg -> NoDup (s_args sg).
Proof. intros sg [H _]. eapply nodup_app_l; eauto. Qed.

(* ------------------------------------------------------------------ *)
(* drop_names, required_positions *)

Lemma drop_names_cons : forall n ns keep (d : pdict),
  drop_names (n :: ns) keep d = drop_names ns keep (if str_in n keep then d else sdel n d).
Proof. reflexivity. Qed.

Lemma drop_names_nodup : forall names keep (d : pdict),
  NoDup (map fst d) -> NoDup (map fst (drop_names names keep d)).
Proof.
  intros names keep; induction names as [|n ns IH]; intros d H; [exact H|].
  rewrite drop_names_cons. apply IH. destruct (str_in n keep); [exact H|].
  apply keys_sdel_nodup; exact H.
Qed.

Lemma drop_names_spec : forall names keep (d : pdict) p, NoDup (map fst d) ->
  sget p (drop_names names keep d) =
  if str_in p names && negb (str_in p keep) then None else sget p d.
Proof.
  intros names keep; induction names as [|n ns IH]; intros d p Hnd; [reflexivity|].
  rewrite drop_names_cons, str_in_cons.
  destruct (str_in n keep) eqn:Ek.
  - rewrite IH by exact Hnd. destruct (String.eqb_spec p n) as [E|N]; [|reflexivity].
    subst p. rewrite Ek. simpl. rewrite andb_false_r. reflexivity.
  - rewrite IH by (apply keys_sdel_nodup; exact Hnd). rewrite sget_sdel by exact Hnd.
    destruct (String.eqb_spec p n) as [E|N]; [|reflexivity].
    subst p. rewrite Ek. simpl. destruct (str_in n ns); reflexivity.
Qed.

Lemma required_positions_no_req : forall names args, no_req args -> required_positions names args = [].
Proof.
  intros names; induction names as [|n ns IH]; intros args H; [reflexivity|].
  destruct args as [|a r]; [reflexivity|].
  inversion H as [|x l Ha Hr]; subst. cbn [required_positions]. rewrite Ha. simpl. apply IH; exact Hr.
Qed.

(* ------------------------------------------------------------------ *)
(* the names the caller passes by keyword with the REQUIRED marker *)

Definition caller_req_kw (kwargs : pdict) : list string :=
  map fst (filter (fun kv => is_req (snd kv)) kwargs).

Lemma caller_req_kw_in : forall kwargs p, In (p, VReq) kwargs -> In p (caller_req_kw kwargs).
Proof.
  intros kwargs p H. unfold caller_req_kw.
  change p with (fst (p, VReq)). apply in_map. apply filter_In. split; [exact H|reflexivity].
Qed.

Lemma caller_req_kw_no_req : forall kwargs, no_req_kw kwargs -> caller_req_kw kwargs = [].
Proof.
  intros kwargs H. unfold caller_req_kw. rewrite filter_all_false; [reflexivity|].
  intros x Hx. unfold no_req_kw in H. rewrite Forall_forall in H. apply H; exact Hx.
Qed.

Lemma caller_req_kw_inv : forall kwargs p, In p (caller_req_kw kwargs) -> In (p, VReq) kwargs.
Proof.
  intros kwargs p H. unfold caller_req_kw in H. apply in_map_iff in H.
  destruct H as [[k w] [E H]]. simpl in E; subst k. apply filter_In in H. destruct H as [H Hr].
  simpl in Hr. apply is_req_true in Hr. subst w. exact H.
Qed.

Lemma smem_str_in : forall {V} p (d : list (string * V)), smem p d = str_in p (map fst d).
Proof.
  intros V p d. rewrite smem_sget. destruct (sget p d) eqn:E.
  - symmetry. apply str_in_iff. eapply sget_some_key; eauto.
  - symmetry. apply str_in_false_iff. apply sget_none_iff. exact E.
Qed.

Lemma required_positions_in_names : forall names args p, In p (required_positions names args) -> In p names.
Proof.
  intros names; induction names as [|n ns IH]; intros args p H; [inversion H|].
  destruct args as [|a r]; [inversion H|].
  cbn [required_positions] in H. apply in_app_or in H. destruct H as [H|H].
  - destruct (is_req a); [|inversion H]. destruct H as [H|[]]. left; exact H.
  - right. eapply IH; eauto.
Qed.

(* a name at a position where the caller passes a non-REQUIRED value is not a required position *)
Lemma required_positions_notin : forall names args i p a, NoDup names ->
  nth_error names i = Some p -> nth_error args i = Some a -> is_req a = false ->
  ~ In p (required_positions names args).
Proof.
  intros names; induction names as [|n ns IH]; intros args i p a Hnd H1 H2 Ha Hin.
  - rewrite nth_error_nil in H1. discriminate.
  - destruct args as [|a0 r]; [rewrite nth_error_nil in H2; discriminate|].
    inversion Hnd as [|x l Hna Hnd']; subst.
    cbn [required_positions] in Hin. apply in_app_or in Hin. destruct i as [|i].
    + simpl in H1, H2. inversion H1; inversion H2; subst. rewrite Ha in Hin.
      destruct Hin as [[]|Hin]. apply Hna. eapply required_positions_in_names; eauto.
    + simpl in H1, H2. destruct Hin as [Hin|Hin].
      * destruct (is_req a0); [|inversion Hin]. destruct Hin as [Hin|[]]. subst p.
        apply Hna. eapply nth_error_In; eauto.
      * eapply IH; eauto.
Qed.

Lemma nodup_firstn : forall {A} n (l : list A), NoDup l -> NoDup (firstn n l).
Proof.
  intros A n l H. rewrite <- (firstn_skipn n l) in H. eapply nodup_app_l; eauto.
Qed.

(* ------------------------------------------------------------------ *)
(* C01: what the wrapper hands to the function *)

(* the applicable bindings minus the names the caller supplies, with no
   assumption at all on cfg, args or kwargs *)
Lemma prep_bindings_sget_gen : forall cfg scope c args kwargs p,
  sget p (prep_bindings cfg scope c args kwargs) =
  if str_in p (map fst kwargs) && negb (str_in p (caller_req_kw kwargs)) then None
  else if str_in p (supplied_positional_names (c_sig c) args)
          && negb (str_in p (required_positions (supplied_positional_names (c_sig c) args) args)) then None
  else sget p (get_bindings_for cfg scope (c_sel c) true).
Proof.
  intros cfg scope c args kwargs p. unfold prep_bindings. fold (caller_req_kw kwargs).
  rewrite drop_names_spec by (apply drop_names_nodup; apply gbf_nodup).
  rewrite drop_names_spec by apply gbf_nodup. reflexivity.
Qed.

(* cfg_wf-free core *)
Lemma prep_bindings_sget : forall cfg scope c args kwargs p, no_req args -> no_req_kw kwargs ->
  sget p (prep_bindings cfg scope c args kwargs) =
  if str_in p (supplied_positional_names (c_sig c) args) || smem p kwargs then None
  else sget p (get_bindings_for cfg scope (c_sel c) true).
Proof.
  intros cfg scope c args kwargs p Hnr Hnk. rewrite prep_bindings_sget_gen.
  rewrite required_positions_no_req by exact Hnr.
  rewrite caller_req_kw_no_req by exact Hnk.
  rewrite str_in_nil, smem_str_in. simpl. rewrite !andb_true_r.
  destruct (str_in p (map fst kwargs)); [rewrite orb_true_r; reflexivity|].
  rewrite orb_false_r. reflexivity.
Qed.

Theorem prep_bindings_spec : forall cfg scope c args kwargs p, cfg_wf cfg -> no_req args -> no_req_kw kwargs ->
  sget p (prep_bindings cfg scope c args kwargs) =
  if str_in p (supplied_positional_names (c_sig c) args) || smem p kwargs then None
  else overlay_spec cfg scope (c_sel c) p.
Proof.
  intros cfg scope c args kwargs p Hwf Hnr Hnk. rewrite prep_bindings_sget by assumption.
  rewrite overlay_correct by exact Hwf. reflexivity.
Qed.

Lemma prep_bindings_nodup : forall cfg scope c args kwargs,
  NoDup (map fst (prep_bindings cfg scope c args kwargs)).
Proof. intros. unfold prep_bindings. apply drop_names_nodup. apply drop_names_nodup. apply gbf_nodup. Qed.

(* ------------------------------------------------------------------ *)
(* C04: a binding the caller overrides is not among the bindings that get
   deep-copied (= evaluated) *)

(* general form: p is a caller keyword and none of its occurrences carries REQUIRED *)
Lemma prep_bindings_kw_dropped : forall cfg scope c args kwargs p,
  In p (map fst kwargs) -> (forall w, In (p, w) kwargs -> is_req w = false) ->
  sget p (prep_bindings cfg scope c args kwargs) = None.
Proof.
  intros cfg scope c args kwargs p Hin Hnr. rewrite prep_bindings_sget_gen.
  apply str_in_iff in Hin. rewrite Hin.
  assert (Hc : str_in p (caller_req_kw kwargs) = false).
  { apply str_in_false_iff. intros Hc. apply caller_req_kw_inv in Hc. apply Hnr in Hc. discriminate. }
  rewrite Hc. reflexivity.
Qed.

Theorem C04_keyword_override_not_evaluated : forall cfg scope c args kwargs p v,
  sget p kwargs = Some v -> is_req v = false -> keys_nodup kwargs ->
  sget p (prep_bindings cfg scope c args kwargs) = None.
Proof.
  intros cfg scope c args kwargs p v Hp Hv Hnd. apply prep_bindings_kw_dropped.
  - eapply sget_some_key; eauto.
  - intros w Hw. apply (in_sget_nodup p kwargs w Hnd) in Hw. congruence.
Qed.

Theorem C04_positional_override_not_evaluated : forall cfg scope c args kwargs i p a,
  NoDup (s_args (c_sig c)) -> nth_error (s_args (c_sig c)) i = Some p -> nth_error args i = Some a ->
  is_req a = false -> sget p (prep_bindings cfg scope c args kwargs) = None.
Proof.
  intros cfg scope c args kwargs i p a Hnd H1 H2 Ha. rewrite prep_bindings_sget_gen.
  destruct (str_in p (map fst kwargs) && negb (str_in p (caller_req_kw kwargs))); [reflexivity|].
  assert (Hi : i < List.length args) by (apply nth_error_Some; congruence).
  assert (Hn : nth_error (supplied_positional_names (c_sig c) args) i = Some p).
  { unfold supplied_positional_names. rewrite nth_error_firstn_lt by exact Hi. exact H1. }
  assert (Hs : str_in p (supplied_positional_names (c_sig c) args) = true).
  { apply str_in_iff. eapply nth_error_In; eauto. }
  assert (Hr : str_in p (required_positions (supplied_positional_names (c_sig c) args) args) = false).
  { apply str_in_false_iff. eapply required_positions_notin; eauto.
    unfold supplied_positional_names. apply nodup_firstn; exact Hnd. }
  rewrite Hs, Hr. reflexivity.
Qed.

(* the code before the repair kept (and so evaluated) the binding of a
   parameter the caller overrides by keyword *)
Theorem C04_orig_keyword_refuted :
  exists (cfg : cdict) (scope : list string) (c : cfgable) (kwargs : pdict) (p : string) (v : value),
  sget p kwargs = Some v /\ is_req v = false /\
  exists b, sget p (prep_bindings_orig cfg scope c []) = Some b.
Proof.
  exists [(("", "f"), [("a", VRef [] "n.g" true)])], [],
    {| c_sel := "f"; c_kind := KProbe;
       c_sig := {| s_args := ["a"]; s_defaults := []; s_varargs := false; s_kwonly := []; s_varkw := false |};
       c_allow := []; c_deny := []; c_method := false |},
    [("a", VInt 5)], "a", (VInt 5).
  split; [reflexivity|]. split; [reflexivity|].
  exists (VRef [] "n.g" true). vm_compute. reflexivity.
Qed.

(* ------------------------------------------------------------------ *)
(* fill_required *)

Lemma fill_required_nil_l : forall args nk, fill_required [] args nk = (args, nk, []).
Proof. reflexivity. Qed.

Lemma fill_required_nil_r : forall names nk, fill_required names [] nk = ([], nk, []).
Proof. intros [|n ns] nk; reflexivity. Qed.

Lemma fill_required_inv : forall n ns a r nk na nk' miss,
  fill_required (n :: ns) (a :: r) nk = (na, nk', miss) ->
  exists na0 miss0 v0 nk0,
    fill_required ns r nk0 = (na0, nk', miss0) /\ na = v0 :: na0 /\
    ((is_req a = true /\ sget n nk = Some v0 /\ nk0 = sdel n nk /\ miss = miss0) \/
     (is_req a = true /\ sget n nk = None /\ v0 = a /\ nk0 = nk /\ miss = n :: miss0) \/
     (is_req a = false /\ v0 = a /\ nk0 = nk /\ miss = miss0)).
Proof.
  intros n ns a r nk na nk' miss H. cbn [fill_required] in H.
  destruct (is_req a) eqn:Ea.
  - destruct (sget n nk) as [v|] eqn:Eg.
    + destruct (fill_required ns r (sdel n nk)) as [[x y] z] eqn:E. inversion H; subst.
      exists x, miss, v, (sdel n nk). split; [exact E|]. split; [reflexivity|]. left. auto.
    + destruct (fill_required ns r nk) as [[x y] z] eqn:E. inversion H; subst.
      exists x, z, a, nk. split; [exact E|]. split; [reflexivity|]. right; left. auto.
  - destruct (fill_required ns r nk) as [[x y] z] eqn:E. inversion H; subst.
    exists x, miss, a, nk. split; [exact E|]. split; [reflexivity|]. right; right. auto.
Qed.

Lemma fill_required_no_req : forall names args nk, no_req args -> fill_required names args nk = (args, nk, []).
Proof.
  intros names; induction names as [|n ns IH]; intros args nk H; [reflexivity|].
  destruct args as [|a r]; [reflexivity|].
  inversion H as [|x l Ha Hr]; subst. cbn [fill_required]. rewrite Ha, (IH r nk Hr). reflexivity.
Qed.

Theorem fill_required_length : forall names args nk na nk' miss,
  fill_required names args nk = (na, nk', miss) -> List.length na = List.length args.
Proof.
  intros names; induction names as [|n ns IH]; intros args nk na nk' miss H.
  - rewrite fill_required_nil_l in H. inversion H; reflexivity.
  - destruct args as [|a r].
    + rewrite fill_required_nil_r in H. inversion H; reflexivity.
    + apply fill_required_inv in H. destruct H as [na0 [miss0 [v0 [nk0 [H [E _]]]]]]. subst na.
      simpl. f_equal. eapply IH; eauto.
Qed.

(* keys_nodup nk is not needed: sdel never disturbs another key *)
Theorem fill_required_nth : forall names args nk na nk' miss i a, NoDup names ->
  fill_required names args nk = (na, nk', miss) -> nth_error args i = Some a ->
  nth_error na i = Some (if is_req a then match nth_error names i with
                                          | Some p => match sget p nk with Some v => v | None => a end
                                          | None => a end else a).
Proof.
  intros names; induction names as [|n ns IH]; intros args nk na nk' miss i a Hnd H Hi.
  - rewrite fill_required_nil_l in H. inversion H; subst. rewrite Hi, nth_error_nil.
    destruct (is_req a); reflexivity.
  - destruct args as [|a0 r]; [rewrite nth_error_nil in Hi; discriminate|].
    inversion Hnd as [|x l Hna Hnd']; subst.
    apply fill_required_inv in H. destruct H as [na0 [miss0 [v0 [nk0 [H [E Hc]]]]]]. subst na.
    destruct i as [|i].
    + simpl in Hi. inversion Hi; subst a0. simpl.
      destruct Hc as [[Ha [Hg _]]|[[Ha [Hg [Ev _]]]|[Ha [Ev _]]]].
      * rewrite Ha, Hg. reflexivity.
      * rewrite Ha, Hg. subst; reflexivity.
      * rewrite Ha. subst; reflexivity.
    + simpl in Hi. cbn [nth_error]. rewrite (IH r nk0 na0 nk' miss0 i a Hnd' H Hi).
      destruct (is_req a); [|reflexivity].
      destruct (nth_error ns i) as [p|] eqn:Ep; [|reflexivity].
      assert (Hne : p <> n) by (intro; subst; apply Hna; eapply nth_error_In; eauto).
      destruct Hc as [[_ [_ [En _]]]|[[_ [_ [_ [En _]]]]|[_ [_ [En _]]]]]; subst nk0; try reflexivity.
      rewrite sget_sdel_neq by exact Hne. reflexivity.
Qed.

Theorem fill_required_missing : forall names args nk na nk' miss p, NoDup names ->
  fill_required names args nk = (na, nk', miss) ->
  (In p miss <-> exists i, nth_error names i = Some p /\ nth_error args i = Some VReq /\ sget p nk = None).
Proof.
  intros names; induction names as [|n ns IH]; intros args nk na nk' miss p Hnd H.
  - rewrite fill_required_nil_l in H. inversion H; subst. split; [intros []|].
    intros [i [Hi _]]. rewrite nth_error_nil in Hi. discriminate.
  - destruct args as [|a r].
    + rewrite fill_required_nil_r in H. inversion H; subst. split; [intros []|].
      intros [i [_ [Hi _]]]. rewrite nth_error_nil in Hi. discriminate.
    + inversion Hnd as [|x l Hna Hnd']; subst.
      apply fill_required_inv in H. destruct H as [na0 [miss0 [v0 [nk0 [H [E Hc]]]]]]. subst na.
      pose proof (IH r nk0 na0 nk' miss0 p Hnd' H) as IHp.
      assert (Hns : forall i, nth_error ns i = Some p -> p <> n).
      { intros i Hi Ep. subst. apply Hna. eapply nth_error_In; eauto. }
      destruct Hc as [[Ha [Hg [En Em]]]|[[Ha [Hg [Ev [En Em]]]]|[Ha [Ev [En Em]]]]]; subst nk0 miss.
      * rewrite IHp. split.
        -- intros [i [H1 [H2 H3]]]. exists (S i). split; [exact H1|]. split; [exact H2|].
           rewrite sget_sdel_neq in H3 by (eapply Hns; eauto). exact H3.
        -- intros [[|i] [H1 [H2 H3]]].
           ++ simpl in H1. inversion H1; subst. congruence.
           ++ exists i. split; [exact H1|]. split; [exact H2|].
              rewrite sget_sdel_neq by (eapply Hns; eauto). exact H3.
      * split.
        -- intros [Hp|Hp].
           ++ subst p. exists 0. simpl. rewrite (is_req_true a Ha). auto.
           ++ apply IHp in Hp. destruct Hp as [i Hp]. exists (S i). exact Hp.
        -- intros [[|i] [H1 [H2 H3]]].
           ++ simpl in H1. inversion H1. left; reflexivity.
           ++ right. apply IHp. exists i. auto.
      * rewrite IHp. split.
        -- intros [i Hp]. exists (S i). exact Hp.
        -- intros [[|i] [H1 [H2 H3]]].
           ++ simpl in H2. assert (Ea : a = VReq) by congruence. rewrite Ea in Ha. discriminate.
           ++ exists i. auto.
Qed.

(* one direction of fill_required_missing holds without NoDup names *)
Lemma fill_required_miss_in : forall names args nk na nk' miss i p,
  fill_required names args nk = (na, nk', miss) ->
  nth_error names i = Some p -> nth_error args i = Some VReq -> sget p nk = None -> In p miss.
Proof.
  intros names; induction names as [|n ns IH]; intros args nk na nk' miss i p H H1 H2 H3.
  - rewrite nth_error_nil in H1. discriminate.
  - destruct args as [|a r]; [rewrite nth_error_nil in H2; discriminate|].
    apply fill_required_inv in H. destruct H as [na0 [miss0 [v0 [nk0 [H [E Hc]]]]]]. subst na.
    destruct i as [|i].
    + simpl in H1, H2. inversion H1; inversion H2; subst.
      destruct Hc as [[_ [Hg _]]|[[_ [_ [_ [_ Em]]]]|[Ha _]]].
      * congruence.
      * subst. left; reflexivity.
      * discriminate.
    + simpl in H1, H2.
      assert (Hin : In p miss0).
      { eapply (IH r nk0); eauto.
        destruct Hc as [[_ [_ [En _]]]|[[_ [_ [_ [En _]]]]|[_ [_ [En _]]]]]; subst nk0; auto.
        apply sget_sdel_none; exact H3. }
      destruct Hc as [[_ [_ [_ Em]]]|[[_ [_ [_ [_ Em]]]]|[_ [_ [_ Em]]]]]; subst miss; auto.
      right; exact Hin.
Qed.

Lemma fill_required_nk_none : forall names args nk na nk' miss p,
  fill_required names args nk = (na, nk', miss) -> sget p nk = None -> sget p nk' = None.
Proof.
  intros names; induction names as [|n ns IH]; intros args nk na nk' miss p H Hp.
  - rewrite fill_required_nil_l in H. inversion H; subst; exact Hp.
  - destruct args as [|a r].
    + rewrite fill_required_nil_r in H. inversion H; subst; exact Hp.
    + apply fill_required_inv in H. destruct H as [na0 [miss0 [v0 [nk0 [H [E Hc]]]]]].
      eapply (IH r nk0); eauto.
      destruct Hc as [[_ [_ [En _]]]|[[_ [_ [_ [En _]]]]|[_ [_ [En _]]]]]; subst nk0; auto.
      apply sget_sdel_none; exact Hp.
Qed.

Lemma fill_required_keeps : forall names args nk na nk' miss i a,
  fill_required names args nk = (na, nk', miss) ->
  nth_error args i = Some a -> is_req a = false -> nth_error na i = Some a.
Proof.
  intros names; induction names as [|n ns IH]; intros args nk na nk' miss i a H Hi Ha.
  - rewrite fill_required_nil_l in H. inversion H; subst; exact Hi.
  - destruct args as [|a0 r]; [rewrite nth_error_nil in Hi; discriminate|].
    apply fill_required_inv in H. destruct H as [na0 [miss0 [v0 [nk0 [H [E Hc]]]]]]. subst na.
    destruct i as [|i].
    + simpl in Hi. inversion Hi; subst a0. simpl.
      destruct Hc as [[Hr _]|[[Hr _]|[_ [Ev _]]]]; try congruence.
    + simpl in Hi. simpl. eapply IH; eauto.
Qed.

Lemma fill_required_no_leak : forall names args nk na nk',
  fill_required names args nk = (na, nk', []) -> keys_nodup nk ->
  (forall k v, sget k nk = Some v -> is_req v = false) ->
  existsb is_req (skipn (List.length names) args) = false ->
  Forall (fun v => is_req v = false) na /\ keys_nodup nk' /\
  (forall k v, sget k nk' = Some v -> is_req v = false).
Proof.
  intros names; induction names as [|n ns IH]; intros args nk na nk' H Hnd Hv Hs.
  - rewrite fill_required_nil_l in H. inversion H; subst. simpl in Hs.
    split; [apply existsb_false_forall; exact Hs|]. split; assumption.
  - destruct args as [|a r].
    + rewrite fill_required_nil_r in H. inversion H; subst. split; [constructor|]. split; assumption.
    + apply fill_required_inv in H. destruct H as [na0 [miss0 [v0 [nk0 [H [E Hc]]]]]]. subst na.
      simpl in Hs.
      destruct Hc as [[Ha [Hg [En Em]]]|[[Ha [Hg [Ev [En Em]]]]|[Ha [Ev [En Em]]]]]; subst nk0; try subst miss0.
      * destruct (IH r (sdel n nk) na0 nk' H) as [F [N V]].
        -- apply keys_sdel_nodup; exact Hnd.
        -- intros k v Hk. rewrite sget_sdel in Hk by exact Hnd.
           destruct (String.eqb k n); [discriminate|eauto].
        -- exact Hs.
        -- split; [constructor; eauto|]. split; assumption.
      * discriminate.
      * destruct (IH r nk na0 nk' H Hnd Hv Hs) as [F [N V]].
        split; [constructor; [subst; exact Ha|exact F]|]. split; assumption.
Qed.

(* ------------------------------------------------------------------ *)
(* merge_call, unfolded once and for all *)

Definition miss2_of (c : cfgable) (args : list value) (kwargs nk' : pdict) : list string :=
  filter (fun r => negb (str_in r (supplied_positional_names (c_sig c) args))
                   && negb (smem r kwargs) && negb (smem r nk'))
         (signature_required c).
Definition miss3_of (kwargs nk' : pdict) : list string :=
  filter (fun r => negb (smem r nk')) (caller_req_kw kwargs).
Definition kwargs_kept (kwargs nk' : pdict) : pdict :=
  filter (fun kv => negb (str_in (fst kv) (caller_req_kw kwargs) && smem (fst kv) nk')) kwargs.

Lemma merge_call_eq : forall c args kwargs nk na nk' miss1,
  fill_required (supplied_positional_names (c_sig c) args) args nk = (na, nk', miss1) ->
  merge_call c args kwargs nk =
  match miss1 ++ miss2_of c args kwargs nk' ++ miss3_of kwargs nk' with
  | [] => Ok (na, supdate nk' (kwargs_kept kwargs nk'))
  | m :: ms => Raise ("RuntimeError:" ++ join "," (order_by_signature (c_sig c) (m :: ms)))%string
  end.
Proof.
  intros c args kwargs nk na nk' miss1 H. unfold merge_call. rewrite H.
  unfold miss2_of, miss3_of, kwargs_kept, caller_req_kw.
  destruct (miss1 ++ _ ++ _); reflexivity.
Qed.

(* when the caller passes no REQUIRED marker, merge_call returns the caller's
   positional arguments unchanged and nk overlaid by kwargs, unless a parameter
   whose signature default is REQUIRED is supplied by nobody: then it raises,
   listing exactly those parameters *)
Theorem merge_call_no_marker : forall c args kwargs nk, no_req args -> no_req_kw kwargs ->
  merge_call c args kwargs nk =
  match filter (fun r => negb (str_in r (supplied_positional_names (c_sig c) args))
                         && negb (smem r kwargs) && negb (smem r nk)) (signature_required c) with
  | [] => Ok (args, supdate nk kwargs)
  | m :: ms => Raise ("RuntimeError:" ++ join "," (order_by_signature (c_sig c) (m :: ms)))%string
  end.
Proof.
  intros c args kwargs nk Ha Hk.
  rewrite (merge_call_eq c args kwargs nk args nk []) by (apply fill_required_no_req; exact Ha).
  unfold miss3_of, kwargs_kept. rewrite (caller_req_kw_no_req kwargs Hk).
  cbn [filter app]. rewrite app_nil_r. unfold miss2_of.
  rewrite (filter_all_true _ kwargs); [reflexivity|].
  intros x _. rewrite str_in_nil. reflexivity.
Qed.

Theorem merge_call_plain : forall c args kwargs nk, no_req args -> no_req_kw kwargs -> signature_required c = [] ->
  merge_call c args kwargs nk = Ok (args, supdate nk kwargs).
Proof.
  intros c args kwargs nk Ha Hk Hs. rewrite merge_call_no_marker by assumption.
  rewrite Hs. reflexivity.
Qed.

(* a name the caller passed positionally is a keyword of the final call only if
   the caller ALSO passed it by keyword (neither cfg_wf nor no_req_kw is needed) *)
Theorem no_gin_multiple_values : forall c cfg scope args kwargs k, no_req args ->
  smem k (supdate (prep_bindings cfg scope c args kwargs) kwargs) = true ->
  str_in k (supplied_positional_names (c_sig c) args) = true -> smem k kwargs = true.
Proof.
  intros c cfg scope args kwargs k Ha Hm Hs.
  rewrite smem_sget. destruct (sget k kwargs) eqn:E; [reflexivity|]. exfalso.
  rewrite smem_sget, sget_supdate in Hm.
  rewrite (proj2 (sget_last_none_sget k kwargs) E) in Hm.
  rewrite prep_bindings_sget_gen in Hm.
  assert (Hk : str_in k (map fst kwargs) = false).
  { apply str_in_false_iff. apply sget_none_iff. exact E. }
  rewrite Hk, Hs, required_positions_no_req in Hm by exact Ha. simpl in Hm. discriminate.
Qed.

(* ------------------------------------------------------------------ *)
(* C10: REQUIRED *)

Theorem C10_never_leaks : forall c args kwargs nk na fk, keys_nodup nk ->
  (forall k v, sget k nk = Some v -> is_req v = false) ->
  existsb is_req (skipn (List.length (supplied_positional_names (c_sig c) args)) args) = false ->
  merge_call c args kwargs nk = Ok (na, fk) ->
  Forall (fun v => is_req v = false) na /\ (forall k v, sget k fk = Some v -> is_req v = false).
Proof.
  intros c args kwargs nk na fk Hnd Hv Hs H.
  destruct (fill_required (supplied_positional_names (c_sig c) args) args nk) as [[na' nk'] miss1] eqn:Ef.
  rewrite (merge_call_eq c args kwargs nk na' nk' miss1 Ef) in H.
  destruct (miss1 ++ miss2_of c args kwargs nk' ++ miss3_of kwargs nk') as [|m ms] eqn:Em; [|discriminate].
  inversion H; subst na fk.
  apply app_eq_nil in Em. destruct Em as [Em1 Em]. apply app_eq_nil in Em. destruct Em as [_ Em3]. subst miss1.
  destruct (fill_required_no_leak _ _ _ _ _ Ef Hnd Hv Hs) as [F [N V]].
  split; [exact F|].
  intros k v Hk. rewrite sget_supdate in Hk.
  destruct (sget_last k (kwargs_kept kwargs nk')) as [w|] eqn:El; [|eauto].
  inversion Hk; subst w. apply sget_last_some_in in El. unfold kwargs_kept in El.
  apply filter_In in El. destruct El as [Hin Hkeep]. simpl in Hkeep.
  destruct (is_req v) eqn:Ev; [|reflexivity]. exfalso.
  apply is_req_true in Ev. subst v.
  pose proof (caller_req_kw_in kwargs k Hin) as Hc.
  unfold miss3_of in Em3. pose proof (filter_nil_forall _ _ Em3 k Hc) as Hm. simpl in Hm.
  apply negb_false_iff in Hm. rewrite Hm in Hkeep.
  apply str_in_iff in Hc. rewrite Hc in Hkeep. discriminate.
Qed.

Theorem C10_other_args_unchanged : forall c args kwargs nk na fk i a,
  merge_call c args kwargs nk = Ok (na, fk) -> nth_error args i = Some a -> is_req a = false -> nth_error na i = Some a.
Proof.
  intros c args kwargs nk na fk i a H Hi Ha.
  destruct (fill_required (supplied_positional_names (c_sig c) args) args nk) as [[na' nk'] miss1] eqn:Ef.
  rewrite (merge_call_eq c args kwargs nk na' nk' miss1 Ef) in H.
  destruct (miss1 ++ miss2_of c args kwargs nk' ++ miss3_of kwargs nk') as [|m ms]; [|discriminate].
  inversion H; subst na fk. eapply fill_required_keeps; eauto.
Qed.

Theorem C10_missing_raises : forall c args kwargs nk,
  ((exists i p, nth_error (s_args (c_sig c)) i = Some p /\ nth_error args i = Some VReq /\ sget p nk = None) \/
   (exists p, sget p kwargs = Some VReq /\ sget p nk = None)) ->
  exists e, merge_call c args kwargs nk = Raise e.
Proof.
  intros c args kwargs nk H.
  destruct (fill_required (supplied_positional_names (c_sig c) args) args nk) as [[na' nk'] miss1] eqn:Ef.
  rewrite (merge_call_eq c args kwargs nk na' nk' miss1 Ef).
  assert (Hin : exists x, In x (miss1 ++ miss2_of c args kwargs nk' ++ miss3_of kwargs nk')).
  { destruct H as [[i [p [H1 [H2 H3]]]]|[p [H1 H2]]].
    - exists p. apply in_or_app. left.
      eapply fill_required_miss_in; [exact Ef| |exact H2|exact H3].
      unfold supplied_positional_names. rewrite nth_error_firstn_lt; [exact H1|].
      apply nth_error_Some. congruence.
    - exists p. apply in_or_app. right. apply in_or_app. right.
      unfold miss3_of. apply filter_In. split.
      + apply caller_req_kw_in. apply sget_some_in. exact H1.
      + rewrite smem_sget, (fill_required_nk_none _ _ _ _ _ _ p Ef H2). reflexivity. }
  destruct Hin as [x Hin].
  destruct (miss1 ++ miss2_of c args kwargs nk' ++ miss3_of kwargs nk') as [|m ms]; [inversion Hin|].
  eexists; reflexivity.
Qed.

Theorem C10_error_names_sorted : forall c args kwargs nk e, merge_call c args kwargs nk = Raise e ->
  exists missing, missing <> [] /\ e = ("RuntimeError:" ++ join "," (order_by_signature (c_sig c) missing))%string.
Proof.
  intros c args kwargs nk e H.
  destruct (fill_required (supplied_positional_names (c_sig c) args) args nk) as [[na' nk'] miss1] eqn:Ef.
  rewrite (merge_call_eq c args kwargs nk na' nk' miss1 Ef) in H.
  destruct (miss1 ++ miss2_of c args kwargs nk' ++ miss3_of kwargs nk') as [|m ms]; [discriminate|].
  inversion H. exists (m :: ms). split; [discriminate|reflexivity].
Qed.

(* sharper: the list in the message is exactly the three missing lists *)
Theorem C10_error_names_exact : forall c args kwargs nk e na nk' miss1,
  fill_required (supplied_positional_names (c_sig c) args) args nk = (na, nk', miss1) ->
  merge_call c args kwargs nk = Raise e ->
  e = ("RuntimeError:" ++ join "," (order_by_signature (c_sig c)
         (miss1 ++ miss2_of c args kwargs nk' ++ miss3_of kwargs nk')))%string.
Proof.
  intros c args kwargs nk e na nk' miss1 Ef H.
  rewrite (merge_call_eq c args kwargs nk na nk' miss1 Ef) in H.
  destruct (miss1 ++ miss2_of c args kwargs nk' ++ miss3_of kwargs nk') as [|m ms]; [discriminate|].
  inversion H. reflexivity.
Qed.

(* ------------------------------------------------------------------ *)
(* order_by_signature *)

Theorem order_by_signature_in : forall sg names p, In p (order_by_signature sg names) <-> In p names.
Proof.
  intros sg names p. unfold order_by_signature. rewrite in_app_iff, !filter_In. split.
  - intros [[_ H]|[H _]]; [apply str_in_iff; exact H|exact H].
  - intros H.
    destruct (str_in p (filter (fun a => str_in a names) (s_args sg ++ kwonly_names sg))) eqn:E.
    + left. apply str_in_iff in E. apply filter_In in E. exact E.
    + right. split; [exact H|reflexivity].
Qed.

Theorem order_by_signature_nodup : forall sg names, NoDup names -> NoDup (s_args sg ++ kwonly_names sg) ->
  NoDup (order_by_signature sg names).
Proof.
  intros sg names Hn Hs. unfold order_by_signature. apply nodup_app_intro.
  - apply nodup_filter; exact Hs.
  - apply nodup_filter; exact Hn.
  - intros x Hx Hx'. apply filter_In in Hx'. destruct Hx' as [_ Hx'].
    apply negb_true_iff in Hx'. apply str_in_false_iff in Hx'. auto.
Qed.

Theorem order_by_signature_sig_order : forall sg names, exists rest,
  order_by_signature sg names = filter (fun a => str_in a names) (s_args sg ++ kwonly_names sg) ++ rest /\
  forall r, In r rest -> ~ In r (s_args sg ++ kwonly_names sg).
Proof.
  intros sg names. unfold order_by_signature. eexists. split; [reflexivity|].
  intros r Hr Hin. apply filter_In in Hr. destruct Hr as [Hn Hr].
  apply negb_true_iff in Hr. apply str_in_false_iff in Hr. apply Hr.
  apply filter_In. split; [exact Hin|apply str_in_iff; exact Hn].
Qed.

(* ------------------------------------------------------------------ *)
(* Python binding: what the function sees *)

Lemma bind_pos_nil_l : forall args, bind_pos [] args = ([], args).
Proof. reflexivity. Qed.
Lemma bind_pos_nil_r : forall names, bind_pos names [] = ([], []).
Proof. intros [|n ns]; reflexivity. Qed.
Lemma bind_pos_cons : forall n ns a r,
  bind_pos (n :: ns) (a :: r) = ((n, a) :: fst (bind_pos ns r), snd (bind_pos ns r)).
Proof. intros. cbn [bind_pos]. destruct (bind_pos ns r); reflexivity. Qed.

Lemma bind_pos_sget : forall names args i p v, NoDup names ->
  nth_error names i = Some p -> nth_error args i = Some v -> sget p (fst (bind_pos names args)) = Some v.
Proof.
  intros names; induction names as [|n ns IH]; intros args i p v Hnd H1 H2.
  - rewrite nth_error_nil in H1. discriminate.
  - destruct args as [|a r]; [rewrite nth_error_nil in H2; discriminate|].
    inversion Hnd as [|x l Hna Hnd']; subst.
    rewrite bind_pos_cons. cbn [fst]. rewrite sget_cons. destruct i as [|i].
    + simpl in H1, H2. inversion H1; inversion H2; subst. rewrite String.eqb_refl. reflexivity.
    + simpl in H1, H2. destruct (String.eqb_spec p n) as [E|N].
      * subst. exfalso. apply Hna. eapply nth_error_In; eauto.
      * eapply IH; eauto.
Qed.

Lemma bind_pos_keys : forall names args,
  map fst (fst (bind_pos names args)) = firstn (List.length args) names.
Proof.
  intros names; induction names as [|n ns IH]; intros args.
  - rewrite firstn_nil. reflexivity.
  - destruct args as [|a r]; [reflexivity|].
    rewrite bind_pos_cons. cbn [fst map List.length firstn]. rewrite IH. reflexivity.
Qed.

Lemma bind_pos_surplus : forall names args, snd (bind_pos names args) = skipn (List.length names) args.
Proof.
  intros names; induction names as [|n ns IH]; intros args.
  - reflexivity.
  - destruct args as [|a r]; [reflexivity|].
    rewrite bind_pos_cons. cbn [snd List.length skipn]. apply IH.
Qed.

Lemma bind_kw_cons : forall sg bound extra k v r,
  bind_kw sg bound extra ((k, v) :: r) =
  if str_in k (s_args sg) || str_in k (kwonly_names sg) then
    if smem k bound then None else bind_kw sg (bound ++ [(k, v)]) extra r
  else if s_varkw sg then bind_kw sg bound (extra ++ [(k, v)]) r
  else None.
Proof. reflexivity. Qed.

Lemma bind_kw_mono : forall sg kws bound extra bound' extra' p v,
  bind_kw sg bound extra kws = Some (bound', extra') -> sget p bound = Some v -> sget p bound' = Some v.
Proof.
  intros sg kws; induction kws as [|[k w] r IH]; intros bound extra bound' extra' p v H Hp.
  - simpl in H. inversion H; subst; exact Hp.
  - rewrite bind_kw_cons in H.
    destruct (str_in k (s_args sg) || str_in k (kwonly_names sg)).
    + destruct (smem k bound); [discriminate|].
      eapply IH; [exact H|]. rewrite sget_app, Hp. reflexivity.
    + destruct (s_varkw sg); [|discriminate]. eapply IH; eauto.
Qed.

Lemma bind_kw_keyword : forall sg kws bound extra bound' extra' p v,
  bind_kw sg bound extra kws = Some (bound', extra') ->
  str_in p (s_args sg) || str_in p (kwonly_names sg) = true ->
  sget p kws = Some v -> sget p bound' = Some v.
Proof.
  intros sg kws; induction kws as [|[k w] r IH]; intros bound extra bound' extra' p v H Hn Hp.
  - rewrite sget_nil in Hp. discriminate.
  - rewrite bind_kw_cons in H. rewrite sget_cons in Hp.
    destruct (String.eqb_spec p k) as [E|N].
    + subst k. inversion Hp; subst w. rewrite Hn in H.
      rewrite smem_sget in H. destruct (sget p bound) eqn:Eb; [discriminate|].
      eapply bind_kw_mono; [exact H|].
      rewrite sget_app, Eb, sget_cons, String.eqb_refl. reflexivity.
    + destruct (str_in k (s_args sg) || str_in k (kwonly_names sg)).
      * destruct (smem k bound); [discriminate|]. eapply IH; eauto.
      * destruct (s_varkw sg); [|discriminate]. eapply IH; eauto.
Qed.

Lemma bind_kw_absent : forall sg kws bound extra bound' extra' p,
  bind_kw sg bound extra kws = Some (bound', extra') ->
  sget p kws = None -> sget p bound' = sget p bound.
Proof.
  intros sg kws; induction kws as [|[k w] r IH]; intros bound extra bound' extra' p H Hp.
  - simpl in H. inversion H; subst; reflexivity.
  - rewrite bind_kw_cons in H. rewrite sget_cons in Hp.
    destruct (String.eqb_spec p k) as [E|N]; [discriminate|].
    destruct (str_in k (s_args sg) || str_in k (kwonly_names sg)).
    + destruct (smem k bound); [discriminate|].
      rewrite (IH _ _ _ _ _ H Hp), sget_app, sget_cons, sget_nil.
      destruct (String.eqb_spec p k); [congruence|]. destruct (sget p bound); reflexivity.
    + destruct (s_varkw sg); [|discriminate]. eapply IH; eauto.
Qed.

Lemma fill_defaults_cons : forall n r dflt bound,
  fill_defaults (n :: r) dflt bound =
  match (match sget n bound with Some v => Some v | None => sget n dflt end) with
  | None => None
  | Some v => match fill_defaults r dflt bound with Some t => Some ((n, v) :: t) | None => None end
  end.
Proof. reflexivity. Qed.

Lemma fill_defaults_keys : forall names dflt bound env,
  fill_defaults names dflt bound = Some env -> map fst env = names.
Proof.
  intros names dflt bound; induction names as [|n r IH]; intros env H.
  - simpl in H. inversion H; reflexivity.
  - rewrite fill_defaults_cons in H.
    destruct (match sget n bound with Some v => Some v | None => sget n dflt end) as [v|]; [|discriminate].
    destruct (fill_defaults r dflt bound) as [t|]; [|discriminate].
    inversion H; subst. simpl. f_equal. apply IH; reflexivity.
Qed.

Lemma fill_defaults_sget : forall names dflt bound env p,
  fill_defaults names dflt bound = Some env -> In p names ->
  sget p env = match sget p bound with Some v => Some v | None => sget p dflt end.
Proof.
  intros names dflt bound; induction names as [|n r IH]; intros env p H Hin; [inversion Hin|].
  rewrite fill_defaults_cons in H.
  destruct (match sget n bound with Some v => Some v | None => sget n dflt end) as [v|] eqn:Ev; [|discriminate].
  destruct (fill_defaults r dflt bound) as [t|] eqn:Et; [|discriminate].
  inversion H; subst env. rewrite sget_cons.
  destruct (String.eqb_spec p n) as [E|N].
  - subst. symmetry; exact Ev.
  - destruct Hin as [Hin|Hin]; [congruence|]. apply IH; auto.
Qed.

Lemma py_bind_inv : forall sg args kw env, py_bind sg args kw = Some env ->
  exists bound extra env0,
    (s_varargs sg = false -> skipn (List.length (s_args sg)) args = []) /\
    bind_kw sg (fst (bind_pos (s_args sg) args)) [] kw = Some (bound, extra) /\
    fill_defaults (s_args sg ++ kwonly_names sg) (kwarg_defaults sg) bound = Some env0 /\
    env = env0 ++ (if s_varargs sg then [("*", VTuple (skipn (List.length (s_args sg)) args))] else [])
               ++ (if s_varkw sg then [("**", VDict (map (fun kv => (VStr (fst kv), snd kv)) extra))] else []).
Proof.
  intros sg args kw env H. unfold py_bind in H.
  pose proof (bind_pos_surplus (s_args sg) args) as Hs.
  destruct (bind_pos (s_args sg) args) as [bpos surplus]. cbn [fst snd] in *. subst surplus.
  destruct (negb (s_varargs sg) &&
            negb (match skipn (List.length (s_args sg)) args with [] => true | _ :: _ => false end)) eqn:Ec;
    [discriminate|].
  destruct (bind_kw sg bpos [] kw) as [[bound extra]|] eqn:Ek; [|discriminate].
  destruct (fill_defaults (s_args sg ++ kwonly_names sg) (kwarg_defaults sg) bound) as [env0|] eqn:Ed; [|discriminate].
  inversion H; subst env. exists bound, extra, env0.
  split; [|split; [reflexivity|split; [exact Ed|reflexivity]]].
  intros Hv. rewrite Hv in Ec. simpl in Ec.
  destruct (skipn (List.length (s_args sg)) args); [reflexivity|discriminate].
Qed.

Lemma named_str_in : forall sg p, named sg p ->
  str_in p (s_args sg) || str_in p (kwonly_names sg) = true.
Proof.
  intros sg p H. unfold named in H. apply in_app_or in H. apply orb_true_iff.
  destruct H as [H|H]; [left|right]; apply str_in_iff; exact H.
Qed.

(* only NoDup (s_args sg) is needed (it follows from sig_wf: sig_wf_nodup_args) *)
Theorem py_bind_positional : forall sg args kw env i p v, NoDup (s_args sg) -> py_bind sg args kw = Some env ->
  nth_error (s_args sg) i = Some p -> nth_error args i = Some v -> sget p env = Some v.
Proof.
  intros sg args kw env i p v Hnd H H1 H2.
  apply py_bind_inv in H. destruct H as [bound [extra [env0 [_ [Hk [Hd He]]]]]]. subst env.
  rewrite sget_app.
  rewrite (fill_defaults_sget _ _ _ _ p Hd) by (apply in_or_app; left; eapply nth_error_In; eauto).
  rewrite (bind_kw_mono _ _ _ _ _ _ p v Hk (bind_pos_sget _ _ i p v Hnd H1 H2)). reflexivity.
Qed.

(* neither sig_wf nor keys_nodup kw is needed: a successful bind_kw has met the
   first binding of p in kw while p was still unbound *)
Theorem py_bind_keyword : forall sg args kw env p v, py_bind sg args kw = Some env ->
  named sg p -> sget p kw = Some v -> sget p env = Some v.
Proof.
  intros sg args kw env p v H Hn Hp.
  apply py_bind_inv in H. destruct H as [bound [extra [env0 [_ [Hk [Hd He]]]]]]. subst env.
  rewrite sget_app, (fill_defaults_sget _ _ _ _ p Hd Hn).
  rewrite (bind_kw_keyword _ _ _ _ _ _ p v Hk (named_str_in sg p Hn) Hp). reflexivity.
Qed.

Theorem py_bind_default : forall sg args kw env p, py_bind sg args kw = Some env ->
  named sg p -> str_in p (supplied_positional_names sg args) = false -> sget p kw = None ->
  sget p env = sget p (kwarg_defaults sg).
Proof.
  intros sg args kw env p H Hn Hs Hp.
  apply py_bind_inv in H. destruct H as [bound [extra [env0 [_ [Hk [Hd He]]]]]]. subst env.
  pose proof (fill_defaults_sget _ _ _ _ p Hd Hn) as Hg.
  rewrite (bind_kw_absent _ _ _ _ _ _ p Hk Hp) in Hg.
  assert (Hb : sget p (fst (bind_pos (s_args sg) args)) = None).
  { apply sget_none_iff. rewrite bind_pos_keys. apply str_in_false_iff. exact Hs. }
  rewrite Hb in Hg. rewrite sget_app, Hg.
  destruct (sget p (kwarg_defaults sg)) eqn:Ed; [reflexivity|].
  exfalso. apply sget_none_iff in Hg. apply Hg.
  rewrite (fill_defaults_keys _ _ _ _ Hd). exact Hn.
Qed.

(* "*" must not be a parameter name (never the case for a Python signature) *)
Theorem py_bind_varargs : forall sg args kw env, ~ named sg "*" -> py_bind sg args kw = Some env ->
  s_varargs sg = true -> sget "*" env = Some (VTuple (skipn (List.length (s_args sg)) args)).
Proof.
  intros sg args kw env Hstar H Hv.
  apply py_bind_inv in H. destruct H as [bound [extra [env0 [_ [Hk [Hd He]]]]]]. subst env.
  assert (Hn : sget "*" env0 = None).
  { apply sget_none_iff. rewrite (fill_defaults_keys _ _ _ _ Hd). exact Hstar. }
  rewrite sget_app, Hn, Hv. reflexivity.
Qed.

Theorem py_bind_no_surplus : forall sg args kw env, py_bind sg args kw = Some env -> s_varargs sg = false ->
  List.length args <= List.length (s_args sg).
Proof.
  intros sg args kw env H Hv.
  apply py_bind_inv in H. destruct H as [bound [extra [env0 [Hs _]]]].
  specialize (Hs Hv). apply (f_equal (@List.length value)) in Hs.
  rewrite skipn_length in Hs. simpl in Hs. lia.
Qed.

(* ------------------------------------------------------------------ *)
(* C01, assembled *)

Theorem C01_injection : forall c cfg scope args kwargs nk env p,
  let sg := c_sig c in
  sig_wf sg -> cfg_wf cfg -> keys_nodup kwargs -> no_req args -> no_req_kw kwargs -> signature_required c = [] ->
  map fst nk = map fst (prep_bindings cfg scope c args kwargs) ->
  merge_call c args kwargs nk = Ok (args, supdate nk kwargs) /\
  (py_bind sg args (supdate nk kwargs) = Some env -> named sg p ->
     (forall i v, nth_error (s_args sg) i = Some p -> nth_error args i = Some v -> sget p env = Some v) /\
     (forall v, sget p kwargs = Some v -> sget p env = Some v) /\
     (str_in p (supplied_positional_names sg args) = false -> sget p kwargs = None ->
        (forall v, sget p nk = Some v -> sget p env = Some v) /\
        (overlay_spec cfg scope (c_sel c) p = None -> sget p env = sget p (kwarg_defaults sg)))).
Proof.
  intros c cfg scope args kwargs nk env p sg Hsg Hcfg Hkw Ha Hk Hreq Hkeys.
  split; [apply merge_call_plain; assumption|].
  intros Hb Hn. split; [|split].
  - intros i v H1 H2. eapply py_bind_positional; eauto. apply sig_wf_nodup_args; exact Hsg.
  - intros v Hv. eapply py_bind_keyword; eauto.
    rewrite sget_supdate_nodup by exact Hkw. rewrite Hv. reflexivity.
  - intros Hs Hnone. split.
    + intros v Hv. eapply py_bind_keyword; eauto.
      rewrite sget_supdate_nodup by exact Hkw. rewrite Hnone. exact Hv.
    + intros Ho. eapply py_bind_default; eauto.
      rewrite sget_supdate_nodup by exact Hkw. rewrite Hnone.
      apply (sget_keys_none (prep_bindings cfg scope c args kwargs) nk p (eq_sym Hkeys)).
      rewrite prep_bindings_spec by assumption. fold sg. rewrite Hs, smem_sget, Hnone. exact Ho.
Qed.

Print Assumptions overlay_correct.
Print Assumptions overlay_longest.
Print Assumptions non_prefix_never_applies.
Print Assumptions prep_bindings_spec.
Print Assumptions merge_call_no_marker.
Print Assumptions C01_injection.
Print Assumptions C04_keyword_override_not_evaluated.
Print Assumptions C04_positional_override_not_evaluated.
Print Assumptions C04_orig_keyword_refuted.
Print Assumptions fill_required_missing.
Print Assumptions C10_never_leaks.
Print Assumptions C10_missing_raises.
Print Assumptions C10_error_names_sorted.
Print Assumptions order_by_signature_nodup.
