(* pprint.pformat (Model/PPrint.v) writes a RE-LAYOUT of repr's token stream, and gin reads it back as the same value.
   1. unfolding lemmas for pformat_at, one per tree constructor; pformat_fits
   2. the layouts pformat chooses from, as a relation [PP]: every separator of a container is ", " or
      a comma, a newline and blanks; pformat_at produces such a layout ([pformat_at_PP])
   3. a [PP] text is lexed (Model/Lexer.v) into the tokens of the layout: the tokens of repr with an NL token behind
      the commas that are followed by a line break
   4. those tokens are [render (lit_of v) lay 0 false] for a layout [lay] of NL tokens
   5. the statements: pformat_is_relayout, pformat_reads_back
   6. erasing the layout gives repr_string back (string level) *)
From Coq Require Import List String ZArith Bool Arith Ascii Lia.
From GinV Require Import Lib.Out Lib.PyStr Model.Parser Model.ParserSpec Model.Repr Model.ReprText.
From GinV Require Import Proofs.ParserLemmas Proofs.ParserSmall Proofs.ParserProofs Proofs.ParserSound Proofs.ParserApi.
From GinV Require Import Proofs.ParserSim Proofs.ReprProofs.
From GinV Require Import Model.Lexer Proofs.LexerProofs Proofs.LexerParser Proofs.ReprTextProofs.
From GinV Require Import Model.PPrint.
Import ListNotations.
Open Scope char_scope. Open Scope list_scope. Open Scope nat_scope.

(* ================================================================== *)
(* 1. pformat_at, constructor by constructor *)
(* the inner loops of _format_items / _format_dict_items: [ind] is the column of the items, [alast] the allowance of
   the last one *)
Fixpoint pp_items (w ind alast : nat) (l : list pv) : string :=
  match l with
  | [] => EmptyString
  | x :: r =>
      match r with
      | [] => pformat_at w x ind alast
      | _ :: _ => (pformat_at w x ind 1 ++ delimnl ind ++ pp_items w ind alast r)%string
      end
  end.
Fixpoint pp_ditems (w ind alast : nat) (l : list (pv * pv)) : string :=
  match l with
  | [] => EmptyString
  | kx :: r =>
      let krep := repr_string (fst kx) in
      let col := ind + String.length krep + 2 in
      match r with
      | [] => (krep ++ ": " ++ pformat_at w (snd kx) col alast)%string
      | _ :: _ => (krep ++ ": " ++ pformat_at w (snd kx) col 1 ++ delimnl ind ++ pp_ditems w ind alast r)%string
      end
  end.

Lemma pformat_at_PAtom : forall w t i a, pformat_at w (PAtom t) i a = text t.
Proof. intros. cbn [pformat_at]. destruct (too_wide _ _ _ _); reflexivity. Qed.
Lemma pformat_at_PNeg : forall w t i a, pformat_at w (PNeg t) i a = ("-" ++ text t)%string.
Proof. intros. cbn [pformat_at]. destruct (too_wide _ _ _ _); reflexivity. Qed.
Lemma pformat_at_PStr : forall w t i a, pformat_at w (PStr t) i a = text t.
Proof. intros. cbn [pformat_at]. destruct (too_wide _ _ _ _); reflexivity. Qed.

Lemma pformat_at_PList : forall w l i a,
  pformat_at w (PList l) i a =
  if too_wide w (repr_string (PList l)) i a then ("[" ++ pp_items w (S i) (S a) l ++ "]")%string
  else repr_string (PList l).
Proof.
  intros w l i a. cbn [pformat_at]. destruct (too_wide _ _ _ _); [|reflexivity].
  apply (f_equal (fun s => ("[" ++ s ++ "]")%string)).
  induction l as [|x r IH]; [reflexivity|]. cbn [pp_items]. destruct r as [|y r']; [reflexivity|]. rewrite IH. reflexivity.
Qed.
Lemma pformat_at_PTuple : forall w l i a,
  pformat_at w (PTuple l) i a =
  if too_wide w (repr_string (PTuple l)) i a
  then ("(" ++ pp_items w (S i) (a + match l with [_] => 2 | _ => 1 end) l ++ (match l with [_] => "," | _ => "" end) ++ ")")%string
  else repr_string (PTuple l).
Proof.
  intros w l i a. cbn [pformat_at]. destruct (too_wide _ _ _ _); [|reflexivity].
  set (al := a + match l with [_] => 2 | _ => 1 end). set (tr := match l with [_] => "," | _ => "" end%string).
  apply (f_equal (fun s => ("(" ++ s ++ tr ++ ")")%string)). clearbody al tr.
  induction l as [|x r IH]; [reflexivity|]. cbn [pp_items]. destruct r as [|y r']; [reflexivity|]. rewrite IH. reflexivity.
Qed.
Lemma pformat_at_PDict : forall w l i a,
  pformat_at w (PDict l) i a =
  if too_wide w (repr_string (PDict l)) i a then ("{" ++ pp_ditems w (S i) (S a) l ++ "}")%string
  else repr_string (PDict l).
Proof.
  intros w l i a. cbn [pformat_at]. destruct (too_wide _ _ _ _); [|reflexivity].
  apply (f_equal (fun s => ("{" ++ s ++ "}")%string)).
  induction l as [|[k x] r IH]; [reflexivity|]. cbn [pp_ditems fst snd]. destruct r as [|y r']; [reflexivity|].
  rewrite IH. reflexivity.
Qed.

(* what fits is written as repr writes it *)
Theorem pformat_at_fits : forall w v i a, String.length (repr_string v) + i + a <= w -> pformat_at w v i a = repr_string v.
Proof.
  intros w v i a H.
  assert (E : too_wide w (repr_string v) i a = false) by (unfold too_wide; apply Nat.ltb_ge; exact H).
  destruct v; cbn [pformat_at]; rewrite E; reflexivity.
Qed.
Theorem pformat_fits : forall w v, String.length (repr_string v) <= w -> pformat w v = repr_string v.
Proof. intros w v H. unfold pformat. apply pformat_at_fits. lia. Qed.
(* atoms are never re-laid *)
Theorem pformat_atom : forall w v, pv_depth v = 0 -> pformat w v = repr_string v.
Proof.
  intros w v H. unfold pformat. destruct v; try discriminate H.
  - apply pformat_at_PAtom.
  - apply pformat_at_PNeg.
  - apply pformat_at_PStr.
Qed.

(* ================================================================== *)
(* 2. the layouts pformat chooses from *)
(* what separates two items of a container: ", " or a comma, a newline and [k] blanks *)
Inductive sepk := SFlat | SBrk (k : nat).
Definition sep_chars (s : sepk) : chars := match s with SFlat => [","; " "] | SBrk k => "," :: nl :: repeat " " k end.
(* the NL token the tokenizer yields for a line break inside brackets (positions are immaterial) *)
Definition nl_tok : token := {| ty := NL; text := String nl EmptyString; srow := 1; scol := 0; erow := 1; ecol := 0 |}.
Definition sep_slot (s : sepk) : list token := match s with SFlat => [] | SBrk _ => [nl_tok] end.

Inductive frag := FV (v : pv) | FItems (l : list pv) | FDItems (l : list (pv * pv)).
Definition trail_c (l : list pv) : chars := match l with [_] => [","] | _ => [] end.
Definition trail_t (l : list pv) : list token := match l with [_] => [op_tok ","] | _ => [] end.

(* [PP f c ts sl]: [c] is a layout of the value (item list) [f]; [ts] are its tokens: those of repr, and [nl_tok]
   behind every comma that a line break follows; [sl] is what stands in the trivia slots of
   [render (lit_of v)] (Model/ParserSpec.v), in the order of the running counter *)
Inductive PP : frag -> chars -> list token -> list (list token) -> Prop :=
| PP_atom : forall t, PP (FV (PAtom t)) (cs (text t)) [t] [[]; []]
| PP_neg : forall t, PP (FV (PNeg t)) ("-" :: cs (text t)) [op_tok "-"; t] [[]; []]
| PP_str : forall t, PP (FV (PStr t)) (cs (text t)) [t] [[]]
| PP_list : forall l c ts sl, PP (FItems l) c ts sl ->
    PP (FV (PList l)) ("[" :: c ++ ["]"]) (op_tok "[" :: ts ++ [op_tok "]"]) ([] :: sl ++ [[]])
| PP_tuple : forall l c ts sl, PP (FItems l) c ts sl ->
    PP (FV (PTuple l)) ("(" :: (c ++ trail_c l) ++ [")"]) (op_tok "(" :: (ts ++ trail_t l) ++ [op_tok ")"]) ([] :: sl ++ [[]])
| PP_dict : forall l c ts sl, PP (FDItems l) c ts sl ->
    PP (FV (PDict l)) ("{" :: c ++ ["}"]) (op_tok "{" :: ts ++ [op_tok "}"]) ([] :: sl ++ [[]])
| PP_nil : PP (FItems []) [] [] []
| PP_one : forall x c ts sl, PP (FV x) c ts sl -> PP (FItems [x]) c ts (sl ++ [[]])
| PP_cons : forall s x y r cx tx slx cr tr slr, PP (FV x) cx tx slx -> PP (FItems (y :: r)) cr tr slr ->
    PP (FItems (x :: y :: r)) (cx ++ sep_chars s ++ cr) (tx ++ [op_tok ","] ++ sep_slot s ++ tr) (slx ++ [sep_slot s] ++ slr)
| PP_dnil : PP (FDItems []) [] [] []
| PP_done : forall k x ck tk slk c ts sl, PP (FV k) ck tk slk -> PP (FV x) c ts sl ->
    PP (FDItems [(k, x)]) (ck ++ [":"; " "] ++ c) (tk ++ [op_tok ":"] ++ ts) (slk ++ [[]] ++ sl ++ [[]])
| PP_dcons : forall s k x y r ck tk slk cx tx slx cr tr slr,
    PP (FV k) ck tk slk -> PP (FV x) cx tx slx -> PP (FDItems (y :: r)) cr tr slr ->
    PP (FDItems ((k, x) :: y :: r)) ((ck ++ [":"; " "] ++ cx) ++ sep_chars s ++ cr)
       ((tk ++ [op_tok ":"] ++ tx) ++ [op_tok ","] ++ sep_slot s ++ tr) (slk ++ [[]] ++ slx ++ [sep_slot s] ++ slr).

Definition has_PP (f : frag) (c : chars) : Prop := exists ts sl, PP f c ts sl.

(* repr is the layout without line breaks *)
Lemma repr_items_PP : forall l, Forall (fun x => has_PP (FV x) (repr_chars x)) l ->
  has_PP (FItems l) (join_chars sepc (map repr_chars l)).
Proof.
  induction l as [|x r IH]; intro H; [exists [], []; constructor|].
  destruct (Forall_inv H) as [tx [slx Hx]]. specialize (IH (Forall_inv_tail H)).
  destruct r as [|y r']; [eexists _, _; cbn [map join_chars]; apply PP_one; exact Hx|].
  destruct IH as [tr [slr Hr]]. eexists _, _.
  change (join_chars sepc (map repr_chars (x :: y :: r'))) with (repr_chars x ++ sep_chars SFlat ++ join_chars sepc (map repr_chars (y :: r'))).
  apply PP_cons; [exact Hx | exact Hr].
Qed.
Lemma repr_ditems_PP : forall l,
  Forall (fun kv => has_PP (FV (fst kv)) (repr_chars (fst kv)) /\ has_PP (FV (snd kv)) (repr_chars (snd kv))) l ->
  has_PP (FDItems l) (join_chars sepc (map (fun kv => repr_chars (fst kv) ++ [":"; " "] ++ repr_chars (snd kv)) l)).
Proof.
  induction l as [|[k x] r IH]; intro H; [exists [], []; constructor|].
  destruct (Forall_inv H) as [[tk [slk Hk]] [tx [slx Hx]]]. cbn [fst snd] in Hk, Hx. specialize (IH (Forall_inv_tail H)).
  destruct r as [|y r']; [eexists _, _; cbn [map join_chars fst snd]; apply PP_done; [exact Hk | exact Hx]|].
  destruct IH as [tr [slr Hr]]. eexists _, _.
  set (g := fun kv : pv * pv => repr_chars (fst kv) ++ [":"; " "] ++ repr_chars (snd kv)) in *.
  change (join_chars sepc (map g ((k, x) :: y :: r')))
    with ((repr_chars k ++ [":"; " "] ++ repr_chars x) ++ sep_chars SFlat ++ join_chars sepc (map g (y :: r'))).
  apply PP_dcons; [exact Hk | exact Hx | exact Hr].
Qed.
Theorem repr_PP : forall v, has_PP (FV v) (repr_chars v).
Proof.
  induction v as [t|t|t|l IH|l IH|l IH] using pv_ind'; cbn [repr_chars].
  - eexists _, _. apply PP_atom.
  - eexists _, _. apply PP_neg.
  - eexists _, _. apply PP_str.
  - destruct (repr_items_PP l IH) as [ts [sl H]]. eexists _, _. apply PP_list. exact H.
  - destruct (repr_items_PP l IH) as [ts [sl H]]. eexists _, _.
    change (match l with [_] => [","] | _ => [] end) with (trail_c l). apply PP_tuple. exact H.
  - destruct (repr_ditems_PP l IH) as [ts [sl H]]. eexists _, _. apply PP_dict. exact H.
Qed.

(* pformat_at *)
Lemma cs_blanks : forall k, cs (blanks k) = repeat " " k.
Proof. induction k as [|k IH]; [reflexivity|]. cbn [blanks cs list_ascii_of_string repeat]. f_equal. exact IH. Qed.
Lemma cs_delimnl : forall k, cs (delimnl k) = sep_chars (SBrk k).
Proof. intro k. unfold delimnl, nls. cbn [String.append cs list_ascii_of_string sep_chars]. f_equal. f_equal. apply cs_blanks. Qed.

Definition PPall (w : nat) (x : pv) : Prop := forall i a, has_PP (FV x) (cs (pformat_at w x i a)).
Lemma pp_items_PP : forall w ind alast l, Forall (PPall w) l -> has_PP (FItems l) (cs (pp_items w ind alast l)).
Proof.
  intros w ind alast. induction l as [|x r IH]; intro H; [exists [], []; constructor|].
  pose proof (Forall_inv H) as Hx. specialize (IH (Forall_inv_tail H)).
  destruct r as [|y r'].
  - cbn [pp_items]. destruct (Hx ind alast) as [tx [slx Px]]. eexists _, _. apply PP_one. exact Px.
  - destruct IH as [tr [slr Hr]]. destruct (Hx ind 1) as [tx [slx Px]]. eexists _, _.
    change (pp_items w ind alast (x :: y :: r'))
      with (pformat_at w x ind 1 ++ delimnl ind ++ pp_items w ind alast (y :: r'))%string.
    rewrite !cs_app, cs_delimnl. apply PP_cons; [exact Px | exact Hr].
Qed.
Lemma pp_ditems_PP : forall w ind alast l, Forall (fun kv => PPall w (fst kv) /\ PPall w (snd kv)) l ->
  has_PP (FDItems l) (cs (pp_ditems w ind alast l)).
Proof.
  intros w ind alast. induction l as [|[k x] r IH]; intro H; [exists [], []; constructor|].
  destruct (Forall_inv H) as [_ Hx]. cbn [fst snd] in Hx. specialize (IH (Forall_inv_tail H)).
  destruct (repr_PP k) as [tk [slk Pk]].
  destruct r as [|y r'].
  - cbn [pp_ditems fst snd]. destruct (Hx (ind + String.length (repr_string k) + 2) alast) as [tx [slx Px]]. eexists _, _.
    rewrite !cs_app, repr_chars_string. apply PP_done; [exact Pk | exact Px].
  - destruct IH as [tr [slr Hr]]. destruct (Hx (ind + String.length (repr_string k) + 2) 1) as [tx [slx Px]]. eexists _, _.
    change (pp_ditems w ind alast ((k, x) :: y :: r'))
      with (repr_string k ++ ": " ++ pformat_at w x (ind + String.length (repr_string k) + 2) 1 ++ delimnl ind ++
            pp_ditems w ind alast (y :: r'))%string.
    rewrite !cs_app, cs_delimnl, repr_chars_string.
    change (cs ": ") with [":"; " "]. rewrite (app_assoc [":"; " "]), (app_assoc (repr_chars k)).
    apply PP_dcons; [exact Pk | exact Px | exact Hr].
Qed.

Lemma cs_bracket : forall o s c, cs (String o (s ++ String c EmptyString)) = o :: cs s ++ [c].
Proof. intros o s c. cbn [cs list_ascii_of_string]. f_equal. rewrite cs_app. reflexivity. Qed.

Theorem pformat_at_PP : forall w v i a, has_PP (FV v) (cs (pformat_at w v i a)).
Proof.
  intros w. induction v as [t|t|t|l IH|l IH|l IH] using pv_ind'; intros i a.
  - rewrite pformat_at_PAtom. eexists _, _. apply PP_atom.
  - rewrite pformat_at_PNeg. eexists _, _. apply PP_neg.
  - rewrite pformat_at_PStr. eexists _, _. apply PP_str.
  - rewrite pformat_at_PList. destruct (too_wide _ _ _ _); [|rewrite repr_chars_string; apply repr_PP].
    destruct (pp_items_PP w (S i) (S a) l IH) as [ts [sl H]]. eexists _, _.
    change ("[" ++ pp_items w (S i) (S a) l ++ "]")%string with (String "[" (pp_items w (S i) (S a) l ++ String "]" EmptyString)).
    rewrite cs_bracket. apply PP_list. exact H.
  - rewrite pformat_at_PTuple. destruct (too_wide _ _ _ _); [|rewrite repr_chars_string; apply repr_PP].
    destruct (pp_items_PP w (S i) (a + match l with [_] => 2 | _ => 1 end) l IH) as [ts [sl H]]. eexists _, _.
    set (X := pp_items w (S i) (a + match l with [_] => 2 | _ => 1 end) l) in *.
    replace (cs ("(" ++ X ++ match l with [_] => "," | _ => "" end ++ ")")) with ("(" :: (cs X ++ trail_c l) ++ [")"]).
    + apply PP_tuple. exact H.
    + cbn [String.append cs list_ascii_of_string]. f_equal. fold (cs (X ++ match l with [_] => "," | _ => "" end ++ ")")).
      rewrite !cs_app. destruct l as [|? [|? ?]]; cbn [trail_c]; rewrite <- ?app_assoc; reflexivity.
  - rewrite pformat_at_PDict. destruct (too_wide _ _ _ _); [|rewrite repr_chars_string; apply repr_PP].
    destruct (pp_ditems_PP w (S i) (S a) l IH) as [ts [sl H]]. eexists _, _.
    change ("{" ++ pp_ditems w (S i) (S a) l ++ "}")%string with (String "{" (pp_ditems w (S i) (S a) l ++ String "}" EmptyString)).
    rewrite cs_bracket. apply PP_dict. exact H.
Qed.

(* ================================================================== *)
(* 3. lexing a layout *)
(* as [lexes_as], for a text that stands inside brackets *)
Definition lexes_in (l : chars) (ts : list token) (d : nat) : Prop :=
  forall imp st ws rest, atbol st = false -> spaces ws -> 0 < level st -> level st + d <= MAXLEVEL ->
  ReprTextProofs.follows rest ->
  exists toks st', Steps imp st (ws ++ l ++ rest) toks st' rest /\ spell toks = spell ts /\ same_frame st st'.
Lemma lexes_as_in : forall l ts d, lexes_as l ts d -> lexes_in l ts d.
Proof. intros l ts d H imp st ws rest Hb Hs _ Hl Hf. exact (H imp st ws rest Hb Hs Hl Hf). Qed.
Lemma lexes_in_mono : forall l ts d d', lexes_in l ts d -> d <= d' -> lexes_in l ts d'.
Proof. intros l ts d d' H Hd imp st ws rest Hb Hs Hv Hl Hf. apply H; try assumption. lia. Qed.

(* a line break inside brackets: an NL token, then the blanks of the next line are skipped *)
Lemma scan_indent_blanks : forall k c rest before sp icol cont, is_space c = false -> Ascii.eqb c "\" = false ->
  scan_indent (repeat " " k ++ c :: rest) before sp icol cont = Some (before, sp ++ repeat " " k, icol + k, cont, c :: rest).
Proof.
  induction k as [|k IH]; intros c rest before sp icol cont H1 H2; cbn [repeat app scan_indent].
  - rewrite H1, H2, app_nil_r, Nat.add_0_r. reflexivity.
  - change (is_space " ") with true. cbv iota. rewrite (IH c rest before (sp ++ [" "]) (S icol) cont H1 H2).
    rewrite <- app_assoc. cbn [app]. replace (S icol + k) with (icol + S k) by lia. reflexivity.
Qed.
Lemma bol_plain_tests : forall c, bol_plain c = true ->
  is_space c = false /\ Ascii.eqb c "\" = false /\ Ascii.eqb c nl = false /\ Ascii.eqb c "#" = false.
Proof.
  intros c H. unfold bol_plain in H. apply negb_true_iff in H.
  repeat (apply orb_false_iff in H; let T := fresh "T" in destruct H as [H T]). auto.
Qed.
Lemma step_nl_inside : forall imp st r, atbol st = false -> level st <> 0 ->
  step imp st (nl :: r) = Next [mk_nl NL imp r (lpos st)] (move st (next_line (lpos st)) true) r.
Proof.
  intros imp st r Hb Hl. unfold step. rewrite Hb. unfold step_tok. cbn [span]. change (is_space nl) with false. cbv iota zeta.
  cbn [pos_after]. change (Ascii.eqb nl "#") with false. rewrite Ascii.eqb_refl. cbv iota.
  apply Nat.eqb_neq in Hl. rewrite Hl. reflexivity.
Qed.
Lemma step_bol_inside : forall imp st k c rest, atbol st = true -> level st <> 0 -> bol_plain c = true ->
  step imp st (repeat " " k ++ c :: rest) = Next [] (move st (pos_after (lpos st) (repeat " " k)) false) (c :: rest).
Proof.
  intros imp st k c rest Hb Hl Hc. destruct (bol_plain_tests c Hc) as [H1 [H2 [H3 H4]]].
  unfold step. rewrite Hb. unfold step_bol. rewrite (scan_indent_blanks k c rest [] [] 0 0 H1 H2).
  cbn [app pos_after]. cbv zeta. rewrite H3, H4. apply Nat.eqb_neq in Hl. rewrite Hl. reflexivity.
Qed.
Lemma steps_break : forall imp st k c rest, atbol st = false -> level st <> 0 -> bol_plain c = true ->
  exists t st', Steps imp st (nl :: repeat " " k ++ c :: rest) [t] st' (c :: rest) /\ spell [t] = spell [nl_tok] /\
                same_frame st st'.
Proof.
  intros imp st k c rest Hb Hl Hc.
  pose proof (step_nl_inside imp st (repeat " " k ++ c :: rest) Hb Hl) as S1.
  set (st1 := move st (next_line (lpos st)) true) in *.
  pose proof (step_bol_inside imp st1 k c rest eq_refl Hl Hc) as S2.
  exists (mk_nl NL imp (repeat " " k ++ c :: rest) (lpos st)), (move st1 (pos_after (lpos st1) (repeat " " k)) false).
  split; [|split].
  - change [mk_nl NL imp (repeat " " k ++ c :: rest) (lpos st)] with ([mk_nl NL imp (repeat " " k ++ c :: rest) (lpos st)] ++ []).
    eapply Steps_step; [exact S1|]. apply Steps_one. exact S2.
  - unfold spell, tk. cbn [map mk_nl ty text nl_tok]. destruct imp; [|reflexivity]. destruct k; reflexivity.
  - repeat split; reflexivity.
Qed.

Lemma lexes_in_seq_op : forall a ta d c, lexes_in a ta d -> simple_op c = true -> is_open_op [c] = false ->
  is_close_op [c] = false -> term c = true ->
  forall imp st ws rest, atbol st = false -> spaces ws -> 0 < level st -> level st + d <= MAXLEVEL ->
  exists toks st', Steps imp st (ws ++ a ++ c :: rest) toks st' rest /\
                   spell toks = spell (ta ++ [op_tok (String c EmptyString)]) /\ same_frame st st'.
Proof.
  intros a ta d c Ha Hc Oc Cc Tc imp st ws rest Hb Hs Hv Hl.
  destruct (Ha imp st ws (c :: rest) Hb Hs Hv Hl (follows_cons c rest Tc)) as [t1 [st1 [S1 [Sp1 [B1 [L1 K1]]]]]].
  destruct (lexes_simple_op imp st1 [] c rest B1 (Forall_nil _) Hc ltac:(intro E; rewrite E in Oc; discriminate))
    as [st2 [S2 [B2 [L2 K2]]]].
  unfold new_level in L2. rewrite Oc, Cc in L2.
  eexists _, st2. split; [eapply Steps_trans; [exact S1 | exact S2]|]. split.
  - unfold spell in *. rewrite !map_app, Sp1. reflexivity.
  - repeat split; congruence.
Qed.
Lemma lexes_in_trailing_comma : forall a ta d, lexes_in a ta d -> lexes_in (a ++ [","]) (ta ++ [op_tok ","]) d.
Proof.
  intros a ta d Ha imp st ws rest Hb Hs Hv Hl Hf.
  destruct (lexes_in_seq_op a ta d "," Ha eq_refl eq_refl eq_refl eq_refl imp st ws rest Hb Hs Hv Hl) as [toks [st' [S [Sp F]]]].
  exists toks, st'. rewrite <- app_assoc. cbn [app]. auto.
Qed.
(* two items and what separates them *)
Lemma lexes_in_cons : forall s a ta b tb d, lexes_in a ta d -> lexes_in b tb d ->
  (exists c0 r0, b = c0 :: r0 /\ bol_plain c0 = true) ->
  lexes_in (a ++ sep_chars s ++ b) (ta ++ [op_tok ","] ++ sep_slot s ++ tb) d.
Proof.
  intros s a ta b tb d Ha Hb0 [c0 [r0 [Eb Hc0]]] imp st ws rest Hb Hs Hv Hl Hf. destruct s as [|k]; cbn [sep_chars sep_slot].
  - destruct (lexes_in_seq_op a ta d "," Ha eq_refl eq_refl eq_refl eq_refl imp st ws ([" "] ++ b ++ rest) Hb Hs Hv Hl)
      as [t1 [st1 [S1 [Sp1 [B1 [L1 K1]]]]]].
    destruct (Hb0 imp st1 [" "] rest B1 ltac:(repeat constructor) ltac:(rewrite L1; exact Hv) ltac:(rewrite L1; exact Hl) Hf)
      as [t2 [st2 [S2 [Sp2 F2]]]].
    exists (t1 ++ t2), st2. split; [|split].
    + replace (ws ++ (a ++ [","; " "] ++ b) ++ rest) with (ws ++ a ++ "," :: [" "] ++ b ++ rest)
        by (cbn [app]; rewrite <- !app_assoc; reflexivity).
      eapply Steps_trans; [exact S1 | exact S2].
    + unfold spell in *. rewrite !map_app, Sp1, Sp2, !map_app. cbn [app]. rewrite <- app_assoc. reflexivity.
    + exact (same_frame_trans _ _ _ (conj B1 (conj L1 K1)) F2).
  - destruct (lexes_in_seq_op a ta d "," Ha eq_refl eq_refl eq_refl eq_refl imp st ws (nl :: repeat " " k ++ b ++ rest) Hb Hs Hv Hl)
      as [t1 [st1 [S1 [Sp1 [B1 [L1 K1]]]]]].
    destruct (steps_break imp st1 k c0 (r0 ++ rest) B1 ltac:(rewrite L1; lia) Hc0) as [tn [stn [Sn [Spn [Bn [Ln Kn]]]]]].
    destruct (Hb0 imp stn [] rest Bn (Forall_nil _) ltac:(rewrite Ln, L1; exact Hv) ltac:(rewrite Ln, L1; exact Hl) Hf)
      as [t2 [st2 [S2 [Sp2 F2]]]].
    exists (t1 ++ [tn] ++ t2), st2. split; [|split].
    + replace (ws ++ (a ++ ("," :: nl :: repeat " " k) ++ b) ++ rest) with (ws ++ a ++ "," :: nl :: repeat " " k ++ b ++ rest)
        by (rewrite <- !app_assoc; cbn [app]; reflexivity).
      eapply Steps_trans; [exact S1|]. eapply Steps_trans; [|exact S2].
      rewrite Eb. cbn [app]. exact Sn.
    + unfold spell in *. rewrite !map_app, Sp1, Sp2, Spn, !map_app. cbn [app map]. rewrite <- app_assoc. reflexivity.
    + apply (same_frame_trans _ st1); [exact (conj B1 (conj L1 K1))|].
      apply (same_frame_trans _ stn); [exact (conj Bn (conj Ln Kn)) | exact F2].
Qed.
Lemma lexes_in_item : forall k tk0 v tv d, lexes_in k tk0 d -> lexes_in v tv d ->
  lexes_in (k ++ [":"; " "] ++ v) (tk0 ++ [op_tok ":"] ++ tv) d.
Proof.
  intros k tk0 v tv d Hk Hv0 imp st ws rest Hb Hs Hv Hl Hf.
  destruct (Hk imp st ws (":" :: " " :: v ++ rest) Hb Hs Hv Hl (follows_cons ":" _ eq_refl)) as [t1 [st1 [S1 [Sp1 [B1 [L1 K1]]]]]].
  pose proof (step_colon imp st1 [] (v ++ rest) B1 (Forall_nil _)) as S2. cbn [app] in S2.
  set (st2 := {| lpos := pos_after (pos_after (lpos st1) []) [":"]; atbol := false; stack := stack st1; level := level st1 |}) in *.
  destruct (Hv0 imp st2 [" "] rest eq_refl ltac:(repeat constructor) ltac:(cbn [level st2]; rewrite L1; exact Hv)
              ltac:(cbn [level st2]; rewrite L1; exact Hl) Hf)
    as [t3 [st3 [S3 [Sp3 [B3 [L3 K3]]]]]].
  exists (t1 ++ [mk OP [":"] (pos_after (lpos st1) [])] ++ t3), st3. split; [|split].
  - replace (ws ++ (k ++ [":"; " "] ++ v) ++ rest) with (ws ++ k ++ ":" :: " " :: v ++ rest)
      by (cbn [app]; rewrite <- !app_assoc; reflexivity).
    eapply Steps_trans; [exact S1|]. eapply Steps_trans; [apply Steps_one; exact S2 | exact S3].
  - unfold spell in *. rewrite !map_app, Sp1, Sp3. reflexivity.
  - cbn [level stack st2] in *. repeat split; congruence.
Qed.
Lemma lexes_brackets_in : forall o c inner ts d,
  simple_op o = true -> simple_op c = true -> is_open_op [o] = true -> is_open_op [c] = false -> is_close_op [c] = true ->
  (inner = [] /\ ts = [] \/ lexes_in inner ts d) ->
  lexes_as (o :: inner ++ [c]) (op_tok (String o EmptyString) :: ts ++ [op_tok (String c EmptyString)]) (S d).
Proof.
  intros o c inner ts d Ho Hc Oo Oc Cc Hin imp st ws rest Hb Hs Hl Hf.
  destruct (lexes_simple_op imp st ws o (inner ++ c :: rest) Hb Hs Ho ltac:(intros _; lia)) as [st1 [S1 [B1 [L1 K1]]]].
  unfold new_level in L1. rewrite Oo in L1.
  assert (Hmid : exists toks st2, Steps imp st1 (inner ++ c :: rest) toks st2 (c :: rest) /\ spell toks = spell ts /\
                                  same_frame st1 st2).
  { destruct Hin as [[-> ->]|Hin].
    - exists [], st1. split; [apply Steps_refl|]. split; [reflexivity | repeat split; assumption].
    - apply (Hin imp st1 [] (c :: rest) B1 (Forall_nil _)); [rewrite L1; lia | rewrite L1; lia|].
      exists c, rest. split; [reflexivity|]. unfold simple_op in Hc. unfold term.
      repeat (apply orb_true_iff in Hc; destruct Hc as [Hc|Hc]); apply Ascii.eqb_eq in Hc; subst c;
        try reflexivity; discriminate. }
  destruct Hmid as [toks [st2 [S2 [Sp [B2 [L2 K2]]]]]].
  destruct (lexes_simple_op imp st2 [] c rest B2 (Forall_nil _) Hc ltac:(intro E; rewrite E in Oc; discriminate))
    as [st3 [S3 [B3 [L3 K3]]]].
  unfold new_level in L3. rewrite Oc, Cc, L2, L1 in L3. cbn [Nat.pred] in L3.
  eexists _, st3. split; [|split].
  - replace (ws ++ (o :: inner ++ [c]) ++ rest) with (ws ++ o :: inner ++ c :: rest)
      by (cbn [app]; rewrite <- app_assoc; reflexivity).
    change (op_tok (String o EmptyString) :: ts ++ [op_tok (String c EmptyString)])
      with ([op_tok (String o EmptyString)] ++ ts ++ [op_tok (String c EmptyString)]).
    eapply Steps_trans; [exact S1|]. eapply Steps_trans; [exact S2 | exact S3].
  - unfold spell in *. cbn [map app]. rewrite !map_app, Sp. reflexivity.
  - repeat split; congruence.
Qed.

Definition frag_atoms (f : frag) : list token :=
  match f with
  | FV v => pv_atoms v
  | FItems l => flat_map pv_atoms l
  | FDItems l => flat_map (fun kv => pv_atoms (fst kv) ++ pv_atoms (snd kv)) l
  end.
Definition frag_ne (f : frag) : Prop :=
  match f with FV _ => True | FItems l => l <> [] | FDItems l => l <> [] end.
Definition frag_depth (f : frag) : nat :=
  match f with
  | FV v => pv_depth v
  | FItems l => list_max (map pv_depth l)
  | FDItems l => list_max (map (fun kv => Nat.max (pv_depth (fst kv)) (pv_depth (snd kv))) l)
  end.

Lemma PP_items_nil : forall c ts sl, PP (FItems []) c ts sl -> c = [] /\ ts = [] /\ sl = [].
Proof. intros c ts sl H. inversion H. auto. Qed.
Lemma PP_ditems_nil : forall c ts sl, PP (FDItems []) c ts sl -> c = [] /\ ts = [] /\ sl = [].
Proof. intros c ts sl H. inversion H. auto. Qed.

(* a layout begins with the first character of an atom, a minus or an opening bracket: nothing the tokenizer treats
   specially at the start of a line *)
Theorem PP_first : forall f c ts sl, PP f c ts sl -> Forall atom_scans (frag_atoms f) -> frag_ne f ->
  exists c0 r0, c = c0 :: r0 /\ bol_plain c0 = true.
Proof.
  intros f c ts sl H. induction H; cbn [frag_atoms frag_ne pv_atoms flat_map fst snd]; intros Hat Hne;
    try (eexists _, _; split; [reflexivity | reflexivity]); try congruence.
  - destruct (Forall_inv Hat) as [c [r [EX [Ha _]]]]. exists c, r. split; [exact EX | exact (atom_start_bol _ _ Ha)].
  - destruct (Forall_inv Hat) as [c [r [EX [Ha _]]]]. exists c, r. split; [exact EX | exact (atom_start_bol _ _ Ha)].
  - rewrite app_nil_r in Hat. exact (IHPP Hat I).
  - apply Forall_app in Hat. destruct (IHPP1 (proj1 Hat) I) as [c0 [r0 [-> Hc]]]. eexists _, _. split; [reflexivity | exact Hc].
  - rewrite app_nil_r in Hat. apply Forall_app in Hat. destruct (IHPP1 (proj1 Hat) I) as [c0 [r0 [-> Hc]]].
    eexists _, _. split; [reflexivity | exact Hc].
  - apply Forall_app in Hat. destruct Hat as [Hat _]. apply Forall_app in Hat.
    destruct (IHPP1 (proj1 Hat) I) as [c0 [r0 [-> Hc]]]. eexists _, _. split; [reflexivity | exact Hc].
Qed.

Lemma list_max_cons : forall a l, list_max (a :: l) = Nat.max a (list_max l).
Proof. reflexivity. Qed.

(* the lexer reads a layout as its tokens *)
Theorem PP_lex : forall f c ts sl, PP f c ts sl -> Forall atom_scans (frag_atoms f) ->
  match f with
  | FV v => lexes_as c ts (pv_depth v)
  | _ => frag_ne f -> lexes_in c ts (frag_depth f)
  end.
Proof.
  intros f c ts sl H. induction H; cbn [frag_atoms frag_ne frag_depth pv_atoms flat_map fst snd pv_depth]; intros Hat.
  - exact (lexes_atom t (Forall_inv Hat)).
  - exact (lexes_neg t (Forall_inv Hat)).
  - exact (lexes_atom t (Forall_inv Hat)).
  - apply (lexes_brackets_in "[" "]"); try reflexivity.
    destruct l as [|x l']; [left; destruct (PP_items_nil _ _ _ H) as [-> [-> _]]; split; reflexivity|].
    right. apply (IHPP Hat). discriminate.
  - apply (lexes_brackets_in "(" ")"); try reflexivity.
    destruct l as [|x l']; [left; destruct (PP_items_nil _ _ _ H) as [-> [-> _]]; split; reflexivity|].
    right. specialize (IHPP Hat ltac:(discriminate)). cbn [frag_depth] in IHPP.
    destruct l' as [|y l'']; cbn [trail_c trail_t]; [apply lexes_in_trailing_comma; exact IHPP|].
    rewrite !app_nil_r. exact IHPP.
  - apply (lexes_brackets_in "{" "}"); try reflexivity.
    destruct l as [|x l']; [left; destruct (PP_ditems_nil _ _ _ H) as [-> [-> _]]; split; reflexivity|].
    right. apply (IHPP Hat). discriminate.
  - intro Hne. congruence.
  - intros _. rewrite app_nil_r in Hat. apply lexes_as_in. apply (lexes_as_mono _ _ (pv_depth x)); [exact (IHPP Hat)|].
    cbn [map]. rewrite list_max_cons. lia.
  - intros _. apply Forall_app in Hat. destruct Hat as [Hx Hr].
    change (map pv_depth (x :: y :: r)) with (pv_depth x :: map pv_depth (y :: r)). rewrite list_max_cons.
    apply lexes_in_cons.
    + apply lexes_as_in. apply (lexes_as_mono _ _ (pv_depth x)); [exact (IHPP1 Hx) | lia].
    + apply (lexes_in_mono _ _ (list_max (map pv_depth (y :: r)))); [apply (IHPP2 Hr); discriminate | lia].
    + apply (PP_first _ _ _ _ H0 Hr). discriminate.
  - intro Hne. congruence.
  - intros _. rewrite app_nil_r in Hat. apply Forall_app in Hat. destruct Hat as [Hk Hx].
    cbn [map fst snd]. rewrite list_max_cons. apply lexes_in_item.
    + apply lexes_as_in. apply (lexes_as_mono _ _ (pv_depth k)); [exact (IHPP1 Hk) | lia].
    + apply lexes_as_in. apply (lexes_as_mono _ _ (pv_depth x)); [exact (IHPP2 Hx) | lia].
  - intros _. apply Forall_app in Hat. destruct Hat as [Hkx Hr]. apply Forall_app in Hkx. destruct Hkx as [Hk Hx].
    set (g := fun kv : pv * pv => Nat.max (pv_depth (fst kv)) (pv_depth (snd kv))).
    change (map g ((k, x) :: y :: r)) with (Nat.max (pv_depth k) (pv_depth x) :: map g (y :: r)). rewrite list_max_cons.
    apply lexes_in_cons.
    + apply lexes_in_item.
      * apply lexes_as_in. apply (lexes_as_mono _ _ (pv_depth k)); [exact (IHPP1 Hk) | lia].
      * apply lexes_as_in. apply (lexes_as_mono _ _ (pv_depth x)); [exact (IHPP2 Hx) | lia].
    + apply (lexes_in_mono _ _ (list_max (map g (y :: r)))); [apply (IHPP3 Hr); discriminate | lia].
    + apply (PP_first _ _ _ _ H1 Hr). discriminate.
Qed.

(* ================================================================== *)
(* 4. the tokens of a layout are a rendering of the value's literal tree *)
(* the layout function [lay] holds the slot contents [sl] from counter [n] on *)
Definition window (lay : layout) (n : nat) (sl : list (list token)) : Prop :=
  forall k, k < List.length sl -> lay (n + k) = nth k sl [].
Lemma window_cons : forall lay n x sl, window lay n (x :: sl) <-> lay n = x /\ window lay (S n) sl.
Proof.
  intros lay n x sl. split.
  - intro H. split.
    + specialize (H 0 ltac:(cbn [List.length]; lia)). rewrite Nat.add_0_r in H. exact H.
    + intros k Hk. specialize (H (S k) ltac:(cbn [List.length]; lia)). replace (S n + k) with (n + S k) by lia. exact H.
  - intros [H1 H2] k Hk. destruct k as [|k]; [rewrite Nat.add_0_r; exact H1|].
    cbn [List.length] in Hk. specialize (H2 k ltac:(lia)). replace (n + S k) with (S n + k) by lia. exact H2.
Qed.
Lemma window_app : forall lay a b n, window lay n (a ++ b) <-> window lay n a /\ window lay (n + List.length a) b.
Proof.
  intros lay a. induction a as [|x a IH]; intros b n; cbn [app List.length].
  - rewrite Nat.add_0_r. split; [intro H; split; [intros k Hk; cbn in Hk; lia | exact H] | intros [_ H]; exact H].
  - rewrite !window_cons, IH. replace (n + S (List.length a)) with (S n + List.length a) by lia. tauto.
Qed.
Lemma window_one : forall lay n x, window lay n [x] -> lay n = x.
Proof. intros lay n x H. apply window_cons in H. tauto. Qed.

Definition trail_if (trailing : bool) {A : Type} (l : list A) : list token :=
  if trailing then match l with [] => [] | _ :: _ => [op_tok ","] end else [].

Definition Qrender (f : frag) (ts : list token) (sl : list (list token)) : Prop :=
  forall lay n, window lay n sl ->
  match f with
  | FV v => forall inside, render (lit_of v) lay n inside = (ts, n + List.length sl)
  | FItems l => forall trailing,
      render_items lay trailing (map lit_of l) n = (ts ++ trail_if trailing l, n + List.length sl)
  | FDItems l => forall trailing,
      render_ditems lay trailing (map ditem_lit l) n = (ts ++ trail_if trailing l, n + List.length sl)
  end.

Lemma pair_eq : forall (A B : Type) (a a' : A) (b b' : B), a = a' -> b = b' -> (a, b) = (a', b').
Proof. intros. subst. reflexivity. Qed.

Ltac len := cbn [List.length]; rewrite ?app_length; cbn [List.length]; rewrite ?app_length; cbn [List.length]; lia.

Theorem PP_render : forall f c ts sl, PP f c ts sl -> Qrender f ts sl.
Proof.
  intros f c ts sl H. induction H; unfold Qrender in *; intros lay n Hw.
  - intro inside. apply window_cons in Hw. destruct Hw as [E1 Hw]. apply window_one in Hw.
    cbn [lit_of render]. rewrite Hw. apply pair_eq; [destruct inside; reflexivity | cbn [List.length]; lia].
  - intro inside. apply window_cons in Hw. destruct Hw as [E1 Hw]. apply window_one in Hw.
    cbn [lit_of render]. rewrite E1, Hw. apply pair_eq; [destruct inside; reflexivity | cbn [List.length]; lia].
  - intro inside. apply window_one in Hw.
    cbn [lit_of render]. rewrite Hw. apply pair_eq; [destruct inside; reflexivity | cbn [List.length]; lia].
  - intro inside. apply window_cons in Hw. destruct Hw as [E1 Hw]. apply window_app in Hw. destruct Hw as [Hw E2].
    apply window_one in E2. cbn [lit_of]. rewrite render_LList, (IHPP lay (S n) Hw false), E1, E2.
    apply pair_eq.
    + unfold trail_if. rewrite app_nil_r. cbn [app]. destruct inside; reflexivity.
    + len.
  - intro inside. apply window_cons in Hw. destruct Hw as [E1 Hw]. apply window_app in Hw. destruct Hw as [Hw E2].
    apply window_one in E2. cbn [lit_of]. rewrite render_LTuple, (IHPP lay (S n) Hw _), E1, E2.
    apply pair_eq.
    + replace (trail_if (match l with [_] => true | _ => false end) l) with (trail_t l)
        by (destruct l as [|? [|? ?]]; reflexivity).
      cbn [app]. destruct inside; reflexivity.
    + len.
  - intro inside. apply window_cons in Hw. destruct Hw as [E1 Hw]. apply window_app in Hw. destruct Hw as [Hw E2].
    apply window_one in E2. cbn [lit_of]. change (map (fun kv => (lit_of (fst kv), lit_of (snd kv))) l) with (map ditem_lit l).
    rewrite render_LDict, (IHPP lay (S n) Hw false), E1, E2.
    apply pair_eq.
    + unfold trail_if. rewrite app_nil_r. cbn [app]. destruct inside; reflexivity.
    + len.
  - intro trailing. cbn [map render_items]. unfold trail_if. destruct trailing; rewrite Nat.add_0_r; reflexivity.
  - intro trailing. apply window_app in Hw. destruct Hw as [Hw E2]. apply window_one in E2.
    cbn [map render_items]. rewrite (IHPP lay n Hw true), E2. apply pair_eq.
    + unfold trail_if. destruct trailing; reflexivity.
    + len.
  - intro trailing. apply window_app in Hw. destruct Hw as [Hw1 Hw]. apply window_cons in Hw. destruct Hw as [E Hw2].
    change (map lit_of (x :: y :: r)) with (lit_of x :: lit_of y :: map lit_of r).
    rewrite render_items_cons2, (IHPP1 lay n Hw1 true).
    change (lit_of y :: map lit_of r) with (map lit_of (y :: r)).
    rewrite (IHPP2 lay (S (n + List.length slx)) Hw2 trailing), E. apply pair_eq.
    + unfold trail_if. rewrite <- !app_assoc. reflexivity.
    + len.
  - intro trailing. cbn [map render_ditems]. unfold trail_if. destruct trailing; rewrite Nat.add_0_r; reflexivity.
  - intro trailing. apply window_app in Hw. destruct Hw as [Hw1 Hw]. apply window_cons in Hw. destruct Hw as [E1 Hw].
    apply window_app in Hw. destruct Hw as [Hw2 E2]. apply window_one in E2.
    cbn [map render_ditems ditem_lit fst snd].
    rewrite (IHPP1 lay n Hw1 true), E1, (IHPP2 lay (S (n + List.length slk)) Hw2 true), E2. apply pair_eq.
    + unfold trail_if. cbn [app]. rewrite <- !app_assoc. destruct trailing; reflexivity.
    + len.
  - intro trailing. apply window_app in Hw. destruct Hw as [Hw1 Hw]. apply window_cons in Hw. destruct Hw as [E1 Hw].
    apply window_app in Hw. destruct Hw as [Hw2 Hw]. apply window_cons in Hw. destruct Hw as [E2 Hw3].
    change (map ditem_lit ((k, x) :: y :: r)) with ((lit_of k, lit_of x) :: map ditem_lit (y :: r)).
    cbn [map]. rewrite render_ditems_cons2, (IHPP1 lay n Hw1 true), E1, (IHPP2 lay (S (n + List.length slk)) Hw2 true).
    change (ditem_lit y :: map ditem_lit r) with (map ditem_lit (y :: r)).
    rewrite (IHPP3 lay (S (S (n + List.length slk) + List.length slx)) Hw3 trailing), E2. apply pair_eq.
    + unfold trail_if. repeat (progress (rewrite <- ?app_assoc; cbn [app])). reflexivity.
    + len.
Qed.

(* ================================================================== *)
(* 5. the statements *)
(* the slots hold nothing, or the one NL token *)
Definition slot_ok (s : list token) : Prop := s = [] \/ s = [nl_tok].
Theorem PP_slots : forall f c ts sl, PP f c ts sl -> Forall slot_ok sl.
Proof.
  assert (Hs : forall s, slot_ok (sep_slot s)) by (intros [|k]; [left | right]; reflexivity).
  assert (H0 : slot_ok []) by (left; reflexivity).
  intros f c ts sl H. induction H; repeat ((apply Forall_app; split) || apply Forall_cons || apply Forall_nil); auto.
Qed.
(* a property of the atoms, of the punctuation and of the NL token holds for every token of a layout *)
Theorem PP_toks_Forall : forall (P : token -> Prop), (forall s, punct s -> P (op_tok s)) -> P nl_tok ->
  forall f c ts sl, PP f c ts sl -> Forall P (frag_atoms f) -> Forall P ts.
Proof.
  intros P HP Hnl.
  assert (P1 : P (op_tok "[")) by (apply HP; unfold punct; cbn; tauto). assert (P2 : P (op_tok "]")) by (apply HP; unfold punct; cbn; tauto).
  assert (P3 : P (op_tok "(")) by (apply HP; unfold punct; cbn; tauto). assert (P4 : P (op_tok ")")) by (apply HP; unfold punct; cbn; tauto).
  assert (P5 : P (op_tok "{")) by (apply HP; unfold punct; cbn; tauto). assert (P6 : P (op_tok "}")) by (apply HP; unfold punct; cbn; tauto).
  assert (P7 : P (op_tok ",")) by (apply HP; unfold punct; cbn; tauto). assert (P8 : P (op_tok ":")) by (apply HP; unfold punct; cbn; tauto).
  assert (P9 : P (op_tok "-")) by (apply HP; unfold punct; cbn; tauto).
  assert (Hs : forall s, Forall P (sep_slot s)) by (intros [|k]; cbn [sep_slot]; repeat constructor; exact Hnl).
  intros f c ts sl H. induction H; cbn [frag_atoms pv_atoms flat_map fst snd] in *; intro Hat;
    rewrite ?app_nil_r in *; rewrite ?Forall_app in *;
    repeat (split || (apply Forall_app; split) || apply Forall_cons || apply Forall_nil); try tauto; auto.
  - exact (Forall_inv Hat).
  - exact (Forall_inv Hat).
  - exact (Forall_inv Hat).
  - destruct l as [|? [|? ?]]; cbn [trail_t]; repeat constructor; exact P7.
Qed.

Theorem PP_last : forall v c ts sl, PP (FV v) c ts sl -> Forall atom_scans (pv_atoms v) -> exists a x, c = a ++ [x] /\ x <> nl.
Proof.
  assert (Hatom : forall t, atom_scans t -> exists a x, cs (text t) = a ++ [x] /\ x <> nl).
  { intros t Ht. destruct (atom_scans_lexeme t Ht) as [Hl _].
    pose proof (lexeme_nonempty _ _ Hl) as Hne. pose proof (lexeme_not_nl_last _ _ Hl) as Hn.
    destruct (cs (text t)) as [|y X _] using rev_ind; [congruence|]. exists X, y. split; [reflexivity|].
    intros ->. exact (Hn X eq_refl). }
  intros v c ts sl H Hat. inversion H; subst; cbn [pv_atoms] in Hat.
  - exact (Hatom t (Forall_inv Hat)).
  - destruct (Hatom t (Forall_inv Hat)) as [a [x [E Hx]]]. exists ("-" :: a), x. rewrite E. auto.
  - exact (Hatom t (Forall_inv Hat)).
  - exists ("[" :: c0), "]". split; [reflexivity | discriminate].
  - eexists ("(" :: _), ")". split; [reflexivity | discriminate].
  - exists ("{" :: c0), "}". split; [reflexivity | discriminate].
Qed.

(* a whole text: behind the value the tokenizer adds the NEWLINE and the end marker (as lex_chars_value) *)
Theorem lex_chars_lexes : forall c ts d c0 r0 a x, lexes_as c ts d -> d <= MAXLEVEL ->
  c = c0 :: r0 -> bol_plain c0 = true -> c = a ++ [x] -> x <> nl ->
  exists toks n e, lex_chars c = toks ++ [n; e] /\ spell toks = spell ts /\
    ty n = NEWLINE /\ text n = EmptyString /\ ty e = ENDMARKER /\ text e = EmptyString.
Proof.
  intros c ts d c0 r0 a x Hlex Hd Ec Hc Ea Hx.
  unfold lex_chars, normalize. rewrite Ea, (needs_nl_snoc a x Hx), <- Ea.
  set (L := c ++ [nl]). set (st1 := move init_state (1, 0) false).
  destruct (Hlex true st1 [] [nl] eq_refl (Forall_nil _) ltac:(cbn [level st1 move init_state]; lia)
              (follows_cons nl [] eq_refl)) as [toks [st2 [S2 [Sp [B2 [L2 K2]]]]]].
  cbn [app] in S2. fold L in S2.
  assert (S1 : Steps true init_state L [] st1 L).
  { apply Steps_one. unfold L. rewrite Ec. cbn [app]. exact (step_bol_plain true c0 _ Hc). }
  assert (S3 : step true st2 [nl] = Next [nl_token (lpos st2)] (move st2 (next_line (lpos st2)) true) []).
  { unfold step. rewrite B2. unfold step_tok. cbn [span]. change (is_space nl) with false. cbv iota zeta.
    cbn [pos_after]. change (Ascii.eqb nl "#") with false. rewrite Ascii.eqb_refl. cbv iota.
    rewrite L2. reflexivity. }
  set (st3 := move st2 (next_line (lpos st2)) true) in *.
  assert (S4 : step true st3 [] = Next [] {| lpos := lpos st3; atbol := false; stack := []; level := level st3 |} []).
  { unfold step. cbn [atbol st3 move]. unfold step_bol. cbn [scan_indent pos_after].
    cbn [level st3 move]. rewrite L2. cbn [level st1 move init_state Nat.eqb negb stack].
    unfold st3. cbn [stack move]. rewrite K2. reflexivity. }
  set (st4 := {| lpos := lpos st3; atbol := false; stack := []; level := level st3 |}) in *.
  assert (S5 : step true st4 [] = Done [mk_empty ENDMARKER (lpos st4)]).
  { unfold step. cbn [atbol st4]. unfold step_tok. cbn [span pos_after level st4 st3 move]. rewrite L2. reflexivity. }
  assert (SS : Steps true init_state L (toks ++ [nl_token (lpos st2)]) st4 []).
  { change (toks ++ [nl_token (lpos st2)]) with ([] ++ toks ++ [nl_token (lpos st2)] ++ []).
    eapply Steps_trans; [exact S1|]. eapply Steps_trans; [exact S2|].
    eapply Steps_step; [exact S3|]. apply Steps_one. exact S4. }
  destruct (Steps_run _ _ _ _ _ _ SS (2 * List.length L + 2)) as [fuel' [Hm Er]].
  { unfold measure. cbn [atbol init_state]. lia. }
  rewrite Er. destruct fuel' as [|f]; [lia|]. cbn [run]. rewrite S5.
  exists toks, (nl_token (lpos st2)), (mk_empty ENDMARKER (lpos st4)).
  rewrite <- app_assoc. cbn [app]. repeat split; try reflexivity. exact Sp.
Qed.

(* the layout function of a slot list *)
Definition lay_of (sl : list (list token)) : layout := fun k => nth k sl [].
Lemma lay_of_window : forall sl, window (lay_of sl) 0 sl.
Proof. intros sl k _. reflexivity. Qed.
Lemma lay_of_slot : forall sl, Forall slot_ok sl -> forall k, slot_ok (lay_of sl k).
Proof.
  intros sl H k. unfold lay_of. destruct (nth_in_or_default k sl []) as [Hin | ->]; [|left; reflexivity].
  rewrite Forall_forall in H. exact (H _ Hin).
Qed.
Lemma slot_ok_trivia : forall s, slot_ok s -> Forall trivia_tok s.
Proof. intros s [-> | ->]; repeat constructor. Qed.

Open Scope string_scope.
Open Scope list_scope.
(* what is left of a token list when the NL tokens are dropped *)
Definition drop_nl (ts : list token) : list token := filter (fun t => negb (ttype_eqb (ty t) NL)) ts.
Definition frag_toks (f : frag) : list token :=
  match f with
  | FV v => repr_toks v
  | FItems l => join_toks [op_tok ","] (map repr_toks l)
  | FDItems l => join_toks [op_tok ","] (map ditem_toks l)
  end.
Lemma drop_nl_app : forall a b, drop_nl (a ++ b) = drop_nl a ++ drop_nl b.
Proof. intros. apply filter_app. Qed.
Lemma drop_nl_sep : forall s, drop_nl (sep_slot s) = [].
Proof. intros [|k]; reflexivity. Qed.
Lemma drop_nl_atom : forall t, ty t <> NL -> drop_nl [t] = [t].
Proof.
  intros t H. unfold drop_nl. cbn [filter]. destruct (ttype_eqb (ty t) NL) eqn:E; [apply ttype_eqb_eq in E; congruence | reflexivity].
Qed.
(* the tokens of a layout, without the NL tokens, are the tokens of repr *)
Theorem PP_drop_nl : forall f c ts sl, PP f c ts sl -> Forall (fun t => ty t <> NL) (frag_atoms f) -> drop_nl ts = frag_toks f.
Proof.
  intros f c ts sl H. induction H; cbn [frag_atoms pv_atoms flat_map fst snd] in *; intro Hat;
    rewrite ?app_nil_r in *; rewrite ?Forall_app in *; cbn [frag_toks repr_toks map join_toks].
  - exact (drop_nl_atom t (Forall_inv Hat)).
  - change [op_tok "-"; t] with ([op_tok "-"] ++ [t]). rewrite drop_nl_app, (drop_nl_atom t (Forall_inv Hat)). reflexivity.
  - exact (drop_nl_atom t (Forall_inv Hat)).
  - change (op_tok "[" :: ts ++ [op_tok "]"]) with ([op_tok "["] ++ ts ++ [op_tok "]"]).
    rewrite !drop_nl_app, (IHPP Hat). reflexivity.
  - change (op_tok "(" :: (ts ++ trail_t l) ++ [op_tok ")"]) with ([op_tok "("] ++ (ts ++ trail_t l) ++ [op_tok ")"]).
    rewrite !drop_nl_app, (IHPP Hat). cbn [frag_toks]. rewrite <- !app_assoc.
    destruct l as [|? [|? ?]]; reflexivity.
  - change (op_tok "{" :: ts ++ [op_tok "}"]) with ([op_tok "{"] ++ ts ++ [op_tok "}"]).
    rewrite !drop_nl_app, (IHPP Hat). reflexivity.
  - reflexivity.
  - exact (IHPP Hat).
  - rewrite !drop_nl_app, drop_nl_sep, (IHPP1 (proj1 Hat)), (IHPP2 (proj2 Hat)). reflexivity.
  - reflexivity.
  - rewrite !drop_nl_app, (IHPP1 (proj1 Hat)), (IHPP2 (proj2 Hat)). reflexivity.
  - destruct Hat as [[Hk Hx] Hr]. rewrite !drop_nl_app, drop_nl_sep, (IHPP1 Hk), (IHPP2 Hx), (IHPP3 Hr). reflexivity.
Qed.
Lemma atom_scans_not_nl : forall t, atom_scans t -> ty t <> NL.
Proof. intros t Ht E. destruct (atom_scans_lexeme t Ht) as [_ Hty]. rewrite E in Hty. decompose [or] Hty; discriminate. Qed.

(* 5.0 every layout [s] of the value [v] (relation PP):
   the lexer reads its characters as the tokens (up to positions) of [render (lit_of v) lay 0 false] for a layout [lay]
   that puts nothing, or one NL token, behind each token -- so these tokens, without the NL tokens, are repr's --
   then the NEWLINE with the empty text that the tokenizer adds, and the end marker *)
Theorem layout_is_relayout : forall v s ts sl, PP (FV v) (cs s) ts sl ->
  Forall atom_lexable (pv_atoms v) -> pv_depth v <= 200 -> supported s = true ->
  exists toks n e lay rtoks n',
    lex s = Some (toks ++ [n; e]) /\
    lay_ok lay /\ (forall k, lay k = [] \/ lay k = [nl_tok]) /\ render (lit_of v) lay 0 false = (rtoks, n') /\
    map ty toks = map ty rtoks /\ map text toks = map text rtoks /\ drop_nl rtoks = repr_toks v /\
    ty n = NEWLINE /\ text n = "" /\ ty e = ENDMARKER /\ text e = "".
Proof.
  intros v s ts sl HPP Hat Hd Hs.
  assert (Hsc : Forall atom_scans (pv_atoms v)) by (eapply Forall_impl; [|exact Hat]; exact atom_lexable_scans).
  destruct (PP_first _ _ _ _ HPP Hsc I) as [c0 [r0 [Ec Hc]]].
  destruct (PP_last _ _ _ _ HPP Hsc) as [a0 [x [Ea Hx]]].
  destruct (lex_chars_lexes _ ts (pv_depth v) c0 r0 a0 x (PP_lex _ _ _ _ HPP Hsc) Hd Ec Hc Ea Hx)
    as [toks [n [e [E [Sp [H1 [H2 [H3 H4]]]]]]]].
  pose proof (PP_slots _ _ _ _ HPP) as Hsl.
  exists toks, n, e, (lay_of sl), ts, (0 + List.length sl).
  split; [unfold lex; rewrite Hs; unfold lex_raw; fold (cs s); rewrite E; reflexivity|].
  split; [intro k; apply slot_ok_trivia, lay_of_slot; exact Hsl|].
  split; [intro k; exact (lay_of_slot sl Hsl k)|].
  split; [exact (PP_render _ _ _ _ HPP (lay_of sl) 0 (lay_of_window sl) false)|].
  split; [exact (spell_ty _ _ Sp)|]. split; [exact (spell_text _ _ Sp)|].
  split; [apply (PP_drop_nl _ _ _ _ HPP); eapply Forall_impl; [|exact Hsc]; exact atom_scans_not_nl|].
  repeat split; assumption.
Qed.
(* ... and the modelled API gin.config.parse_value reads it back as the value the tree denotes *)
Theorem layout_reads_back : forall o v s rtoks sl x, PP (FV v) (cs s) rtoks sl ->
  atoms_ok o v -> denote o v = Some x ->
  Forall atom_lexable (pv_atoms v) -> pv_depth v <= 200 -> supported s = true ->
  exists ts, lex s = Some ts /\ run_value_api (o, ts) = OT "Value" [x].
Proof.
  intros o v s rtoks sl x HPP Hok Hden Hat Hd Hs.
  assert (Hsc : Forall atom_scans (pv_atoms v)) by (eapply Forall_impl; [|exact Hat]; exact atom_lexable_scans).
  destruct (PP_first _ _ _ _ HPP Hsc I) as [c0 [r0 [Ec Hc]]].
  destruct (PP_last _ _ _ _ HPP Hsc) as [a0 [x0 [Ea Hx]]].
  destruct (lex_chars_lexes _ rtoks (pv_depth v) c0 r0 a0 x0 (PP_lex _ _ _ _ HPP Hsc) Hd Ec Hc Ea Hx)
    as [toks [n [e [E [Sp [H1 [H2 [H3 H4]]]]]]]].
  pose proof (PP_slots _ _ _ _ HPP) as Hsl.
  exists (toks ++ [n; e]). split.
  { unfold lex. rewrite Hs. unfold lex_raw. fold (cs s). rewrite E. reflexivity. }
  assert (Htok : Forall tok_ok (pv_atoms v))
    by (eapply Forall_impl; [|exact Hsc]; intros t Ht; exact (proj1 (atom_scans_tok_ok t Ht))).
  assert (Hns : Forall nosig rtoks).
  { apply (PP_toks_Forall nosig) with (f := FV v) (c := cs s) (sl := sl); [| |exact HPP|].
    - intros s0 Hp. unfold punct in Hp. cbn [In] in Hp. unfold nosig. cbn [op_tok text].
      decompose [or] Hp; try contradiction; subst s0; split; discriminate.
    - split; discriminate.
    - eapply Forall_impl; [|exact Hsc]. intros t Ht. exact (proj2 (atom_scans_tok_ok t Ht)). }
  assert (Hlay : lay_ok (lay_of sl)) by (intro k; apply slot_ok_trivia, lay_of_slot; exact Hsl).
  pose proof (PP_render _ _ _ _ HPP (lay_of sl) 0 (lay_of_window sl) false) as Hr. cbn [frag_atoms] in Hr.
  assert (Hp : parse_single_value o (rtoks ++ [n; e]) = POk x).
  { apply (value_text_reads_back o v x (lay_of sl) 0 false rtoks (0 + List.length sl) [] [n] e [] Hok Hden Htok Hlay Hr).
    - constructor.
    - constructor; [|constructor]. rewrite H1. unfold end_types. cbn. tauto.
    - intros t r E0. injection E0 as <- _. exact H1.
    - exact H3. }
  apply (run_value_api_transfer o (rtoks ++ [n; e])).
  - apply Forall2_app.
    + apply spell_tseq; [symmetry; exact Sp | exact Hns].
    + assert (Hn : teq n n) by (repeat split; rewrite H2; discriminate).
      assert (He : teq e e) by (repeat split; rewrite H4; discriminate).
      constructor; [exact Hn|]. constructor; [exact He | constructor].
  - unfold run_value_api. cbn [fst snd].
    assert (Hset : settle (rtoks ++ [n; e]) = POk (rtoks ++ [n; e])).
    { assert (Hne : Forall (fun t => ty t <> ERRORTOKEN /\ ty t <> TERR) (rtoks ++ [n; e])).
      { apply Forall_app. split.
        - apply (PP_toks_Forall (fun t => ty t <> ERRORTOKEN /\ ty t <> TERR)) with (f := FV v) (c := cs s) (sl := sl);
            [intros s0 _; cbn [op_tok ty]; split; discriminate | split; discriminate | exact HPP|].
          eapply Forall_impl; [|exact Hsc]. intros t Ht. destruct (atom_scans_lexeme t Ht) as [_ Hty].
          split; intro E0; rewrite E0 in Hty; decompose [or] Hty; discriminate.
        - repeat constructor; rewrite ?H1, ?H3; discriminate. }
      destruct (rtoks ++ [n; e]) as [|t0 r1] eqn:E0; [destruct rtoks; discriminate|].
      destruct (Forall_inv Hne) as [N1 N2]. cbn [settle]. destruct (ty t0); try reflexivity; congruence. }
    rewrite Hset, Hp. reflexivity.
Qed.

(* 5.1 pformat writes a re-layout of repr's token stream *)
Theorem pformat_is_relayout : forall w v,
  Forall atom_lexable (pv_atoms v) -> pv_depth v <= 200 -> supported (pformat w v) = true ->
  exists toks n e lay rtoks n',
    lex (pformat w v) = Some (toks ++ [n; e]) /\
    lay_ok lay /\ (forall k, lay k = [] \/ lay k = [nl_tok]) /\ render (lit_of v) lay 0 false = (rtoks, n') /\
    map ty toks = map ty rtoks /\ map text toks = map text rtoks /\ drop_nl rtoks = repr_toks v /\
    ty n = NEWLINE /\ text n = "" /\ ty e = ENDMARKER /\ text e = "".
Proof.
  intros w v. unfold pformat. destruct (pformat_at_PP w v 0 0) as [ts [sl HPP]]. exact (layout_is_relayout v _ ts sl HPP).
Qed.
(* 5.2 ... which gin.config.parse_value reads back as the value the tree denotes *)
Theorem pformat_reads_back : forall o w v x,
  atoms_ok o v -> denote o v = Some x ->
  Forall atom_lexable (pv_atoms v) -> pv_depth v <= 200 -> supported (pformat w v) = true ->
  exists ts, lex (pformat w v) = Some ts /\ run_value_api (o, ts) = OT "Value" [x].
Proof.
  intros o w v x. unfold pformat. destruct (pformat_at_PP w v 0 0) as [ts [sl HPP]]. exact (layout_reads_back o v _ ts sl x HPP).
Qed.

(* ================================================================== *)
(* 6. erasing the layout (string level, no lexer): behind a comma, a newline and the blanks after it are replaced by
      one blank -- what is left is repr_string *)
Open Scope char_scope. Open Scope list_scope. Open Scope nat_scope.
Lemma erase_first : forall st c r, Ascii.eqb c " " = false -> Ascii.eqb c nl = false ->
  erase_chars st (c :: r) = c :: erase_chars (if Ascii.eqb c "," then EComma else ENormal) r.
Proof. intros st c r H1 H2. destruct st; cbn [erase_chars]; rewrite ?H1, ?H2; reflexivity. Qed.
Lemma erase_plain_tail : forall r b R, plain_tail b r = true ->
  erase_chars (if b then EComma else ENormal) (r ++ R) = r ++ erase_chars ENormal R.
Proof.
  induction r as [|c r IH]; intros b R H; cbn [plain_tail app] in *.
  - destruct b; [discriminate | reflexivity].
  - apply andb_true_iff in H. destruct H as [H1 H2]. apply negb_true_iff in H1.
    specialize (IH _ R H2). destruct b; cbn [erase_chars]; rewrite ?H1; rewrite IH; reflexivity.
Qed.
Lemma erase_plain_text : forall s st R, plain_text s = true -> erase_chars st (cs s ++ R) = cs s ++ erase_chars ENormal R.
Proof.
  intros s st R H. unfold plain_text in H. fold (cs s) in H. destruct (cs s) as [|c r]; [discriminate|].
  apply andb_true_iff in H; destruct H as [H H3]. apply andb_true_iff in H; destruct H as [H1 H2].
  apply negb_true_iff in H1, H2. cbn [app]. rewrite (erase_first st c _ H1 H2), (erase_plain_tail r _ R H3). reflexivity.
Qed.
Lemma erase_skip_blanks : forall k l, erase_chars ESkip (repeat " " k ++ l) = erase_chars ESkip l.
Proof. induction k as [|k IH]; intro l; [reflexivity|]. cbn [repeat app erase_chars]. rewrite Ascii.eqb_refl. exact (IH l). Qed.
Lemma erase_sep : forall s X, erase_chars ENormal (sep_chars s ++ X) = "," :: " " :: erase_chars (match s with SFlat => ENormal | SBrk _ => ESkip end) X.
Proof.
  intros [|k] X; [reflexivity|]. cbn [sep_chars app].
  change (erase_chars ENormal ("," :: nl :: repeat " " k ++ X)) with ("," :: " " :: erase_chars ESkip (repeat " " k ++ X)).
  rewrite erase_skip_blanks. reflexivity.
Qed.

Definition ditem_chars (kv : pv * pv) : chars := repr_chars (fst kv) ++ [":"; " "] ++ repr_chars (snd kv).
Definition frag_chars (f : frag) : chars :=
  match f with
  | FV v => repr_chars v
  | FItems l => join_chars sepc (map repr_chars l)
  | FDItems l => join_chars sepc (map ditem_chars l)
  end.
Definition plain_atom (t : token) : Prop := plain_text (text t) = true.

Theorem PP_erase : forall f c ts sl, PP f c ts sl -> Forall plain_atom (frag_atoms f) -> frag_ne f ->
  forall st R, erase_chars st (c ++ R) = frag_chars f ++ erase_chars ENormal R.
Proof.
  intros f c ts sl H. induction H; cbn [frag_atoms pv_atoms flat_map fst snd frag_ne] in *; intros Hat Hne st R;
    rewrite ?app_nil_r in *; rewrite ?Forall_app in *; cbn [frag_chars repr_chars].
  - exact (erase_plain_text _ st R (Forall_inv Hat)).
  - cbn [app]. rewrite (erase_first st "-" _ eq_refl eq_refl). change (if Ascii.eqb "-" "," then EComma else ENormal) with ENormal.
    rewrite (erase_plain_text _ ENormal R (Forall_inv Hat)). reflexivity.
  - exact (erase_plain_text _ st R (Forall_inv Hat)).
  - cbn [app]. rewrite <- !app_assoc. cbn [app]. rewrite (erase_first st "[" _ eq_refl eq_refl).
    change (if Ascii.eqb "[" "," then EComma else ENormal) with ENormal. f_equal.
    destruct l as [|x l']; [destruct (PP_items_nil _ _ _ H) as [-> _]; reflexivity|].
    rewrite (IHPP Hat ltac:(discriminate) ENormal ("]" :: R)). reflexivity.
  - cbn [app]. rewrite <- !app_assoc. cbn [app]. rewrite (erase_first st "(" _ eq_refl eq_refl).
    change (if Ascii.eqb "(" "," then EComma else ENormal) with ENormal. f_equal.
    destruct l as [|x l']; [destruct (PP_items_nil _ _ _ H) as [-> _]; reflexivity|].
    rewrite (IHPP Hat ltac:(discriminate) ENormal _). cbn [frag_chars]. destruct l' as [|y l'']; reflexivity.
  - cbn [app]. rewrite <- !app_assoc. cbn [app]. rewrite (erase_first st "{" _ eq_refl eq_refl).
    change (if Ascii.eqb "{" "," then EComma else ENormal) with ENormal. f_equal.
    destruct l as [|x l']; [destruct (PP_ditems_nil _ _ _ H) as [-> _]; reflexivity|].
    rewrite (IHPP Hat ltac:(discriminate) ENormal ("}" :: R)). reflexivity.
  - congruence.
  - exact (IHPP Hat I st R).
  - destruct Hat as [Hx Hr]. rewrite <- !app_assoc, (IHPP1 Hx I st _), erase_sep.
    rewrite (IHPP2 Hr ltac:(discriminate) _ R).
    change (join_chars sepc (map repr_chars (x :: y :: r))) with (repr_chars x ++ sepc ++ join_chars sepc (map repr_chars (y :: r))).
    cbn [frag_chars]. unfold sepc. rewrite <- !app_assoc. reflexivity.
  - congruence.
  - destruct Hat as [Hk Hx]. rewrite <- !app_assoc, (IHPP1 Hk I st _). cbn [app].
    change (erase_chars ENormal (":" :: " " :: c ++ R)) with (":" :: " " :: erase_chars ENormal (c ++ R)).
    rewrite (IHPP2 Hx I ENormal R). cbn [map join_chars]. unfold ditem_chars. cbn [fst snd]. rewrite <- !app_assoc. reflexivity.
  - destruct Hat as [[Hk Hx] Hr]. rewrite <- !app_assoc, (IHPP1 Hk I st _). cbn [app].
    change (erase_chars ENormal (":" :: " " :: cx ++ sep_chars s ++ cr ++ R))
      with (":" :: " " :: erase_chars ENormal (cx ++ sep_chars s ++ cr ++ R)).
    rewrite (IHPP2 Hx I ENormal _), erase_sep, (IHPP3 Hr ltac:(discriminate) _ R).
    change (join_chars sepc (map ditem_chars ((k, x) :: y :: r)))
      with ((repr_chars k ++ [":"; " "] ++ repr_chars x) ++ sepc ++ join_chars sepc (map ditem_chars (y :: r))).
    cbn [frag_chars]. unfold sepc. rewrite <- !app_assoc. reflexivity.
Qed.

Theorem pformat_erase_layout : forall w v, Forall plain_atom (pv_atoms v) -> erase_layout (pformat w v) = repr_string v.
Proof.
  intros w v Hat. unfold erase_layout, pformat. fold (cs (pformat_at w v 0 0)).
  destruct (pformat_at_PP w v 0 0) as [ts [sl HPP]].
  pose proof (PP_erase _ _ _ _ HPP Hat I ENormal []) as E. rewrite app_nil_r in E. rewrite E.
  cbn [frag_chars erase_chars]. rewrite app_nil_r, <- repr_chars_string. apply string_of_list_ascii_of_string.
Qed.

(* ================================================================== *)
(* 7. gin's format_binding: the continuation form indents every line of the value text by continuation_indent blanks.
      The indented text is again a layout of the same value, with the same tokens: the blanks go behind line breaks
      that stand inside brackets.  (Atoms without a newline in their text: every token of a repr.) *)
Fixpoint indent_chars (k : nat) (l : chars) : chars :=
  match l with
  | [] => []
  | c :: r => if Ascii.eqb c nl then c :: repeat " " k ++ indent_chars k r else c :: indent_chars k r
  end.
Lemma indent_chars_app : forall k a b, indent_chars k (a ++ b) = indent_chars k a ++ indent_chars k b.
Proof.
  intros k a b. induction a as [|c a IH]; [reflexivity|]. cbn [app indent_chars]. rewrite IH.
  destruct (Ascii.eqb c nl); cbn [app]; rewrite <- ?app_assoc; reflexivity.
Qed.
Lemma cs_indent_lines_from : forall k s, cs (indent_lines_from k s) = indent_chars k (cs s).
Proof.
  intros k s. induction s as [|c s IH]; [reflexivity|]. cbn [indent_lines_from cs list_ascii_of_string indent_chars].
  destruct (Ascii.eqb c nl); cbn [cs list_ascii_of_string]; f_equal; [|exact IH].
  fold (cs (blanks k ++ indent_lines_from k s)). rewrite cs_app, cs_blanks, IH. reflexivity.
Qed.
Definition nl_free (l : chars) : Prop := forallb not_nl l = true.
Definition nl_free_atom (t : token) : Prop := nl_free (cs (text t)).
Lemma indent_nl_free : forall k l, nl_free l -> indent_chars k l = l.
Proof.
  intros k l. unfold nl_free. induction l as [|c l IH]; intro H; [reflexivity|]. cbn [forallb indent_chars] in *.
  apply andb_true_iff in H. destruct H as [H1 H2]. unfold not_nl in H1. apply negb_true_iff in H1. rewrite H1, (IH H2). reflexivity.
Qed.
Lemma indent_sep : forall k s, exists s', indent_chars k (sep_chars s) = sep_chars s' /\ sep_slot s' = sep_slot s.
Proof.
  intros k [|j]; [exists SFlat; split; reflexivity|]. exists (SBrk (k + j)). split; [|reflexivity].
  cbn [sep_chars indent_chars]. change (Ascii.eqb "," nl) with false. rewrite Ascii.eqb_refl. cbv iota. f_equal. f_equal.
  rewrite repeat_app. f_equal. apply indent_nl_free. unfold nl_free. induction j as [|j IH]; [reflexivity | exact IH].
Qed.

Theorem PP_indent : forall k f c ts sl, PP f c ts sl -> Forall nl_free_atom (frag_atoms f) -> PP f (indent_chars k c) ts sl.
Proof.
  intros k f c ts sl H. induction H; cbn [frag_atoms pv_atoms flat_map fst snd] in *; intro Hat;
    rewrite ?app_nil_r in *; rewrite ?Forall_app in *.
  - rewrite (indent_nl_free k _ (Forall_inv Hat)). constructor.
  - change ("-" :: cs (text t)) with (["-"] ++ cs (text t)). rewrite indent_chars_app, (indent_nl_free k _ (Forall_inv Hat)). constructor.
  - rewrite (indent_nl_free k _ (Forall_inv Hat)). constructor.
  - change ("[" :: c ++ ["]"]) with (["["] ++ c ++ ["]"]). rewrite !indent_chars_app. apply PP_list. exact (IHPP Hat).
  - change ("(" :: (c ++ trail_c l) ++ [")"]) with (["("] ++ (c ++ trail_c l) ++ [")"]). rewrite !indent_chars_app.
    replace (indent_chars k (trail_c l)) with (trail_c l) by (destruct l as [|? [|? ?]]; reflexivity).
    apply PP_tuple. exact (IHPP Hat).
  - change ("{" :: c ++ ["}"]) with (["{"] ++ c ++ ["}"]). rewrite !indent_chars_app. apply PP_dict. exact (IHPP Hat).
  - constructor.
  - apply PP_one. exact (IHPP Hat).
  - rewrite !indent_chars_app. destruct (indent_sep k s) as [s' [-> <-]]. apply PP_cons; [exact (IHPP1 (proj1 Hat)) | exact (IHPP2 (proj2 Hat))].
  - constructor.
  - rewrite !indent_chars_app. apply PP_done; [exact (IHPP1 (proj1 Hat)) | exact (IHPP2 (proj2 Hat))].
  - destruct Hat as [[Hk Hx] Hr]. rewrite !indent_chars_app. destruct (indent_sep k s) as [s' [-> <-]].
    apply PP_dcons; [exact (IHPP1 Hk) | exact (IHPP2 Hx) | exact (IHPP3 Hr)].
Qed.

Open Scope string_scope.
Open Scope list_scope.
(* the value text of a continuation-form binding (format_binding writes  key = \ , a newline, [k] blanks and this
   text): a re-layout of repr's tokens as well, read back as the same value *)
Theorem pformat_indented_is_relayout : forall k w v,
  Forall atom_lexable (pv_atoms v) -> Forall nl_free_atom (pv_atoms v) -> pv_depth v <= 200 ->
  supported (indent_lines_from k (pformat w v)) = true ->
  exists toks n e lay rtoks n',
    lex (indent_lines_from k (pformat w v)) = Some (toks ++ [n; e]) /\
    lay_ok lay /\ (forall j, lay j = [] \/ lay j = [nl_tok]) /\ render (lit_of v) lay 0 false = (rtoks, n') /\
    map ty toks = map ty rtoks /\ map text toks = map text rtoks /\ drop_nl rtoks = repr_toks v /\
    ty n = NEWLINE /\ text n = "" /\ ty e = ENDMARKER /\ text e = "".
Proof.
  intros k w v Hat Hnl. unfold pformat. destruct (pformat_at_PP w v 0 0) as [ts [sl HPP]].
  apply (layout_is_relayout v _ ts sl); [|exact Hat]. rewrite cs_indent_lines_from. exact (PP_indent k _ _ _ _ HPP Hnl).
Qed.
Theorem pformat_indented_reads_back : forall o k w v x,
  atoms_ok o v -> denote o v = Some x ->
  Forall atom_lexable (pv_atoms v) -> Forall nl_free_atom (pv_atoms v) -> pv_depth v <= 200 ->
  supported (indent_lines_from k (pformat w v)) = true ->
  exists ts, lex (indent_lines_from k (pformat w v)) = Some ts /\ run_value_api (o, ts) = OT "Value" [x].
Proof.
  intros o k w v x Hok Hden Hat Hnl. unfold pformat. destruct (pformat_at_PP w v 0 0) as [ts [sl HPP]].
  apply (layout_reads_back o v _ ts sl x); [|exact Hok | exact Hden | exact Hat].
  rewrite cs_indent_lines_from. exact (PP_indent k _ _ _ _ HPP Hnl).
Qed.

(* format_binding, case by case *)
Theorem format_binding_one_line : forall maxlen indent key v,
  has_nl (pformat (maxlen - indent) v) = false ->
  String.length key + String.length (pformat (maxlen - indent) v) <= maxlen ->
  format_binding maxlen indent key v = (key ++ " = " ++ pformat (maxlen - indent) v)%string.
Proof.
  intros maxlen indent key v H1 H2. unfold format_binding. rewrite H1. apply Nat.leb_le in H2. rewrite H2. reflexivity.
Qed.
Theorem format_binding_continuation : forall maxlen indent key v,
  has_nl (pformat (maxlen - indent) v) = true \/
  maxlen < String.length key + String.length (pformat (maxlen - indent) v) ->
  format_binding maxlen indent key v =
  (key ++ " = \" ++ nls ++ blanks indent ++ indent_lines_from indent (pformat (maxlen - indent) v))%string.
Proof.
  intros maxlen indent key v H. unfold format_binding, indent_lines.
  destruct H as [H|H]; [rewrite H; reflexivity|]. apply Nat.leb_gt in H. rewrite H, andb_false_r. reflexivity.
Qed.

(* ================================================================== *)
(* 8. non-vacuity: the value {3: 'ab', 'k': [-1, (2,), {'x': [1.5, None, True]}], 'key2': (10, 20, 30)}
      (dict items in pprint's order); the expected texts are what CPython 3.12.1 prints *)
Definition pp_tk (k : ttype) (s : string) : token := {| ty := k; text := s; srow := 1; scol := 0; erow := 1; ecol := 0 |}.
Definition pp_ex_value : pv :=
  PDict [(PAtom (pp_tk NUMBER "3"), PStr (pp_tk STRING "'ab'"));
         (PStr (pp_tk STRING "'k'"),
          PList [PNeg (pp_tk NUMBER "1"); PTuple [PAtom (pp_tk NUMBER "2")];
                 PDict [(PStr (pp_tk STRING "'x'"),
                         PList [PAtom (pp_tk NUMBER "1.5"); PAtom (pp_tk NAME "None"); PAtom (pp_tk NAME "True")])]]);
         (PStr (pp_tk STRING "'key2'"), PTuple [PAtom (pp_tk NUMBER "10"); PAtom (pp_tk NUMBER "20"); PAtom (pp_tk NUMBER "30")])].
Definition pp_ex_oracle : oracle :=
  [("3", Some (OT "int" [OS "3"])); ("'ab'", Some (OT "str" [OS "ab"])); ("'k'", Some (OT "str" [OS "k"]));
   ("-1", Some (OT "int" [OS "-1"])); ("2", Some (OT "int" [OS "2"])); ("'x'", Some (OT "str" [OS "x"]));
   ("1.5", Some (OT "float" [OS "1.5"])); ("None", Some (OT "none" [])); ("True", Some (OT "bool" [OS "True"]));
   ("'key2'", Some (OT "str" [OS "key2"])); ("10", Some (OT "int" [OS "10"])); ("20", Some (OT "int" [OS "20"]));
   ("30", Some (OT "int" [OS "30"]))].
Definition pp_ex_out : out :=
  OT "D" [OL [OT "int" [OS "3"]; OT "str" [OS "ab"]];
          OL [OT "str" [OS "k"];
              OT "L" [OT "int" [OS "-1"]; OT "T" [OT "int" [OS "2"]];
                      OT "D" [OL [OT "str" [OS "x"]; OT "L" [OT "float" [OS "1.5"]; OT "none" []; OT "bool" [OS "True"]]]]]];
          OL [OT "str" [OS "key2"]; OT "T" [OT "int" [OS "10"]; OT "int" [OS "20"]; OT "int" [OS "30"]]]].

Example pp_ex_repr : repr_string pp_ex_value = "{3: 'ab', 'k': [-1, (2,), {'x': [1.5, None, True]}], 'key2': (10, 20, 30)}".
Proof. vm_compute. reflexivity. Qed.
(* pprint.pformat(value, width=20) *)
Example pp_ex_pformat_20 : pformat 20 pp_ex_value =
"{3: 'ab',
 'k': [-1,
       (2,),
       {'x': [1.5,
              None,
              True]}],
 'key2': (10,
          20,
          30)}".
Proof. vm_compute. reflexivity. Qed.
(* pprint.pformat(value, width=30): the tuple fits, the inner dict does not (column 7, two closing characters) *)
Example pp_ex_pformat_30 : pformat 30 pp_ex_value =
"{3: 'ab',
 'k': [-1,
       (2,),
       {'x': [1.5,
              None,
              True]}],
 'key2': (10, 20, 30)}".
Proof. vm_compute. reflexivity. Qed.
Example pp_ex_pformat_80 : pformat 80 pp_ex_value = repr_string pp_ex_value.
Proof. vm_compute. reflexivity. Qed.
(* gin.config_str(max_line_length=24, continuation_indent=4) after bind_parameter('probe.x', value) *)
Example pp_ex_format_binding : format_binding 24 4 "probe.x" pp_ex_value =
"probe.x = \
    {3: 'ab',
     'k': [-1,
           (2,),
           {'x': [1.5,
                  None,
                  True]}],
     'key2': (10,
              20,
              30)}".
Proof. vm_compute. reflexivity. Qed.
Example pp_ex_format_binding_one_line : format_binding 80 4 "probe.x" (PTuple [PAtom (pp_tk NUMBER "10")]) = "probe.x = (10,)".
Proof. vm_compute. reflexivity. Qed.

(* the tokens of the 20-column text: an NL token behind every comma that ends a line *)
Example pp_ex_lexes :
  option_map (map (fun t => (ty t, text t))) (lex (pformat 20 pp_ex_value)) =
  Some [(OP, "{"); (NUMBER, "3"); (OP, ":"); (STRING, "'ab'"); (OP, ","); (NL, nls);
        (STRING, "'k'"); (OP, ":"); (OP, "["); (OP, "-"); (NUMBER, "1"); (OP, ","); (NL, nls);
        (OP, "("); (NUMBER, "2"); (OP, ","); (OP, ")"); (OP, ","); (NL, nls);
        (OP, "{"); (STRING, "'x'"); (OP, ":"); (OP, "["); (NUMBER, "1.5"); (OP, ","); (NL, nls);
        (NAME, "None"); (OP, ","); (NL, nls); (NAME, "True"); (OP, "]"); (OP, "}"); (OP, "]"); (OP, ","); (NL, nls);
        (STRING, "'key2'"); (OP, ":"); (OP, "("); (NUMBER, "10"); (OP, ","); (NL, nls); (NUMBER, "20"); (OP, ","); (NL, nls);
        (NUMBER, "30"); (OP, ")"); (OP, "}"); (NEWLINE, ""); (ENDMARKER, "")].
Proof. vm_compute. reflexivity. Qed.

Example pp_ex_atoms_ok : atoms_ok pp_ex_oracle pp_ex_value.
Proof.
  cbn. repeat split; try (left; reflexivity); try (right; reflexivity); try discriminate;
    try (intros a Ha; injection Ha as <-; reflexivity); eexists; reflexivity.
Qed.
Example pp_ex_denotes : denote pp_ex_oracle pp_ex_value = Some pp_ex_out.
Proof. vm_compute. reflexivity. Qed.
Example pp_ex_atoms_lexable : Forall atom_lexable (pv_atoms pp_ex_value).
Proof.
  cbn [pp_ex_value pv_atoms flat_map fst snd app].
  repeat (apply Forall_cons; [apply atom_lexable_b_ok; vm_compute; reflexivity|]). apply Forall_nil.
Qed.
Example pp_ex_atoms_plain : Forall plain_atom (pv_atoms pp_ex_value).
Proof. cbn [pp_ex_value pv_atoms flat_map fst snd app]. repeat (apply Forall_cons; [vm_compute; reflexivity|]). apply Forall_nil. Qed.
Example pp_ex_atoms_nl_free : Forall nl_free_atom (pv_atoms pp_ex_value).
Proof. cbn [pp_ex_value pv_atoms flat_map fst snd app]. repeat (apply Forall_cons; [vm_compute; reflexivity|]). apply Forall_nil. Qed.
(* by computation ... *)
Example pp_ex_reads_back_computes :
  option_map (fun ts => run_value_api (pp_ex_oracle, ts)) (lex (pformat 20 pp_ex_value)) = Some (OT "Value" [pp_ex_out]).
Proof. vm_compute. reflexivity. Qed.
(* ... and BY the theorems, from their hypotheses *)
Example pp_ex_reads_back_applies :
  exists ts, lex (pformat 20 pp_ex_value) = Some ts /\ run_value_api (pp_ex_oracle, ts) = OT "Value" [pp_ex_out].
Proof.
  apply (pformat_reads_back pp_ex_oracle 20 pp_ex_value pp_ex_out pp_ex_atoms_ok pp_ex_denotes pp_ex_atoms_lexable).
  - vm_compute. repeat constructor.
  - vm_compute. reflexivity.
Qed.
Example pp_ex_indented_reads_back_applies :
  exists ts, lex (indent_lines_from 4 (pformat 20 pp_ex_value)) = Some ts /\ run_value_api (pp_ex_oracle, ts) = OT "Value" [pp_ex_out].
Proof.
  apply (pformat_indented_reads_back pp_ex_oracle 4 20 pp_ex_value pp_ex_out pp_ex_atoms_ok pp_ex_denotes pp_ex_atoms_lexable
           pp_ex_atoms_nl_free).
  - vm_compute. repeat constructor.
  - vm_compute. reflexivity.
Qed.
Example pp_ex_erase_applies : erase_layout (pformat 20 pp_ex_value) = repr_string pp_ex_value.
Proof. exact (pformat_erase_layout 20 pp_ex_value pp_ex_atoms_plain). Qed.
Example pp_ex_erase_computes : erase_layout (pformat 20 pp_ex_value) = "{3: 'ab', 'k': [-1, (2,), {'x': [1.5, None, True]}], 'key2': (10, 20, 30)}".
Proof. vm_compute. reflexivity. Qed.
(* the erasure is not the identity on such texts, and a newline NOT behind a comma is kept *)
Example pp_ex_erase_proper : erase_layout (pformat 20 pp_ex_value) <> pformat 20 pp_ex_value /\
  erase_layout ("[1" ++ nls ++ " ]")%string = ("[1" ++ nls ++ " ]")%string.
Proof. split; [vm_compute; discriminate | vm_compute; reflexivity]. Qed.
