(* import_ok (Proofs/ConfigTextImports.v) for the header imports, from conditions on the RECORDED imports only: the module
   is a dotted sequence of identifiers (PyStr.is_selector), a given alias is an identifier, a from-import names a module
   with a dot.  import_manager keeps the modules and replaces colliding bound names by uniquify_name's <name><number>:
   identifiers again. *)
From Coq Require Import List String ZArith Bool Arith Ascii Lia Permutation.
From GinV Require Import Lib.Out Lib.PyStr Model.SelectorMap Model.Parser Model.ParserSpec Model.ParserSpec2 Model.Repr Model.ReprText Model.Lexer.
From GinV Require Import Model.Serial Model.PPrint Model.ConfigText Model.ConfigSerial Model.ConfigTextImports.
From GinV Require Import Proofs.ParserSmall Proofs.ParserLemmas Proofs.StatementProofs Proofs.StatementProofs2 Proofs.SerialProofs Proofs.MachineProofs
  Proofs.DynRegProofs2 Proofs.ConfigTextProofs Proofs.ConfigTextBridge Proofs.ConfigTextKeys Proofs.ConfigTextImports.
Import ListNotations.
Open Scope string_scope. Open Scope list_scope.

Definition import_input_ok (i : simport) : Prop :=
  is_selector (i_module i) = true /\ (forall a, i_alias i = Some a -> is_identifier a = true) /\
  (i_from i = true -> contains_char dot (i_module i) = true).

(* ---- a dotted sequence of identifiers is a well-formed module name ---- *)
Lemma idents_nodot : forall l, Forall ident l -> forall x, In x l -> contains_char dot x = false.
Proof. intros l H x Hx. rewrite Forall_forall in H. exact (proj2 (ident_no_sep x (H x Hx))). Qed.
Lemma dotted_ok : forall a r, ident a -> Forall ident r ->
  wf_name (key_parts (join "." (a :: r))) /\ selector_format_ok false false (join "." (a :: r)) = true.
Proof.
  intros a r Ha Hr. pose proof (wf_dot_parts a r Ha Hr) as W. destruct (wf_name_alt _ W) as [_ [_ A]].
  rewrite <- text_dot_parts, (key_parts_alt _ _ (le_n _) A). split; [exact W|].
  rewrite text_dot_parts. unfold selector_format_ok, split_slash, split.
  rewrite (split_aux_nosep slash _ "" (join_idents_noslash a r Ha Hr)). cbn [removelast last forallb String.append andb orb List.length Nat.eqb].
  rewrite andb_true_r. unfold is_selector. change (join "." (a :: r)) with (join_dot (a :: r)).
  rewrite split_join; [| discriminate | exact (idents_nodot (a :: r) (Forall_cons a Ha Hr))].
  apply forallb_forall. intros x Hx. exact (proj1 (Forall_forall _ _) (Forall_cons a Ha Hr) x Hx).
Qed.
Lemma rsplit_dot_app : forall x b, contains_char dot b = false -> rsplit_dot (x ++ String dot b) = Some (x, b).
Proof.
  intros x b Hb. induction x as [|c x IH]; cbn [String.append rsplit_dot].
  - assert (E : rsplit_dot b = None).
    { clear -Hb. induction b as [|d b IH]; [reflexivity|]. cbn [contains_char] in Hb. apply orb_false_iff in Hb. destruct Hb as [H1 H2].
      cbn [rsplit_dot]. rewrite (IH H2). rewrite Ascii.eqb_sym in H1. rewrite H1. reflexivity. }
    rewrite E, Ascii.eqb_refl. reflexivity.
  - rewrite IH. reflexivity.
Qed.
Lemma selector_ids : forall m, is_selector m = true -> exists a r, ident a /\ Forall ident r /\ m = join "." (a :: r).
Proof.
  intros m H. unfold is_selector in H. pose proof (of_key_to_key m) as E. unfold of_key, to_key, join_dot in E.
  destruct (split_dot m) as [|a r] eqn:Es; [exfalso; exact (split_ne dot m Es)|].
  cbn [forallb] in H. apply andb_true_iff in H. destruct H as [Ha Hr]. exists a, r. split; [exact Ha|]. split; [|symmetry; exact E].
  apply Forall_forall. intros x Hx. exact (proj1 (forallb_forall _ _) Hr x Hx).
Qed.

Theorem import_ok_of_input : forall i, import_input_ok i -> import_ok i.
Proof.
  intros [m isfrom alias] [Hsel [Hal Hdot]]. cbn [i_module i_from i_alias] in *. split; [exact Hal|]. cbn [i_from i_module].
  destruct (selector_ids m Hsel) as [a [r [Ha [Hr ->]]]]. destruct isfrom.
  - specialize (Hdot eq_refl). destruct r as [|x r0] using rev_ind.
    + cbn [join] in Hdot. rewrite (proj2 (ident_no_sep a Ha)) in Hdot. discriminate.
    + clear IHr0. apply Forall_app in Hr. destruct Hr as [Hr0 Hx]. pose proof (Forall_inv Hx) as Hxi.
      exists (join "." (a :: r0)), x. change (a :: r0 ++ [x]) with ((a :: r0) ++ [x]). rewrite join_snoc.
      split; [exact (rsplit_dot_app _ x (proj2 (ident_no_sep x Hxi)))|].
      destruct (dotted_ok a r0 Ha Hr0) as [W F]. split; [exact W|]. split; [exact F | exact Hxi].
  - exact (dotted_ok a r Ha Hr).
Qed.

(* ---- Serial.import_manager keeps modules, and its aliases are identifiers ---- *)
Lemma digit_word : forall k, k < 10 -> is_word (ascii_of_nat (48 + k)) = true.
Proof. intros k H. do 10 (destruct k as [|k]; [reflexivity|]). lia. Qed.
Lemma nat_digits_word : forall f n, all_chars is_word (Serial.nat_digits f n) = true.
Proof.
  induction f as [|f IH]; intro n; [reflexivity|]. cbn [Serial.nat_digits].
  assert (Happ : forall a b, all_chars is_word a = true -> all_chars is_word b = true -> all_chars is_word (a ++ b) = true).
  { induction a as [|c a IHa]; intros b H1 H2; [exact H2|]. cbn [String.append all_chars] in *. apply andb_true_iff in H1. destruct H1 as [X Y]. rewrite X, (IHa b Y H2). reflexivity. }
  apply Happ; [destruct (Nat.ltb n 10); [reflexivity | apply IH]|]. cbn [all_chars]. rewrite (digit_word (n mod 10)); [reflexivity|].
  apply Nat.mod_upper_bound. discriminate.
Qed.
Lemma ident_append_word : forall a b, is_identifier a = true -> all_chars is_word b = true -> is_identifier (a ++ b) = true.
Proof.
  intros [|c a] b H Hb; [discriminate|]. cbn [is_identifier String.append] in *. apply andb_true_iff in H. destruct H as [H1 H2]. rewrite H1. cbn [andb].
  revert H2. induction a as [|d a IH]; intro H2; [exact Hb|]. cbn [String.append all_chars] in *. apply andb_true_iff in H2. destruct H2 as [X Y]. rewrite X, (IH Y). reflexivity.
Qed.
Lemma uniquify_ident : forall fuel i cand names, is_identifier cand = true -> is_identifier (Serial.uniquify fuel i cand names) = true.
Proof.
  induction fuel as [|f IH]; intros i cand names H; cbn [Serial.uniquify]; [exact H|]. cbv zeta.
  destruct (Serial.str_in _ names); [apply IH; exact H|]. apply ident_append_word; [exact H | apply nat_digits_word].
Qed.
Lemma uniquify_name_ident : forall cand names, is_identifier cand = true -> is_identifier (Serial.uniquify_name cand names) = true.
Proof. intros cand names H. unfold Serial.uniquify_name. destruct (Serial.str_in cand names); [apply uniquify_ident; exact H | exact H]. Qed.
Lemma bound_name_ident : forall i, import_input_ok i -> is_identifier (Serial.bound_name i) = true.
Proof.
  intros [m isfrom alias] [Hsel [Hal _]]. unfold Serial.bound_name. cbn [i_alias i_module i_from] in *. destruct alias as [a|]; [exact (Hal a eq_refl)|].
  unfold is_selector in Hsel. pose proof (split_ne dot m) as Hne. fold (split_dot m) in Hne.
  destruct (split_dot m) as [|a r] eqn:E; [congruence|]. destruct isfrom.
  - assert (Hin : In (last (a :: r) "") (a :: r)).
    { clear. revert a. induction r as [|b r IH]; intro a; [left; reflexivity|]. right. exact (IH b). }
    exact (proj1 (forallb_forall _ _) Hsel _ Hin).
  - cbn [hd]. cbn [forallb] in Hsel. apply andb_true_iff in Hsel. tauto.
Qed.
Theorem import_manager_input_ok : forall imports, Forall import_input_ok imports -> Forall import_input_ok (Serial.import_manager imports).
Proof.
  intros imports H. unfold Serial.import_manager.
  set (sorted := Serial.sort_stable (fun x => x) Serial.import_key_ltb imports).
  assert (Hs : Forall import_input_ok sorted) by (apply Forall_sort_stable'; exact H).
  assert (G : forall l acc, Forall import_input_ok l -> Forall import_input_ok (fst (fst acc)) ->
            Forall import_input_ok (fst (fst (fold_left (fun acc st =>
                 let '(out, mods, names) := acc in
                 if Serial.str_in (i_module st) mods then acc else
                 let u := Serial.uniquify_name (Serial.bound_name st) names in
                 let st' := if String.eqb u (Serial.bound_name st) then st
                            else {| i_module := i_module st; i_from := i_from st; i_alias := Some u |} in
                 (out ++ [st'], mods ++ [i_module st], names ++ [Serial.bound_name st'])) l acc)))).
  { induction l as [|st l IH]; intros [[out mods] names] Hl Hacc; [exact Hacc|]. cbn [fold_left]. apply IH; [exact (Forall_inv_tail Hl)|].
    pose proof (Forall_inv Hl) as Hst. destruct (Serial.str_in (i_module st) mods); [exact Hacc|]. cbn [fst] in *. apply Forall_app. split; [exact Hacc|].
    constructor; [|constructor]. destruct (String.eqb _ _); [exact Hst|]. destruct Hst as [A [B C]]. split; [exact A|]. split; [|exact C].
    cbn [i_alias]. intros a E. injection E as <-. apply uniquify_name_ident. exact (bound_name_ident st (conj A (conj B C))). }
  specialize (G sorted ([], [], Serial.names0 imports) Hs (Forall_nil _)).
  destruct (fold_left _ sorted ([], [], Serial.names0 imports)) as [[out mods] names]. exact G.
Qed.
Theorem header_imports_ok : forall imports, Forall import_input_ok imports -> Forall import_ok (Model.ConfigTextImports.header_imports imports).
Proof.
  intros imports H. unfold Model.ConfigTextImports.header_imports, Serial.sorted_imports. apply Forall_sort_stable'.
  eapply Forall_impl; [exact import_ok_of_input | exact (import_manager_input_ok imports H)].
Qed.

(* END TO END with the import header, conditions on the recorded imports only *)
Theorem config_text_imports_reads_back_input : forall o registry imports entries maxlen indent,
  Forall import_input_ok imports -> Forall (item_ok o) (ConfigText.config_items registry entries maxlen) ->
  supported (config_text_imports registry imports entries maxlen indent) = true ->
  exists ts, lex (config_text_imports registry imports entries maxlen indent) = Some ts /\
    exists fuel0, forall fuel, fuel0 <= fuel ->
      parse_all fuel o false ts [] = (expected_stmts_imports o registry imports entries maxlen indent, None).
Proof. intros o registry imports entries maxlen indent Hi. apply config_text_imports_reads_back. exact (header_imports_ok imports Hi). Qed.
