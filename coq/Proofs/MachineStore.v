(* C11, store invariant over every history: every stored parameter was
   acceptable for a configurable registered under that selector. *)
From Coq Require Import List String ZArith Bool Arith Lia.
From GinV Require Import Lib.Out Lib.PyStr Model.SelectorMap Model.Values Model.Gin Model.GinEngine.
From GinV Require Import Proofs.SelectorMapLemmas Proofs.MachineFrame Proofs.MachineProofs.
Import ListNotations. Open Scope string_scope. Open Scope list_scope.

Definition param_ok (c : cfgable) (a : string) : Prop :=
  might_have_parameter (c_sig c) a = true /\ (c_allow c = [] \/ str_in a (c_allow c) = true) /\ str_in a (c_deny c) = false.
Definition store_ok (s : state) : Prop :=
  forall ck d a v, cget ck (config s) = Some d -> sget a d = Some v ->
    exists c, fget (to_key (snd ck)) (sm_flat (reg s)) = Some c /\ c_sel c = snd ck /\ param_ok c a.
Definition reg_ok (s : state) : Prop :=   (* registry entries sit under their own selector *)
  forall k c, fget k (sm_flat (reg s)) = Some c -> k = to_key (c_sel c).

(* Side condition.  [reg_safe inter o]: no ORegister can run while the interactive
   flag is set.  [inter] over-approximates the flag at the point where o starts:
   an ORegister is allowed only when inter = false; the body of OInteractive is
   checked with inter = true; OWith / OUnlock bodies inherit inter.
   (Outside interactive mode, re-registering a selector is rejected by
   [register] itself, so a successful ORegister always adds a fresh key.) *)
Fixpoint reg_safe (inter : bool) (o : op) {struct o} : Prop :=
  match o with
  | ORegister _ => inter = false
  | OInteractive body =>
      (fix all (l : list op) : Prop := match l with [] => True | x :: t => reg_safe true x /\ all t end) body
  | OWith _ body | OUnlock body =>
      (fix all (l : list op) : Prop := match l with [] => True | x :: t => reg_safe inter x /\ all t end) body
  | _ => True
  end.
Definition all_safe (inter : bool) :=
  fix all (l : list op) : Prop := match l with [] => True | x :: t => reg_safe inter x /\ all t end.

Definition no_reregister (fuel : nat) (s : state) (o : op) : Prop := reg_safe (interactive s) o.

Lemma reg_safe_OInteractive : forall b body, reg_safe b (OInteractive body) = all_safe true body.
Proof. reflexivity. Qed.
Lemma reg_safe_OWith : forall b a body, reg_safe b (OWith a body) = all_safe b body.
Proof. reflexivity. Qed.
Lemma reg_safe_OUnlock : forall b body, reg_safe b (OUnlock body) = all_safe b body.
Proof. reflexivity. Qed.
Lemma all_safe_cons : forall b x t, all_safe b (x :: t) = (reg_safe b x /\ all_safe b t).
Proof. reflexivity. Qed.

(* ---- the invariant only looks at reg and config ---- *)
Definition sinv (s : state) : Prop := reg_ok s /\ store_ok s.

Lemma sinv_ext : forall s s', reg s' = reg s -> config s' = config s -> sinv s -> sinv s'.
Proof.
  intros s s' Hr Hc [R S]. unfold sinv, reg_ok, store_ok in *. rewrite Hr, Hc. split; assumption.
Qed.
Lemma sinv_ss : forall s s', same_static s s' -> sinv s -> sinv s'.
Proof. intros s s' (A1&A2&_) H. eapply sinv_ext; eassumption. Qed.

(* ---- association-list facts ---- *)
Lemma ckey_eqb_spec : forall a b : ckey, reflect (a = b) (ckey_eqb a b).
Proof.
  intros [a1 a2] [b1 b2]. unfold ckey_eqb. simpl.
  destruct (String.eqb_spec a1 b1) as [->|N1]; simpl.
  - destruct (String.eqb_spec a2 b2) as [->|N2]; constructor; congruence.
  - constructor. congruence.
Qed.

Lemma aget_aset : forall {K V} (eqb : K -> K -> bool), (forall a b, reflect (a = b) (eqb a b)) ->
  forall (k k' : K) (v : V) l, aget eqb k (aset eqb k' v l) = if eqb k k' then Some v else aget eqb k l.
Proof.
  intros K V eqb Hs k k' v l. induction l as [|[j w] l IH]; simpl.
  - reflexivity.
  - destruct (Hs k' j) as [->|N]; simpl.
    + destruct (Hs k j); reflexivity.
    + rewrite IH. destruct (Hs k j) as [->|N2]; [|reflexivity].
      destruct (Hs j k') as [E|_]; [congruence|reflexivity].
Qed.

Lemma cget_cset : forall k k' x cfg, cget k (cset k' x cfg) = if ckey_eqb k k' then Some x else cget k cfg.
Proof. intros. unfold cget, cset. apply aget_aset. apply ckey_eqb_spec. Qed.
Lemma sget_sset : forall {V} k k' (x : V) d, sget k (sset k' x d) = if String.eqb k k' then Some x else sget k d.
Proof. intros. unfold sget, sset. apply aget_aset. apply String.eqb_spec. Qed.

(* ---- validated keys ---- *)
Definition valid_pbk (r : smap cfgable) (p : pbk) : Prop :=
  exists c, fget (to_key (snd (fst p))) (sm_flat r) = Some c /\ c_sel c = snd (fst p) /\ param_ok c (snd p).

Lemma reg_lookup_found : forall s sel c, reg_ok s -> reg_lookup s sel = LFound c ->
  fget (to_key (c_sel c)) (sm_flat (reg s)) = Some c.
Proof.
  intros s sel c R H. unfold reg_lookup, sm_get_match in H.
  destruct (sm_matching (to_key sel) (reg s)) as [|k [|k2 l]]; try discriminate.
  destruct (fget k (sm_flat (reg s))) as [c0|] eqn:E; [|discriminate].
  inversion H; subst c0. rewrite <- (R _ _ E). exact E.
Qed.

Lemma pbk_validate_valid : forall s sc sel a p, reg_ok s -> pbk_validate s sc sel a = Ok p -> valid_pbk (reg s) p.
Proof.
  intros s sc sel a p R H. apply pbk_validate_ok_iff in H.
  destruct H as [c [Hc [[_ [H2 [H3 H4]]] ->]]]. exists c. simpl.
  split; [eapply reg_lookup_found; eassumption|]. split; [reflexivity|]. split; [|split]; assumption.
Qed.

Lemma store_step : forall st ck a v, sinv st -> valid_pbk (reg st) (ck, a) ->
  sinv (set_config (cset ck (sset a v (match cget ck (config st) with Some d => d | None => [] end)) (config st)) st).
Proof.
  intros st ck a v [R S] [c [V1 [V2 V3]]]. simpl in V1, V2, V3. split; [exact R|].
  intros ck0 d0 a0 v0 Hc Hs. simpl in Hc. simpl reg. rewrite cget_cset in Hc.
  destruct (ckey_eqb_spec ck0 ck) as [->|N]; [|eapply S; eassumption].
  inversion Hc; subst d0; clear Hc. rewrite sget_sset in Hs.
  destruct (String.eqb_spec a0 a) as [->|N].
  - exists c. split; [exact V1|]. split; assumption.
  - destruct (cget ck (config st)) as [d|] eqn:E; [|discriminate]. eapply S; eassumption.
Qed.

Lemma bind_split_sinv : forall s sc sel a v s' r, sinv s -> bind_split s sc sel a v = (s', r) -> sinv s'.
Proof.
  intros s sc sel a v s' r I H. unfold bind_split in H.
  destruct (locked s); [inversion H; subst; exact I|].
  destruct (pbk_validate s sc sel a) as [[ck a']|e] eqn:E; inversion H; subst; [|exact I].
  apply store_step; [exact I|]. eapply pbk_validate_valid; [apply I|exact E].
Qed.

(* ---- finalize ---- *)
Lemma hk_go_valid : forall s, reg_ok s -> forall kvs acc acc',
  Forall (fun pv => valid_pbk (reg s) (fst pv)) acc -> hk_go s kvs acc = Ok acc' ->
  Forall (fun pv => valid_pbk (reg s) (fst pv)) acc'.
Proof.
  intros s R kvs. induction kvs as [|[k v] t IH]; intros acc acc' Ha H.
  - simpl in H. inversion H; subst. exact Ha.
  - rewrite hk_go_cons in H. destruct (key_pbk s k) as [p|e] eqn:Ek; [|discriminate].
    destruct (amem pbk_eqb p acc); [discriminate|].
    eapply IH; [|exact H]. apply Forall_app. split; [exact Ha|]. constructor; [|constructor].
    simpl. unfold key_pbk in Ek. destruct (parse_binding_key k) as [[x y] z].
    eapply pbk_validate_valid; eassumption.
Qed.

Lemma collect_hooks_valid : forall s, reg_ok s -> forall hs acc acc',
  Forall (fun pv => valid_pbk (reg s) (fst pv)) acc -> collect_hooks s hs acc = Ok acc' ->
  Forall (fun pv => valid_pbk (reg s) (fst pv)) acc'.
Proof.
  intros s R hs. induction hs as [|h r IH]; intros acc acc' Ha H.
  - simpl in H. inversion H; subst. exact Ha.
  - destruct h as [kvs|e]; [|simpl in H; discriminate].
    rewrite collect_hooks_cons in H. destruct (hk_go s kvs acc) as [acc1|e] eqn:Eg; [|discriminate].
    eapply IH; [|exact H]. eapply hk_go_valid; eassumption.
Qed.

Lemma fin_step_reg : forall st pv, reg (fin_step st pv) = reg st.
Proof. intros st [[ck a] v]. reflexivity. Qed.

Lemma fin_fold_sinv : forall upd st, Forall (fun pv => valid_pbk (reg st) (fst pv)) upd -> sinv st ->
  sinv (fold_left fin_step upd st).
Proof.
  induction upd as [|pv upd IH]; intros st Hv I; [exact I|].
  change (fold_left fin_step (pv :: upd) st) with (fold_left fin_step upd (fin_step st pv)).
  inversion Hv as [|? ? Hp Hr]; subst. apply IH.
  - rewrite fin_step_reg. exact Hr.
  - destruct pv as [[ck a] v]. simpl in Hp. apply store_step; assumption.
Qed.

Lemma finalize_sinv : forall s s' r, sinv s -> finalize s = (s', r) -> sinv s'.
Proof.
  intros s s' r I H. rewrite finalize_unfold in H.
  destruct (locked s); [inversion H; subst; exact I|].
  destruct (negb (macros_hook_ok s)); [inversion H; subst; exact I|].
  destruct (negb (unknown_refs_hook_ok s)); [inversion H; subst; exact I|].
  destruct (missing_overrides_hook s) as [s1 r1] eqn:E. apply moh_shape in E. destruct E as [o ->].
  assert (I1 : sinv (set_operative o s)) by (eapply sinv_ext; [| |exact I]; reflexivity).
  destruct r1 as [[|]|e]; try solve [inversion H; subst; exact I1].
  destruct (collect_hooks _ _ _) as [upd|e] eqn:Ec; [|inversion H; subst; exact I1].
  inversion H; subst. clear H.
  apply (sinv_ext (fold_left fin_step upd (set_operative o s))); [reflexivity|reflexivity|].
  apply fin_fold_sinv; [|exact I1].
  eapply collect_hooks_valid; [apply I1|constructor|exact Ec].
Qed.

(* ---- clear / constants / register ---- *)
Lemma clear_config_sinv : forall s b s' r, sinv s -> clear_config s b = (s', r) -> sinv s'.
Proof.
  intros s b s' r [R S] H. apply clear_config_shape in H. destruct H as [x [o [-> _]]].
  split; [exact R|]. intros ck d a v Hc. simpl in Hc. discriminate.
Qed.

Lemma define_constant_sinv : forall s n v s' r, sinv s -> define_constant s n v = (s', r) -> sinv s'.
Proof.
  intros s n v s' r I H. apply define_constant_shape in H.
  destruct H as [[-> _]|[-> _]]; [exact I|]. eapply sinv_ext; [| |exact I]; reflexivity.
Qed.

Lemma register_sinv : forall s c s' r, interactive s = false -> sinv s -> register s c false = (s', r) -> sinv s'.
Proof.
  intros s c s' r Hi [R S] H. apply register_shape in H.
  destruct H as [[-> _]|[-> [_ [_ Hf]]]]; [split; assumption|].
  rewrite Hi in Hf. simpl in Hf. rewrite andb_true_r in Hf.
  split.
  - intros k c0 Hk. simpl in Hk. rewrite fget_fset in Hk.
    destruct (key_eqb_spec k (to_key (c_sel c))) as [->|N].
    + inversion Hk; subst. reflexivity.
    + apply R; exact Hk.
  - intros ck d a v Hc Hs. simpl in Hc. destruct (S ck d a v Hc Hs) as [c0 [F1 [F2 F3]]].
    exists c0. split; [|split; assumption]. simpl. rewrite fget_fset.
    destruct (key_eqb_spec (to_key (snd ck)) (to_key (c_sel c))) as [E|N]; [|exact F1].
    rewrite E in F1. unfold fmem in Hf. rewrite F1 in Hf. discriminate.
Qed.

Lemma run_res_sinv : forall x o s' r, (forall s1 r1, x = (s1, r1) -> sinv s1) -> run_res x o = (s', r) -> sinv s'.
Proof.
  intros x o s' r Hx H. apply run_res_cases in H.
  destruct H as [[s1 [E [-> _]]]|[e [E _]]].
  - eapply sinv_ext; [| |eapply Hx; exact E]; reflexivity.
  - eapply Hx; exact E.
Qed.

(* ---- the induction ---- *)
Definition flag_ok (s : state) (b : bool) : Prop := interactive s = false \/ b = true.

Lemma flag_ok_xf : forall s s' b, xframe s s' -> flag_ok s b -> flag_ok s' b.
Proof.
  intros s s' b [_ [E|E]] [F|F]; unfold flag_ok; auto. left. congruence.
Qed.

Definition exec_sinv (f : nat) : Prop :=
  forall s o b s' r, sinv s -> flag_ok s b -> reg_safe b o -> exec f s o = (s', r) -> sinv s'.

Lemma exec_body_sinv : forall f, exec_sinv f -> forall body s b s' r,
  sinv s -> flag_ok s b -> all_safe b body -> exec_body f s body = (s', r) -> sinv s'.
Proof.
  intros f IH body. induction body as [|x t IHb]; intros s b s' r I F A H.
  - rewrite exec_body_nil in H. inversion H; subst. exact I.
  - rewrite exec_body_cons in H. rewrite all_safe_cons in A. destruct A as [A1 A2].
    destruct (exec f s x) as [s1 r1] eqn:E.
    pose proof (IH _ _ _ _ _ I F A1 E) as I1.
    destruct r1 as [u|e]; [|inversion H; subst; exact I1].
    eapply IHb; [exact I1| |exact A2|exact H].
    eapply flag_ok_xf; [|exact F]. eapply exec_xframe; exact E.
Qed.

Lemma exec_sinv_all : forall fuel, exec_sinv fuel.
Proof.
  induction fuel as [|f IH]; intros s o b s' r I F A H.
  - rewrite exec_0 in H. inversion H; subst. exact I.
  - destruct o.
    + rewrite exec_OBind in H. destruct (resolve s v); [|inversion H; subst; exact I].
      destruct (parse_binding_key key) as [[scope sel] arg].
      eapply run_res_sinv; [|exact H]. intros s1 r1 E. eapply bind_split_sinv; eassumption.
    + rewrite exec_OBindT in H. destruct (resolve s v); [|inversion H; subst; exact I].
      eapply run_res_sinv; [|exact H]. intros s1 r1 E. eapply bind_split_sinv; eassumption.
    + rewrite exec_OParse in H. destruct (resolve s v); [|inversion H; subst; exact I].
      destruct (parse_binding_key key) as [[scope sel] arg].
      destruct (String.eqb arg "");
        (eapply run_res_sinv; [|exact H]; intros s1 r1 E; eapply bind_split_sinv; eassumption).
    + rewrite exec_OQuery in H. cbv zeta in H.
      destruct (if is_selector key then sm_matching (to_key key) (constants s) else []) as [|k [|k2 l]].
      * destruct (parse_binding_key key) as [[scope sel] arg].
        destruct (pbk_validate s scope sel arg) as [[ck a]|e]; [|inversion H; subst; exact I].
        destruct (cget ck (config s)) as [d|]; [|inversion H; subst; exact I].
        destruct (sget a d); inversion H; subst; exact I.
      * destruct (fget k (sm_flat (constants s))); inversion H; subst; exact I.
      * inversion H; subst; exact I.
    + rewrite exec_OCall in H. destruct (call f s sel args kwargs) as [s1 r1] eqn:E.
      apply call_frame in E. apply (sinv_ss _ _ E) in I.
      destruct r1; inversion H; subst; exact I.
    + rewrite exec_OCallVia in H. cbv zeta in H.
      destruct (reg_lookup s (last (split_slash target) "")); try (inversion H; subst; exact I).
      destruct (call_handle f s _ (c_sel c) args kwargs) as [s1 r1] eqn:E.
      apply call_handle_frame in E. apply (sinv_ss _ _ E) in I.
      destruct r1; inversion H; subst; exact I.
    + rewrite exec_OWith in H. rewrite reg_safe_OWith in A.
      destruct (enter_scope_value (current_scope s) a) as [new_scope valid]. cbv zeta in H.
      destruct (negb valid || negb (scope_valid new_scope)); [inversion H; subst; exact I|].
      destruct (exec_body f _ body) as [s2 r2] eqn:E.
      apply (exec_body_sinv f IH _ _ b) in E; [inversion H; subst; exact E|exact I|exact F|exact A].
    + simpl in H. inversion H; subst. exact I.
    + simpl in H. inversion H; subst. exact I.
    + rewrite exec_OGetBindings in H. cbv zeta in H.
      destruct (reg_lookup s (last (split_slash target) "")); try (inversion H; subst; exact I).
      destruct resolve; [|inversion H; subst; exact I].
      destruct (eval f s _) as [s1 r1] eqn:E. apply eval_frame in E. apply (sinv_ss _ _ E) in I.
      destruct r1 as [w|e]; [|inversion H; subst; exact I].
      destruct w; inversion H; subst; exact I.
    + rewrite exec_OFinalize in H. eapply run_res_sinv; [|exact H]. intros s1 r1 E. eapply finalize_sinv; eassumption.
    + rewrite exec_OUnlock in H. rewrite reg_safe_OUnlock in A.
      destruct (exec_body f _ body) as [s2 r2] eqn:E.
      apply (exec_body_sinv f IH _ _ b) in E; [inversion H; subst; exact E|exact I|exact F|exact A].
    + rewrite exec_OClear in H. eapply run_res_sinv; [|exact H]. intros s1 r1 E. eapply clear_config_sinv; eassumption.
    + simpl in H. inversion H; subst. exact I.
    + rewrite exec_OConstant in H. eapply run_res_sinv; [|exact H]. intros s1 r1 E. eapply define_constant_sinv; eassumption.
    + rewrite exec_OInteractive in H. rewrite reg_safe_OInteractive in A.
      destruct (exec_body f _ body) as [s2 r2] eqn:E.
      apply (exec_body_sinv f IH _ _ true) in E;
        [inversion H; subst; exact E|exact I|right; reflexivity|exact A].
    + rewrite exec_ORegister in H. simpl in A. subst b.
      destruct F as [F|F]; [|discriminate].
      eapply run_res_sinv; [|exact H]. intros s1 r1 E. eapply register_sinv; eassumption.
    + rewrite exec_OHook in H. inversion H; subst. exact I.
    + simpl in H. inversion H; subst. exact I.
    + simpl in H. inversion H; subst. exact I.
    + simpl in H. inversion H; subst. exact I.
Qed.

Theorem exec_store_ok : forall fuel s o s' r, reg_ok s -> store_ok s -> no_reregister fuel s o ->
  exec fuel s o = (s', r) -> reg_ok s' /\ store_ok s'.
Proof.
  intros fuel s o s' r R S A H. unfold no_reregister in A.
  apply (exec_sinv_all fuel s o (interactive s) s' r); [split; assumption| |exact A|exact H].
  unfold flag_ok. destruct (interactive s); auto.
Qed.

(* the invariant holds initially, so it holds after any run whose ops satisfy the side condition *)
Lemma init_sinv : reg_ok init_state /\ store_ok init_state.
Proof.
  split.
  - intros k c H.
    change (sm_flat (reg init_state)) with
      [(["gin"; "macro"], macro_cfg); (["gin"; "constant"], constant_cfg); (["gin"; "singleton"], singleton_cfg)] in H.
    simpl in H.
    destruct (key_eqb_spec k ["gin"; "macro"]) as [->|_]; [inversion H; subst; reflexivity|].
    destruct (key_eqb_spec k ["gin"; "constant"]) as [->|_]; [inversion H; subst; reflexivity|].
    destruct (key_eqb_spec k ["gin"; "singleton"]) as [->|_]; [inversion H; subst; reflexivity|].
    discriminate.
  - intros ck d a v H. simpl in H. discriminate.
Qed.

(* ---- over every history: setup + top-level run ---- *)
Lemma setup_fold_sinv : forall regs s, sinv s -> interactive s = false ->
  sinv (fold_left (fun s c => fst (register s c false)) regs s) /\
  interactive (fold_left (fun s c => fst (register s c false)) regs s) = false.
Proof.
  induction regs as [|c regs IH]; intros s I Hi; simpl; [split; assumption|].
  destruct (register s c false) as [s1 r1] eqn:E. simpl. apply IH.
  - eapply register_sinv; eassumption.
  - apply register_xf in E. destruct E as [_ [E|E]]; congruence.
Qed.

Theorem setup_store_ok : forall regs, reg_ok (setup regs) /\ store_ok (setup regs).
Proof. intro regs. apply (setup_fold_sinv regs init_state init_sinv eq_refl). Qed.

Theorem run_top_store_ok : forall fuel ops s, reg_ok s -> store_ok s -> interactive s = false ->
  all_safe false ops -> reg_ok (run_top fuel s ops) /\ store_ok (run_top fuel s ops).
Proof.
  intros fuel ops. induction ops as [|o ops IH]; intros s R S Hi A; simpl; [split; assumption|].
  rewrite all_safe_cons in A. destruct A as [A1 A2].
  destruct (exec fuel s o) as [s1 r1] eqn:E.
  assert (I1 : sinv s1).
  { eapply (exec_sinv_all fuel s o false); [split; assumption|left; exact Hi|exact A1|exact E]. }
  assert (Hi1 : interactive s1 = false).
  { apply exec_xframe in E. destruct E as [_ [E|E]]; congruence. }
  destruct r1 as [u|e].
  - apply IH; [apply I1|apply I1|exact Hi1|exact A2].
  - apply IH; [apply I1|apply I1|exact Hi1|exact A2].
Qed.

(* ---- the side condition is needed: re-registering a selector in interactive mode
        with a different signature invalidates an existing binding ---- *)
Definition probe_x : cfgable := {| c_sel := "m.f"; c_kind := KProbe;
   c_sig := {| s_args := ["x"]; s_defaults := []; s_varargs := false; s_kwonly := []; s_varkw := false |};
   c_allow := []; c_deny := []; c_method := false |}.
Definition probe_y : cfgable := {| c_sel := "m.f"; c_kind := KProbe;
   c_sig := {| s_args := ["y"]; s_defaults := []; s_varargs := false; s_kwonly := []; s_varkw := false |};
   c_allow := []; c_deny := []; c_method := false |}.

Theorem exec_store_ok_needs_side_condition :
  exists s o s' r, reg_ok s /\ store_ok s /\ exec 5 s o = (s', r) /\ r = Ok tt /\ ~ store_ok s'.
Proof.
  exists (run_top 5 (setup [probe_x]) [OBind "m.f.x" (VInt 1)]), (OInteractive [ORegister probe_y]).
  destruct (exec 5 (run_top 5 (setup [probe_x]) [OBind "m.f.x" (VInt 1)]) (OInteractive [ORegister probe_y]))
    as [s' r] eqn:E.
  exists s', r.
  assert (I : sinv (run_top 5 (setup [probe_x]) [OBind "m.f.x" (VInt 1)])).
  { apply run_top_store_ok; try apply setup_store_ok; [reflexivity|simpl; auto]. }
  split; [apply I|]. split; [apply I|]. split; [reflexivity|].
  vm_compute in E. inversion E; subst. split; [reflexivity|].
  intros S. destruct (S ("", "m.f") [("x", VInt 1)] "x" (VInt 1) eq_refl eq_refl) as [c [F [_ [P _]]]].
  vm_compute in F. inversion F; subst c. vm_compute in P. discriminate.
Qed.

(* ---- a simpler, purely syntactic sufficient condition: no ORegister anywhere ---- *)
Fixpoint no_register (o : op) {struct o} : Prop :=
  match o with
  | ORegister _ => False
  | OWith _ body | OUnlock body | OInteractive body =>
      (fix all (l : list op) : Prop := match l with [] => True | x :: t => no_register x /\ all t end) body
  | _ => True
  end.

Lemma no_register_safe : forall o b, no_register o -> reg_safe b o.
Proof.
  fix IH 1. intros o b H. destruct o; try exact I.
  - simpl in *. revert H. generalize body. fix IHl 1. intros l. destruct l as [|x t]; [intros _; exact I|].
    intros [H1 H2]. split; [apply IH; exact H1|apply IHl; exact H2].
  - simpl in *. revert H. generalize body. fix IHl 1. intros l. destruct l as [|x t]; [intros _; exact I|].
    intros [H1 H2]. split; [apply IH; exact H1|apply IHl; exact H2].
  - simpl in *. revert H. generalize body. fix IHl 1. intros l. destruct l as [|x t]; [intros _; exact I|].
    intros [H1 H2]. split; [apply IH; exact H1|apply IHl; exact H2].
  - simpl in H. contradiction.
Qed.

Corollary exec_store_ok_no_register : forall fuel s o s' r, reg_ok s -> store_ok s -> no_register o ->
  exec fuel s o = (s', r) -> reg_ok s' /\ store_ok s'.
Proof.
  intros fuel s o s' r R S N H. eapply exec_store_ok; try eassumption.
  unfold no_reregister. apply no_register_safe. exact N.
Qed.

Print Assumptions exec_store_ok.
Print Assumptions run_top_store_ok.
Print Assumptions exec_store_ok_needs_side_condition.
