(* config_text does not depend on the order of the parameters inside an entry (the parameter dict), nor on the order of
   the entries: lifted from C06_params_order_independent / C06_order_independent. *)
From Coq Require Import List String ZArith Bool Arith Ascii Lia Permutation.
From GinV Require Import Lib.Out Lib.PyStr Model.SelectorMap Model.Parser Model.ParserSpec Model.Repr Model.ReprText Model.Lexer.
From GinV Require Import Model.Serial Model.PPrint Model.ConfigText Model.ConfigSerial.
From GinV Require Import Proofs.SerialProofs Proofs.ConfigTextBridge.
Import ListNotations.
Open Scope string_scope. Open Scope list_scope.

(* all that config_items looks at in an entry *)
Definition same_sig (e e' : centry) : Prop :=
  c_scope e = c_scope e' /\ c_sel e = c_sel e' /\ c_method e = c_method e' /\ c_macro_value e = c_macro_value e' /\
  sort_stable (fun kv => fst kv) String.ltb (c_lit_params e) = sort_stable (fun kv => fst kv) String.ltb (c_lit_params e').

Section F2.
  Context {A : Type} (R : A -> A -> Prop).
  Lemma insert_stable_F2 : forall (K : Type) (key : A -> K) ltb, (forall x y, R x y -> key x = key y) ->
    forall x y l l', R x y -> Forall2 R l l' -> Forall2 R (insert_stable key ltb x l) (insert_stable key ltb y l').
  Proof.
    intros K key ltb Hk x y l l' Hxy H. induction H as [|a b l l' Hab Hl IH]; cbn [insert_stable]; [repeat constructor; exact Hxy|].
    rewrite (Hk _ _ Hab), (Hk _ _ Hxy). destruct (ltb (key b) (key y)); constructor; try assumption. constructor; assumption.
  Qed.
  Lemma sort_stable_F2 : forall (K : Type) (key : A -> K) ltb, (forall x y, R x y -> key x = key y) ->
    forall l l', Forall2 R l l' -> Forall2 R (sort_stable key ltb l) (sort_stable key ltb l').
  Proof.
    intros K key ltb Hk l l' H. unfold sort_stable. induction H as [|a b l l' Hab Hl IH]; cbn [fold_right]; [constructor|].
    apply insert_stable_F2; assumption.
  Qed.
  Lemma filter_F2 : forall (p : A -> bool), (forall x y, R x y -> p x = p y) ->
    forall l l', Forall2 R l l' -> Forall2 R (filter p l) (filter p l').
  Proof.
    intros p Hp l l' H. induction H as [|a b l l' Hab Hl IH]; cbn [filter]; [constructor|].
    rewrite (Hp _ _ Hab). destruct (p b); [constructor; assumption | exact IH].
  Qed.
  Lemma flat_map_F2 : forall (B : Type) (f : A -> list B), (forall x y, R x y -> f x = f y) ->
    forall l l', Forall2 R l l' -> flat_map f l = flat_map f l'.
  Proof. intros B f Hf l l' H. induction H as [|a b l l' Hab Hl IH]; cbn [flat_map]; [reflexivity|]. rewrite (Hf _ _ Hab), IH. reflexivity. Qed.
End F2.

Lemma same_sig_key : forall e e', same_sig e e' -> c_key e = c_key e'.
Proof. intros e e' [H1 [H2 [H3 _]]]. unfold c_key. rewrite H1, H2, H3. reflexivity. Qed.
Lemma same_sig_scoped : forall reg e e', same_sig e e' -> c_scoped_selector reg e = c_scoped_selector reg e'.
Proof. intros reg e e' [H1 [H2 [H3 _]]]. unfold c_scoped_selector, c_minimal. rewrite H1, H2, H3. reflexivity. Qed.

Theorem config_items_same_sig : forall registry es1 es2 maxlen, Forall2 same_sig es1 es2 ->
  ConfigText.config_items registry es1 maxlen = ConfigText.config_items registry es2 maxlen.
Proof.
  intros registry es1 es2 maxlen H. unfold ConfigText.config_items.
  set (reg := fold_left _ registry sm_empty).
  assert (Hm : Forall2 same_sig
                 (sort_stable c_key full_key_ltb (filter (fun e => match c_macro_value e with Some _ => true | None => false end) es1))
                 (sort_stable c_key full_key_ltb (filter (fun e => match c_macro_value e with Some _ => true | None => false end) es2))).
  { apply sort_stable_F2; [exact same_sig_key|]. apply filter_F2; [|exact H]. intros x y [_ [_ [_ [E _]]]]. rewrite E. reflexivity. }
  assert (Ho : Forall2 same_sig
                 (filter (fun e => negb (c_is_constant e) && negb (c_is_macro e && negb (String.eqb (c_scope e) ""))) (sort_stable c_key full_key_ltb es1))
                 (filter (fun e => negb (c_is_constant e) && negb (c_is_macro e && negb (String.eqb (c_scope e) ""))) (sort_stable c_key full_key_ltb es2))).
  { apply filter_F2; [|apply sort_stable_F2; [exact same_sig_key | exact H]].
    intros x y [E1 [E2 _]]. unfold c_is_constant, c_is_macro. rewrite E1, E2. reflexivity. }
  set (m1 := sort_stable c_key full_key_ltb (filter _ es1)) in *. set (m2 := sort_stable c_key full_key_ltb (filter _ es2)) in *.
  set (o1 := filter _ (sort_stable c_key full_key_ltb es1)) in *. set (o2 := filter _ (sort_stable c_key full_key_ltb es2)) in *.
  f_equal; [destruct Hm; reflexivity|]. f_equal; [|f_equal; [destruct Hm; reflexivity|]].
  - apply (flat_map_F2 same_sig); [|exact Hm]. intros x y [E1 [_ [_ [E4 _]]]]. rewrite E1, E4. reflexivity.
  - apply (flat_map_F2 same_sig); [|exact Ho]. intros x y Hxy. rewrite (same_sig_scoped reg x y Hxy).
    destruct Hxy as [_ [_ [_ [_ E5]]]]. rewrite E5. reflexivity.
Qed.

(* permuting the parameter dict of an entry (distinct names) does not change what config_items looks at *)
Definition param_perm (e e' : centry) : Prop :=
  c_scope e = c_scope e' /\ c_sel e = c_sel e' /\ c_method e = c_method e' /\
  NoDup (map fst (c_params e)) /\ Permutation (c_params e) (c_params e').
Lemma cget_value_iff : forall l v, NoDup (map fst l) -> (cget_value l = Some v <-> In ("value", v) l).
Proof.
  induction l as [|[k x] r IH]; intros v Hnd; cbn [cget_value]; [split; [discriminate | intros []]|].
  cbn [map fst] in Hnd. inversion Hnd as [|? ? Hnot Hnd']; subst. destruct (String.eqb k "value") eqn:E.
  - apply String.eqb_eq in E. subst k. split.
    + intro H. injection H as <-. left. reflexivity.
    + intros [H|H]; [injection H as <-; reflexivity|]. exfalso. apply Hnot. exact (in_map fst _ _ H).
  - rewrite (IH v Hnd'). apply String.eqb_neq in E. split; [intro H; right; exact H|]. intros [H|H]; [injection H as Hk _; congruence | exact H].
Qed.
Lemma cget_value_perm : forall l l', NoDup (map fst l) -> Permutation l l' -> cget_value l = cget_value l'.
Proof.
  intros l l' Hnd Hp. assert (Hnd' : NoDup (map fst l')) by (eapply Permutation_NoDup; [apply Permutation_map; exact Hp | exact Hnd]).
  destruct (cget_value l) as [v|] eqn:E.
  - symmetry. apply (cget_value_iff l' v Hnd'). apply (Permutation_in _ Hp). exact (proj1 (cget_value_iff l v Hnd) E).
  - destruct (cget_value l') as [v'|] eqn:E'; [|reflexivity]. exfalso.
    pose proof (proj2 (cget_value_iff l v' Hnd) (Permutation_in _ (Permutation_sym Hp) (proj1 (cget_value_iff l' v' Hnd') E'))) as X. congruence.
Qed.
Lemma lit_params_fst : forall l, incl (map fst (flat_map (fun kv : string * cvalue => match snd kv with CLit v => [(fst kv, v)] | COpaque => [] end) l)) (map fst l).
Proof. induction l as [|[k [v|]] r IH]; cbn [flat_map map fst snd app]; intros x Hx; [exact Hx | destruct Hx as [<-|Hx]; [left; reflexivity | right; exact (IH x Hx)] | right; exact (IH x Hx)]. Qed.
Lemma lit_params_NoDup : forall l, NoDup (map fst l) ->
  NoDup (map fst (flat_map (fun kv : string * cvalue => match snd kv with CLit v => [(fst kv, v)] | COpaque => [] end) l)).
Proof.
  induction l as [|[k [v|]] r IH]; intro H; cbn [flat_map map fst snd app] in *; [constructor | |]; inversion H as [|? ? Hnot Hnd]; subst.
  - constructor; [intro X; apply Hnot; exact (lit_params_fst r k X) | exact (IH Hnd)].
  - exact (IH Hnd).
Qed.
Theorem param_perm_same_sig : forall e e', param_perm e e' -> same_sig e e'.
Proof.
  intros e e' [H1 [H2 [H3 [Hnd Hp]]]]. split; [exact H1|]. split; [exact H2|]. split; [exact H3|]. split.
  - unfold c_macro_value, c_is_macro. rewrite H1, H2, (cget_value_perm _ _ Hnd Hp). reflexivity.
  - apply sort_stable_canonical; [apply string_ltb_strict_total | exact (lit_params_NoDup _ Hnd)|].
    unfold c_lit_params. apply Permutation_flat_map. exact Hp.
Qed.

(* the TEXT depends neither on the order of the entries nor on the order of the parameters inside the entries *)
Theorem config_text_params_order_independent : forall registry es1 es1' maxlen indent,
  Forall2 param_perm es1 es1' ->
  ConfigText.config_text registry es1 maxlen indent = ConfigText.config_text registry es1' maxlen indent.
Proof.
  intros registry es1 es1' maxlen indent H. unfold ConfigText.config_text. f_equal. apply config_items_same_sig.
  induction H as [|a b l l' Hab _ IH]; constructor; [exact (param_perm_same_sig a b Hab) | exact IH].
Qed.
Theorem config_text_order_independent_full : forall registry es1 es1' es2 maxlen indent,
  Forall2 param_perm es1 es1' -> Permutation es1' es2 ->
  NoDup (map (fun e => (c_scope e, c_sel e)) es1') ->
  Forall (entry_ascii (reg_of registry) (maxlen - indent)) es1' ->
  ConfigText.config_text registry es1 maxlen indent = ConfigText.config_text registry es2 maxlen indent.
Proof.
  intros registry es1 es1' es2 maxlen indent H Hp Hnd Ha.
  rewrite (config_text_params_order_independent registry es1 es1' maxlen indent H).
  exact (config_text_order_independent registry es1' es2 maxlen indent Hnd Hp Ha).
Qed.
