(* Re-serialisation: the store obtained by parsing config_str() back (its RESULT, [restored]) serialises
   to the identical text; the import manager is idempotent on its own output. *)
From Coq Require Import List String ZArith Bool Arith Lia Permutation Sorted Ascii.
From GinV Require Import Lib.Out Lib.PyStr Model.SelectorMap Model.Serial Proofs.SerialProofs.
Import ListNotations.
Open Scope string_scope.
Open Scope list_scope.

(* ====================================================================== *)
(* 0. More facts about sort_stable                                         *)
(* ====================================================================== *)

(* The sort is stable (SerialProofs.sort_stable_is_stable), like Python's sorted.  Before the F37 repair this
   decided which of several imports of the same module and from-ness was kept (the FIRST one in input order);
   the repaired key breaks these ties by the alias, so the one with the smallest alias is kept whatever the
   input order (SerialProofs3.import_manager_order_independent). *)
Example import_manager_keeps_first_of_tied :
  map import_format (import_manager [ {| i_module := "a.b"; i_from := false; i_alias := Some "x" |};
                                      {| i_module := "a.b"; i_from := false; i_alias := Some "y" |} ])
  = ["import a.b as x"].
Proof. vm_compute. reflexivity. Qed.
Example import_manager_keeps_smallest_alias_of_tied :
  map import_format (import_manager [ {| i_module := "a.b"; i_from := false; i_alias := Some "y" |};
                                      {| i_module := "a.b"; i_from := false; i_alias := Some "x" |} ])
  = ["import a.b as x"].
Proof. vm_compute. reflexivity. Qed.

Section SortMore.
  Context {A K : Type} (key : A -> K) (ltb : K -> K -> bool).
  Definition key_lt (x y : A) : Prop := ltb (key x) (key y) = true.

  Lemma sorted_nodup_strict : strict_total ltb -> forall l,
    StronglySorted (key_le key ltb) l -> NoDup (map key l) -> StronglySorted key_lt l.
  Proof.
    intros (_ & _ & Htot) l Hs. induction Hs as [|x r Hsr IH Hall]; intros Hnd; [constructor|].
    cbn [map] in Hnd. inversion Hnd as [|? ? Hnotin Hndr]; subst.
    constructor; [apply IH, Hndr|].
    rewrite Forall_forall in Hall |- *. intros z Hz. specialize (Hall z Hz).
    unfold key_le in Hall. unfold key_lt.
    destruct (ltb (key x) (key z)) eqn:E; [reflexivity|].
    exfalso. apply Hnotin. rewrite (Htot _ _ E Hall). apply in_map, Hz.
  Qed.

  Lemma strict_sorted_NoDup : (forall a, ltb a a = false) -> forall l,
    StronglySorted key_lt l -> NoDup (map key l).
  Proof.
    intros Hirr l Hs. induction Hs as [|x r Hsr IH Hall]; cbn [map]; constructor; [|exact IH].
    intros Hin. apply in_map_iff in Hin. destruct Hin as [z [Hz Hin]].
    rewrite Forall_forall in Hall. specialize (Hall z Hin). unfold key_lt in Hall.
    rewrite Hz, Hirr in Hall. discriminate Hall.
  Qed.

  Lemma strict_sorted_le : strict_total ltb -> forall l,
    StronglySorted key_lt l -> StronglySorted (key_le key ltb) l.
  Proof.
    intros (Hirr & Htr & _) l Hs. induction Hs as [|x r Hsr IH Hall]; constructor; [exact IH|].
    rewrite Forall_forall in Hall |- *. intros z Hz. specialize (Hall z Hz).
    unfold key_lt in Hall. unfold key_le.
    destruct (ltb (key z) (key x)) eqn:E; [|reflexivity].
    rewrite <- (Hirr (key x)). symmetry. eapply Htr; eassumption.
  Qed.

  (* a strictly sorted list is a fixed point of the sort *)
  Lemma sort_strictly_sorted_id : strict_total ltb -> forall l,
    StronglySorted key_lt l -> sort_stable key ltb l = l.
  Proof. intros Hst l Hs. apply sort_sorted_id, strict_sorted_le; assumption. Qed.
End SortMore.

Lemma StronglySorted_filter' : forall A (R : A -> A -> Prop) p l,
  StronglySorted R l -> StronglySorted R (filter p l).
Proof.
  intros A R p l Hs. induction Hs as [|x r Hsr IH Hall]; cbn [filter]; [constructor|].
  destruct (p x); [|exact IH]. constructor; [exact IH|].
  rewrite Forall_forall in Hall |- *. intros z Hz. apply filter_In in Hz. apply Hall, Hz.
Qed.

Lemma StronglySorted_map_rel : forall A B (R : A -> A -> Prop) (R' : B -> B -> Prop) (f : A -> B) l,
  (forall x y, R x y -> R' (f x) (f y)) -> StronglySorted R l -> StronglySorted R' (map f l).
Proof.
  intros A B R R' f l HR Hs. induction Hs as [|x r Hsr IH Hall]; cbn [map]; [constructor|].
  constructor; [exact IH|].
  rewrite Forall_forall in Hall |- *. intros z Hz. apply in_map_iff in Hz.
  destruct Hz as [y [<- Hy]]. apply HR, Hall, Hy.
Qed.

Lemma filter_all_true : forall A (p : A -> bool) l, (forall x, In x l -> p x = true) -> filter p l = l.
Proof.
  intros A p l. induction l as [|x r IH]; intros H; cbn [filter]; [reflexivity|].
  rewrite (H x (or_introl eq_refl)). f_equal. apply IH. intros y Hy. apply H. right; exact Hy.
Qed.
Lemma filter_all_false : forall A (p : A -> bool) l, (forall x, In x l -> p x = false) -> filter p l = [].
Proof.
  intros A p l. induction l as [|x r IH]; intros H; cbn [filter]; [reflexivity|].
  rewrite (H x (or_introl eq_refl)). apply IH. intros y Hy. apply H. right; exact Hy.
Qed.
Lemma flat_map_ext_in' : forall A B (f g : A -> list B) l,
  (forall x, In x l -> f x = g x) -> flat_map f l = flat_map g l.
Proof.
  intros A B f g l. induction l as [|x r IH]; intros H; cbn [flat_map]; [reflexivity|].
  rewrite (H x (or_introl eq_refl)). f_equal. apply IH. intros y Hy. apply H. right; exact Hy.
Qed.

Lemma filter_comm : forall A (p q : A -> bool) l, filter p (filter q l) = filter q (filter p l).
Proof.
  intros A p q l. induction l as [|x r IH]; [reflexivity|].
  cbn [filter]. destruct (p x) eqn:Ep, (q x) eqn:Eq; cbn [filter]; rewrite ?Ep, ?Eq, IH; reflexivity.
Qed.

(* ====================================================================== *)
(* 1. The restored store                                                   *)
(* ====================================================================== *)

(* what parsing a section back yields: its emitted (representable) bindings, in emission order *)
Definition restore_entry (e : sentry) : sentry :=
  {| e_scope := e_scope e; e_sel := e_sel e; e_method := e_method e; e_params := section_params e |}.
Definition has_params (e : sentry) : bool := match section_params e with [] => false | _ => true end.
(* the store after parsing the text into a cleared configuration, in text order: the emitted macros,
   then the emitted sections that have at least one binding line (a "# None." section restores nothing);
   constants and non-representable macros are not in the text at all *)
Definition restored (entries : list sentry) : list sentry :=
  map restore_entry (macro_entries entries)
  ++ map restore_entry (filter has_params (other_entries entries)).

Lemma full_key_restore : forall e, full_key (restore_entry e) = full_key e.
Proof. intros e. reflexivity. Qed.
Lemma section_ok_restore : forall e, section_ok (restore_entry e) = section_ok e.
Proof. intros e. reflexivity. Qed.
Lemma is_macro_restore : forall e, is_macro (restore_entry e) = is_macro e.
Proof. intros e. reflexivity. Qed.
Lemma section_name_restore : forall registry e, section_name registry (restore_entry e) = section_name registry e.
Proof. intros registry e. reflexivity. Qed.

Lemma section_params_In : forall e kv, In kv (section_params e) <-> In kv (e_params e) /\ v_repr_ok (snd kv) = true.
Proof.
  intros e kv. unfold section_params. split.
  - intros H. apply (Permutation_in _ (sort_stable_perm _ _ _ _ _)) in H. apply filter_In in H. exact H.
  - intros H. apply (Permutation_in _ (Permutation_sym (sort_stable_perm _ _ _ _ _))). apply filter_In. exact H.
Qed.

(* the emitted bindings of a section are a fixed point: sorted, all representable.  (With the stable sort
   this holds even for a repeated parameter name.) *)
Lemma section_params_restore : forall e, section_params (restore_entry e) = section_params e.
Proof.
  intros e. unfold section_params at 1. cbn [e_params restore_entry].
  rewrite filter_all_true.
  - apply (sort_sorted_id (fun kv : string * sval => fst kv) String.ltb). apply C06_params_sorted.
  - intros kv Hkv. apply section_params_In in Hkv. apply Hkv.
Qed.

Lemma restore_entry_idem : forall e, restore_entry (restore_entry e) = restore_entry e.
Proof.
  intros e. unfold restore_entry at 1. rewrite (section_params_restore e). reflexivity.
Qed.

(* ---- the macro value survives: the first "value" item is representable, and stability keeps it first ---- *)
Definition is_value (kv : string * sval) : bool := String.eqb (fst kv) "value".
Lemma sget_value_in_filter : forall l,
  sget_value_in l = match filter is_value l with [] => None | kv :: _ => Some (snd kv) end.
Proof.
  induction l as [|[k w] r IH]; [reflexivity|].
  cbn [sget_value_in filter]. unfold is_value at 1. cbn [fst].
  destruct (String.eqb k "value"); [reflexivity | exact IH].
Qed.

Lemma sget_value_restore : forall e, macro_ok e = true -> sget_value (restore_entry e) = sget_value e.
Proof.
  intros e Hok. unfold macro_ok in Hok. apply andb_true_iff in Hok. destruct Hok as [_ Hok].
  unfold sget_value in *. cbn [e_params restore_entry].
  rewrite sget_value_in_filter in Hok. rewrite !sget_value_in_filter.
  unfold section_params.
  pose proof (sort_stable_is_stable _ _ (fun kv : string * sval => fst kv) String.ltb String.eqb
                (fun a b H => proj1 (String.eqb_eq a b) H) string_ltb_irrefl "value"
                (filter (fun kv => v_repr_ok (snd kv)) (e_params e))) as Hst.
  cbv beta in Hst. fold is_value in Hst. rewrite Hst, filter_comm.
  destruct (filter is_value (e_params e)) as [|[k v] F]; [reflexivity|].
  cbn [snd] in Hok. cbn [filter snd]. rewrite Hok. reflexivity.
Qed.

Lemma macro_ok_restore : forall e, macro_ok e = true -> macro_ok (restore_entry e) = true.
Proof.
  intros e Hok. unfold macro_ok. rewrite (sget_value_restore e Hok), is_macro_restore. exact Hok.
Qed.

(* ---- membership ---- *)
Lemma macro_entries_In : forall entries e, In e (macro_entries entries) <-> In e entries /\ macro_ok e = true.
Proof.
  intros entries e. unfold macro_entries. split.
  - intros H. apply (Permutation_in _ (sort_stable_perm _ _ _ _ _)) in H. apply filter_In in H. exact H.
  - intros H. apply (Permutation_in _ (Permutation_sym (sort_stable_perm _ _ _ _ _))). apply filter_In. exact H.
Qed.
Lemma other_entries_In : forall entries e, In e (other_entries entries) <-> In e entries /\ section_ok e = true.
Proof.
  intros entries e. unfold other_entries. rewrite filter_In. split; intros [H1 H2]; split; try exact H2.
  - apply (Permutation_in _ (sort_stable_perm _ _ _ _ _)) in H1. exact H1.
  - apply (Permutation_in _ (Permutation_sym (sort_stable_perm _ _ _ _ _))). exact H1.
Qed.
Lemma macro_not_section : forall e, macro_ok e = true -> section_ok e = false.
Proof.
  intros e H. unfold macro_ok in H. apply andb_true_iff in H. destruct H as [H _].
  unfold section_ok. rewrite H. reflexivity.
Qed.
Lemma section_not_macro : forall e, section_ok e = true -> macro_ok e = false.
Proof.
  intros e H. unfold section_ok in H. apply andb_true_iff in H. destruct H as [H _].
  apply negb_true_iff in H. unfold macro_ok. rewrite H. reflexivity.
Qed.

(* ---- sortedness of the two blocks ---- *)
Lemma NoDup_full_key_macros : forall entries, NoDup (map full_key entries) -> NoDup (map full_key (macro_entries entries)).
Proof.
  intros entries Hnd. unfold macro_entries. eapply Permutation_NoDup.
  - apply Permutation_map, Permutation_sym, sort_stable_perm.
  - apply NoDup_map_filter, Hnd.
Qed.
Lemma NoDup_full_key_others : forall entries, NoDup (map full_key entries) -> NoDup (map full_key (other_entries entries)).
Proof.
  intros entries Hnd. unfold other_entries. apply NoDup_map_filter. eapply Permutation_NoDup.
  - apply Permutation_map, Permutation_sym, sort_stable_perm.
  - exact Hnd.
Qed.
Lemma macro_entries_sorted : forall entries, StronglySorted (key_le full_key full_key_ltb) (macro_entries entries).
Proof. intros entries. apply sort_stable_sorted', full_key_ltb_strict_total. Qed.
Lemma other_entries_sorted : forall entries, StronglySorted (key_le full_key full_key_ltb) (other_entries entries).
Proof. intros entries. apply StronglySorted_filter', sort_stable_sorted', full_key_ltb_strict_total. Qed.
Lemma map_restore_sorted : forall l, StronglySorted (key_le full_key full_key_ltb) l ->
  StronglySorted (key_le full_key full_key_ltb) (map restore_entry l).
Proof. intros l. apply StronglySorted_map_rel. intros x y H. exact H. Qed.
Lemma map_full_key_restore : forall l, map full_key (map restore_entry l) = map full_key l.
Proof. intros l. rewrite map_map. apply map_ext. intros e. reflexivity. Qed.

(* ---- the two blocks of the restored store ---- *)
Section Restored.
  Variable entries : list sentry.
  Hypothesis Hkeys : NoDup (map (fun e => (e_scope e, e_sel e)) entries).

  Let M := macro_entries entries.
  Let O := filter has_params (other_entries entries).

  Lemma restored_filter_macro : filter macro_ok (restored entries) = map restore_entry M.
  Proof.
    unfold restored. fold M. fold O. rewrite filter_app.
    rewrite filter_all_true, filter_all_false; [apply app_nil_r | |].
    - intros x Hx. apply in_map_iff in Hx. destruct Hx as [e [<- He]].
      subst O. apply filter_In in He. destruct He as [He _]. apply other_entries_In in He.
      apply section_not_macro. rewrite section_ok_restore. apply He.
    - intros x Hx. apply in_map_iff in Hx. destruct Hx as [e [<- He]].
      subst M. apply macro_entries_In in He. destruct He as [He Hok].
      apply macro_ok_restore, Hok.
  Qed.

  Lemma restored_filter_section : filter section_ok (restored entries) = map restore_entry O.
  Proof.
    unfold restored. fold M. fold O. rewrite filter_app.
    rewrite filter_all_false, filter_all_true; [reflexivity | |].
    - intros x Hx. apply in_map_iff in Hx. destruct Hx as [e [<- He]].
      subst O. apply filter_In in He. destruct He as [He _]. apply other_entries_In in He.
      rewrite section_ok_restore. apply He.
    - intros x Hx. apply in_map_iff in Hx. destruct Hx as [e [<- He]].
      subst M. apply macro_entries_In in He. destruct He as [_ Hok].
      rewrite section_ok_restore. apply macro_not_section, Hok.
  Qed.

  Theorem macro_entries_restored : macro_entries (restored entries) = map restore_entry (macro_entries entries).
  Proof.
    unfold macro_entries at 1. rewrite restored_filter_macro.
    apply sort_sorted_id, map_restore_sorted, macro_entries_sorted.
  Qed.

  Theorem other_entries_restored :
    other_entries (restored entries) = map restore_entry (filter has_params (other_entries entries)).
  Proof.
    fold O. unfold other_entries at 1.
    assert (HndO : NoDup (map full_key (map restore_entry O))).
    { rewrite map_full_key_restore. subst O. apply NoDup_map_filter, NoDup_full_key_others, NoDup_full_key, Hkeys. }
    assert (Hperm : Permutation (filter section_ok (sort_stable full_key full_key_ltb (restored entries)))
                                (map restore_entry O)).
    { rewrite <- restored_filter_section. apply Permutation_filter, sort_stable_perm. }
    apply (sorted_unique full_key full_key_ltb full_key_ltb_strict_total).
    - apply StronglySorted_filter', sort_stable_sorted', full_key_ltb_strict_total.
    - apply map_restore_sorted. subst O. apply StronglySorted_filter', other_entries_sorted.
    - eapply Permutation_NoDup; [apply Permutation_map, Permutation_sym, Hperm | exact HndO].
    - exact Hperm.
  Qed.

  (* (4) parsing the second text back gives the same store again *)
  Theorem restored_fixpoint : restored (restored entries) = restored entries.
  Proof.
    unfold restored at 1. rewrite macro_entries_restored, other_entries_restored.
    unfold restored. f_equal.
    - rewrite map_map. apply map_ext_in. intros e He.
      apply restore_entry_idem.
    - rewrite filter_all_true.
      + rewrite map_map. apply map_ext_in. intros e He.
        apply restore_entry_idem.
      + intros x Hx. apply in_map_iff in Hx. destruct Hx as [e [<- He]].
        apply filter_In in He. destruct He as [He Hp].
        unfold has_params in *. rewrite section_params_restore. exact Hp.
  Qed.
End Restored.

(* ====================================================================== *)
(* 2. Serialising again yields the identical text                          *)
(* ====================================================================== *)

(* the part of the text that depends on the entries, as a function of the two sorted blocks *)
Definition macro_block (maxlen indent : nat) (e : sentry) : list string :=
  match sget_value e with
  | Some v => format_binding maxlen indent (e_scope e) v
  | None => ["<KeyError>"]
  end.
Definition section_block (registry : list string) (maxlen indent : nat) (e : sentry) : list string :=
  ["# Parameters for " ^^ section_name registry e ^^ ":"; rule maxlen]
  ++ flat_map (fun kv => format_binding maxlen indent (section_name registry e ^^ "." ^^ fst kv) (snd kv))
              (section_params e)
  ++ (match section_params e with [] => ["# None."] | _ => [] end)
  ++ [""].
Definition body_lines (registry : list string) (maxlen indent : nat) (ms os : list sentry) : list string :=
  (match ms with [] => [] | _ => ["# Macros:"; rule maxlen] end)
  ++ flat_map (macro_block maxlen indent) ms
  ++ (match ms with [] => [] | _ => [""] end)
  ++ flat_map (section_block registry maxlen indent) os.

Lemma config_lines_body : forall registry imports entries maxlen indent,
  config_lines registry imports entries maxlen indent =
  import_lines imports ++ (match import_lines imports with [] => [] | _ => [""] end)
  ++ body_lines registry maxlen indent (macro_entries entries) (other_entries entries).
Proof. intros. reflexivity. Qed.

Lemma body_lines_restore : forall registry maxlen indent ms os,
  (forall e, In e ms -> macro_ok e = true) ->
  body_lines registry maxlen indent (map restore_entry ms) (map restore_entry os) =
  body_lines registry maxlen indent ms os.
Proof.
  intros registry maxlen indent ms os Hms. unfold body_lines.
  rewrite !flat_map_map.
  f_equal; [destruct ms; reflexivity|].
  f_equal; [|f_equal; [destruct ms; reflexivity|]].
  - apply flat_map_ext_in'. intros e He.
    unfold macro_block. rewrite (sget_value_restore e (Hms e He)). reflexivity.
  - apply flat_map_ext. intros e. unfold section_block.
    rewrite section_name_restore, (section_params_restore e). reflexivity.
Qed.

(* (1) *)
Theorem C06_reserialise_identical : forall registry imports entries maxlen indent,
  NoDup (map (fun e => (e_scope e, e_sel e)) entries) ->
  (forall e, In e (other_entries entries) -> section_params e <> []) ->
  config_lines registry imports (restored entries) maxlen indent =
  config_lines registry imports entries maxlen indent.
Proof.
  intros registry imports entries maxlen indent Hkeys Hnone.
  rewrite !config_lines_body.
  rewrite (macro_entries_restored entries), (other_entries_restored entries Hkeys).
  rewrite (filter_all_true _ has_params (other_entries entries)).
  - rewrite body_lines_restore; [reflexivity|].
    intros e He. apply macro_entries_In in He. apply He.
  - intros e He. specialize (Hnone e He). unfold has_params.
    destruct (section_params e); [contradiction | reflexivity].
Qed.

(* without the third hypothesis: the second text is the first one minus its "# None." sections *)
Theorem C06_reserialise_general : forall registry imports entries maxlen indent,
  NoDup (map (fun e => (e_scope e, e_sel e)) entries) ->
  config_lines registry imports (restored entries) maxlen indent =
  import_lines imports ++ (match import_lines imports with [] => [] | _ => [""] end)
  ++ body_lines registry maxlen indent (macro_entries entries) (filter has_params (other_entries entries)).
Proof.
  intros registry imports entries maxlen indent Hkeys.
  rewrite config_lines_body.
  rewrite (macro_entries_restored entries), (other_entries_restored entries Hkeys).
  rewrite body_lines_restore; [reflexivity|].
  intros e He. apply macro_entries_In in He. apply He.
Qed.

(* a repeated parameter name is harmless now that the sort is stable *)
Example section_params_restore_repeated_name :
  let v1 := {| v_repr_ok := true; v_lines := ["1"] |} in
  let v2 := {| v_repr_ok := true; v_lines := ["2"] |} in
  let e := {| e_scope := ""; e_sel := "f"; e_method := false; e_params := [("a", v1); ("a", v2)] |} in
  section_params e = [("a", v1); ("a", v2)] /\ section_params (restore_entry e) = section_params e.
Proof. vm_compute. split; reflexivity. Qed.

(* (2) finding F18: a section that prints only "# None." is not restored *)
Definition f18_entries : list sentry :=
  [ {| e_scope := ""; e_sel := "f"; e_method := false;
       e_params := [("x", {| v_repr_ok := false; v_lines := ["<object object at 0x7f>"] |})] |} ].
Theorem C06_none_section_refuted :
  config_lines ["f"] [] (restored f18_entries) 80 4 <> config_lines ["f"] [] f18_entries 80 4.
Proof. vm_compute. discriminate. Qed.
Example f18_texts :
  config_lines ["f"] [] f18_entries 80 4 = ["# Parameters for f:"; rule 80; "# None."; ""] /\
  restored f18_entries = [] /\ config_lines ["f"] [] (restored f18_entries) 80 4 = [].
Proof. vm_compute. repeat split; reflexivity. Qed.

(* ====================================================================== *)
(* 3. The header: the import manager is idempotent on its own output       *)
(* ====================================================================== *)

Lemma fold_im_step_fixed : forall n0 l out,
  NoDup (map i_module (out ++ l)) -> NoDup (n0 ++ map bound_name (out ++ l)) ->
  fold_left im_step l (out, map i_module out, n0 ++ map bound_name out) =
  (out ++ l, map i_module (out ++ l), n0 ++ map bound_name (out ++ l)).
Proof.
  intros n0. induction l as [|st r IH]; intros out Hm Hn; cbn [fold_left].
  - rewrite app_nil_r. reflexivity.
  - assert (Em : str_in (i_module st) (map i_module out) = false).
    { destruct (str_in (i_module st) (map i_module out)) eqn:E; [|reflexivity].
      exfalso. apply str_in_In in E. rewrite map_app in Hm. cbn [map] in Hm.
      apply NoDup_remove_2 in Hm. apply Hm, in_or_app. left; exact E. }
    assert (En : str_in (bound_name st) (n0 ++ map bound_name out) = false).
    { destruct (str_in (bound_name st) (n0 ++ map bound_name out)) eqn:E; [|reflexivity].
      exfalso. apply str_in_In in E. rewrite map_app in Hn. cbn [map] in Hn. rewrite app_assoc in Hn.
      apply NoDup_remove_2 in Hn. apply Hn, in_or_app. left; exact E. }
    assert (Hstep : im_step (out, map i_module out, n0 ++ map bound_name out) st =
                    (out ++ [st], map i_module (out ++ [st]), n0 ++ map bound_name (out ++ [st]))).
    { unfold im_step. rewrite Em. cbv zeta. unfold uniquify_name. rewrite En.
      rewrite String.eqb_refl. rewrite !map_app, <- app_assoc. reflexivity. }
    rewrite Hstep.
    assert (Happ : (out ++ [st]) ++ r = out ++ st :: r) by (rewrite <- app_assoc; reflexivity).
    rewrite IH; rewrite Happ; [reflexivity | exact Hm | exact Hn].
Qed.

(* imports with distinct modules and distinct, non-reserved bound names are only put in order *)
Theorem import_manager_fixed : forall l,
  NoDup (map i_module l) -> NoDup (names0 l ++ map bound_name l) ->
  import_manager l = sort_stable (fun x => x) import_key_ltb l.
Proof.
  intros l Hm Hn. rewrite import_manager_unfold.
  pose proof (sort_stable_perm _ _ (fun x : simport => x) import_key_ltb l) as Hp.
  set (S := sort_stable (fun x : simport => x) import_key_ltb l) in *.
  assert (HmS : NoDup (map i_module S)).
  { eapply Permutation_NoDup; [apply Permutation_map, Permutation_sym, Hp | exact Hm]. }
  assert (HnS : NoDup (names0 l ++ map bound_name S)).
  { eapply Permutation_NoDup; [|exact Hn].
    apply Permutation_app_head, Permutation_map, Permutation_sym, Hp. }
  pose proof (fold_im_step_fixed (names0 l) S [] HmS HnS) as Hfold.
  cbn [map app] in Hfold. rewrite app_nil_r in Hfold. rewrite Hfold. reflexivity.
Qed.

Lemma NoDup_sorted_key : forall l, NoDup (map i_module l) -> NoDup (map sorted_key l).
Proof. intros l Hnd. apply (NoDup_map_compose _ _ _ sorted_key snd). exact Hnd. Qed.

Theorem sorted_imports_import_manager_fixed : forall l,
  NoDup (map i_module l) -> NoDup (names0 l ++ map bound_name l) ->
  sorted_imports (import_manager l) = sorted_imports l.
Proof.
  intros l Hm Hn. rewrite (import_manager_fixed l Hm Hn). unfold sorted_imports.
  apply sort_stable_canonical.
  - apply sorted_key_ltb_strict_total.
  - apply NoDup_sorted_key. eapply Permutation_NoDup; [|exact Hm].
    apply Permutation_map, Permutation_sym, sort_stable_perm.
  - apply sort_stable_perm.
Qed.

Lemma sorted_imports_sorted : forall l, StronglySorted (key_le sorted_key sorted_key_ltb) (sorted_imports l).
Proof. intros l. apply sort_stable_sorted', sorted_key_ltb_strict_total. Qed.
Lemma sorted_imports_fixed : forall l, StronglySorted (key_le sorted_key sorted_key_ltb) l -> sorted_imports l = l.
Proof. intros l Hs. unfold sorted_imports. apply sort_sorted_id, Hs. Qed.

(* the order in which the manager ADDS statements (repaired code: feature statements first, then module,
   from-style first) agrees with the order of the header on statements of pairwise distinct modules *)
Lemma header_sorted_import_key_sorted : forall l,
  StronglySorted (key_le sorted_key sorted_key_ltb) l -> NoDup (map i_module l) ->
  StronglySorted (key_le (fun x : simport => x) import_key_ltb) l.
Proof.
  intros l Hs Hm.
  pose proof (sorted_nodup_strict sorted_key sorted_key_ltb sorted_key_ltb_strict_total l Hs
                (NoDup_sorted_key l Hm)) as Hstrict.
  rewrite <- (map_id l). eapply StronglySorted_map_rel; [|exact Hstrict].
  intros x y Hxy. unfold key_lt, sorted_key_ltb, sorted_key in Hxy. cbn [fst snd] in Hxy.
  unfold key_le, import_key_ltb, import_key_ltb_noalias.
  destruct (is_feature_module (i_module x)) eqn:Fx, (is_feature_module (i_module y)) eqn:Fy;
    cbn in Hxy |- *; try reflexivity; try discriminate Hxy.
  - unfold import_key_ltb_orig. rewrite (String.eqb_sym (i_module x) (i_module y)).
    destruct (String.eqb_spec (i_module y) (i_module x)) as [E|N].
    + rewrite E, string_ltb_irrefl in Hxy. discriminate Hxy.
    + rewrite Hxy. destruct (String.ltb (i_module y) (i_module x)) eqn:E; [|reflexivity].
      rewrite <- (string_ltb_irrefl (i_module x)). symmetry. eapply string_ltb_trans; eassumption.
  - unfold import_key_ltb_orig. rewrite (String.eqb_sym (i_module x) (i_module y)).
    destruct (String.eqb_spec (i_module y) (i_module x)) as [E|N].
    + rewrite E, string_ltb_irrefl in Hxy. discriminate Hxy.
    + rewrite Hxy. destruct (String.ltb (i_module y) (i_module x)) eqn:E; [|reflexivity].
      rewrite <- (string_ltb_irrefl (i_module x)). symmetry. eapply string_ltb_trans; eassumption.
Qed.

(* (3): what a re-parse of the text records (the emitted statements, in the order of the header) is a fixed
   point of the manager, and gives the same header again.
   The bound is the one of import_manager_unique_names (fresh aliases exist only below 10^20). *)
Theorem import_manager_idempotent : forall imports, List.length imports + 3 <= 10 ^ 20 ->
  let imps' := sorted_imports (import_manager imports) in
  import_manager imps' = imps' /\ sorted_imports (import_manager imps') = imps'.
Proof.
  intros imports Hb imps'.
  assert (Hp : Permutation imps' (import_manager imports)) by (subst imps'; apply sort_stable_perm).
  assert (Hm : NoDup (map i_module imps')).
  { eapply Permutation_NoDup; [apply Permutation_map, Permutation_sym, Hp|].
    apply import_manager_unique_modules. }
  assert (Hn : NoDup (names0 imps' ++ map bound_name imps')).
  { assert (H0 : names0 imps' = names0 imports).
    { unfold names0. subst imps'. rewrite is_dynamic_sorted_imports, is_dynamic_import_manager. reflexivity. }
    rewrite H0. eapply Permutation_NoDup; [|apply import_manager_names_inv, Hb].
    apply Permutation_app_head, Permutation_map, Permutation_sym, Hp. }
  assert (Hs : StronglySorted (key_le sorted_key sorted_key_ltb) imps') by (subst imps'; apply sorted_imports_sorted).
  assert (H1 : import_manager imps' = imps').
  { rewrite (import_manager_fixed imps' Hm Hn).
    apply sort_sorted_id, header_sorted_import_key_sorted; assumption. }
  split; [exact H1|]. rewrite H1. apply sorted_imports_fixed, Hs.
Qed.

Theorem C06_import_lines_idempotent : forall imports, List.length imports + 3 <= 10 ^ 20 ->
  let imps' := sorted_imports (import_manager imports) in
  map import_format (sorted_imports (import_manager imps')) = map import_format imps'.
Proof.
  intros imports Hb imps'. destruct (import_manager_idempotent imports Hb) as [_ H2].
  fold imps' in H2. rewrite H2. reflexivity.
Qed.

(* ---- the repaired header order: __gin__ feature statements first ---- *)
Definition is_feature (i : simport) : bool := is_feature_module (i_module i).

Lemma sorted_split : forall A (R : A -> A -> Prop) (f : A -> bool) l,
  (forall x y, R x y -> f x = false -> f y = false) -> StronglySorted R l ->
  l = filter f l ++ filter (fun x => negb (f x)) l.
Proof.
  intros A R f l HR Hs. induction Hs as [|x r Hsr IH Hall]; [reflexivity|].
  cbn [filter]. destruct (f x) eqn:Ex; cbn [negb app]; [f_equal; exact IH|].
  assert (Hr : forall y, In y r -> f y = false).
  { rewrite Forall_forall in Hall. intros y Hy. apply (HR x y); [apply Hall, Hy | exact Ex]. }
  rewrite (filter_all_false _ f r Hr). cbn [app]. f_equal.
  symmetry. apply filter_all_true. intros y Hy. rewrite (Hr y Hy). reflexivity.
Qed.

Lemma header_le_feature : forall x y, key_le sorted_key sorted_key_ltb x y ->
  is_feature x = false -> is_feature y = false.
Proof.
  intros x y H Hx. unfold key_le, sorted_key_ltb, sorted_key, is_feature in *. cbn [fst snd] in H.
  rewrite Hx in H. destruct (is_feature_module (i_module y)); [|reflexivity].
  cbn in H. discriminate H.
Qed.

(* for ANY list of statements, the header is (feature statements) ++ (the others), each part sorted *)
Theorem sorted_imports_feature_first : forall l,
  exists l1 l2, sorted_imports l = l1 ++ l2 /\
    Forall (fun i => is_feature i = true) l1 /\ Forall (fun i => is_feature i = false) l2.
Proof.
  intros l. exists (filter is_feature (sorted_imports l)), (filter (fun x => negb (is_feature x)) (sorted_imports l)).
  split; [|split].
  - apply (sorted_split _ _ is_feature _ header_le_feature (sorted_imports_sorted l)).
  - apply Forall_forall. intros i Hi. apply filter_In in Hi. apply Hi.
  - apply Forall_forall. intros i Hi. apply filter_In in Hi. destruct Hi as [_ Hi].
    apply negb_true_iff, Hi.
Qed.

Theorem C06_feature_statement_first : forall imports,
  exists l1 l2, sorted_imports (import_manager imports) = l1 ++ l2 /\
    Forall (fun i => is_feature_module (i_module i) = true) l1 /\
    Forall (fun i => is_feature_module (i_module i) = false) l2.
Proof. intros imports. apply sorted_imports_feature_first. Qed.

(* in the form "i occurs before j" *)
Theorem C06_feature_statement_before : forall imports i j,
  In i (import_manager imports) -> is_feature_module (i_module i) = true ->
  In j (import_manager imports) -> is_feature_module (i_module j) = false ->
  exists a b c, sorted_imports (import_manager imports) = a ++ i :: b ++ j :: c.
Proof.
  intros imports i j Hi Hfi Hj Hfj.
  destruct (sorted_imports_feature_first (import_manager imports)) as (l1 & l2 & Heq & H1 & H2).
  assert (Hin : forall x, In x (import_manager imports) -> In x (l1 ++ l2)).
  { intros x Hx. rewrite <- Heq. unfold sorted_imports.
    apply (Permutation_in _ (Permutation_sym (sort_stable_perm _ _ _ _ _))). exact Hx. }
  rewrite Forall_forall in H1, H2.
  assert (Hi1 : In i l1).
  { destruct (in_app_or _ _ _ (Hin i Hi)) as [H|H]; [exact H|].
    specialize (H2 i H). unfold is_feature in H2. congruence. }
  assert (Hj2 : In j l2).
  { destruct (in_app_or _ _ _ (Hin j Hj)) as [H|H]; [|exact H].
    specialize (H1 j H). unfold is_feature in H1. congruence. }
  apply in_split in Hi1. destruct Hi1 as (a & b & ->).
  apply in_split in Hj2. destruct Hj2 as (b' & c & ->).
  exists a, (b ++ b'), c. rewrite Heq, <- !app_assoc. reflexivity.
Qed.

(* the code before the repair sorted by module only: an upper-case module came before the feature statement *)
Example C06_orig_header_order_refuted :
  let imports := [ {| i_module := "__gin__.dynamic_registration"; i_from := true; i_alias := None |};
                   {| i_module := "Zmod"; i_from := false; i_alias := None |} ] in
  map import_format (sorted_imports_orig (import_manager imports)) =
    ["import Zmod"; "from __gin__ import dynamic_registration"] /\
  map import_format (sorted_imports (import_manager imports)) =
    ["from __gin__ import dynamic_registration"; "import Zmod"].
Proof. vm_compute. split; reflexivity. Qed.

(* under dynamic registration the symbol gin is reserved: `import gin.config` is re-aliased *)
Example C06_reserved_gin_realiased :
  let dyn := {| i_module := "__gin__.dynamic_registration"; i_from := true; i_alias := None |} in
  let ginc := {| i_module := "gin.config"; i_from := false; i_alias := None |} in
  let zcx := {| i_module := "zcx"; i_from := false; i_alias := None |} in
  map import_format (sorted_imports (import_manager [dyn; ginc; zcx])) =
    ["from __gin__ import dynamic_registration"; "import gin.config as gin2"; "import zcx"] /\
  map import_format (sorted_imports (import_manager [ginc; zcx])) = ["import gin.config"; "import zcx"].
Proof. vm_compute. split; reflexivity. Qed.

(* ---- the order in which the manager adds statements is a strict weak order: the pull-back of a strict
   total order on the key (not feature, (module, (not from, alias or ''))) ---- *)
(* the key of the code before the F37 repair: (not feature, (module, not from)) *)
Definition import_sort_key_noalias (a : simport) : bool * (string * bool) :=
  (negb (is_feature_module (i_module a)), (i_module a, negb (i_from a))).
Definition import_sort_key_noalias_ltb : bool * (string * bool) -> bool * (string * bool) -> bool :=
  lex_ltb bool_ltb (lex_ltb String.ltb bool_ltb).

Theorem import_sort_key_noalias_ltb_strict_total : strict_total import_sort_key_noalias_ltb.
Proof.
  apply lex_strict_total; [apply bool_ltb_strict_total|].
  apply lex_strict_total; [apply string_ltb_strict_total | apply bool_ltb_strict_total].
Qed.

Theorem import_key_ltb_noalias_as_key : forall a b,
  import_key_ltb_noalias a b = import_sort_key_noalias_ltb (import_sort_key_noalias a) (import_sort_key_noalias b).
Proof.
  intros a b. unfold import_key_ltb_noalias, import_sort_key_noalias_ltb, import_sort_key_noalias, lex_ltb. cbn [fst snd].
  assert (Horig : import_key_ltb_orig a b =
                  (if String.ltb (i_module a) (i_module b) then true
                   else if String.ltb (i_module b) (i_module a) then false
                   else bool_ltb (negb (i_from a)) (negb (i_from b)))).
  { unfold import_key_ltb_orig.
    destruct (String.eqb_spec (i_module a) (i_module b)) as [E|N].
    - rewrite E, string_ltb_irrefl. unfold bool_ltb. destruct (i_from a), (i_from b); reflexivity.
    - destruct (String.ltb (i_module a) (i_module b)) eqn:E1; [reflexivity|].
      destruct (String.ltb (i_module b) (i_module a)) eqn:E2; [reflexivity|].
      exfalso. apply N. apply string_ltb_total; assumption. }
  destruct (is_feature_module (i_module a)), (is_feature_module (i_module b)); cbn; try reflexivity; exact Horig.
Qed.

(* the repaired key (F37): (not feature, (module, (not from, alias or ''))) *)
Definition import_sort_key (a : simport) : bool * (string * (bool * string)) :=
  (negb (is_feature_module (i_module a)), (i_module a, (negb (i_from a), alias_str a))).
Definition import_sort_key_ltb : bool * (string * (bool * string)) -> bool * (string * (bool * string)) -> bool :=
  lex_ltb bool_ltb (lex_ltb String.ltb (lex_ltb bool_ltb String.ltb)).

Theorem import_sort_key_ltb_strict_total : strict_total import_sort_key_ltb.
Proof.
  apply lex_strict_total; [apply bool_ltb_strict_total|].
  apply lex_strict_total; [apply string_ltb_strict_total|].
  apply lex_strict_total; [apply bool_ltb_strict_total | apply string_ltb_strict_total].
Qed.

(* a 4-fold lexicographic order is the 3-fold one with the ties broken by the last component *)
Lemma lex4_as_lex3_tiebreak : forall K1 K2 K3 K4 (l1 : K1 -> K1 -> bool) (l2 : K2 -> K2 -> bool)
    (l3 : K3 -> K3 -> bool) (l4 : K4 -> K4 -> bool) a1 a2 a3 a4 b1 b2 b3 b4,
  lex_ltb l1 (lex_ltb l2 (lex_ltb l3 l4)) (a1, (a2, (a3, a4))) (b1, (b2, (b3, b4))) =
  (if lex_ltb l1 (lex_ltb l2 l3) (a1, (a2, a3)) (b1, (b2, b3)) then true
   else if lex_ltb l1 (lex_ltb l2 l3) (b1, (b2, b3)) (a1, (a2, a3)) then false
   else l4 a4 b4).
Proof.
  intros. unfold lex_ltb. cbn [fst snd].
  destruct (l1 a1 b1), (l1 b1 a1); try reflexivity.
  destruct (l2 a2 b2), (l2 b2 a2); reflexivity.
Qed.

Theorem import_key_ltb_as_key : forall a b,
  import_key_ltb a b = import_sort_key_ltb (import_sort_key a) (import_sort_key b).
Proof.
  intros a b. unfold import_key_ltb, import_sort_key_ltb, import_sort_key.
  rewrite lex4_as_lex3_tiebreak, !import_key_ltb_noalias_as_key. reflexivity.
Qed.

Lemma sort_stable_key_ext : forall A K1 K2 (k1 : A -> K1) (l1 : K1 -> K1 -> bool) (k2 : A -> K2) (l2 : K2 -> K2 -> bool),
  (forall x y, l1 (k1 x) (k1 y) = l2 (k2 x) (k2 y)) ->
  forall l, sort_stable k1 l1 l = sort_stable k2 l2 l.
Proof.
  intros A K1 K2 k1 l1 k2 l2 H l. unfold sort_stable. induction l as [|x r IH]; [reflexivity|].
  cbn [fold_right]. rewrite IH. generalize (fold_right (insert_stable k2 l2) [] r) as s. intros s.
  induction s as [|y s IHs]; [reflexivity|]. cbn [insert_stable]. rewrite H, IHs. reflexivity.
Qed.

Theorem import_manager_sort_sorted : forall imports,
  StronglySorted (key_le (fun x : simport => x) import_key_ltb)
                 (sort_stable (fun x : simport => x) import_key_ltb imports).
Proof.
  intros imports.
  rewrite (sort_stable_key_ext _ _ _ (fun x : simport => x) import_key_ltb import_sort_key import_sort_key_ltb
             import_key_ltb_as_key).
  pose proof (sort_stable_sorted' import_sort_key import_sort_key_ltb import_sort_key_ltb_strict_total imports) as Hs.
  rewrite <- (map_id (sort_stable import_sort_key import_sort_key_ltb imports)).
  eapply StronglySorted_map_rel; [|exact Hs].
  intros x y Hxy. unfold key_le in *. rewrite import_key_ltb_as_key. exact Hxy.
Qed.

(* ---- repaired code: feature statements are ADDED first, so other modules cannot take their names ---- *)
Lemma uniquify_shape : forall fuel i c names,
  uniquify fuel i c names = c \/ exists k, uniquify fuel i c names = c ^^ nat_str k.
Proof.
  induction fuel as [|f IH]; intros i c names; cbn [uniquify]; [left; reflexivity|].
  cbv zeta. destruct (str_in (c ^^ nat_str i) names); [apply IH|]. right. exists i. reflexivity.
Qed.
Lemma uniquify_name_shape : forall c names,
  uniquify_name c names = c \/ exists k, uniquify_name c names = c ^^ nat_str k.
Proof.
  intros c names. unfold uniquify_name. destruct (str_in c names); [apply uniquify_shape | left; reflexivity].
Qed.

Lemma im_step_out_grows : forall acc st x, In x (fst (fst acc)) -> In x (fst (fst (im_step acc st))).
Proof.
  intros [[out mods] names] st x Hx. unfold im_step. cbn [fst] in Hx.
  destruct (str_in (i_module st) mods); cbn [fst]; [exact Hx|]. apply in_or_app. left; exact Hx.
Qed.

Section FeatureKept.
  Variable imports : list simport.
  Variable i : simport.
  Hypothesis Hfeat : is_feature_module (i_module i) = true.
  (* i is the only statement of its module *)
  Hypothesis Honly : forall j, In j imports -> i_module j = i_module i -> j = i.
  (* no other feature statement binds i's name, nor can be re-aliased to it *)
  Hypothesis Hother : forall j, In j imports -> is_feature_module (i_module j) = true ->
    i_module j <> i_module i ->
    bound_name j <> bound_name i /\ forall k, bound_name j ^^ nat_str k <> bound_name i.

  Lemma fold_im_step_keeps : forall l acc,
    StronglySorted (key_le (fun x : simport => x) import_key_ltb) l ->
    (forall st, In st l -> In st imports) ->
    (In i (fst (fst acc)) \/
     (In i l /\ ~ In (i_module i) (snd (fst acc)) /\ ~ In (bound_name i) (snd acc))) ->
    In i (fst (fst (fold_left im_step l acc))).
  Proof.
    induction l as [|st r IH]; intros acc Hs Hincl Hor; cbn [fold_left].
    - destruct Hor as [H|[[] _]]; exact H.
    - inversion Hs as [|? ? Hsr Hall]; subst.
      apply IH; [exact Hsr | intros x Hx; apply Hincl; right; exact Hx|].
      destruct Hor as [Hout|(Hin & Hmod & Hname)]; [left; apply im_step_out_grows, Hout|].
      destruct acc as [[out mods] names]. cbn [fst snd] in *. unfold im_step.
      destruct (str_in (i_module st) mods) eqn:Em; cbn [fst snd].
      + right. repeat split; try assumption.
        destruct Hin as [->|Hin]; [|exact Hin]. exfalso. apply Hmod, str_in_In, Em.
      + cbv zeta. rewrite im_step_bound_name.
        destruct (string_dec (i_module st) (i_module i)) as [E|N].
        * assert (st = i) by (apply Honly; [apply Hincl; left; reflexivity | exact E]). subst st.
          left. cbn [fst]. apply in_or_app. right. left.
          assert (Hu : uniquify_name (bound_name i) names = bound_name i).
          { unfold uniquify_name. destruct (str_in (bound_name i) names) eqn:En; [|reflexivity].
            exfalso. apply Hname, str_in_In, En. }
          rewrite Hu, String.eqb_refl. reflexivity.
        * right. cbn [fst snd].
          assert (Hin' : In i r) by (destruct Hin as [->|Hin]; [contradiction N; reflexivity | exact Hin]).
          assert (Hfst : is_feature_module (i_module st) = true).
          { rewrite Forall_forall in Hall. specialize (Hall i Hin').
            unfold key_le, import_key_ltb, import_key_ltb_noalias in Hall. rewrite Hfeat in Hall.
            destruct (is_feature_module (i_module st)); [reflexivity | cbn in Hall; discriminate Hall]. }
          destruct (Hother st (Hincl st (or_introl eq_refl)) Hfst N) as [Hne Hnek].
          repeat split; [exact Hin' | |].
          -- intros H. apply in_app_or in H. destruct H as [H|[H|[]]]; [apply Hmod, H | apply N, H].
          -- intros H. apply in_app_or in H. destruct H as [H|[H|[]]]; [apply Hname, H|].
             destruct (uniquify_name_shape (bound_name st) names) as [Hu|[k Hu]]; rewrite Hu in H.
             ++ apply Hne, H.
             ++ apply (Hnek k), H.
  Qed.

  Theorem feature_statement_kept : In i imports -> ~ In (bound_name i) (names0 imports) ->
    In i (import_manager imports).
  Proof.
    intros Hi H0. rewrite import_manager_unfold.
    apply fold_im_step_keeps.
    - apply import_manager_sort_sorted.
    - intros st Hst. apply (Permutation_in _ (sort_stable_perm _ _ (fun x : simport => x) import_key_ltb imports)), Hst.
    - right. cbn [fst snd]. repeat split; [|intros []|exact H0].
      apply (Permutation_in _ (Permutation_sym (sort_stable_perm _ _ (fun x : simport => x) import_key_ltb imports))), Hi.
  Qed.
End FeatureKept.

(* A __gin__ feature statement is never re-aliased (and never dropped): it appears UNCHANGED in the output,
   provided it is the only statement of its module, its name is not the reserved one, and no other FEATURE
   statement binds its name or can be re-aliased to it.  Statements of ordinary modules are irrelevant:
   they are added after all feature statements (repaired code). *)
Theorem C06_feature_statement_never_realiased : forall imports i,
  In i imports -> is_feature_module (i_module i) = true ->
  (forall j, In j imports -> i_module j = i_module i -> j = i) ->
  ~ In (bound_name i) (names0 imports) ->
  (forall j, In j imports -> is_feature_module (i_module j) = true -> i_module j <> i_module i ->
     bound_name j <> bound_name i /\ forall k, bound_name j ^^ nat_str k <> bound_name i) ->
  In i (import_manager imports) /\
  exists i', In i' (import_manager imports) /\ i_module i' = i_module i /\ i_alias i' = i_alias i.
Proof.
  intros imports i Hi Hf Honly H0 Hother.
  assert (H : In i (import_manager imports)) by (apply feature_statement_kept; assumption).
  split; [exact H|]. exists i. split; [exact H | split; reflexivity].
Qed.

(* the enabling statement `from __gin__ import dynamic_registration` *)
Definition enabling_stmt : simport :=
  {| i_module := "__gin__.dynamic_registration"; i_from := true; i_alias := None |}.

Fixpoint last_char (s : string) : option ascii :=
  match s with
  | EmptyString => None
  | String c EmptyString => Some c
  | String _ r => last_char r
  end.
Lemma last_char_append_single : forall a c, last_char (a ^^ String c "") = Some c.
Proof.
  induction a as [|x a IH]; intros c; [reflexivity|].
  cbn [String.append last_char]. destruct (a ^^ String c "") eqn:E; [|rewrite <- E; apply IH].
  destruct a; discriminate E.
Qed.
(* a re-aliased name ends in a decimal digit *)
Lemma realiased_last_char : forall c k, exists d, d < 10 /\ last_char (c ^^ nat_str k) = Some (ascii_of_nat (48 + d)).
Proof.
  intros c k. exists (k mod 10). split; [apply Nat.mod_upper_bound; discriminate|].
  unfold nat_str. change 20 with (S 19). cbn [nat_digits].
  rewrite <- append_assoc_s. apply last_char_append_single.
Qed.

Theorem C06_enabling_statement_unchanged : forall imports,
  In enabling_stmt imports ->
  (forall j, In j imports -> i_module j = "__gin__.dynamic_registration" -> j = enabling_stmt) ->
  (forall j, In j imports -> is_feature_module (i_module j) = true ->
     i_module j <> "__gin__.dynamic_registration" -> bound_name j <> "dynamic_registration") ->
  In enabling_stmt (import_manager imports).
Proof.
  intros imports Hi Honly Hother.
  apply (C06_feature_statement_never_realiased imports enabling_stmt); try assumption.
  - reflexivity.
  - unfold names0. destruct (is_dynamic imports); [|intros []].
    intros [H|[]]. vm_compute in H. discriminate H.
  - intros j Hj Hf Hm. split; [exact (Hother j Hj Hf Hm)|].
    intros k Hk. destruct (realiased_last_char (bound_name j) k) as [d [Hd Hl]].
    rewrite Hk in Hl. change (bound_name enabling_stmt) with "dynamic_registration" in Hl.
    cbn [last_char] in Hl. injection Hl as Hl.
    apply (f_equal nat_of_ascii) in Hl. rewrite nat_ascii_embedding in Hl by lia.
    change (nat_of_ascii "n"%char) with 110 in Hl. lia.
Qed.

(* with a single feature module (all gin has) the last hypothesis is vacuous *)
Corollary C06_enabling_statement_unchanged_single : forall imports,
  In enabling_stmt imports ->
  (forall j, In j imports -> is_feature_module (i_module j) = true -> j = enabling_stmt) ->
  In enabling_stmt (import_manager imports).
Proof.
  intros imports Hi Hall. apply C06_enabling_statement_unchanged; [exact Hi | |].
  - intros j Hj Hm. apply Hall; [exact Hj|]. rewrite Hm. reflexivity.
  - intros j Hj Hf Hm. exfalso. apply Hm. rewrite (Hall j Hj Hf). reflexivity.
Qed.

(* the code before the repair added the statements in (module, from-first) order: a module sorting before
   "__gin__" that binds the name dynamic_registration made the ENABLING statement the re-aliased one *)
Definition import_manager_orig (imports : list simport) : list simport :=
  fst (fst (fold_left im_step (sort_stable (fun x => x) import_key_ltb_orig imports) ([], [], names0 imports))).
Example C06_orig_enabling_statement_realiased :
  let pkg := {| i_module := "Pkg.dynamic_registration"; i_from := true; i_alias := None |} in
  map import_format (import_manager_orig [enabling_stmt; pkg]) =
    ["from Pkg import dynamic_registration"; "from __gin__ import dynamic_registration as dynamic_registration2"] /\
  map import_format (import_manager [enabling_stmt; pkg]) =
    ["from __gin__ import dynamic_registration"; "from Pkg import dynamic_registration as dynamic_registration2"].
Proof. vm_compute. split; reflexivity. Qed.

(* the whole clause: the text of (recorded imports, restored store) is the text itself *)
Theorem C06_roundtrip_text : forall registry imports entries maxlen indent,
  List.length imports + 3 <= 10 ^ 20 ->
  NoDup (map (fun e => (e_scope e, e_sel e)) entries) ->
  (forall e, In e (other_entries entries) -> section_params e <> []) ->
  config_lines registry (sorted_imports (import_manager imports)) (restored entries) maxlen indent =
  config_lines registry imports entries maxlen indent.
Proof.
  intros registry imports entries maxlen indent Hb Hkeys Hnone.
  rewrite <- (C06_reserialise_identical registry imports entries maxlen indent Hkeys Hnone).
  rewrite !config_lines_body. unfold import_lines.
  rewrite (C06_import_lines_idempotent imports Hb). reflexivity.
Qed.

Print Assumptions C06_reserialise_identical.
Print Assumptions C06_reserialise_general.
Print Assumptions C06_none_section_refuted.
Print Assumptions restored_fixpoint.
Print Assumptions macro_entries_restored.
Print Assumptions other_entries_restored.
Print Assumptions import_manager_fixed.
Print Assumptions import_manager_idempotent.
Print Assumptions C06_import_lines_idempotent.
Print Assumptions C06_roundtrip_text.
Print Assumptions sorted_imports_import_manager_fixed.
Print Assumptions sorted_imports_feature_first.
Print Assumptions C06_feature_statement_first.
Print Assumptions C06_feature_statement_before.
Print Assumptions import_sort_key_ltb_strict_total.
Print Assumptions import_key_ltb_as_key.
Print Assumptions import_manager_sort_sorted.
Print Assumptions C06_feature_statement_never_realiased.
Print Assumptions C06_enabling_statement_unchanged.
Print Assumptions C06_enabling_statement_unchanged_single.
