(* Re-serialisation: the store obtained by parsing config_str() back (its RESULT, [restored]) serialises
   to the identical text; the import manager is idempotent on its own output. *)
From Coq Require Import List String ZArith Bool Arith Lia Permutation Sorted Ascii.
From GinV Require Import Lib.Out Lib.PyStr Model.SelectorMap Model.Serial Proofs.SerialProofs.
Import ListNotations.
Open Scope string_scope.
Open Scope list_scope.

(* ====================================================================== *)
(* 0. More facts about sort_stable                                         *)
(* ====================================================================== *)

(* The sort is stable (SerialProofs.sort_stable_is_stable), like Python's sorted: among imports of the
   same module and from-ness the FIRST one in input order is kept, as add_import does. *)
Example import_manager_keeps_first_of_tied :
  map import_format (import_manager [ {| i_module := "a.b"; i_from := false; i_alias := Some "x" |};
                                      {| i_module := "a.b"; i_from := false; i_alias := Some "y" |} ])
  = ["import a.b as x"].
Proof. vm_compute. reflexivity. Qed.

Section SortMore.
  Context {A K : Type} (key : A -> K) (ltb : K -> K -> bool).
  Definition key_lt (x y : A) : Prop := ltb (key x) (key y) = true.

  Lemma sorted_nodup_strict : strict_total ltb -> forall l,
    StronglySorted (key_le key ltb) l -> NoDup (map key l) -> StronglySorted key_lt l.
  Proof.
    intros (_ & _ & Htot) l Hs. induction Hs as [|x r Hsr IH Hall]; intros Hnd; [constructor|].
    cbn [map] in Hnd. inversion Hnd as [|? ? Hnotin Hndr]; subst.
    constructor; [apply IH, Hndr|].
    rewrite Forall_forall in Hall |- *. intros z Hz. specialize (Hall z Hz).
    unfold key_le in Hall. unfold key_lt.
    destruct (ltb (key x) (key z)) eqn:E; [reflexivity|].
    exfalso. apply Hnotin. rewrite (Htot _ _ E Hall). apply in_map, Hz.
  Qed.

  Lemma strict_sorted_NoDup : (forall a, ltb a a = false) -> forall l,
    StronglySorted key_lt l -> NoDup (map key l).
  Proof.
    intros Hirr l Hs. induction Hs as [|x r Hsr IH Hall]; cbn [map]; constructor; [|exact IH].
    intros Hin. apply in_map_iff in Hin. destruct Hin as [z [Hz Hin]].
    rewrite Forall_forall in Hall. specialize (Hall z Hin). unfold key_lt in Hall.
    rewrite Hz, Hirr in Hall. discriminate Hall.
  Qed.

  Lemma strict_sorted_le : strict_total ltb -> forall l,
    StronglySorted key_lt l -> StronglySorted (key_le key ltb) l.
  Proof.
    intros (Hirr & Htr & _) l Hs. induction Hs as [|x r Hsr IH Hall]; constructor; [exact IH|].
    rewrite Forall_forall in Hall |- *. intros z Hz. specialize (Hall z Hz).
    unfold key_lt in Hall. unfold key_le.
    destruct (ltb (key z) (key x)) eqn:E; [|reflexivity].
    rewrite <- (Hirr (key x)). symmetry. eapply Htr; eassumption.
  Qed.

  (* a strictly sorted list is a fixed point of the sort *)
  Lemma sort_strictly_sorted_id : strict_total ltb -> forall l,
    StronglySorted key_lt l -> sort_stable key ltb l = l.
  Proof. intros Hst l Hs. apply sort_sorted_id, strict_sorted_le; assumption. Qed.
End SortMore.

Lemma StronglySorted_filter' : forall A (R : A -> A -> Prop) p l,
  StronglySorted R l -> StronglySorted R (filter p l).
Proof.
  intros A R p l Hs. induction Hs as [|x r Hsr IH Hall]; cbn [filter]; [constructor|].
  destruct (p x); [|exact IH]. constructor; [exact IH|].
  rewrite Forall_forall in Hall |- *. intros z Hz. apply filter_In in Hz. apply Hall, Hz.
Qed.

Lemma StronglySorted_map_rel : forall A B (R : A -> A -> Prop) (R' : B -> B -> Prop) (f : A -> B) l,
  (forall x y, R x y -> R' (f x) (f y)) -> StronglySorted R l -> StronglySorted R' (map f l).
Proof.
  intros A B R R' f l HR Hs. induction Hs as [|x r Hsr IH Hall]; cbn [map]; [constructor|].
  constructor; [exact IH|].
  rewrite Forall_forall in Hall |- *. intros z Hz. apply in_map_iff in Hz.
  destruct Hz as [y [<- Hy]]. apply HR, Hall, Hy.
Qed.

Lemma filter_all_true : forall A (p : A -> bool) l, (forall x, In x l -> p x = true) -> filter p l = l.
Proof.
  intros A p l. induction l as [|x r IH]; intros H; cbn [filter]; [reflexivity|].
  rewrite (H x (or_introl eq_refl)). f_equal. apply IH. intros y Hy. apply H. right; exact Hy.
Qed.
Lemma filter_all_false : forall A (p : A -> bool) l, (forall x, In x l -> p x = false) -> filter p l = [].
Proof.
  intros A p l. induction l as [|x r IH]; intros H; cbn [filter]; [reflexivity|].
  rewrite (H x (or_introl eq_refl)). apply IH. intros y Hy. apply H. right; exact Hy.
Qed.
Lemma flat_map_ext_in' : forall A B (f g : A -> list B) l,
  (forall x, In x l -> f x = g x) -> flat_map f l = flat_map g l.
Proof.
  intros A B f g l. induction l as [|x r IH]; intros H; cbn [flat_map]; [reflexivity|].
  rewrite (H x (or_introl eq_refl)). f_equal. apply IH. intros y Hy. apply H. right; exact Hy.
Qed.

Lemma filter_comm : forall A (p q : A -> bool) l, filter p (filter q l) = filter q (filter p l).
Proof.
  intros A p q l. induction l as [|x r IH]; [reflexivity|].
  cbn [filter]. destruct (p x) eqn:Ep, (q x) eqn:Eq; cbn [filter]; rewrite ?Ep, ?Eq, IH; reflexivity.
Qed.

(* ====================================================================== *)
(* 1. The restored store                                                   *)
(* ====================================================================== *)

(* what parsing a section back yields: its emitted (representable) bindings, in emission order *)
Definition restore_entry (e : sentry) : sentry :=
  {| e_scope := e_scope e; e_sel := e_sel e; e_method := e_method e; e_params := section_params e |}.
Definition has_params (e : sentry) : bool := match section_params e with [] => false | _ => true end.
(* the store after parsing the text into a cleared configuration, in text order: the emitted macros,
   then the emitted sections that have at least one binding line (a "# None." section restores nothing);
   constants and non-representable macros are not in the text at all *)
Definition restored (entries : list sentry) : list sentry :=
  map restore_entry (macro_entries entries)
  ++ map restore_entry (filter has_params (other_entries entries)).

Lemma full_key_restore : forall e, full_key (restore_entry e) = full_key e.
Proof. intros e. reflexivity. Qed.
Lemma section_ok_restore : forall e, section_ok (restore_entry e) = section_ok e.
Proof. intros e. reflexivity. Qed.
Lemma is_macro_restore : forall e, is_macro (restore_entry e) = is_macro e.
Proof. intros e. reflexivity. Qed.
Lemma section_name_restore : forall registry e, section_name registry (restore_entry e) = section_name registry e.
Proof. intros registry e. reflexivity. Qed.

Lemma section_params_In : forall e kv, In kv (section_params e) <-> In kv (e_params e) /\ v_repr_ok (snd kv) = true.
Proof.
  intros e kv. unfold section_params. split.
  - intros H. apply (Permutation_in _ (sort_stable_perm _ _ _ _ _)) in H. apply filter_In in H. exact H.
  - intros H. apply (Permutation_in _ (Permutation_sym (sort_stable_perm _ _ _ _ _))). apply filter_In. exact H.
Qed.

(* the emitted bindings of a section are a fixed point: sorted, all representable.  (With the stable sort
   this holds even for a repeated parameter name.) *)
Lemma section_params_restore : forall e, section_params (restore_entry e) = section_params e.
Proof.
  intros e. unfold section_params at 1. cbn [e_params restore_entry].
  rewrite filter_all_true.
  - apply (sort_sorted_id (fun kv : string * sval => fst kv) String.ltb). apply C06_params_sorted.
  - intros kv Hkv. apply section_params_In in Hkv. apply Hkv.
Qed.

Lemma restore_entry_idem : forall e, restore_entry (restore_entry e) = restore_entry e.
Proof.
  intros e. unfold restore_entry at 1. rewrite (section_params_restore e). reflexivity.
Qed.

(* ---- the macro value survives: the first "value" item is representable, and stability keeps it first ---- *)
Definition is_value (kv : string * sval) : bool := String.eqb (fst kv) "value".
Lemma sget_value_in_filter : forall l,
  sget_value_in l = match filter is_value l with [] => None | kv :: _ => Some (snd kv) end.
Proof.
  induction l as [|[k w] r IH]; [reflexivity|].
  cbn [sget_value_in filter]. unfold is_value at 1. cbn [fst].
  destruct (String.eqb k "value"); [reflexivity | exact IH].
Qed.

Lemma sget_value_restore : forall e, macro_ok e = true -> sget_value (restore_entry e) = sget_value e.
Proof.
  intros e Hok. unfold macro_ok in Hok. apply andb_true_iff in Hok. destruct Hok as [_ Hok].
  unfold sget_value in *. cbn [e_params restore_entry].
  rewrite sget_value_in_filter in Hok. rewrite !sget_value_in_filter.
  unfold section_params.
  pose proof (sort_stable_is_stable _ _ (fun kv : string * sval => fst kv) String.ltb String.eqb
                (fun a b H => proj1 (String.eqb_eq a b) H) string_ltb_irrefl "value"
                (filter (fun kv => v_repr_ok (snd kv)) (e_params e))) as Hst.
  cbv beta in Hst. fold is_value in Hst. rewrite Hst, filter_comm.
  destruct (filter is_value (e_params e)) as [|[k v] F]; [reflexivity|].
  cbn [snd] in Hok. cbn [filter snd]. rewrite Hok. reflexivity.
Qed.

Lemma macro_ok_restore : forall e, macro_ok e = true -> macro_ok (restore_entry e) = true.
Proof.
  intros e Hok. unfold macro_ok. rewrite (sget_value_restore e Hok), is_macro_restore. exact Hok.
Qed.

(* ---- membership ---- *)
Lemma macro_entries_In : forall entries e, In e (macro_entries entries) <-> In e entries /\ macro_ok e = true.
Proof.
  intros entries e. unfold macro_entries. split.
  - intros H. apply (Permutation_in _ (sort_stable_perm _ _ _ _ _)) in H. apply filter_In in H. exact H.
  - intros H. apply (Permutation_in _ (Permutation_sym (sort_stable_perm _ _ _ _ _))). apply filter_In. exact H.
Qed.
Lemma other_entries_In : forall entries e, In e (other_entries entries) <-> In e entries /\ section_ok e = true.
Proof.
  intros entries e. unfold other_entries. rewrite filter_In. split; intros [H1 H2]; split; try exact H2.
  - apply (Permutation_in _ (sort_stable_perm _ _ _ _ _)) in H1. exact H1.
  - apply (Permutation_in _ (Permutation_sym (sort_stable_perm _ _ _ _ _))). exact H1.
Qed.
Lemma macro_not_section : forall e, macro_ok e = true -> section_ok e = false.
Proof.
  intros e H. unfold macro_ok in H. apply andb_true_iff in H. destruct H as [H _].
  unfold section_ok. rewrite H. reflexivity.
Qed.
Lemma section_not_macro : forall e, section_ok e = true -> macro_ok e = false.
Proof.
  intros e H. unfold section_ok in H. apply andb_true_iff in H. destruct H as [H _].
  apply negb_true_iff in H. unfold macro_ok. rewrite H. reflexivity.
Qed.

(* ---- sortedness of the two blocks ---- *)
Lemma NoDup_full_key_macros : forall entries, NoDup (map full_key entries) -> NoDup (map full_key (macro_entries entries)).
Proof.
  intros entries Hnd. unfold macro_entries. eapply Permutation_NoDup.
  - apply Permutation_map, Permutation_sym, sort_stable_perm.
  - apply NoDup_map_filter, Hnd.
Qed.
Lemma NoDup_full_key_others : forall entries, NoDup (map full_key entries) -> NoDup (map full_key (other_entries entries)).
Proof.
  intros entries Hnd. unfold other_entries. apply NoDup_map_filter. eapply Permutation_NoDup.
  - apply Permutation_map, Permutation_sym, sort_stable_perm.
  - exact Hnd.
Qed.
Lemma macro_entries_sorted : forall entries, StronglySorted (key_le full_key full_key_ltb) (macro_entries entries).
Proof. intros entries. apply sort_stable_sorted', full_key_ltb_strict_total. Qed.
Lemma other_entries_sorted : forall entries, StronglySorted (key_le full_key full_key_ltb) (other_entries entries).
Proof. intros entries. apply StronglySorted_filter', sort_stable_sorted', full_key_ltb_strict_total. Qed.
Lemma map_restore_sorted : forall l, StronglySorted (key_le full_key full_key_ltb) l ->
  StronglySorted (key_le full_key full_key_ltb) (map restore_entry l).
Proof. intros l. apply StronglySorted_map_rel. intros x y H. exact H. Qed.
Lemma map_full_key_restore : forall l, map full_key (map restore_entry l) = map full_key l.
Proof. intros l. rewrite map_map. apply map_ext. intros e. reflexivity. Qed.

(* ---- the two blocks of the restored store ---- *)
Section Restored.
  Variable entries : list sentry.
  Hypothesis Hkeys : NoDup (map (fun e => (e_scope e, e_sel e)) entries).

  Let M := macro_entries entries.
  Let O := filter has_params (other_entries entries).

  Lemma restored_filter_macro : filter macro_ok (restored entries) = map restore_entry M.
  Proof.
    unfold restored. fold M. fold O. rewrite filter_app.
    rewrite filter_all_true, filter_all_false; [apply app_nil_r | |].
    - intros x Hx. apply in_map_iff in Hx. destruct Hx as [e [<- He]].
      subst O. apply filter_In in He. destruct He as [He _]. apply other_entries_In in He.
      apply section_not_macro. rewrite section_ok_restore. apply He.
    - intros x Hx. apply in_map_iff in Hx. destruct Hx as [e [<- He]].
      subst M. apply macro_entries_In in He. destruct He as [He Hok].
      apply macro_ok_restore, Hok.
  Qed.

  Lemma restored_filter_section : filter section_ok (restored entries) = map restore_entry O.
  Proof.
    unfold restored. fold M. fold O. rewrite filter_app.
    rewrite filter_all_false, filter_all_true; [reflexivity | |].
    - intros x Hx. apply in_map_iff in Hx. destruct Hx as [e [<- He]].
      subst O. apply filter_In in He. destruct He as [He _]. apply other_entries_In in He.
      rewrite section_ok_restore. apply He.
    - intros x Hx. apply in_map_iff in Hx. destruct Hx as [e [<- He]].
      subst M. apply macro_entries_In in He. destruct He as [_ Hok].
      rewrite section_ok_restore. apply macro_not_section, Hok.
  Qed.

  Theorem macro_entries_restored : macro_entries (restored entries) = map restore_entry (macro_entries entries).
  Proof.
    unfold macro_entries at 1. rewrite restored_filter_macro.
    apply sort_sorted_id, map_restore_sorted, macro_entries_sorted.
  Qed.

  Theorem other_entries_restored :
    other_entries (restored entries) = map restore_entry (filter has_params (other_entries entries)).
  Proof.
    fold O. unfold other_entries at 1.
    assert (HndO : NoDup (map full_key (map restore_entry O))).
    { rewrite map_full_key_restore. subst O. apply NoDup_map_filter, NoDup_full_key_others, NoDup_full_key, Hkeys. }
    assert (Hperm : Permutation (filter section_ok (sort_stable full_key full_key_ltb (restored entries)))
                                (map restore_entry O)).
    { rewrite <- restored_filter_section. apply Permutation_filter, sort_stable_perm. }
    apply (sorted_unique full_key full_key_ltb full_key_ltb_strict_total).
    - apply StronglySorted_filter', sort_stable_sorted', full_key_ltb_strict_total.
    - apply map_restore_sorted. subst O. apply StronglySorted_filter', other_entries_sorted.
    - eapply Permutation_NoDup; [apply Permutation_map, Permutation_sym, Hperm | exact HndO].
    - exact Hperm.
  Qed.

  (* (4) parsing the second text back gives the same store again *)
  Theorem restored_fixpoint : restored (restored entries) = restored entries.
  Proof.
    unfold restored at 1. rewrite macro_entries_restored, other_entries_restored.
    unfold restored. f_equal.
    - rewrite map_map. apply map_ext_in. intros e He.
      apply restore_entry_idem.
    - rewrite filter_all_true.
      + rewrite map_map. apply map_ext_in. intros e He.
        apply restore_entry_idem.
      + intros x Hx. apply in_map_iff in Hx. destruct Hx as [e [<- He]].
        apply filter_In in He. destruct He as [He Hp].
        unfold has_params in *. rewrite section_params_restore. exact Hp.
  Qed.
End Restored.

(* ====================================================================== *)
(* 2. Serialising again yields the identical text                          *)
(* ====================================================================== *)

(* the part of the text that depends on the entries, as a function of the two sorted blocks *)
Definition macro_block (maxlen indent : nat) (e : sentry) : list string :=
  match sget_value e with
  | Some v => format_binding maxlen indent (e_scope e) v
  | None => ["<KeyError>"]
  end.
Definition section_block (registry : list string) (maxlen indent : nat) (e : sentry) : list string :=
  ["# Parameters for " ^^ section_name registry e ^^ ":"; rule maxlen]
  ++ flat_map (fun kv => format_binding maxlen indent (section_name registry e ^^ "." ^^ fst kv) (snd kv))
              (section_params e)
  ++ (match section_params e with [] => ["# None."] | _ => [] end)
  ++ [""].
Definition body_lines (registry : list string) (maxlen indent : nat) (ms os : list sentry) : list string :=
  (match ms with [] => [] | _ => ["# Macros:"; rule maxlen] end)
  ++ flat_map (macro_block maxlen indent) ms
  ++ (match ms with [] => [] | _ => [""] end)
  ++ flat_map (section_block registry maxlen indent) os.

Lemma config_lines_body : forall registry imports entries maxlen indent,
  config_lines registry imports entries maxlen indent =
  import_lines imports ++ (match import_lines imports with [] => [] | _ => [""] end)
  ++ body_lines registry maxlen indent (macro_entries entries) (other_entries entries).
Proof. intros. reflexivity. Qed.

Lemma body_lines_restore : forall registry maxlen indent ms os,
  (forall e, In e ms -> macro_ok e = true) ->
  body_lines registry maxlen indent (map restore_entry ms) (map restore_entry os) =
  body_lines registry maxlen indent ms os.
Proof.
  intros registry maxlen indent ms os Hms. unfold body_lines.
  rewrite !flat_map_map.
  f_equal; [destruct ms; reflexivity|].
  f_equal; [|f_equal; [destruct ms; reflexivity|]].
  - apply flat_map_ext_in'. intros e He.
    unfold macro_block. rewrite (sget_value_restore e (Hms e He)). reflexivity.
  - apply flat_map_ext. intros e. unfold section_block.
    rewrite section_name_restore, (section_params_restore e). reflexivity.
Qed.

(* (1) *)
Theorem C06_reserialise_identical : forall registry imports entries maxlen indent,
  NoDup (map (fun e => (e_scope e, e_sel e)) entries) ->
  (forall e, In e (other_entries entries) -> section_params e <> []) ->
  config_lines registry imports (restored entries) maxlen indent =
  config_lines registry imports entries maxlen indent.
Proof.
  intros registry imports entries maxlen indent Hkeys Hnone.
  rewrite !config_lines_body.
  rewrite (macro_entries_restored entries), (other_entries_restored entries Hkeys).
  rewrite (filter_all_true _ has_params (other_entries entries)).
  - rewrite body_lines_restore; [reflexivity|].
    intros e He. apply macro_entries_In in He. apply He.
  - intros e He. specialize (Hnone e He). unfold has_params.
    destruct (section_params e); [contradiction | reflexivity].
Qed.

(* without the third hypothesis: the second text is the first one minus its "# None." sections *)
Theorem C06_reserialise_general : forall registry imports entries maxlen indent,
  NoDup (map (fun e => (e_scope e, e_sel e)) entries) ->
  config_lines registry imports (restored entries) maxlen indent =
  import_lines imports ++ (match import_lines imports with [] => [] | _ => [""] end)
  ++ body_lines registry maxlen indent (macro_entries entries) (filter has_params (other_entries entries)).
Proof.
  intros registry imports entries maxlen indent Hkeys.
  rewrite config_lines_body.
  rewrite (macro_entries_restored entries), (other_entries_restored entries Hkeys).
  rewrite body_lines_restore; [reflexivity|].
  intros e He. apply macro_entries_In in He. apply He.
Qed.

(* a repeated parameter name is harmless now that the sort is stable *)
Example section_params_restore_repeated_name :
  let v1 := {| v_repr_ok := true; v_lines := ["1"] |} in
  let v2 := {| v_repr_ok := true; v_lines := ["2"] |} in
  let e := {| e_scope := ""; e_sel := "f"; e_method := false; e_params := [("a", v1); ("a", v2)] |} in
  section_params e = [("a", v1); ("a", v2)] /\ section_params (restore_entry e) = section_params e.
Proof. vm_compute. split; reflexivity. Qed.

(* (2) finding F18: a section that prints only "# None." is not restored *)
Definition f18_entries : list sentry :=
  [ {| e_scope := ""; e_sel := "f"; e_method := false;
       e_params := [("x", {| v_repr_ok := false; v_lines := ["<object object at 0x7f>"] |})] |} ].
Theorem C06_none_section_refuted :
  config_lines ["f"] [] (restored f18_entries) 80 4 <> config_lines ["f"] [] f18_entries 80 4.
Proof. vm_compute. discriminate. Qed.
Example f18_texts :
  config_lines ["f"] [] f18_entries 80 4 = ["# Parameters for f:"; rule 80; "# None."; ""] /\
  restored f18_entries = [] /\ config_lines ["f"] [] (restored f18_entries) 80 4 = [].
Proof. vm_compute. repeat split; reflexivity. Qed.

(* ====================================================================== *)
(* 3. The header: the import manager is idempotent on its own output       *)
(* ====================================================================== *)

Definition module_lt (x y : simport) : Prop := String.ltb (i_module x) (i_module y) = true.

Lemma fold_im_step_fixed : forall l out,
  NoDup (map i_module (out ++ l)) -> NoDup (map bound_name (out ++ l)) ->
  fold_left im_step l (out, map i_module out, map bound_name out) =
  (out ++ l, map i_module (out ++ l), map bound_name (out ++ l)).
Proof.
  induction l as [|st r IH]; intros out Hm Hn; cbn [fold_left].
  - rewrite app_nil_r. reflexivity.
  - assert (Em : str_in (i_module st) (map i_module out) = false).
    { destruct (str_in (i_module st) (map i_module out)) eqn:E; [|reflexivity].
      exfalso. apply str_in_In in E. rewrite map_app in Hm. cbn [map] in Hm.
      apply NoDup_remove_2 in Hm. apply Hm, in_or_app. left; exact E. }
    assert (En : str_in (bound_name st) (map bound_name out) = false).
    { destruct (str_in (bound_name st) (map bound_name out)) eqn:E; [|reflexivity].
      exfalso. apply str_in_In in E. rewrite map_app in Hn. cbn [map] in Hn.
      apply NoDup_remove_2 in Hn. apply Hn, in_or_app. left; exact E. }
    assert (Hstep : im_step (out, map i_module out, map bound_name out) st =
                    (out ++ [st], map i_module (out ++ [st]), map bound_name (out ++ [st]))).
    { unfold im_step. rewrite Em. cbv zeta. unfold uniquify_name. rewrite En.
      rewrite String.eqb_refl. rewrite !map_app. reflexivity. }
    rewrite Hstep.
    assert (Happ : (out ++ [st]) ++ r = out ++ st :: r) by (rewrite <- app_assoc; reflexivity).
    rewrite IH; rewrite Happ; [reflexivity | exact Hm | exact Hn].
Qed.

(* a list of imports sorted by strictly increasing module with distinct bound names is left alone *)
Theorem import_manager_fixed : forall l,
  StronglySorted module_lt l -> NoDup (map bound_name l) -> import_manager l = l.
Proof.
  intros l Hs Hn. rewrite import_manager_unfold.
  assert (Hsort : sort_stable (fun x => x) import_key_ltb l = l).
  { apply sort_sorted_id. rewrite <- (map_id l) at 1.
    eapply StronglySorted_map_rel; [|exact Hs].
    intros x y Hxy. unfold module_lt in Hxy. unfold key_le, import_key_ltb.
    assert (Hyx : String.ltb (i_module y) (i_module x) = false).
    { destruct (String.ltb (i_module y) (i_module x)) eqn:E; [|reflexivity].
      rewrite <- (string_ltb_irrefl (i_module x)). symmetry. eapply string_ltb_trans; eassumption. }
    destruct (String.eqb_spec (i_module y) (i_module x)) as [E|N]; [|exact Hyx].
    rewrite E, string_ltb_irrefl in Hxy. discriminate Hxy. }
  rewrite Hsort.
  assert (Hm : NoDup (map i_module l)).
  { apply (strict_sorted_NoDup (fun x => i_module x) String.ltb string_ltb_irrefl). exact Hs. }
  pose proof (fold_im_step_fixed l [] Hm Hn) as Hfold. cbn [map app] in Hfold.
  rewrite Hfold. reflexivity.
Qed.

Lemma sorted_imports_strict : forall l, NoDup (map i_module l) -> StronglySorted module_lt (sorted_imports l).
Proof.
  intros l Hnd. unfold sorted_imports.
  apply (sorted_nodup_strict (fun x => i_module x) String.ltb string_ltb_strict_total).
  - apply sort_stable_sorted', string_ltb_strict_total.
  - eapply Permutation_NoDup; [|exact Hnd]. apply Permutation_map, Permutation_sym, sort_stable_perm.
Qed.

Lemma sorted_imports_fixed : forall l, StronglySorted module_lt l -> sorted_imports l = l.
Proof.
  intros l Hs. unfold sorted_imports.
  apply (sort_strictly_sorted_id (fun x => i_module x) String.ltb string_ltb_strict_total). exact Hs.
Qed.

(* (3): what a re-parse of the text records (the emitted statements) is a fixed point of the manager.
   The bound is the one of import_manager_unique_names (fresh aliases exist only below 10^20). *)
Theorem import_manager_idempotent : forall imports, List.length imports + 3 <= 10 ^ 20 ->
  let imps' := sorted_imports (import_manager imports) in
  import_manager imps' = imps' /\ sorted_imports (import_manager imps') = imps'.
Proof.
  intros imports Hb imps'.
  assert (Hs : StronglySorted module_lt imps').
  { subst imps'. apply sorted_imports_strict, import_manager_unique_modules. }
  assert (Hn : NoDup (map bound_name imps')).
  { subst imps'. unfold sorted_imports. eapply Permutation_NoDup.
    - apply Permutation_map, Permutation_sym, sort_stable_perm.
    - apply import_manager_unique_names, Hb. }
  assert (H1 : import_manager imps' = imps') by (apply import_manager_fixed; assumption).
  split; [exact H1|]. rewrite H1. apply sorted_imports_fixed, Hs.
Qed.

Theorem C06_import_lines_idempotent : forall imports, List.length imports + 3 <= 10 ^ 20 ->
  let imps' := sorted_imports (import_manager imports) in
  map import_format (sorted_imports (import_manager imps')) = map import_format imps'.
Proof.
  intros imports Hb imps'. destruct (import_manager_idempotent imports Hb) as [_ H2].
  fold imps' in H2. rewrite H2. reflexivity.
Qed.

(* the whole clause: the text of (recorded imports, restored store) is the text itself *)
Theorem C06_roundtrip_text : forall registry imports entries maxlen indent,
  List.length imports + 3 <= 10 ^ 20 ->
  NoDup (map (fun e => (e_scope e, e_sel e)) entries) ->
  (forall e, In e (other_entries entries) -> section_params e <> []) ->
  config_lines registry (sorted_imports (import_manager imports)) (restored entries) maxlen indent =
  config_lines registry imports entries maxlen indent.
Proof.
  intros registry imports entries maxlen indent Hb Hkeys Hnone.
  rewrite <- (C06_reserialise_identical registry imports entries maxlen indent Hkeys Hnone).
  rewrite !config_lines_body. unfold import_lines.
  rewrite (C06_import_lines_idempotent imports Hb). reflexivity.
Qed.

Print Assumptions C06_reserialise_identical.
Print Assumptions C06_reserialise_general.
Print Assumptions C06_none_section_refuted.
Print Assumptions restored_fixpoint.
Print Assumptions macro_entries_restored.
Print Assumptions other_entries_restored.
Print Assumptions import_manager_fixed.
Print Assumptions import_manager_idempotent.
Print Assumptions C06_import_lines_idempotent.
Print Assumptions C06_roundtrip_text.
