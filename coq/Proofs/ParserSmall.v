(* Small independent facts about the parser model: the one-tuple rule, binding-key
   splitting, and strictness of selector parsing. *)
From Coq Require Import List String ZArith Bool Arith Lia Ascii.
From GinV Require Import Lib.Out Lib.PyStr Model.Parser Model.ParserSpec.
Import ListNotations. Open Scope string_scope. Open Scope list_scope.

(* ------------------------------------------------------------------ *)
(* one-tuple rule *)
Theorem one_tuple_rule : forall o x, py_eval o (LParen x) = py_eval o x.
Proof. reflexivity. Qed.

Theorem one_tuple_rule_comma : forall o x trailing,
  py_eval o (LTuple [x] trailing) =
  match py_eval o x with Some v => Some (OT "T" [v]) | None => None end.
Proof. intros o x trailing. cbn [py_eval]. destruct (py_eval o x); reflexivity. Qed.

(* ------------------------------------------------------------------ *)
(* rsplit1 / binding keys *)
Lemma contains_char_app : forall c a b,
  contains_char c (a ++ b)%string = contains_char c a || contains_char c b.
Proof.
  intros c a b. induction a as [|d a IH]; cbn [String.append contains_char].
  - reflexivity.
  - rewrite IH. rewrite orb_assoc. reflexivity.
Qed.

Lemma rsplit1_none : forall sep s, contains_char sep s = false -> rsplit1 sep s = None.
Proof.
  intros sep s. induction s as [|c s IH]; cbn [contains_char rsplit1]; intros H.
  - reflexivity.
  - apply orb_false_iff in H. destruct H as [Hc Hs]. rewrite (IH Hs).
    destruct (Ascii.eqb_spec c sep) as [E|E].
    + subst c. rewrite Ascii.eqb_refl in Hc. discriminate.
    + reflexivity.
Qed.

Lemma rsplit1_app : forall sep a b, contains_char sep b = false ->
  rsplit1 sep (a ++ String sep b)%string = Some (a, b).
Proof.
  intros sep a b Hb. induction a as [|c a IH]; cbn [String.append rsplit1].
  - rewrite (rsplit1_none _ _ Hb). rewrite Ascii.eqb_refl. reflexivity.
  - rewrite IH. reflexivity.
Qed.

Lemma append_assoc : forall a b c : string, ((a ++ b) ++ c = a ++ (b ++ c))%string.
Proof. intros a b c. induction a as [|x a IH]; cbn [String.append]; [reflexivity | now rewrite IH]. Qed.

Theorem split_scoped_spec_strong : forall scope sel, contains_char slash sel = false ->
  split_scoped (scope ++ "/" ++ sel)%string = (scope, sel).
Proof.
  intros scope sel Hs. unfold split_scoped.
  change ("/" ++ sel)%string with (String slash sel).
  rewrite (rsplit1_app _ _ _ Hs). reflexivity.
Qed.

Theorem split_scoped_spec : forall scope sel, contains_char slash sel = false -> scope <> "" ->
  split_scoped (scope ++ "/" ++ sel)%string = (scope, sel).
Proof. intros scope sel Hs _. apply split_scoped_spec_strong; exact Hs. Qed.

(* no scope: the selector comes back unchanged *)
Theorem split_scoped_noscope : forall sel, contains_char slash sel = false ->
  split_scoped sel = ("", sel).
Proof. intros sel Hs. unfold split_scoped. rewrite (rsplit1_none _ _ Hs). reflexivity. Qed.

Theorem split_binding_key_spec_strong : forall scope sel arg,
  contains_char slash sel = false -> contains_char slash arg = false -> contains_char dot arg = false ->
  split_binding_key ((if String.eqb scope "" then "" else scope ++ "/") ++ sel ++ "." ++ arg)%string
  = (scope, sel, arg).
Proof.
  intros scope sel arg Hsel Hargs Hargd.
  assert (Hrest : contains_char slash (sel ++ "." ++ arg)%string = false).
  { rewrite contains_char_app, Hsel. change ("." ++ arg)%string with (String dot arg).
    cbn [contains_char orb]. rewrite Hargs. reflexivity. }
  assert (Hdot : rsplit1 dot (sel ++ "." ++ arg)%string = Some (sel, arg)).
  { change ("." ++ arg)%string with (String dot arg). apply rsplit1_app. exact Hargd. }
  unfold split_binding_key.
  destruct (String.eqb_spec scope "") as [E|E].
  - subst scope. change ("" ++ sel ++ "." ++ arg)%string with (sel ++ "." ++ arg)%string.
    rewrite (split_scoped_noscope _ Hrest). rewrite Hdot. reflexivity.
  - rewrite append_assoc. rewrite (split_scoped_spec_strong _ _ Hrest). rewrite Hdot. reflexivity.
Qed.

Theorem split_binding_key_spec : forall scope sel arg,
  contains_char slash sel = false -> contains_char slash arg = false -> contains_char dot arg = false ->
  arg <> "" -> sel <> "" ->
  split_binding_key ((if String.eqb scope "" then "" else scope ++ "/") ++ sel ++ "." ++ arg)%string
  = (scope, sel, arg).
Proof. intros scope sel arg H1 H2 H3 _ _. apply split_binding_key_spec_strong; assumption. Qed.

(* ------------------------------------------------------------------ *)
(* selectors *)
Lemma settle_incl : forall ts ts', settle ts = POk ts' -> forall t, In t ts' -> In t ts.
Proof.
  induction ts as [|a r IH]; intros ts' H t Ht.
  - cbn [settle] in H. discriminate.
  - cbn [settle] in H. destruct (ty a) eqn:Ety;
      try (injection H as <-; exact Ht).
    + (* ERRORTOKEN *)
      destruct (_ || _ || _).
      * right. exact (IH _ H _ Ht).
      * injection H as <-. exact Ht.
    + (* TERR *) destruct (String.eqb _ _); discriminate.
Qed.

Lemma advance_one_incl : forall ts ts', advance_one ts = POk ts' -> forall t, In t ts' -> In t ts.
Proof.
  intros [|a r] ts' H t Ht; cbn [advance_one] in H; [discriminate|].
  right. exact (settle_incl _ _ H _ Ht).
Qed.

Lemma sel_loop_inv : forall fuel parity ts parts toks parts' toks' ts',
  sel_loop fuel parity ts parts toks = POk (parts', toks', ts') ->
  exists new, toks' = toks ++ new /\ parts' = parts ++ map text new /\ (forall t, In t new -> In t ts).
Proof.
  induction fuel as [|f IH]; intros parity ts parts toks parts' toks' ts' H.
  - cbn [sel_loop] in H. injection H as <- <- <-. exists []. cbn [map]. rewrite !app_nil_r. repeat split; intros t [].
  - cbn [sel_loop] in H.
    destruct ((negb parity && ttype_eqb (ty (cur ts)) NAME)
              || (parity && (String.eqb (text (cur ts)) "/" || String.eqb (text (cur ts)) "."))) eqn:Ec.
    + destruct (advance_one ts) as [ts1|e] eqn:Ea; [|discriminate].
      destruct (IH _ _ _ _ _ _ _ H) as [new [E1 [E2 Hin]]].
      exists (cur ts :: new). rewrite E1, E2. rewrite <- !app_assoc. cbn [app map].
      repeat split.
      intros t [Ht|Ht].
      * subst t. destruct ts as [|a r]; [|left; reflexivity].
        exfalso. cbn in Ec. destruct parity; discriminate.
      * exact (advance_one_incl _ _ Ea _ (Hin _ Ht)).
    + injection H as <- <- <-. exists []. cbn [map]. rewrite !app_nil_r. repeat split; intros t [].
Qed.

Lemma sel_loop_S : forall f parity ts parts toks,
  sel_loop (S f) parity ts parts toks =
  if (negb parity && ttype_eqb (ty (cur ts)) NAME)
     || (parity && (String.eqb (text (cur ts)) "/" || String.eqb (text (cur ts)) "."))
  then match advance_one ts with
       | PErr e => PErr e
       | POk ts' => sel_loop f (negb parity) ts' (parts ++ [text (cur ts)]) (toks ++ [cur ts])
       end
  else POk (parts, toks, ts).
Proof. reflexivity. Qed.

Theorem selector_strict : forall scoped allow wb ts s rest,
  parse_selector scoped allow wb ts = POk (s, rest) ->
  selector_format_ok scoped allow s = true /\
  exists toks, contiguous toks = true /\ s = concat_strs (map text toks) /\ toks <> [] /\
               (forall t, In t toks -> In t ts).
Proof.
  intros scoped allow wb ts s rest H. unfold parse_selector in H.
  destruct (cur_ty ts NAME) eqn:Ename; cbn [negb] in H; [|discriminate].
  destruct (sel_loop (S (List.length ts)) false ts [] []) as [[[parts toks] ts1]|e] eqn:El; [|discriminate].
  destruct (skip_ws wb ts1) as [ts2|e]; [|discriminate].
  destruct (contiguous toks) eqn:Ec; cbn [andb] in H; [|discriminate].
  destruct (selector_format_ok scoped allow (concat_strs parts)) eqn:Ef; [|discriminate].
  injection H as <- <-. split; [exact Ef|].
  (* first step of the loop consumes the NAME *)
  cbn [sel_loop] in El. unfold cur_ty in Ename. rewrite Ename in El. cbn [negb andb orb] in El.
  destruct (advance_one ts) as [ts'|e] eqn:Ea; [|discriminate].
  destruct (sel_loop_inv _ _ _ _ _ _ _ _ El) as [new [E1 [E2 Hin]]].
  exists toks. split; [exact Ec|]. split.
  - rewrite E2, E1. cbn [app map]. reflexivity.
  - split.
    + rewrite E1. cbn [app]. discriminate.
    + intros t Ht. rewrite E1 in Ht. cbn [app] in Ht. destruct Ht as [Ht|Ht].
      * subst t. destruct ts as [|a r]; [cbn in Ename; discriminate | left; reflexivity].
      * exact (advance_one_incl _ _ Ea _ (Hin _ Ht)).
Qed.

(* a '/' or '.' right after a NAME is always consumed by the loop, wherever it
   stands; if it does not touch the name the selector is rejected, never repaired *)
Theorem selector_rejects_gap : forall scoped allow wb t1 t2 r,
  ty t1 = NAME -> (text t2 = "/" \/ text t2 = ".") -> ty t2 = OP ->
  (srow t1 <> srow t2 \/ ecol t1 <> scol t2) ->
  forall x, parse_selector scoped allow wb (t1 :: t2 :: r) = POk x -> False.
Proof.
  intros scoped allow wb t1 t2 r Hn Hsep Hop Hgap x H. unfold parse_selector in H.
  destruct (cur_ty (t1 :: t2 :: r) NAME); cbn [negb] in H; [|discriminate].
  destruct (sel_loop (S (List.length (t1 :: t2 :: r))) false (t1 :: t2 :: r) [] [])
    as [[[parts toks] ts1]|e] eqn:El; [|discriminate].
  assert (Ec : contiguous toks = false).
  { cbn [List.length] in El. rewrite sel_loop_S in El. cbn [cur hd] in El.
    rewrite Hn in El. cbn [negb andb orb ttype_eqb] in El.
    cbn [advance_one settle] in El. rewrite Hop in El. cbn [app] in El.
    rewrite sel_loop_S in El. cbn [cur hd] in El. cbn [negb andb orb] in El.
    assert (Es : (String.eqb (text t2) "/" || String.eqb (text t2) ".") = true).
    { destruct Hsep as [-> | ->]; reflexivity. }
    rewrite Es in El. cbn [advance_one] in El.
    destruct (settle r) as [ts'|e]; [|discriminate].
    destruct (sel_loop_inv _ _ _ _ _ _ _ _ El) as [new [E1 _]].
    rewrite E1. cbn [app contiguous].
    destruct Hgap as [Hg|Hg].
    - apply Nat.eqb_neq in Hg. rewrite Hg. reflexivity.
    - apply Nat.eqb_neq in Hg. rewrite Hg. rewrite !andb_false_r. reflexivity. }
  destruct (skip_ws wb ts1); [|discriminate].
  rewrite Ec in H. cbn [andb] in H. discriminate.
Qed.
