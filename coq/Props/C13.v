(* C13 — registration is transparent to the registered function or class (PARTIAL).
   Proved: the registration state machine.  What CPython's type machinery does with the wrappers
   (subclass relation, metadata, pickling) is observed by the harness (harness/props/c13.py). *)
From Coq Require Import List String ZArith Bool Arith.
From GinV Require Import Lib.Out Lib.PyStr Model.Registry.
Import ListNotations.
Open Scope string_scope.
Open Scope list_scope.

(* a rejected registration registers nothing and changes nothing *)
Theorem C13_reject_atomic : forall s r s' c, make_configurable s r = (s', Rejected c) -> s' = s.
Proof.
  intros s r s' c H. unfold make_configurable in H.
  repeat match type of H with
         | (if ?b then _ else _) = _ => destruct b
         | (match ?x with _ => _ end) = _ => destruct x
         end; inversion H; reflexivity.
Qed.

(* an accepted registration writes exactly one registry entry, last, and follows the return conventions *)
Theorem C13_accept_effect : forall s r s' sel orig, make_configurable s r = (s', Registered sel orig) ->
  selector_of r = Some sel /\ rs_registry s' = rset sel (r_obj r) (rs_registry s) /\
  rs_locked s' = rs_locked s /\ rs_interactive s' = rs_interactive s /\
  orig = (match r_api r with ApiRegister => true | _ => false end).
Proof.
  intros s r s' sel orig H. unfold make_configurable in H.
  destruct (rs_locked s) eqn:HL; [inversion H|].
  destruct (selector_of r) as [sl|] eqn:Hs; [|inversion H].
  repeat match type of H with
         | (if ?b then _ else _) = _ => destruct b; try (inversion H; fail)
         end.
  inversion H; subst. cbn. repeat split; try reflexivity; try (symmetry; exact HL).
Qed.

Theorem C13_locked_rejects : forall s r, rs_locked s = true -> make_configurable s r = (s, Rejected "RuntimeError").
Proof. intros s r H. unfold make_configurable. rewrite H. reflexivity. Qed.

(* a different object under an existing full name is rejected unless interactive mode is on *)
Theorem C13_duplicate_rejected : forall s r sel o, rs_locked s = false -> rs_interactive s = false ->
  selector_of r = Some sel -> rget sel (rs_registry s) = Some o -> o <> r_obj r ->
  make_configurable s r = (s, Rejected "ValueError").
Proof.
  intros s r sel o HL HI Hs Hg Hne. unfold make_configurable. rewrite HL, Hs, HI, Hg. cbn.
  destruct (Nat.eqb_spec o (r_obj r)); [contradiction|reflexivity].
Qed.

(* invalid name or module, both lists, unknown list names, listed REQUIRED: rejected *)
Theorem C13_invalid_name_rejected : forall s r, rs_locked s = false -> selector_of r = None ->
  make_configurable s r = (s, Rejected "ValueError").
Proof. intros s r HL Hs. unfold make_configurable. rewrite HL, Hs. reflexivity. Qed.

(* constructing through a registry handle yields an instance of exactly the original class when no
   registered methods need overriding (gin.configurable wraps the class in place: also the original) *)
Theorem C13_instance_class : forall a scoped, instance_class a scoped false <> SubclassInstance.
Proof. intros [] []; discriminate. Qed.

Print Assumptions C13_reject_atomic.
Print Assumptions C13_accept_effect.
Print Assumptions C13_locked_rejects.
Print Assumptions C13_duplicate_rejected.
Print Assumptions C13_invalid_name_rejected.
Print Assumptions C13_instance_class.
