(* C12 — finalize locks the configuration; unlock_config always restores the lock.
   Statements only; proofs in Proofs/MachineProofs.v. *)
From Coq Require Import List String ZArith Bool.
From GinV Require Import Lib.Out Model.SelectorMap Model.Values Model.Gin Model.GinEngine
                         Proofs.MachineFrame Proofs.MachineProofs.
Import ListNotations.
Open Scope string_scope.
Open Scope list_scope.

(* once locked, every binding path, registration and finalize raise and change nothing (whole state) *)
Theorem C12_locked_frame : forall f s o, locked s = true ->
  ((exists k v, o = OBind k v) \/ (exists a b c v, o = OBindT a b c v) \/ (exists k v, o = OParse k v) \/
   (exists c, o = ORegister c) \/ o = OFinalize) ->
  exists e, exec (S f) s o = (s, Raise e).
Proof. exact locked_bind_frame. Qed.

(* leaving an unlock_config block by ANY path (body may raise, finalize, clear, nest) restores the entry value *)
Theorem C12_unlock_restores : forall fuel s body s' r,
  exec fuel s (OUnlock body) = (s', r) -> locked s' = locked s.
Proof. exact unlock_restores_lock_strong. Qed.

Theorem C12_finalize_ok_locks : forall s s', finalize s = (s', Ok tt) -> locked s' = true /\ locked s = false.
Proof. exact finalize_ok_locks. Qed.

(* a rejected finalize leaves the configuration unlocked and unmodified *)
Theorem C12_finalize_reject_atomic : forall s s' e, finalize s = (s', Raise e) ->
  config s' = config s /\ locked s' = locked s /\ reg s' = reg s /\ scopes s' = scopes s /\ hooks s' = hooks s.
Proof. exact finalize_reject_atomic. Qed.

Theorem C12_finalize_twice : forall s, locked s = true -> finalize s = (s, Raise "RuntimeError").
Proof. exact finalize_twice. Qed.

(* two hooks updating the same parameter, however each spells it, are never both applied *)
Theorem C12_hook_conflict : forall s hs1 kvs1 hs2 kvs2 hs3 k1 v1 k2 v2 p,
  In (k1, v1) kvs1 -> In (k2, v2) kvs2 ->
  (let '(a, b, c) := parse_binding_key k1 in pbk_validate s a b c) = Ok p ->
  (let '(a, b, c) := parse_binding_key k2 in pbk_validate s a b c) = Ok p ->
  exists e, collect_hooks s (hs1 ++ HReturn kvs1 :: hs2 ++ HReturn kvs2 :: hs3) [] = Raise e.
Proof. exact hook_conflict_rejected. Qed.

(* unbound / unevaluated macros and references to unknown configurables are rejected *)
Theorem C12_builtin_hooks : forall s, locked s = false ->
  (macros_hook_ok s = false \/ unknown_refs_hook_ok s = false) ->
  exists s', finalize s = (s', Raise "ValueError").
Proof. exact finalize_builtin_hooks. Qed.

Theorem C12_clear_unlocks : forall s b s' r, clear_config s b = (s', r) ->
  locked s' = false /\ config s' = [] /\ singletons s' = [] /\ reg s' = reg s /\ hooks s' = hooks s.
Proof. exact clear_unlocks. Qed.

(* non-vacuity: a history that finalizes, then raises inside an unlock block, stays locked *)
Example C12_nonvacuous :
  let s := run_top 50 init_state [OFinalize; OUnlock [OLocked; ORaise]; OLocked] in
  locked s = true /\ rev (obs s) = [ONone; OB false; OErr "KeyError"; OB true].
Proof. vm_compute. split; reflexivity. Qed.

Print Assumptions C12_locked_frame.
Print Assumptions C12_unlock_restores.
Print Assumptions C12_finalize_ok_locks.
Print Assumptions C12_finalize_reject_atomic.
Print Assumptions C12_finalize_twice.
Print Assumptions C12_hook_conflict.
Print Assumptions C12_builtin_hooks.
Print Assumptions C12_clear_unlocks.
