(* C04 — references deliver the configurable or a fresh result, in the right scope.
   Statements only; proofs in Proofs/CallProofs.v, Proofs/MachineFrame.v. *)
From Coq Require Import List String ZArith Bool Arith.
From GinV Require Import Lib.Out Lib.PyStr Model.SelectorMap Model.Values Model.Gin Model.GinEngine Model.CallSpec
                         Proofs.CallLemmas Proofs.CallProofs Proofs.MachineFrame.
Import ListNotations.
Open Scope string_scope.
Open Scope list_scope.

(* a reference is NOT evaluated when the caller supplies that parameter: such a parameter has no entry
   among the bindings that are deep-copied (= evaluated) *)
Theorem C04_keyword_override_not_evaluated : forall cfg scope c args kwargs p v,
  sget p kwargs = Some v -> is_req v = false -> keys_nodup kwargs ->
  sget p (prep_bindings cfg scope c args kwargs) = None.
Proof. exact C04_keyword_override_not_evaluated. Qed.

Theorem C04_positional_override_not_evaluated : forall cfg scope c args kwargs i p a,
  NoDup (s_args (c_sig c)) -> nth_error (s_args (c_sig c)) i = Some p -> nth_error args i = Some a ->
  is_req a = false -> sget p (prep_bindings cfg scope c args kwargs) = None.
Proof. exact C04_positional_override_not_evaluated. Qed.

(* the code before the repair evaluated the binding of a keyword-overridden parameter: the finding *)
Theorem C04_orig_keyword_refuted :
  exists (cfg : cdict) (scope : list string) (c : cfgable) (kwargs : pdict) (p : string) (v : value),
  sget p kwargs = Some v /\ is_req v = false /\ exists b, sget p (prep_bindings_orig cfg scope c []) = Some b.
Proof. exact C04_orig_keyword_refuted. Qed.

(* whatever is evaluated or called (any nesting of references, any fuel) never changes the store, the
   registry, the lock, the constants — and restores the scope stack: later calls, queries and config strings
   see the same configuration *)
Theorem C04_store_frame_eval : forall fuel s v s' r, eval fuel s v = (s', r) -> same_static s s'.
Proof. exact eval_frame. Qed.
Theorem C04_store_frame_call : forall fuel s sel args kw s' r, call fuel s sel args kw = (s', r) -> same_static s s'.
Proof. exact call_frame. Qed.
Theorem C04_store_frame_handle : forall fuel s sc sel args kw s' r,
  call_handle fuel s sc sel args kw = (s', r) -> same_static s s'.
Proof. exact call_handle_frame. Qed.

(* delivery on a concrete nested value: unevaluated -> handle, evaluated -> fresh results in traversal order,
   scoped reference runs under exactly its scope, unscoped under the consumer's *)
Example C04_delivery_example :
  let f := {| c_sel := "m.f"; c_kind := KProbe; c_sig := {| s_args := ["a"]; s_defaults := [VNone]; s_varargs := false; s_kwonly := []; s_varkw := false |}; c_allow := []; c_deny := []; c_method := false |} in
  let g := {| c_sel := "n.g"; c_kind := KProbe; c_sig := {| s_args := ["a"]; s_defaults := [VNone]; s_varargs := false; s_kwonly := []; s_varkw := false |}; c_allow := []; c_deny := []; c_method := false |} in
  let s := run_top 50 (setup [f; g])
     [OParse "f.a" (VList [VRef [] "g" false; VRef ["s1"] "g" true; VRef [] "g" true]);
      OWith (SStr "s2") [OCall "m.f" [] []]; ODumpCalls] in
  nth 3 (rev (obs s)) ONone =
  OL [OL [OS "n.g"; OL [OS "s1"]; OL [OL [OS "a"; ONone]]; OZ 0];
      OL [OS "n.g"; OL [OS "s2"]; OL [OL [OS "a"; ONone]]; OZ 1];
      OL [OS "m.f"; OL [OS "s2"]; OL [OL [OS "a"; OT "L" [OT "H" [OS "n.g"]; OT "Ret" [OS "n.g"; OZ 0]; OT "Ret" [OS "n.g"; OZ 1]]]]; OZ 2]].
Proof. vm_compute. reflexivity. Qed.

Print Assumptions C04_keyword_override_not_evaluated.
Print Assumptions C04_positional_override_not_evaluated.
Print Assumptions C04_orig_keyword_refuted.
Print Assumptions C04_store_frame_eval.
Print Assumptions C04_store_frame_call.
Print Assumptions C04_store_frame_handle.
