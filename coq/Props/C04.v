(* C04 — references deliver the configurable or a fresh result, in the right scope.
   Statements only; proofs in Proofs/CallProofs.v, Proofs/MachineFrame.v. *)
From Coq Require Import List String ZArith Bool Arith.
From GinV Require Import Lib.Out Lib.PyStr Model.SelectorMap Model.Values Model.Gin Model.GinEngine Model.CallSpec
                         Proofs.CallLemmas Proofs.CallProofs Proofs.MachineFrame.
Import ListNotations.
Open Scope string_scope.
Open Scope list_scope.

(* a reference is NOT evaluated when the caller supplies that parameter: such a parameter has no entry
   among the bindings that are deep-copied (= evaluated) *)
Theorem C04_keyword_override_not_evaluated : forall cfg scope c args kwargs p v,
  sget p kwargs = Some v -> is_req v = false -> keys_nodup kwargs ->
  sget p (prep_bindings cfg scope c args kwargs) = None.
Proof. exact C04_keyword_override_not_evaluated. Qed.

Theorem C04_positional_override_not_evaluated : forall cfg scope c args kwargs i p a,
  NoDup (s_args (c_sig c)) -> nth_error (s_args (c_sig c)) i = Some p -> nth_error args i = Some a ->
  is_req a = false -> sget p (prep_bindings cfg scope c args kwargs) = None.
Proof. exact C04_positional_override_not_evaluated. Qed.

(* the code before the repair evaluated the binding of a keyword-overridden parameter: the finding *)
Theorem C04_orig_keyword_refuted :
  exists (cfg : cdict) (scope : list string) (c : cfgable) (kwargs : pdict) (p : string) (v : value),
  sget p kwargs = Some v /\ is_req v = false /\ exists b, sget p (prep_bindings_orig cfg scope c []) = Some b.
Proof. exact C04_orig_keyword_refuted. Qed.

(* whatever is evaluated or called (any nesting of references, any fuel) never changes the store, the
   registry, the lock, the constants — and restores the scope stack: later calls, queries and config strings
   see the same configuration *)
Theorem C04_store_frame_eval : forall fuel s v s' r, eval fuel s v = (s', r) -> same_static s s'.
Proof. exact eval_frame. Qed.
Theorem C04_store_frame_call : forall fuel s sel args kw s' r, call fuel s sel args kw = (s', r) -> same_static s s'.
Proof. exact call_frame. Qed.
Theorem C04_store_frame_handle : forall fuel s sc sel args kw s' r,
  call_handle fuel s sc sel args kw = (s', r) -> same_static s s'.
Proof. exact call_handle_frame. Qed.

(* delivery on a concrete nested value: unevaluated -> handle, evaluated -> fresh results in traversal order,
   scoped reference runs under exactly its scope, unscoped under the consumer's *)
Example C04_delivery_example :
  let f := {| c_sel := "m.f"; c_kind := KProbe; c_sig := {| s_args := ["a"]; s_defaults := [VNone]; s_varargs := false; s_kwonly := []; s_varkw := false |}; c_allow := []; c_deny := []; c_method := false |} in
  let g := {| c_sel := "n.g"; c_kind := KProbe; c_sig := {| s_args := ["a"]; s_defaults := [VNone]; s_varargs := false; s_kwonly := []; s_varkw := false |}; c_allow := []; c_deny := []; c_method := false |} in
  let s := run_top 50 (setup [f; g])
     [OParse "f.a" (VList [VRef [] "g" false; VRef ["s1"] "g" true; VRef [] "g" true]);
      OWith (SStr "s2") [OCall "m.f" [] []]; ODumpCalls] in
  nth 3 (rev (obs s)) ONone =
  OL [OL [OS "n.g"; OL [OS "s1"]; OL [OL [OS "a"; ONone]]; OZ 0];
      OL [OS "n.g"; OL [OS "s2"]; OL [OL [OS "a"; ONone]]; OZ 1];
      OL [OS "m.f"; OL [OS "s2"]; OL [OL [OS "a"; OT "L" [OT "H" [OS "n.g"]; OT "Ret" [OS "n.g"; OZ 0]; OT "Ret" [OS "n.g"; OZ 1]]]]; OZ 2]].
Proof. vm_compute. reflexivity. Qed.

(* ---- dict literals: what copy.deepcopy does per item,  y[deepcopy(key)] = deepcopy(value) ---- *)
(* the value of an item is evaluated BEFORE its key: a value that raises leaves the key unevaluated *)
Theorem C04_dict_value_raises_key_not_run : forall f s k x t s0 e,
  eval f s x = (s0, Raise e) -> eval (S f) s (VDict ((k, x) :: t)) = (s0, Raise e).
Proof. exact eval_VDict_value_raises. Qed.

(* k = @g() ; f.a = {%k: @h()} : h (under the key) runs before g (the key);
   k = @g() ; f.a = {%k: %unbound} : the value raises first and g never runs (key-first would have run g) *)
Theorem C04_dict_item_value_before_key :
  let regs := [probe1 "m.f"; probe1 "n.g"; probe1 "n.h"] in
  let s1 := run_top 50 (setup regs) [OParse "k" (VRef [] "g" true); OParse "f.a" (VDict [(VMacro "k", VRef [] "h" true)])] in
  let s2 := run_top 50 (setup regs) [OParse "k" (VRef [] "g" true); OParse "f.a" (VDict [(VMacro "k", VMacro "unbound")])] in
  (snd (call 50 s1 "m.f" [] []) = Ok (VRet "m.f" 2) /\
   log_of (fst (call 50 s1 "m.f" [] [])) =
     [("n.h", [("a", VNone)], 0%Z); ("n.g", [("a", VNone)], 1%Z);
      ("m.f", [("a", VDict [(VRet "n.g" 1, VRet "n.h" 0)])], 2%Z)]) /\
  (snd (call 50 s2 "m.f" [] []) = Raise "TypeError" /\ log_of (fst (call 50 s2 "m.f" [] [])) = []).
Proof. exact dict_item_value_before_key. Qed.

(* keys that are equal after evaluation (k1 = 1, k2 = True) are one entry: it keeps the earlier key and place and
   takes the later value; a key that evaluates to a list raises TypeError once the item's value has run, and the
   following items are not touched *)
Theorem C04_dict_equal_keys_merge :
  let regs := [probe1 "m.f"; probe1 "n.g"; probe1 "n.h"] in
  let s1 := run_top 50 (setup regs)
     [OParse "k1" (VInt 1); OParse "k2" (VBool true);
      OParse "f.a" (VDict [(VMacro "k1", VStr "a"); (VInt 2, VStr "b"); (VMacro "k2", VStr "c")])] in
  let s2 := run_top 50 (setup regs)
     [OParse "kl" (VList [VInt 1]);
      OParse "f.a" (VDict [(VInt 1, VInt 2); (VMacro "kl", VRef [] "g" true); (VInt 3, VRef [] "h" true)])] in
  log_of (fst (call 50 s1 "m.f" [] [])) = [("m.f", [("a", VDict [(VInt 1, VStr "c"); (VInt 2, VStr "b")])], 0%Z)] /\
  (snd (call 50 s2 "m.f" [] []) = Raise "TypeError" /\
   log_of (fst (call 50 s2 "m.f" [] [])) = [("n.g", [("a", VNone)], 0%Z)]).
Proof. exact dict_equal_keys_merge. Qed.

Print Assumptions C04_keyword_override_not_evaluated.
Print Assumptions C04_positional_override_not_evaluated.
Print Assumptions C04_orig_keyword_refuted.
Print Assumptions C04_store_frame_eval.
Print Assumptions C04_store_frame_call.
Print Assumptions C04_store_frame_handle.
Print Assumptions C04_dict_value_raises_key_not_run.
Print Assumptions C04_dict_item_value_before_key.
Print Assumptions C04_dict_equal_keys_merge.
