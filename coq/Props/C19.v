(* C19 — dynamic registration resolves names through the file's own imports.
   Model: Model/DynReg.v (import binding rules, per-file symbol table, attribute chains over a universe tree
   of modules / classes / functions with object identities, registration under the module path derived from
   the import, method => class (re-)registration, inverse registry, re-pointing of references).
   Proved here:
     - what an import binds (four forms), missing modules, the reserved name gin, late / aliased enabling,
       unknown __gin__ features;
     - isolation: the symbol table after a parse call contains only names bound by THAT text's own import
       statements, starts empty for every call, and is independent of everything but the registry; a file
       without the feature has an empty table; an unprovided first component is a NameError, a missing
       attribute an AttributeError;
     - exactness: the selector returned for a dotted name is registered for the very object the attribute
       chain denotes (universes in which a class does not share an identity with its own attribute; a
       refutation shows the hypothesis is needed in the model);
     - spellings: a second spelling of an already registered function, method or class yields the same
       configurable and changes nothing; a class reached as the parent of a method through a second spelling
       keeps its selector, the method is registered under it, and no object ever has two registrations
       (C19_one_configurable_per_object; the code that registered the class a second time, F22, is refuted as
       C19_orig_class_registered_twice / C19_orig_valid_method_statement_rejected); the registry stays a
       function of selectors (no duplicates) and never loses or re-targets an entry;
     - references keep working: across any run (successful or failed) every recorded reference still names a
       registered selector and the same object as when it was created, and after a re-registration the
       re-pointed reference names the LATEST registration of its object;
     - config_str header: bound names are re-aliased to be unique; it depends on the recorded imports up to
       permutation only (C19_header_import_order_independent, F37);
     - recorded imports: an import statement that took effect is recorded whatever the statements after it do
       (C19_effective_imports_recorded; the code that recorded them after the last statement only is refuted as
       C19_orig_failed_parse_loses_imports).
   One deviation of the implementation from this model is a recorded finding (F21), see
   known_findings.json; whole-text round trip of config_str is validated on the implementation. *)
From Coq Require Import List String ZArith Bool Arith Sorting.Permutation.
From GinV Require Import Lib.Out Lib.PyStr Model.SelectorMap Model.Serial Model.DynReg Proofs.SerialProofs Proofs.DynRegProofs Proofs.DynRegSkip Proofs.DynRegProofs2.
Import ListNotations.
Open Scope string_scope.
Open Scope list_scope.

(* a name whose first component the file's own imports do not provide is a NameError, whatever is registered *)
Theorem C19_unprovided_name : forall reg c sel, c_dynamic c = true -> tget (hd "" (split_dot sel)) (c_table c) = None ->
  get_configurable reg c sel = DErr "NameError".
Proof. intros reg c sel Hd Ht. unfold get_configurable. rewrite Hd. cbn [negb]. rewrite Ht. reflexivity. Qed.

(* the reserved name gin, a late or aliased enabling statement and unknown features are errors *)
Theorem C19_reserved_gin : forall univ c d leaf, c_dynamic c = true ->
  (d_from d && String.prefix gin_feature_prefix (d_module d)) = false ->
  import_path univ (split_dot (d_module d)) = Some leaf -> d_bound_name d = "gin" ->
  process_import univ c d = DErr "ValueError".
Proof.
  intros univ c d leaf Hd Hf Hi Hb. unfold process_import. rewrite Hf, Hi, Hd, Hb. reflexivity.
Qed.
Theorem C19_late_enabling : forall univ c x r, c_imports c = x :: r ->
  process_import univ c {| d_module := "__gin__.dynamic_registration"; d_from := true; d_alias := None |} = DErr "SyntaxError".
Proof. intros univ c x r H. unfold process_import. cbn. rewrite H. reflexivity. Qed.
Theorem C19_aliased_enabling : forall univ c a,
  process_import univ c {| d_module := "__gin__.dynamic_registration"; d_from := true; d_alias := Some a |} = DErr "SyntaxError".
Proof. reflexivity. Qed.

(* an object already registered (through whatever spelling) is found through the inverse registry: no second
   registration of a function happens *)
Theorem C19_existing_object_reused : forall reg c sel root d chain i e, c_dynamic c = true ->
  tget (hd "" (split_dot sel)) (c_table c) = Some (root, d) -> follow root (tl (split_dot sel)) [] = Some chain ->
  obj_id (last chain POther) = Some i -> find_obj i reg = Some e ->
  get_configurable reg c sel = DOk (reg, ce_sel e, []).

Proof.
  intros reg c sel root d chain i e Hd Ht Hf Ho He. unfold get_configurable. rewrite Hd. cbn [negb].
  rewrite Ht, Hf, Ho, He. reflexivity.
Qed.

(* ---- imports ---- *)
Theorem C19_import_binds : forall univ c d c' leaf, c_dynamic c = true ->
  (d_from d && String.prefix gin_feature_prefix (d_module d)) = false ->
  import_path univ (split_dot (d_module d)) = Some leaf -> d_bound_name d <> "gin" ->
  process_import univ c d = DOk c' ->
  tget (d_bound_name d) (c_table c') =
    Some (if d_from d || has_alias d then leaf
          else match pget (hd "" (split_dot (d_module d))) univ with Some m => m | None => POther end, d) /\
  (forall n, n <> d_bound_name d -> tget n (c_table c') = tget n (c_table c)) /\ c_dynamic c' = true.
Proof. exact DynRegProofs.C19_import_binds. Qed.
Theorem C19_missing_module : forall univ c d, (d_from d && String.prefix gin_feature_prefix (d_module d)) = false ->
  import_path univ (split_dot (d_module d)) = None -> process_import univ c d = DErr "ModuleNotFoundError".
Proof. exact DynRegProofs.C19_missing_module. Qed.
Theorem C19_unknown_feature : forall univ c m, String.prefix gin_feature_prefix m = true -> m <> "__gin__.dynamic_registration" ->
  process_import univ c {| d_module := m; d_from := true; d_alias := None |} = DErr "SyntaxError".
Proof. exact DynRegProofs.C19_unknown_feature. Qed.

(* ---- isolation between files ---- *)
Theorem C19_table_from_own_imports : forall univ stmts s refs s' refs' c' e n v,
  run_stmts univ stmts s refs empty_ctx = (s', refs', c', e) -> tget n (c_table c') = Some v ->
  exists d, In (DImport d) stmts /\ d_bound_name d = n /\ snd v = d.
Proof. exact DynRegProofs.C19_table_from_own_imports. Qed.
Theorem C19_isolation : forall univ stmts s1 refs1 s2 refs2 s1' r1' c1 e1 s2' r2' c2 e2,
  ds_reg s1 = ds_reg s2 ->
  run_stmts univ stmts s1 refs1 empty_ctx = (s1', r1', c1, e1) ->
  run_stmts univ stmts s2 refs2 empty_ctx = (s2', r2', c2, e2) ->
  c1 = c2 /\ e1 = e2 /\ ds_reg s1' = ds_reg s2'.
Proof. exact C19_isolation_ctx. Qed.
Theorem C19_static_file_has_empty_table : forall univ stmts s refs s' refs' c' e,
  (forall d, In (DImport d) stmts -> d_module d <> "__gin__.dynamic_registration") ->
  run_stmts univ stmts s refs empty_ctx = (s', refs', c', e) -> c_table c' = [] /\ c_dynamic c' = false.
Proof. exact DynRegProofs.C19_static_file_has_empty_table. Qed.
Theorem C19_missing_attribute : forall reg c sel root d, c_dynamic c = true ->
  tget (hd "" (split_dot sel)) (c_table c) = Some (root, d) -> follow root (tl (split_dot sel)) [] = None ->
  get_configurable reg c sel = DErr "AttributeError".
Proof. exact DynRegProofs.C19_missing_attribute. Qed.

(* ---- the exact object ---- *)
Theorem C19_exact_object : forall reg c sel reg' full rp, reg_wf reg -> c_dynamic c = true ->
  get_configurable reg c sel = DOk (reg', full, rp) ->
  (forall root d, tget (hd "" (split_dot sel)) (c_table c) = Some (root, d) -> class_ids_ok root = true) ->
  exists root d chain i e, tget (hd "" (split_dot sel)) (c_table c) = Some (root, d) /\
    follow root (tl (split_dot sel)) [] = Some chain /\ obj_id (last chain POther) = Some i /\
    find_sel full reg' = Some e /\ ce_obj e = i.
Proof. exact C19_exact_object_universe. Qed.
Theorem C19_exact_object_needs_distinct_ids :
    ~ (forall reg c sel reg' full rp, reg_wf reg -> c_dynamic c = true ->
         get_configurable reg c sel = DOk (reg', full, rp) ->
         exists root d chain i e, tget (hd "" (split_dot sel)) (c_table c) = Some (root, d) /\
           follow root (tl (split_dot sel)) [] = Some chain /\ obj_id (last chain POther) = Some i /\
           find_sel full reg' = Some e /\ ce_obj e = i).
Proof. exact Counterexamples.C19_exact_object_orig_refuted. Qed.

(* ---- spellings; the registry ---- *)
(* any object -- function, METHOD or class -- resolved through one spelling and then through another one: the second
   resolution hands back the same configurable and changes nothing (the first chain is not a method's, or carries
   distinct ids as every chain of a universe with class_ids_ok does) *)
Theorem C19_spelling_same_configurable : forall reg c1 c2 sel1 sel2 reg1 full1 rp1 reg2 full2 rp2 i,
  reg_wf reg -> c_dynamic c1 = true -> c_dynamic c2 = true ->
  get_configurable reg c1 sel1 = DOk (reg1, full1, rp1) ->
  (exists root d chain, tget (hd "" (split_dot sel1)) (c_table c1) = Some (root, d) /\ follow root (tl (split_dot sel1)) [] = Some chain /\
     obj_id (last chain POther) = Some i /\ (is_method_chain chain = false \/ distinct_ids chain = true)) ->
  get_configurable reg1 c2 sel2 = DOk (reg2, full2, rp2) ->
  (exists root d chain, tget (hd "" (split_dot sel2)) (c_table c2) = Some (root, d) /\ follow root (tl (split_dot sel2)) [] = Some chain /\
     obj_id (last chain POther) = Some i) ->
  full2 = full1 /\ reg2 = reg1.
Proof. exact DynRegProofs.C19_spelling_same_configurable. Qed.
(* F22 (repaired code): a class that is already registered, through whatever spelling, and is now reached as the parent of
   an unregistered method keeps its selector and import source; the method is registered under <class selector>.<name> *)
Theorem C19_class_keeps_selector_via_method : forall reg c sel reg' full rp root d chain leaf parent rest i cid ec,
  c_dynamic c = true -> get_configurable reg c sel = DOk (reg', full, rp) ->
  tget (hd "" (split_dot sel)) (c_table c) = Some (root, d) -> follow root (tl (split_dot sel)) [] = Some chain ->
  rev chain = leaf :: parent :: rest ->
  is_func leaf = true -> is_class parent = true -> obj_id leaf = Some i -> obj_id parent = Some cid -> i <> cid ->
  find_obj i reg = None -> find_obj cid reg = Some ec ->
  full = (ce_sel ec ++ "." ++ last (split_dot sel) "")%string /\
  (exists e', find_obj cid reg' = Some e' /\ ce_sel e' = ce_sel ec /\ ce_src e' = ce_src ec /\ ce_home e' = ce_home ec) /\
  (exists em, find_obj i reg' = Some em /\ ce_sel em = full).
Proof. exact DynRegProofs.C19_class_keeps_selector_via_method. Qed.
(* one configurable per object: after any sequence of parse calls (each with its own skip_unknown, failed or not) from
   a start in which no object is registered twice, no object has two registrations -- the inverse registry is a
   function -- and every registry entry's object maps back to that entry *)
Theorem C19_one_configurable_per_object : forall univ pre sr, one_per_obj pre -> reachable univ pre sr ->
  one_per_obj (ds_reg (fst sr)) /\
  (forall e, In e (ds_reg (fst sr)) -> find_obj (ce_obj e) (ds_reg (fst sr)) = Some e).
Proof. exact DynRegProofs2.C19_one_configurable_per_object. Qed.
Theorem C19_one_configurable_per_object_step : forall reg c sel reg' full rp, one_per_obj reg ->
  get_configurable reg c sel = DOk (reg', full, rp) -> one_per_obj reg'.
Proof. exact DynRegProofs2.get_configurable_one_per_obj. Qed.
(* the code before the repair (F22):  from pkgb import util / util.C.x = 1  then  import pkgb.util as u / u.C.meth.x = 5
   registered the class a second time, as pkgb.u.C: one class, two configurables *)
Theorem C19_orig_class_registered_twice :
  one_per_obj [] /\
  OrigRespelled.regs (get_configurable_orig [] OrigRespelled.c1 "util.C") = inl ([("pkgb.util.C", 1)], "pkgb.util.C") /\
  OrigRespelled.regs (get_configurable_orig (OrigRespelled.after1 get_configurable_orig) OrigRespelled.c2 "u.C.meth")
    = inl ([("pkgb.util.C", 1); ("pkgb.u.C", 1); ("pkgb.u.C.meth", 2)], "pkgb.u.C.meth") /\
  (forall reg full rp, get_configurable_orig (OrigRespelled.after1 get_configurable_orig) OrigRespelled.c2 "u.C.meth" = DOk (reg, full, rp) ->
     ~ one_per_obj reg) /\
  OrigRespelled.regs (get_configurable (OrigRespelled.after1 get_configurable) OrigRespelled.c2 "u.C.meth")
    = inl ([("pkgb.util.C", 1); ("pkgb.util.C.meth", 2)], "pkgb.util.C.meth").
Proof. exact OrigRespelled.C19_orig_class_registered_twice. Qed.
(* (F22b) ... and after  util.C.meth2.x = 7  the statement  u.C.meth.x = 5 , valid in its file, was rejected: the class's new
   registration pkgb.u.C is refused because meth2 is registered under pkgb.util.C *)
Theorem C19_orig_valid_method_statement_rejected :
  provides OrigRespelled.c2 "u.C.meth" = true /\
  OrigRespelled.regs (get_configurable_orig [] OrigRespelled.c1 "util.C.meth2")
    = inl ([("pkgb.util.C", 1); ("pkgb.util.C.meth2", 3)], "pkgb.util.C.meth2") /\
  OrigRespelled.regs (get_configurable_orig (OrigRespelled.after1m get_configurable_orig) OrigRespelled.c2 "u.C.meth") = inr "ValueError" /\
  OrigRespelled.regs (get_configurable (OrigRespelled.after1m get_configurable) OrigRespelled.c2 "u.C.meth")
    = inl ([("pkgb.util.C.meth2", 3); ("pkgb.util.C", 1); ("pkgb.util.C.meth", 2)], "pkgb.util.C.meth").
Proof. exact OrigRespelled.C19_orig_valid_method_statement_rejected. Qed.
Theorem C19_registry_stays_functional : forall reg c sel reg' full rp, reg_wf reg ->
  get_configurable reg c sel = DOk (reg', full, rp) -> reg_wf reg'.
Proof. exact get_configurable_wf. Qed.
Theorem C19_registry_monotone : forall reg c sel reg' full rp,
  get_configurable reg c sel = DOk (reg', full, rp) ->
  forall s e, find_sel s reg = Some e -> exists e', find_sel s reg' = Some e' /\ ce_obj e' = ce_obj e.
Proof. exact get_configurable_monotone_sel. Qed.

(* ---- existing references keep working ---- *)
Theorem C19_reference_survives_step : forall reg c sel reg' full rp r e, reg_wf reg ->
  find_sel r reg = Some e -> find_obj (ce_obj e) reg = Some e ->
  get_configurable reg c sel = DOk (reg', full, rp) ->
  exists e', find_sel (retarget1 rp r) reg' = Some e' /\ ce_obj e' = ce_obj e /\ find_obj (ce_obj e) reg' = Some e'.
Proof. exact DynRegProofs.C19_reference_survives_step. Qed.
Theorem C19_references_keep_working : forall univ stmts s refs s' refs' c' e,
  class_ids_ok (PMod univ) = true ->
  reg_wf (ds_reg s) -> refs_resolvable (ds_reg s) refs ->
  run_stmts univ stmts s refs empty_ctx = (s', refs', c', e) ->
  reg_wf (ds_reg s') /\ refs_resolvable (ds_reg s') refs'.
Proof. exact C19_references_keep_working_call. Qed.
Theorem C19_reference_object_preserved : forall univ stmts s refs c s' refs' c' e kp r e0,
  reg_wf (ds_reg s) -> In (kp, r) refs -> find_sel r (ds_reg s) = Some e0 ->
  (forall scope sel param v, In (DBind scope sel param v) stmts -> scope <> fst (fst kp) \/ param <> snd kp) ->
  run_stmts univ stmts s refs c = (s', refs', c', e) ->
  exists r' e', In (kp, r') refs' /\ find_sel r' (ds_reg s') = Some e' /\ ce_obj e' = ce_obj e0.
Proof. exact DynRegProofs.C19_reference_object_preserved. Qed.

(* ---- config_str re-aliases colliding bound names ---- *)
Theorem C19_header_names_unique : forall imports, List.length imports + 3 <= 10 ^ 20 ->
  NoDup (map bound_name (import_manager imports)).
Proof. exact import_manager_unique_names. Qed.

(* ---- config_str: the emitted header and selectors (Proofs/DynRegProofs2.v) ---- *)
(* the bound names of the emitted import statements are pairwise distinct, and none is the reserved name gin *)
Theorem C19_header_bound_names_unique : forall s refs, header_bound s refs ->
  NoDup (map bound_name (header_imports s refs)).
Proof. exact DynRegProofs2.C19_header_bound_names_unique. Qed.
Theorem C19_header_no_reserved_name : forall s refs, header_bound s refs -> dynamic_on s = true ->
  forall i, In i (header_imports s refs) -> bound_name i <> "gin".
Proof. exact DynRegProofs2.C19_header_no_reserved_name. Qed.
(* the enabling statement comes first, in its canonical form *)
Theorem C19_header_feature_first : forall s refs, dynamic_on s = true -> header_bound s refs -> canonical_feature s ->
  exists body, header_imports s refs = feature_stmt :: body /\
               forall i, In i body -> is_feature_module (i_module i) = false.
Proof. exact DynRegProofs2.C19_header_feature_first. Qed.
(* ... and for every state reached by parse calls the hypothesis canonical_feature holds *)
Theorem C19_header_feature_first_reachable : forall univ pre s refs, pget "__gin__" univ = None -> reg_src_ok pre ->
  reachable univ pre (s, refs) -> dynamic_on s = true -> header_bound s refs ->
  exists body, header_imports s refs = feature_stmt :: body /\
               forall i, In i body -> is_feature_module (i_module i) = false.
Proof. exact DynRegProofs2.C19_header_feature_first_reachable. Qed.
Theorem C19_reachable_canonical_feature : forall univ pre sr, pget "__gin__" univ = None -> reg_src_ok pre ->
  reachable univ pre sr -> canonical_feature (fst sr).
Proof. exact DynRegProofs2.reachable_canonical_feature. Qed.
(* every emitted selector denotes, in a fresh process that parses the emitted header, the object it was registered for *)
Theorem C19_emitted_selector_same_object : forall univ s refs sel e d rest leaf chain,
  dynamic_on s = true -> header_bound s refs -> aliases_ok s -> canonical_feature s ->
  header_importable univ (header_imports s refs) ->
  In sel (needed s refs) -> find_sel sel (ds_reg s) = Some e -> ce_src e = Some (d, rest) ->
  d_module d <> "__gin__.dynamic_registration" ->
  import_path univ (split_dot (d_module d)) = Some leaf ->
  follow leaf (split_dot rest) [] = Some chain -> obj_id (last chain POther) = Some (ce_obj e) ->
  exists c' root d' chain',
    process_all univ empty_ctx (header_imports s refs) = DOk c' /\
    tget (hd "" (split_dot (emitted_selector s refs sel))) (c_table c') = Some (root, d') /\
    follow root (tl (split_dot (emitted_selector s refs sel))) [] = Some chain' /\
    obj_id (last chain' POther) = Some (ce_obj e).
Proof. exact DynRegProofs2.C19_emitted_selector_same_object. Qed.
(* the import source recorded for a name denotes the very object the name denotes *)
Theorem C19_import_source_denotes : forall univ d0 leaf0 names chain d rest,
  import_path univ (split_dot (d_module d0)) = Some leaf0 ->
  hd "" names = d_bound_name d0 -> 2 <= List.length names ->
  (forall x, In x names -> contains_char dot x = false) ->
  follow (bound_obj univ (to_simport d0) leaf0) (tl names) [] = Some chain ->
  import_source d0 names = (d, rest) ->
  exists leaf chain', import_path univ (split_dot (d_module d)) = Some leaf /\
    follow leaf (split_dot rest) [] = Some chain' /\ last chain' POther = last chain POther.
Proof. exact DynRegProofs2.import_source_denotes. Qed.
(* non-vacuity: two modules imported under the same name *)
Theorem C19_colliding_names_realiased : Example.report =
  (["from __gin__ import dynamic_registration"; "from pkga import util"; "from pkgb import util as util2"],
   [("pkga.util.f", Some 1, "util.f", Some 1); ("pkgb.util.g", Some 2, "util2.g", Some 2)]).
Proof. exact Example.colliding_names_realiased. Qed.
(* the code before the repair: the emitted header could not be parsed back *)
Theorem C19_orig_header_not_reparsable_uppercase_module :
  snd (parse_call Findings.univ_Z Findings.file_Z Example.init) = ONone /\
  map import_format (header_imports_orig Findings.s_Z []) = ["import Zmod"; "from __gin__ import dynamic_registration"] /\
  process_all Findings.univ_Z empty_ctx (header_imports_orig Findings.s_Z []) = DErr "SyntaxError".
Proof. exact Findings.C19_orig_header_not_reparsable_uppercase_module. Qed.
Theorem C19_orig_header_not_reparsable_reserved_gin :
  snd (parse_call Findings.univ_G Findings.file_G1 Example.init) = ONone /\
  snd (parse_call Findings.univ_G Findings.file_G2 (fst (parse_call Findings.univ_G Findings.file_G1 Example.init))) = ONone /\
  map import_format (header_imports_orig Findings.s_G []) = ["from __gin__ import dynamic_registration"; "import gin.config"; "import m"] /\
  process_all Findings.univ_G empty_ctx (header_imports_orig Findings.s_G []) = DErr "ValueError".
Proof. exact Findings.C19_orig_header_not_reparsable_reserved_gin. Qed.

Theorem C19_orig_feature_statement_realiased :
  snd (parse_call Findings.univ_P Findings.file_P Example.init) = ONone /\
  map import_format (header_imports_addorig Findings.s_P []) =
    ["from __gin__ import dynamic_registration as dynamic_registration2"; "from Pkg import dynamic_registration"] /\
  process_all Findings.univ_P empty_ctx (header_imports_addorig Findings.s_P []) = DErr "SyntaxError" /\
  process_all Findings.univ_P empty_ctx (header_imports_orig Findings.s_P []) = DErr "SyntaxError".
Proof. exact Findings.C19_orig_feature_statement_realiased. Qed.

(* ---- recorded imports (_IMPORTS): repaired parse_config records an import as soon as it took effect ---- *)
(* what a parse call records, failed or not: what was recorded before and the imports of the context the run ended in *)
Theorem C19_parse_call_imports_exact : forall univ sk stmts s refs s' refs' c' e,
  run_stmts_sk should_skip_dyn univ sk stmts s refs empty_ctx = (s', refs', c', e) ->
  forall d, In d (ds_imports (fst (fst (parse_call_sk univ sk stmts (s, refs))))) <-> In d (ds_imports s) \/ In d (c_imports c').
Proof. exact DynRegProofs2.parse_call_sk_imports_exact. Qed.
(* the imports of every successfully processed prefix of a text are recorded, whatever the statements after it do *)
Theorem C19_effective_imports_recorded : forall univ sk pre post s refs s1 refs1 c1,
  run_stmts_sk should_skip_dyn univ sk pre s refs empty_ctx = (s1, refs1, c1, None) ->
  forall d, In d (c_imports c1) -> In d (ds_imports (fst (fst (parse_call_sk univ sk (pre ++ post) (s, refs))))).
Proof. exact DynRegProofs2.C19_effective_imports_recorded. Qed.
Theorem C19_recorded_imports_kept : forall univ sk stmts sr d,
  In d (ds_imports (fst sr)) -> In d (ds_imports (fst (fst (parse_call_sk univ sk stmts sr)))).
Proof. exact DynRegProofs2.C19_recorded_imports_kept. Qed.
(* the code before the repair (imports recorded once, after the last statement):
   from __gin__ import dynamic_registration / import dmod / nosuch.fn.x = 1  fails with NameError having recorded nothing *)
Theorem C19_orig_failed_parse_loses_imports :
  OrigImports.obs (parse_call_sk_orig OrigImports.univ DSkFalse OrigImports.stmts OrigImports.init) = ([], OErr "NameError") /\
  OrigImports.obs (parse_call_orig OrigImports.univ OrigImports.stmts OrigImports.init) = ([], OErr "NameError") /\
  OrigImports.obs (parse_call_sk OrigImports.univ DSkFalse OrigImports.stmts OrigImports.init)
    = ([OrigImports.feat; OrigImports.imp_dmod], OErr "NameError") /\
  OrigImports.obs (parse_call OrigImports.univ OrigImports.stmts OrigImports.init)
    = ([OrigImports.feat; OrigImports.imp_dmod], OErr "NameError") /\
  (let '(_, _, c, e) := run_stmts_sk should_skip_dyn OrigImports.univ DSkFalse [DImport OrigImports.feat; DImport OrigImports.imp_dmod]
                          (fst OrigImports.init) (snd OrigImports.init) empty_ctx in
   (c_imports c, e)) = ([OrigImports.feat; OrigImports.imp_dmod], None).
Proof. exact OrigImports.C19_orig_failed_parse_loses_imports. Qed.

(* ---- skip_unknown under dynamic registration (Proofs/DynRegSkip.v) ---- *)
(* skip_unknown=False is the plain parse; resolving a reference first and then running its binding is running the binding *)
Theorem C19_get_configurable_idempotent : forall reg c sel reg1 full rp, ids_ok_for c sel ->
  get_configurable reg c sel = DOk (reg1, full, rp) -> get_configurable reg1 c sel = DOk (reg1, full, []).
Proof. exact DynRegSkip.get_configurable_idempotent. Qed.
Theorem C19_reference_two_phase : forall univ scope sel param scopes rsel s refs c, ids_ok_for c rsel ->
  run_stmts univ [DBind scope sel param (DRef scopes rsel)] s refs c =
  then_run (run_stmts univ [DBlock "" rsel] s refs c) (run_stmts univ [DBind scope sel param (DRef scopes rsel)]).
Proof. exact DynRegSkip.reference_two_phase. Qed.
Theorem C19_run_stmts_sk_false : forall skipf univ, (forall reg c sel, skipf DSkFalse reg c sel = false) ->
  forall stmts s refs c, class_ids_ok (PMod univ) = true -> table_ok c ->
  run_stmts_sk skipf univ DSkFalse stmts s refs c = run_stmts univ stmts s refs c.
Proof. exact DynRegSkip.run_stmts_sk_false. Qed.
Theorem C19_parse_call_sk_false : forall univ stmts sr, class_ids_ok (PMod univ) = true ->
  parse_call_sk univ DSkFalse stmts sr = parse_call univ stmts sr.
Proof. exact DynRegSkip.parse_call_sk_false. Qed.
(* the invariants of a parse hold with skip_unknown as well *)
Theorem C19_references_keep_working_sk : forall skipf univ sk stmts s refs c s' refs' c' e,
  class_ids_ok (PMod univ) = true -> table_ok c -> reg_wf (ds_reg s) -> refs_resolvable (ds_reg s) refs ->
  run_stmts_sk skipf univ sk stmts s refs c = (s', refs', c', e) ->
  reg_wf (ds_reg s') /\ refs_resolvable (ds_reg s') refs'.
Proof. exact DynRegSkip.C19_references_keep_working_sk. Qed.
Theorem C19_reference_object_preserved_sk : forall skipf univ sk stmts s refs c s' refs' c' e kp r e0,
  reg_wf (ds_reg s) -> In (kp, r) refs -> find_sel r (ds_reg s) = Some e0 ->
  (forall scope sel param v, In (DBind scope sel param v) stmts -> scope <> fst (fst kp) \/ param <> snd kp) ->
  run_stmts_sk skipf univ sk stmts s refs c = (s', refs', c', e) ->
  exists r' e', In (kp, r') refs' /\ find_sel r' (ds_reg s') = Some e' /\ ce_obj e' = ce_obj e0.
Proof. exact DynRegSkip.C19_reference_object_preserved_sk. Qed.
Theorem C19_table_from_own_imports_sk : forall skipf univ sk stmts s refs s' refs' c' e n v,
  run_stmts_sk skipf univ sk stmts s refs empty_ctx = (s', refs', c', e) -> tget n (c_table c') = Some v ->
  exists d, In (DImport d) stmts /\ d_bound_name d = n /\ snd v = d.
Proof. exact DynRegSkip.C19_table_from_own_imports_sk. Qed.
Theorem C19_isolation_sk : forall skipf univ sk stmts s1 refs1 s2 refs2 s1' r1' c1 e1 s2' r2' c2 e2,
  ds_reg s1 = ds_reg s2 ->
  run_stmts_sk skipf univ sk stmts s1 refs1 empty_ctx = (s1', r1', c1, e1) ->
  run_stmts_sk skipf univ sk stmts s2 refs2 empty_ctx = (s2', r2', c2, e2) ->
  c_table c1 = c_table c2 /\ e1 = e2 /\ ds_reg s1' = ds_reg s2'.
Proof. exact DynRegSkip.C19_isolation_sk. Qed.
(* the skip decision *)
Theorem C15_dyn_provided_never_skipped : forall c sel, provides c sel = true ->
  forall sk reg, should_skip_dyn sk reg c sel = false.
Proof. exact DynRegSkip.C15_dyn_provided_never_skipped. Qed.
(* "known": under dynamic registration, provided by the file's own imports and nothing else (independent of what was
   parsed before); without it, matched by the registry *)
Theorem C15_dyn_known_is_provided : forall reg c sel, c_dynamic c = true -> known_dyn reg c sel = provides c sel.
Proof. exact DynRegSkip.C15_dyn_known_is_provided. Qed.
Theorem C15_static_known_is_registered : forall reg c sel, c_dynamic c = false -> known_dyn reg c sel = reg_matches reg sel.
Proof. exact DynRegSkip.C15_static_known_is_registered. Qed.
Theorem C15_dyn_registered_never_skipped : forall reg sel c, c_dynamic c = false -> reg_matches reg sel = true ->
  forall sk, should_skip_dyn sk reg c sel = false.
Proof. exact DynRegSkip.C15_dyn_registered_never_skipped. Qed.
Theorem C15_dyn_unprovided_skip_decision : forall c sel, c_dynamic c = true -> provides c sel = false ->
  forall sk reg, should_skip_dyn sk reg c sel = dsk_covers sk sel.
Proof. exact DynRegSkip.C15_dyn_unprovided_skip_decision. Qed.
Theorem C15_dyn_registered_unprovided_skipped : forall reg c sel sk, c_dynamic c = true -> reg_matches reg sel = true ->
  provides c sel = false -> dsk_covers sk sel = true -> should_skip_dyn sk reg c sel = true.
Proof. exact DynRegSkip.C15_dyn_registered_unprovided_skipped. Qed.
Theorem C15_dyn_known_independent_of_registry : forall sk reg1 reg2 c sel, c_dynamic c = true ->
  should_skip_dyn sk reg1 c sel = should_skip_dyn sk reg2 c sel.
Proof. exact DynRegSkip.C15_dyn_known_independent_of_registry. Qed.
Theorem C15_dyn_skip_decision_full : forall sk reg c sel,
  should_skip_dyn sk reg c sel = negb (if c_dynamic c then provides c sel else reg_matches reg sel) && dsk_covers sk sel.
Proof. exact DynRegSkip.C15_dyn_skip_decision_full. Qed.
Theorem C15_dyn_skip_decision : forall sk reg c sel, reg_matches reg sel = false -> provides c sel = false ->
  should_skip_dyn sk reg c sel = dsk_covers sk sel.
Proof. exact DynRegSkip.C15_dyn_skip_decision. Qed.
Theorem C15_dyn_skipped_block_dropped : forall skipf univ sk scope sel rest s refs c, skipf sk (ds_reg s) c sel = true ->
  run_stmts_sk skipf univ sk (DBlock scope sel :: rest) s refs c = run_stmts_sk skipf univ sk rest s refs c.
Proof. exact DynRegSkip.C15_dyn_skipped_block_dropped. Qed.
Theorem C15_dyn_skipped_binding_dropped : forall skipf univ sk scope sel param z rest s refs c, skipf sk (ds_reg s) c sel = true ->
  run_stmts_sk skipf univ sk (DBind scope sel param (DVal z) :: rest) s refs c = run_stmts_sk skipf univ sk rest s refs c.
Proof. exact DynRegSkip.C15_dyn_skipped_binding_dropped. Qed.
Theorem C15_dyn_skipped_ref_binding_dropped : forall skipf univ sk scope sel param scopes rsel rest s refs c s1 refs1 c1,
  skipf sk (ds_reg s) c rsel = false ->
  run_stmts univ [DBlock "" rsel] s refs c = (s1, refs1, c1, None) -> skipf sk (ds_reg s1) c1 sel = true ->
  run_stmts_sk skipf univ sk (DBind scope sel param (DRef scopes rsel) :: rest) s refs c = run_stmts_sk skipf univ sk rest s1 refs1 c1.
Proof. exact DynRegSkip.C15_dyn_skipped_ref_binding_dropped. Qed.
(* a reference to a name that is itself skipped is a placeholder: nothing is resolved or registered for it *)
Theorem C15_dyn_placeholder_binding : forall skipf univ sk scope sel param scopes rsel rest s refs c,
  skipf sk (ds_reg s) c rsel = true -> skipf sk (ds_reg s) c sel = false ->
  run_stmts_sk skipf univ sk (DBind scope sel param (DRef scopes rsel) :: rest) s refs c =
  then_run (run_stmts univ [DBind scope sel param (DVal 0)] s refs c) (run_stmts_sk skipf univ sk rest).
Proof. exact DynRegSkip.C15_dyn_placeholder_binding. Qed.
Theorem C15_dyn_placeholder_binding_dropped : forall skipf univ sk scope sel param scopes rsel rest s refs c,
  skipf sk (ds_reg s) c rsel = true -> skipf sk (ds_reg s) c sel = true ->
  run_stmts_sk skipf univ sk (DBind scope sel param (DRef scopes rsel) :: rest) s refs c = run_stmts_sk skipf univ sk rest s refs c.
Proof. exact DynRegSkip.C15_dyn_placeholder_binding_dropped. Qed.
Theorem C15_dyn_placeholder_registers_nothing : forall skipf univ sk scope sel param scopes rsel s refs c,
  skipf sk (ds_reg s) c rsel = true -> skipf sk (ds_reg s) c sel = false ->
  run_stmts_sk skipf univ sk [DBind scope sel param (DRef scopes rsel)] s refs c =
  run_stmts univ [DBind scope sel param (DVal 0)] s refs c.
Proof. exact DynRegSkip.C15_dyn_placeholder_registers_nothing. Qed.
(* a reference to a name the file's own imports provide is never a placeholder: it is resolved *)
Theorem C15_dyn_provided_reference_resolved : forall univ sk scope sel param scopes rsel rest s refs c,
  provides c rsel = true ->
  run_stmts_sk should_skip_dyn univ sk (DBind scope sel param (DRef scopes rsel) :: rest) s refs c =
  then_run (run_stmts univ [DBlock "" rsel] s refs c)
    (fun s1 refs1 c1 =>
       if should_skip_dyn sk (ds_reg s1) c1 sel then run_stmts_sk should_skip_dyn univ sk rest s1 refs1 c1
       else then_run (run_stmts univ [DBind scope sel param (DRef scopes rsel)] s1 refs1 c1)
                     (run_stmts_sk should_skip_dyn univ sk rest)).
Proof. exact DynRegSkip.C15_dyn_provided_reference_resolved. Qed.
Theorem C15_dyn_missing_import_dropped : forall skipf univ sk d rest s refs c, dsk_truthy sk = true ->
  process_import univ c d = DErr "ModuleNotFoundError" ->
  run_stmts_sk skipf univ sk (DImport d :: rest) s refs c = run_stmts_sk skipf univ sk rest s refs c.
Proof. exact DynRegSkip.C15_dyn_missing_import_dropped. Qed.
Theorem C15_dyn_known_targets_skip_irrelevant : forall univ sk stmts s refs c, class_ids_ok (PMod univ) = true -> table_ok c ->
  all_known_dyn univ sk stmts s refs c = true ->
  run_stmts_sk should_skip_dyn univ sk stmts s refs c = run_stmts univ stmts s refs c.
Proof. exact DynRegSkip.C15_dyn_known_targets_skip_irrelevant. Qed.
(* the code before the repair dropped a binding whose target the file's own imports provide *)
Theorem C15_dyn_orig_drops_provided_binding :
  DynSkipExample.summary (run_stmts_sk should_skip_dyn_orig DynSkipExample.univ DSkTrue DynSkipExample.stmts DynSkipExample.s0 [] empty_ctx) = ([], [], None) /\
  DynSkipExample.summary (run_stmts_sk should_skip_dyn DynSkipExample.univ DSkTrue DynSkipExample.stmts DynSkipExample.s0 [] empty_ctx)
    = (["dmod.fn"], [(("", "dmod.fn"), [("x", 1%Z)])], None) /\
  run_stmts_sk should_skip_dyn DynSkipExample.univ DSkTrue DynSkipExample.stmts DynSkipExample.s0 [] empty_ctx
    = run_stmts DynSkipExample.univ DynSkipExample.stmts DynSkipExample.s0 [] empty_ctx /\
  all_known_dyn DynSkipExample.univ DSkTrue DynSkipExample.stmts DynSkipExample.s0 [] empty_ctx = true.
Proof. exact DynSkipExample.C15_dyn_orig_drops_provided_binding. Qed.
(* the code between the two repairs did not skip a name the file's imports do not provide when something else had
   registered that spelling: NameError, and an outcome that depended on what was parsed before *)
Theorem C15_dyn_orig_registered_spelling_not_skipped :
  c_dynamic DynSkipExample2.ctx2 = true /\ provides DynSkipExample2.ctx2 "other.g" = false /\
  reg_matches (ds_reg DynSkipExample2.s_reg) "other.g" = true /\ dsk_covers DSkTrue "other.g" = true /\
  should_skip_dyn_orig2 DSkTrue (ds_reg DynSkipExample2.s_reg) DynSkipExample2.ctx2 "other.g" = false /\
  DynSkipExample.summary (run_stmts_sk should_skip_dyn_orig2 DynSkipExample2.univ2 DSkTrue DynSkipExample2.stmts2 DynSkipExample2.s_reg [] empty_ctx)
    = (["other.g"], [], Some "NameError") /\
  DynSkipExample.summary (run_stmts_sk should_skip_dyn_orig2 DynSkipExample2.univ2 DSkTrue DynSkipExample2.stmts2 DynSkipExample.s0 [] empty_ctx)
    = (["dmod.fn"], [(("", "dmod.fn"), [("x", 1%Z)])], None) /\
  should_skip_dyn DSkTrue (ds_reg DynSkipExample2.s_reg) DynSkipExample2.ctx2 "other.g" = true /\
  DynSkipExample.summary (run_stmts_sk should_skip_dyn DynSkipExample2.univ2 DSkTrue DynSkipExample2.stmts2 DynSkipExample2.s_reg [] empty_ctx)
    = (["other.g"; "dmod.fn"], [(("", "dmod.fn"), [("x", 1%Z)])], None) /\
  DynSkipExample.summary (run_stmts_sk should_skip_dyn DynSkipExample2.univ2 DSkTrue DynSkipExample2.stmts2 DynSkipExample.s0 [] empty_ctx)
    = (["dmod.fn"], [(("", "dmod.fn"), [("x", 1%Z)])], None).
Proof. exact DynSkipExample2.C15_dyn_orig_registered_spelling_not_skipped. Qed.

(* F37 (repaired code): the header under dynamic registration reads the recorded imports (_IMPORTS, a set in the
   implementation) only through the sorted list of statements and the test for the enabling statement: it depends on
   them up to permutation only.  (The empty alias, which the parser cannot produce, is excluded.) *)
Theorem C19_header_import_order_independent : forall s1 s2 refs,
  ds_reg s1 = ds_reg s2 -> ds_store s1 = ds_store s2 ->
  Permutation (ds_imports s1) (ds_imports s2) ->
  Forall (fun d => d_alias d <> Some "") (ds_imports s1) ->
  config_header s1 refs = config_header s2 refs.
Proof. exact config_header_import_order_independent. Qed.

Print Assumptions C19_header_import_order_independent.
Print Assumptions C19_unprovided_name.
Print Assumptions C19_reserved_gin.
Print Assumptions C19_late_enabling.
Print Assumptions C19_aliased_enabling.
Print Assumptions C19_existing_object_reused.
Print Assumptions C19_import_binds.
Print Assumptions C19_missing_module.
Print Assumptions C19_unknown_feature.
Print Assumptions C19_table_from_own_imports.
Print Assumptions C19_isolation.
Print Assumptions C19_static_file_has_empty_table.
Print Assumptions C19_missing_attribute.
Print Assumptions C19_exact_object.
Print Assumptions C19_exact_object_needs_distinct_ids.
Print Assumptions C19_spelling_same_configurable.
Print Assumptions C19_class_keeps_selector_via_method.
Print Assumptions C19_one_configurable_per_object.
Print Assumptions C19_one_configurable_per_object_step.
Print Assumptions C19_orig_class_registered_twice.
Print Assumptions C19_orig_valid_method_statement_rejected.
Print Assumptions C19_registry_stays_functional.
Print Assumptions C19_registry_monotone.
Print Assumptions C19_reference_survives_step.
Print Assumptions C19_references_keep_working.
Print Assumptions C19_reference_object_preserved.
Print Assumptions C19_header_names_unique.
Print Assumptions C19_header_bound_names_unique.
Print Assumptions C19_header_no_reserved_name.
Print Assumptions C19_header_feature_first.
Print Assumptions C19_emitted_selector_same_object.
Print Assumptions C19_import_source_denotes.
Print Assumptions C19_colliding_names_realiased.
Print Assumptions C19_orig_header_not_reparsable_uppercase_module.
Print Assumptions C19_orig_header_not_reparsable_reserved_gin.
Print Assumptions C19_header_feature_first_reachable.
Print Assumptions C19_reachable_canonical_feature.
Print Assumptions C19_orig_feature_statement_realiased.
Print Assumptions C19_get_configurable_idempotent.
Print Assumptions C19_reference_two_phase.
Print Assumptions C19_run_stmts_sk_false.
Print Assumptions C19_parse_call_sk_false.
Print Assumptions C19_references_keep_working_sk.
Print Assumptions C19_reference_object_preserved_sk.
Print Assumptions C19_table_from_own_imports_sk.
Print Assumptions C19_isolation_sk.
Print Assumptions C15_dyn_provided_never_skipped.
Print Assumptions C15_dyn_registered_never_skipped.
Print Assumptions C15_dyn_skip_decision.
Print Assumptions C15_dyn_skip_decision_full.
Print Assumptions C15_dyn_known_is_provided.
Print Assumptions C15_static_known_is_registered.
Print Assumptions C15_dyn_unprovided_skip_decision.
Print Assumptions C15_dyn_registered_unprovided_skipped.
Print Assumptions C15_dyn_known_independent_of_registry.
Print Assumptions C15_dyn_orig_registered_spelling_not_skipped.
Print Assumptions C15_dyn_skipped_block_dropped.
Print Assumptions C15_dyn_skipped_binding_dropped.
Print Assumptions C15_dyn_skipped_ref_binding_dropped.
Print Assumptions C15_dyn_missing_import_dropped.
Print Assumptions C15_dyn_known_targets_skip_irrelevant.
Print Assumptions C15_dyn_orig_drops_provided_binding.
Print Assumptions C15_dyn_placeholder_binding.
Print Assumptions C15_dyn_placeholder_binding_dropped.
Print Assumptions C15_dyn_placeholder_registers_nothing.
Print Assumptions C15_dyn_provided_reference_resolved.
Print Assumptions C19_parse_call_imports_exact.
Print Assumptions C19_effective_imports_recorded.
Print Assumptions C19_recorded_imports_kept.
Print Assumptions C19_orig_failed_parse_loses_imports.
