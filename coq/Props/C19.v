(* C19 — dynamic registration resolves names through the file's own imports.
   Proved so far: the elementary facts below; the resolution / isolation theorems are carried by the
   correspondence engine dynreg (translation validation). *)
From Coq Require Import List String ZArith Bool Arith.
From GinV Require Import Lib.Out Lib.PyStr Model.SelectorMap Model.Serial Model.DynReg.
Import ListNotations.
Open Scope string_scope.
Open Scope list_scope.

(* a name whose first component the file's own imports do not provide is a NameError, whatever is registered *)
Theorem C19_unprovided_name : forall reg c sel, c_dynamic c = true -> tget (hd "" (split_dot sel)) (c_table c) = None ->
  get_configurable reg c sel = DErr "NameError".
Proof. intros reg c sel Hd Ht. unfold get_configurable. rewrite Hd. cbn [negb]. rewrite Ht. reflexivity. Qed.

(* the reserved name gin, a late or aliased enabling statement and unknown features are errors *)
Theorem C19_reserved_gin : forall univ c d leaf, c_dynamic c = true ->
  (d_from d && String.prefix gin_feature_prefix (d_module d)) = false ->
  import_path univ (split_dot (d_module d)) = Some leaf -> d_bound_name d = "gin" ->
  process_import univ c d = DErr "ValueError".
Proof.
  intros univ c d leaf Hd Hf Hi Hb. unfold process_import. rewrite Hf, Hi, Hd, Hb. reflexivity.
Qed.
Theorem C19_late_enabling : forall univ c x r, c_imports c = x :: r ->
  process_import univ c {| d_module := "__gin__.dynamic_registration"; d_from := true; d_alias := None |} = DErr "SyntaxError".
Proof. intros univ c x r H. unfold process_import. cbn. rewrite H. reflexivity. Qed.
Theorem C19_aliased_enabling : forall univ c a,
  process_import univ c {| d_module := "__gin__.dynamic_registration"; d_from := true; d_alias := Some a |} = DErr "SyntaxError".
Proof. reflexivity. Qed.

(* an object already registered (through whatever spelling) is found through the inverse registry: no second
   registration of a function happens *)
Theorem C19_existing_object_reused : forall reg c sel root d chain i e, c_dynamic c = true ->
  tget (hd "" (split_dot sel)) (c_table c) = Some (root, d) -> follow root (tl (split_dot sel)) [] = Some chain ->
  obj_id (last chain POther) = Some i -> find_obj i reg = Some e ->
  get_configurable reg c sel = DOk (reg, ce_sel e, []).

Proof.
  intros reg c sel root d chain i e Hd Ht Hf Ho He. unfold get_configurable. rewrite Hd. cbn [negb].
  rewrite Ht, Hf, Ho, He. reflexivity.
Qed.

Print Assumptions C19_unprovided_name.
Print Assumptions C19_reserved_gin.
Print Assumptions C19_late_enabling.
Print Assumptions C19_aliased_enabling.
Print Assumptions C19_existing_object_reused.
