(* END TO END, FROM CHARACTERS: the text gin.config_str() returns (Model/ConfigText.v: [config_text], assembled as
   gin/config.py:_config_str assembles it -- comment lines, empty strings, format_binding(key, value) with
   pprint.pformat of the value tree (Model/PPrint.v) -- compared character for character with the real gin by
   harness_new/config_text_corr.py) is read by gin's own reader -- CPython's tokenizer (Model/Lexer.v) and ConfigParser
   (Model/Parser.v) -- as exactly the emitted bindings, with their line numbers, and nothing else.
   Statements only; proofs in Proofs/ConfigTextProofs.v.
   Class: no recorded imports, static registration; values are literal trees (Model/Repr.v) or opaque (omitted);
   the restrictions of Model/PPrint.v (no split strings, ASCII, dict items in pprint's order).
   [item_ok o it], asked of every element of formatted_statements ([config_items]):
     a comment begins with "#" and has no newline;
     a binding key = value:  the key, cut at "/" and ".", is a well-formed written name ([wf_name (key_parts key)]:
     identifiers separated by "/" and ".", accepted by ConfigParser's selector format check); the atoms of the value
     mean something to the oracle ([atoms_ok]), are lexable ([atom_lexable]), contain no newline; at most 200 nested
     brackets; the oracle gives no value to "-" followed by a string literal ([str_neg_ok]: ast.literal_eval has none). *)
From Coq Require Import List String ZArith Bool Arith Ascii.
From GinV Require Import Lib.Out Lib.PyStr Model.Parser Model.ParserSpec Model.ParserSpec2 Model.Repr Model.ReprText Model.Lexer.
From GinV Require Import Model.PPrint Model.Serial Model.ConfigText.
From GinV Require Import Proofs.ParserSound Proofs.ReprProofs Proofs.ReprTextProofs Proofs.PPrintProofs Proofs.ConfigTextProofs.
Import ListNotations.
Open Scope string_scope.
Open Scope list_scope.

(* ------------------------------------------------------------------ *)
(* MAIN: lexing and parsing the characters of config_text yields the statements [expected_stmts]: one SBind per
   emitted binding -- macros first, then the sections -- with the scope / selector / parameter that
   parse_binding_key cuts the written key into, the value the tree denotes, and the line the key stands on;
   no error, for every sufficient fuel *)
Theorem ConfigText_reads_back : forall o registry entries maxlen indent,
  Forall (item_ok o) (config_items registry entries maxlen) ->
  supported (config_text registry entries maxlen indent) = true ->
  exists ts, lex (config_text registry entries maxlen indent) = Some ts /\
    exists fuel0, forall fuel, fuel0 <= fuel ->
      parse_all fuel o false ts [] = (expected_stmts o registry entries maxlen indent, None).
Proof. exact config_text_reads_back. Qed.
(* the same for any list of items followed by the final empty string *)
Theorem ConfigText_items_read_back : forall o maxlen indent its,
  Forall (item_ok o) its -> supported (items_text maxlen indent (its ++ [CBlank])) = true ->
  exists ts, lex (items_text maxlen indent (its ++ [CBlank])) = Some ts /\
    exists fuel0, forall fuel, fuel0 <= fuel ->
      parse_all fuel o false ts [] = (items_stmts o maxlen indent (its ++ [CBlank]) 1, None).
Proof. exact items_text_reads_back. Qed.
(* the text is empty or ends with a newline: formatted_statements is empty or ends with '' *)
Theorem ConfigText_items_end_blank : forall registry entries maxlen,
  config_items registry entries maxlen = [] \/ exists l, config_items registry entries maxlen = l ++ [CBlank].
Proof. exact config_items_ends_blank. Qed.

(* ------------------------------------------------------------------ *)
(* ONE BINDING in either form of format_binding (one line; key = \ and the indented value on continuation lines):
   from the start of line [row], the characters and the newline behind them are lexed into the canonical name tokens of
   the key (exact positions), an "=" token, value tokens agreeing in type and text with a rendering of the value's
   literal tree in a layout of NL tokens, and the NEWLINE token; the backslash-newline yields no token; the tokenizer
   is then at the start of the line after the binding, outside every bracket and block *)
Theorem ConfigText_binding_lexes : forall o maxlen indent key v row R, bind_ok o key v ->
  exists eqt vtoks nlt x, denote o v = Some x /\
    tk_ok o (TKBind row (key_parts key) eqt vtoks nlt x) /\
    Forall (Qtok o) (tk_tokens (TKBind row (key_parts key) eqt vtoks nlt x)) /\
    Steps false (bol_st row) (list_ascii_of_string (PPrint.format_binding maxlen indent key v) ++ nl :: R)
          (name_tokens row 0 (key_parts key) true ++ eqt :: vtoks ++ [nlt])
          (bol_st (row + S (count_nl (PPrint.format_binding maxlen indent key v)))) R.
Proof. exact binding_lexes. Qed.
(* a comment line, an empty line *)
Theorem ConfigText_comment_line_lexes : forall row body r, nl_free body ->
  step false (bol_st row) ("#"%char :: body ++ nl :: r) =
  Next [mk COMMENT ("#"%char :: body) (row, 0); mk_nl NL false r (pos_after (row, 0) ("#"%char :: body))] (bol_st (S row)) r.
Proof. exact step_comment_line. Qed.
Theorem ConfigText_blank_line_lexes : forall row r,
  step false (bol_st row) (nl :: r) = Next [mk_nl NL false r (row, 0)] (bol_st (S row)) r.
Proof. exact step_blank_line. Qed.

(* ------------------------------------------------------------------ *)
(* TOKEN LEVEL: a stream of trivia and flat bindings whose key tokens are canonical, whose "=" and NEWLINE tokens are
   any tokens of that kind and whose value tokens agree in type and text with a rendering, is parsed into those bindings
   (the real-token counterpart of C03_roundtrip_all for flat bindings; [lit_tok]: the side condition of C02 soundness) *)
Theorem ConfigText_tokens_parse : forall o eof, ty eof = ENDMARKER ->
  forall its, Forall (tk_ok o) its -> forall lead pending prev acc fuel,
  Forall lead_tok lead -> Forall (lit_tok o) (tk_render its ++ [eof]) -> List.length its < fuel ->
  parse_all fuel o pending (pend pending prev (lead ++ tk_render its ++ [eof])) acc = (acc ++ flat_map tk_stmts its, None).
Proof. exact tk_parse_all. Qed.

(* ------------------------------------------------------------------ *)
(* non-vacuity: a macro, a scoped section with a one-line binding, a continuation-form binding and an opaque value,
   and a section that prints "# None."; the text is what gin.config_str(24, 4) returns for this store *)
Example ConfigText_ex_text : config_text ct_ex_registry ct_ex_entries 24 4 =
"# Macros:
# ======================
mm = 3

# Parameters for a/b/f:
# ======================
a/b/f.lr = -1
a/b/f.x = \
    {3: 'ab',
     'k': [-1,
           (2,),
           {'x': [1.5,
                  None,
                  True]}],
     'key2': (10,
              20,
              30)}

# Parameters for h:
# ======================
# None.
".
Proof. exact ct_ex_text. Qed.
Example ConfigText_ex_expected : expected_stmts pp_ex_oracle ct_ex_registry ct_ex_entries 24 4 =
  [SBind "" "mm" "" (OT "int" [OS "3"]) 3; SBind "a/b" "f" "lr" (OT "int" [OS "-1"]) 7; SBind "a/b" "f" "x" pp_ex_out 8].
Proof. exact ct_ex_expected. Qed.
Example ConfigText_ex_bindings : expected_bindings pp_ex_oracle ct_ex_registry ct_ex_entries =
  [("", "mm", "", Some (OT "int" [OS "3"])); ("a/b", "f", "lr", Some (OT "int" [OS "-1"])); ("a/b", "f", "x", Some pp_ex_out)].
Proof. exact ct_ex_bindings. Qed.
Example ConfigText_ex_items_ok : Forall (item_ok pp_ex_oracle) (config_items ct_ex_registry ct_ex_entries 24).
Proof. exact ct_ex_items_ok. Qed.
Example ConfigText_ex_reads_back_computes :
  option_map (fun ts => parse_all 10 pp_ex_oracle false ts []) (lex (config_text ct_ex_registry ct_ex_entries 24 4)) =
  Some (expected_stmts pp_ex_oracle ct_ex_registry ct_ex_entries 24 4, None).
Proof. exact ct_ex_reads_back_computes. Qed.
Example ConfigText_ex_reads_back_applies :
  exists ts, lex (config_text ct_ex_registry ct_ex_entries 24 4) = Some ts /\
    exists fuel0, forall fuel, fuel0 <= fuel ->
      parse_all fuel pp_ex_oracle false ts [] =
      ([SBind "" "mm" "" (OT "int" [OS "3"]) 3; SBind "a/b" "f" "lr" (OT "int" [OS "-1"]) 7; SBind "a/b" "f" "x" pp_ex_out 8], None).
Proof.
  rewrite <- ConfigText_ex_expected. apply ConfigText_reads_back; [exact ConfigText_ex_items_ok | vm_compute; reflexivity].
Qed.

Print Assumptions ConfigText_reads_back.
Print Assumptions ConfigText_items_read_back.
Print Assumptions ConfigText_items_end_blank.
Print Assumptions ConfigText_binding_lexes.
Print Assumptions ConfigText_comment_line_lexes.
Print Assumptions ConfigText_blank_line_lexes.
Print Assumptions ConfigText_tokens_parse.
Print Assumptions ConfigText_ex_text.
Print Assumptions ConfigText_ex_expected.
Print Assumptions ConfigText_ex_bindings.
Print Assumptions ConfigText_ex_items_ok.
Print Assumptions ConfigText_ex_reads_back_computes.
Print Assumptions ConfigText_ex_reads_back_applies.

(* ------------------------------------------------------------------ *)
(* (appended) the hypothesis on the emitted items follows from conditions on the ENTRIES ([entry_ok]: the scoped selector
   has no newline; every macro binding and every section binding of a literal value satisfies [bind_ok]) *)
From GinV Require Import Model.SelectorMap.
Theorem ConfigText_items_ok_from_entries : forall o registry entries maxlen,
  Forall (entry_ok o (fold_left (fun m s => sm_set (to_key s) tt m) registry sm_empty)) entries ->
  Forall (item_ok o) (config_items registry entries maxlen).
Proof. exact config_items_ok. Qed.
Theorem ConfigText_reads_back_entries : forall o registry entries maxlen indent,
  Forall (entry_ok o (fold_left (fun m s => sm_set (to_key s) tt m) registry sm_empty)) entries ->
  supported (config_text registry entries maxlen indent) = true ->
  exists ts, lex (config_text registry entries maxlen indent) = Some ts /\
    exists fuel0, forall fuel, fuel0 <= fuel ->
      parse_all fuel o false ts [] = (expected_stmts o registry entries maxlen indent, None).
Proof. exact config_text_reads_back_entries. Qed.
(* the statements without their line numbers; how the written keys are cut into (scope, selector, parameter) *)
Theorem ConfigText_stmts_bindings : forall o maxlen indent items line,
  flat_map stmt_binding (items_stmts o maxlen indent items line) = flat_map (item_binding o) items.
Proof. exact items_stmts_bindings. Qed.
Theorem ConfigText_section_key_split : forall reg e p,
  contains_char slash (c_minimal reg e) = false -> contains_char slash p = false -> contains_char dot p = false ->
  split_binding_key (c_scoped_selector reg e ++ "." ++ p) = (c_scope e, c_minimal reg e, p).
Proof. exact section_key_split. Qed.
Theorem ConfigText_macro_key_split : forall name, contains_char dot (snd (split_scoped name)) = false ->
  split_binding_key name = (fst (split_scoped name), snd (split_scoped name), "").
Proof. exact macro_key_split. Qed.
(* the atoms repr writes for non-negative ints and ASCII strs (Model/StrLit.v) are lexable *)
Theorem ConfigText_repr_atoms_lexable : forall v, Forall repr_atom (pv_atoms v) -> Forall atom_lexable (pv_atoms v).
Proof. exact repr_atoms_lexable. Qed.

Print Assumptions ConfigText_items_ok_from_entries.
Print Assumptions ConfigText_reads_back_entries.
Print Assumptions ConfigText_stmts_bindings.
Print Assumptions ConfigText_section_key_split.
Print Assumptions ConfigText_macro_key_split.
Print Assumptions ConfigText_repr_atoms_lexable.

(* ================================================================== *)
(* (appended, follow-up 2) THE BRIDGE to the line-level serialiser Model/Serial.v, what transfers from Props/C06.v, the round
   trip, and hypotheses on the INPUT only.  Proofs in Proofs/ConfigTextBridge.v and Proofs/ConfigTextKeys.v;
   definitions in Model/ConfigSerial.v:
     [sval_of w cv] / [sentry_of w e]: the oracle value (representable = literal tree; lines = those of pformat w) and
       entry of Model/Serial.v;  [join_lines] = '\n'.join;
     [entry_ascii reg w e]: scope, scoped selector, parameter names and value texts are 7-bit (len() = bytes);
     [c_restored entries]: the store a reader of the text ends up with (the analogue of SerialProofs2.restored);
     [store_bindings o reg es]: the bindings a store holds, as (scope, selector as written, parameter, value);
     [entry_input_ok o e]: is_selector (c_sel e), the scope a "/"-joined list of identifiers, every literal parameter
       an identifier with a readable value ([value_ok]). *)
From GinV Require Import Model.ConfigSerial Proofs.SerialProofs Proofs.SerialProofs2 Proofs.ConfigTextBridge Proofs.ConfigTextKeys.
From Coq Require Import Sorting.Permutation.

(* the characters gin writes ARE the lines of Serial.config_lines (no imports) joined with newlines *)
Theorem ConfigText_is_config_lines : forall registry entries maxlen indent,
  Forall (entry_ascii (reg_of registry) (maxlen - indent)) entries ->
  ConfigText.config_text registry entries maxlen indent =
  join_lines (Serial.config_lines registry [] (map (sentry_of (maxlen - indent)) entries) maxlen indent).
Proof. exact config_text_is_config_lines. Qed.
(* ... the two format_binding agree: Serial's list of lines (code-point lengths), joined, is PPrint's string *)
Theorem ConfigText_format_binding_join : forall maxlen indent key v,
  ascii_only key = true -> ascii_only (pformat (maxlen - indent) v) = true ->
  join_lines (Serial.format_binding maxlen indent key (sval_of (maxlen - indent) (CLit v))) =
  PPrint.format_binding maxlen indent key v.
Proof. exact format_binding_join. Qed.
(* ... and the item lists of the two models correspond one to one *)
Theorem ConfigText_items_correspond : forall w registry entries maxlen,
  map (item_of w) (ConfigText.config_items registry entries maxlen) =
  SerialProofs.config_items registry [] (map (sentry_of w) entries) maxlen.
Proof. exact items_correspond. Qed.

(* transferred from C06_order_independent: the TEXT depends only on the set of entries *)
Theorem ConfigText_order_independent : forall registry es1 es2 maxlen indent,
  NoDup (map (fun e => (c_scope e, c_sel e)) es1) -> Permutation es1 es2 ->
  Forall (entry_ascii (reg_of registry) (maxlen - indent)) es1 ->
  ConfigText.config_text registry es1 maxlen indent = ConfigText.config_text registry es2 maxlen indent.
Proof. exact config_text_order_independent. Qed.
(* transferred from C06_roundtrip_text: serialising the restored store gives the identical TEXT *)
Theorem ConfigText_restored_fixpoint : forall registry entries maxlen indent,
  NoDup (map (fun e => (c_scope e, c_sel e)) entries) ->
  (forall e, In e entries -> c_section_ok e = true -> c_lit_params e <> []) ->
  Forall (entry_ascii (reg_of registry) (maxlen - indent)) entries ->
  ConfigText.config_text registry (c_restored entries) maxlen indent = ConfigText.config_text registry entries maxlen indent.
Proof. exact config_text_restored_fixpoint. Qed.
Theorem ConfigText_restored_is_restored : forall w entries,
  restored (map (sentry_of w) entries) = map (sentry_of w) (c_restored entries).
Proof. exact restored_conv. Qed.

(* the statements read are the bindings of the entries = the bindings the restored store holds *)
Theorem ConfigText_stmts_are_bindings : forall o registry entries maxlen indent,
  Forall (entry_denotes o) entries -> Forall (entry_keys_ok (reg_of registry)) entries ->
  flat_map stmt_binding (expected_stmts o registry entries maxlen indent) = expected_bindings o registry entries.
Proof. exact stmts_are_bindings. Qed.
Theorem ConfigText_bindings_of_restored : forall o registry entries,
  expected_bindings o registry entries = store_bindings o (reg_of registry) (c_restored entries).
Proof. exact bindings_of_restored. Qed.

(* ROUND TRIP: lexing + parsing config_text yields the bindings of the store [c_restored entries], and that store
   re-serialises to the identical text (sections printing only "# None." excluded: finding F18) *)
Theorem ConfigText_roundtrip : forall o registry entries maxlen indent,
  Forall (entry_ok o (reg_of registry)) entries -> Forall (entry_keys_ok (reg_of registry)) entries ->
  Forall (entry_ascii (reg_of registry) (maxlen - indent)) entries ->
  NoDup (map (fun e => (c_scope e, c_sel e)) entries) ->
  (forall e, In e entries -> c_section_ok e = true -> c_lit_params e <> []) ->
  supported (ConfigText.config_text registry entries maxlen indent) = true ->
  (exists ts, lex (ConfigText.config_text registry entries maxlen indent) = Some ts /\
     exists fuel0, forall fuel, fuel0 <= fuel ->
       exists stmts, parse_all fuel o false ts [] = (stmts, None) /\
                     flat_map stmt_binding stmts = store_bindings o (reg_of registry) (c_restored entries)) /\
  ConfigText.config_text registry (c_restored entries) maxlen indent = ConfigText.config_text registry entries maxlen indent.
Proof. exact config_text_roundtrip. Qed.

(* HYPOTHESES ON THE INPUT ONLY: the written keys are well formed whatever the registry makes the minimal selector *)
Theorem ConfigText_minimal_form : forall reg e, is_selector (c_sel e) = true ->
  exists a r, ident a /\ Forall ident r /\ c_minimal reg e = join "." (a :: r).
Proof. exact c_minimal_form. Qed.
Theorem ConfigText_entry_ok_from_input : forall o reg e, entry_input_ok o e -> entry_ok o reg e /\ entry_keys_ok reg e.
Proof. exact entry_ok_from_input. Qed.
Theorem ConfigText_reads_back_bindings : forall o registry entries maxlen indent,
  Forall (entry_input_ok o) entries ->
  supported (ConfigText.config_text registry entries maxlen indent) = true ->
  exists ts, lex (ConfigText.config_text registry entries maxlen indent) = Some ts /\
    exists fuel0, forall fuel, fuel0 <= fuel ->
      exists stmts, parse_all fuel o false ts [] = (stmts, None) /\
                    stmts = expected_stmts o registry entries maxlen indent /\
                    flat_map stmt_binding stmts = expected_bindings o registry entries.
Proof. exact config_text_reads_back_input. Qed.

(* non-vacuity: the example store without its "# None." section *)
Example ConfigText_ex2_input_ok : Forall (entry_input_ok pp_ex_oracle) ct2_entries.
Proof. exact ct2_input_ok. Qed.
Example ConfigText_ex2_reads_back_applies :
  exists ts, lex (ConfigText.config_text ct_ex_registry ct2_entries 24 4) = Some ts /\
    exists fuel0, forall fuel, fuel0 <= fuel ->
      exists stmts, parse_all fuel pp_ex_oracle false ts [] = (stmts, None) /\
        stmts = expected_stmts pp_ex_oracle ct_ex_registry ct2_entries 24 4 /\
        flat_map stmt_binding stmts = expected_bindings pp_ex_oracle ct_ex_registry ct2_entries.
Proof. apply ConfigText_reads_back_bindings; [exact ConfigText_ex2_input_ok | vm_compute; reflexivity]. Qed.
Example ConfigText_ex2_bindings : expected_bindings pp_ex_oracle ct_ex_registry ct2_entries =
  [("", "mm", "", Some (OT "int" [OS "3"])); ("a/b", "f", "lr", Some (OT "int" [OS "-1"])); ("a/b", "f", "x", Some pp_ex_out)] /\
  store_bindings pp_ex_oracle (reg_of ct_ex_registry) (c_restored ct2_entries) = expected_bindings pp_ex_oracle ct_ex_registry ct2_entries.
Proof. exact ct2_bindings. Qed.
Example ConfigText_ex2_fixpoint_applies :
  ConfigText.config_text ct_ex_registry (c_restored ct2_entries) 24 4 = ConfigText.config_text ct_ex_registry ct2_entries 24 4.
Proof. exact ct2_fixpoint_applies. Qed.
Example ConfigText_ex_none_section_not_restored :
  ConfigText.config_text ct_ex_registry (c_restored ct_ex_entries) 24 4 <> ConfigText.config_text ct_ex_registry ct_ex_entries 24 4.
Proof. exact ct_ex_fixpoint_fails. Qed.

Print Assumptions ConfigText_is_config_lines.
Print Assumptions ConfigText_format_binding_join.
Print Assumptions ConfigText_items_correspond.
Print Assumptions ConfigText_order_independent.
Print Assumptions ConfigText_restored_fixpoint.
Print Assumptions ConfigText_restored_is_restored.
Print Assumptions ConfigText_stmts_are_bindings.
Print Assumptions ConfigText_bindings_of_restored.
Print Assumptions ConfigText_roundtrip.
Print Assumptions ConfigText_minimal_form.
Print Assumptions ConfigText_entry_ok_from_input.
Print Assumptions ConfigText_reads_back_bindings.
Print Assumptions ConfigText_ex2_input_ok.
Print Assumptions ConfigText_ex2_reads_back_applies.
Print Assumptions ConfigText_ex2_bindings.
Print Assumptions ConfigText_ex2_fixpoint_applies.
Print Assumptions ConfigText_ex_none_section_not_restored.
