From Coq Require Import List String.
From GinV Require Import Lib.PyStr Model.SelectorMap Model.SelectorMapSpec.
Import ListNotations.
(* placeholder until Proofs/SelectorMapProofs.v lands *)
Theorem c08_pipeline_smoke : @sm_matching nat ["c"%string] (sm_set ["a";"b";"c"]%string 0 sm_empty) = [["a";"b";"c"]%string].
Proof. vm_compute. reflexivity. Qed.
Print Assumptions c08_pipeline_smoke.
