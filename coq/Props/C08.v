(* C08 — names resolve by unique dotted suffix, identically through every API.
   Statements only; proofs live in Proofs/SelectorMapProofs.v. *)
From Coq Require Import List String Bool Arith.
From GinV Require Import Lib.PyStr Model.SelectorMap Model.SelectorMapSpec Proofs.SelectorMapProofs.
Import ListNotations.

(* every state reachable by any history of set / pop / clear / copy satisfies the
   representation invariant (tree and flat map agree, pruned, unique dict keys) *)
Theorem C08_reachable_invariant : forall V (ops : list (op V)), Inv (fold_left step ops sm_empty).
Proof. exact inv_reachable. Qed.

(* matching_selectors = exact match if stored, else every stored name ending with p *)
Theorem C08_matching_spec : forall V (s : smap V) p, Inv s -> p <> [] ->
  forall k, In k (sm_matching p s) <-> spec_matches (dom s) p k.
Proof. exact matching_spec. Qed.

Theorem C08_matching_nodup : forall V (s : smap V) p, Inv s -> NoDup (sm_matching p s).
Proof. exact matching_nodup. Qed.

Theorem C08_get_match_unique : forall V (s : smap V) p k, Inv s -> p <> [] ->
  (forall j, spec_matches (dom s) p j <-> j = k) -> sm_get_match p s = MOne k (fget k (sm_flat s)).
Proof. exact get_match_unique. Qed.

Theorem C08_get_match_unknown : forall V (s : smap V) p, Inv s -> p <> [] ->
  (forall j, ~ spec_matches (dom s) p j) -> sm_get_match p s = MNone.
Proof. exact get_match_none. Qed.

Theorem C08_get_match_ambiguous : forall V (s : smap V) p j1 j2, Inv s -> p <> [] -> j1 <> j2 ->
  spec_matches (dom s) p j1 -> spec_matches (dom s) p j2 -> sm_get_match p s = MAmbiguous.
Proof. exact get_match_ambiguous. Qed.

(* the reported minimal selector resolves back to the entry and no shorter suffix does *)
Theorem C08_minimal : forall V (s : smap V) k, Inv s -> In k (dom s) ->
  exists r, sm_minimal k s = Some r /\ r <> [] /\ is_suffix r k /\ sm_matching r s = [k] /\
            forall r', r' <> [] -> proper_suffix r' r -> sm_matching r' s <> [k].
Proof. exact minimal_spec. Qed.

(* the code before the repair (start = -i) violated minimality: the finding *)
Theorem C08_minimal_orig_refuted : exists (s : smap nat) k r r', Inv s /\ In k (dom s) /\
  sm_minimal_orig k s = Some r /\ r' <> [] /\ proper_suffix r' r /\ sm_matching r' s = [k].
Proof. exact minimal_orig_refuted. Qed.

(* the flat map behaves as a finite map under set / pop *)
Theorem C08_get_set : forall V (s : smap V) k v j,
  fget j (sm_flat (sm_set k v s)) = if key_eqb j k then Some v else fget j (sm_flat s).
Proof. exact get_set. Qed.
Theorem C08_get_pop : forall V (s : smap V) k v s', Inv s -> sm_pop k s = Some (v, s') ->
  forall j, fget j (sm_flat s') = if key_eqb j k then None else fget j (sm_flat s).
Proof. exact get_pop. Qed.
Theorem C08_pop_defined : forall V (s : smap V) k, Inv s -> In k (dom s) -> exists v s', sm_pop k s = Some (v, s').
Proof. exact pop_defined. Qed.

(* non-vacuity: a reachable state with a name that is a suffix of another *)
Example C08_nonvacuous :
  let s := fold_left step [OpSet nat ["a";"b";"c"]%string 1; OpSet nat ["b";"c"]%string 2; OpSet nat ["x";"c"]%string 3;
                           OpPop nat ["x";"c"]%string] (@sm_empty nat) in
  Inv s /\ In ["a";"b";"c"]%string (dom s) /\ sm_minimal ["a";"b";"c"]%string s = Some ["a";"b";"c"]%string
  /\ sm_minimal ["b";"c"]%string s = Some ["b";"c"]%string.
Proof. split; [apply inv_reachable|]. vm_compute. intuition. Qed.

Print Assumptions C08_reachable_invariant.
Print Assumptions C08_matching_spec.
Print Assumptions C08_matching_nodup.
Print Assumptions C08_get_match_unique.
Print Assumptions C08_get_match_unknown.
Print Assumptions C08_get_match_ambiguous.
Print Assumptions C08_minimal.
Print Assumptions C08_minimal_orig_refuted.
Print Assumptions C08_get_set.
Print Assumptions C08_get_pop.
Print Assumptions C08_pop_defined.
