(* C16 — a failed parse applies exactly the preceding statements; errors say where.
   Statements only; proofs in Proofs/StmtProofs.v (include-free) and Proofs/StmtProofs5.v (includes at any depth,
   every kind of failure: semantic, syntactic, tokenizer, missing file). *)
From Coq Require Import List String ZArith Bool Arith.
From GinV Require Import Lib.Out Lib.PyStr Model.SelectorMap Model.Parser Model.Stmt Model.StmtSpec Model.StmtEngine Proofs.StmtProofs Proofs.StmtProofs2 Proofs.StmtProofs3 Proofs.StmtProofs4 Proofs.StmtProofs5.
Import ListNotations.
Open Scope string_scope.
Open Scope list_scope.

(* THE streaming theorem (include-free configs): parsing and applying statement by statement gives the same
   final state and outcome as first parsing the whole token stream into groups and then consuming the groups in
   order, stopping at the first failure — for every fault position and kind *)
Theorem C16_stream_eq : forall fuel env sk fname o pending ts s im ic gs pe,
  parse_groups fuel o pending ts = (gs, pe) -> no_includes gs ->
  parse_tokens fuel env sk fname o pending ts s im ic =
  (let '(s1, r) := consume env sk fname no_inc gs s im ic in
   match r with
   | SErr e => (s1, SErr e)
   | SOk (im', ic') =>
       if Nat.eqb (List.length gs) fuel then (s1, SErr (SEOther "RecursionError" []))
       else match pe with Some e => (s1, SErr (perr_to_serr fname e))
                        | None => (s1, SOk (im', ic')) end
   end).
Proof. exact C16_stream_eq_gen. Qed.

(* after a failure at group i the state is that of consuming the first i groups and then the successful prefix of group i *)
Theorem C16_failed_parse_is_prefix : forall env sk fname gs s im ic s1 e,
  consume env sk fname no_inc gs s im ic = (s1, SErr e) ->
  exists i g, nth_error gs i = Some g /\
    exists s0 im0 ic0, consume env sk fname no_inc (firstn i gs) s im ic = (s0, SOk (im0, ic0)) /\
      ((resolve_group s0 sk fname g = SErr e /\ s1 = s0) \/
       exists g', resolve_group s0 sk fname g = SOk g' /\ apply_stmts env sk fname no_inc g' s0 im0 ic0 = (s1, SErr e)).
Proof. exact C16_failed_parse_is_prefix. Qed.

(* inside a group: the statements before the failing one have been applied, the failing one and the rest not *)
Theorem C16_group_prefix : forall env sk fname inc stmts s im ic s' e,
  apply_stmts env sk fname inc stmts s im ic = (s', SErr e) ->
  exists k st s_mid im' ic', nth_error stmts k = Some st /\
    apply_stmts env sk fname inc (firstn k stmts) s im ic = (s_mid, SOk (im', ic')) /\
    apply_stmts env sk fname inc [st] s_mid im' ic' = (s', SErr e).
Proof. exact apply_stmts_prefix. Qed.

(* every import statement that takes effect is recorded (t_imports, gin's _IMPORTS) at once.  A FAILED parse has
   therefore recorded exactly the imports of the statements that took effect before the failure, in order
   (stmt_imports: the module of an import statement whose module is importable; imports_of: over groups): either every
   group was applied (the text then ended in a parse error, or the recursion budget ran out), or group i failed --
   while its references were resolved, nothing of it applied; or at its statement k, the statements before k applied.
   It touches neither lock nor constants; the registry only grows by what the modules imported before the failure
   register ... *)
Theorem C16_error_leaves_flags_gen : forall fuel env sk fname o pending ts s im ic s' e gs pe,
  parse_groups fuel o pending ts = (gs, pe) -> no_includes gs ->
  parse_tokens fuel env sk fname o pending ts s im ic = (s', SErr e) ->
  ((exists im' ic', consume env sk fname no_inc gs s im ic = (s', SOk (im', ic')) /\
      t_imports s' = t_imports s ++ imports_of env gs) \/
   (exists i g, nth_error gs i = Some g /\
      exists s0 im0 ic0, consume env sk fname no_inc (firstn i gs) s im ic = (s0, SOk (im0, ic0)) /\
        ((resolve_group s0 sk fname g = SErr e /\ s' = s0 /\
          t_imports s' = t_imports s ++ imports_of env (firstn i gs)) \/
         (exists g' k st im' ic', resolve_group s0 sk fname g = SOk g' /\ nth_error g' k = Some st /\
            apply_stmts env sk fname no_inc (firstn k g') s0 im0 ic0 = (s', SOk (im', ic')) /\
            apply_stmts env sk fname no_inc [st] s' im' ic' = (s', SErr e) /\
            t_imports s' = t_imports s ++ imports_of env (firstn i gs) ++ flat_map (stmt_imports env) (firstn k g))))) /\
  t_locked s' = t_locked s /\ reg_extends env s s' /\ t_consts s' = t_consts s.
Proof. exact C16_error_leaves_flags_gen. Qed.
(* ... and is untouched when imports have no side effects (failed_parse_imports: the disjunction displayed above) *)
Theorem C16_error_leaves_flags : forall fuel env sk fname o pending ts s im ic s' e gs pe,
  pure_imports env ->
  parse_groups fuel o pending ts = (gs, pe) -> no_includes gs ->
  parse_tokens fuel env sk fname o pending ts s im ic = (s', SErr e) ->
  failed_parse_imports env sk fname gs s im ic s' e /\
  t_locked s' = t_locked s /\ t_reg s' = t_reg s /\ t_consts s' = t_consts s.
Proof. exact C16_error_leaves_flags. Qed.
(* the lockstep behind it: a statement list / group list that HAS been applied has recorded, import by import, exactly
   what it returns *)
Theorem C16_applied_statements_record_imports : forall env sk fname inc stmts s im ic s1 im1 ic1,
  forallb (fun st => negb (is_include st)) stmts = true ->
  apply_stmts env sk fname inc stmts s im ic = (s1, SOk (im1, ic1)) ->
  im1 = im ++ flat_map (stmt_imports env) stmts /\ t_imports s1 = t_imports s ++ flat_map (stmt_imports env) stmts.
Proof. exact apply_stmts_noinc_records. Qed.
Theorem C16_applied_groups_record_imports : forall env sk fname inc gs s im ic s1 im1 ic1,
  no_includes gs -> consume env sk fname inc gs s im ic = (s1, SOk (im1, ic1)) ->
  im1 = im ++ imports_of env gs /\ t_imports s1 = t_imports s ++ imports_of env gs.
Proof. exact consume_noinc_records. Qed.
(* a successful parse: the recorded imports grow by exactly this parse's imports -- what it returns beyond what it was
   handed; a parse call is handed none, so what it has recorded is what it returns *)
Theorem C16_success_records_imports : forall fuel env sk fname o pending ts s im ic s' im' ic' gs pe,
  parse_groups fuel o pending ts = (gs, pe) -> no_includes gs ->
  parse_tokens fuel env sk fname o pending ts s im ic = (s', SOk (im', ic')) ->
  (im' = im ++ imports_of env gs /\ t_imports s' = t_imports s ++ imports_of env gs) /\
  t_locked s' = t_locked s /\ reg_extends env s s' /\ t_consts s' = t_consts s.
Proof. exact C16_success_records_imports_gen. Qed.
Theorem C16_success_records_returned_imports : forall fuel env sk fname o pending ts s s' im' ic' gs pe,
  parse_groups fuel o pending ts = (gs, pe) -> no_includes gs ->
  parse_tokens fuel env sk fname o pending ts s [] [] = (s', SOk (im', ic')) ->
  t_imports s' = t_imports s ++ im'.
Proof. exact C16_success_records_returned_imports. Qed.
(* the code before the repair recorded a file's imports only after its last statement: after  import mod / nosuch.a = 1
   (mod importable; as a bindings string, and as a file included by  include 'b.gin')  it had recorded nothing *)
Theorem C16_orig_failed_parse_loses_imports :
  parse_groups 60 (f_oracle C16OrigImports.text) false (f_tokens C16OrigImports.text) =
    ([[SImport "mod" false None 1]; [SBind "" "nosuch" "a" (OZ 1) 2]], None) /\
  (let '(s, r) := parse_config_orig C16OrigImports.env SkFalse "" C16OrigImports.text C16OrigImports.s0 in (t_imports s, r))
    = (t_imports C16OrigImports.s0, SErr (SEOther "ValueError" [("", 2)])) /\
  (let '(s, r) := parse_config_orig C16OrigImports.env SkFalse "" C16OrigImports.outer C16OrigImports.s0 in (t_imports s, r))
    = (t_imports C16OrigImports.s0, SErr (SEOther "ValueError" [("b.gin", 2); ("", 1)])) /\
  (let '(s, r) := parse_config C16OrigImports.env SkFalse "" C16OrigImports.text C16OrigImports.s0 in (t_imports s, r))
    = (t_imports C16OrigImports.s0 ++ ["mod"], SErr (SEOther "ValueError" [("", 2)])) /\
  (let '(s, r) := parse_config C16OrigImports.env SkFalse "" C16OrigImports.outer C16OrigImports.s0 in (t_imports s, r))
    = (t_imports C16OrigImports.s0 ++ ["mod"], SErr (SEOther "ValueError" [("b.gin", 2); ("", 1)])).
Proof. exact StmtProofs5.C16_orig_failed_parse_loses_imports. Qed.

(* provenance: a successful bind records exactly the statement's own location for that parameter and leaves
   every other entry of store and provenance alone *)
Theorem C16_provenance : forall s sc sel arg v l s', bind s sc sel arg v l = SOk s' ->
  exists k c, sm_get_match (to_key sel) (t_reg s) = MOne k (Some c) /\
    prov_at s' (sc, cs_sel c) arg = Some l /\ store_at s' (sc, cs_sel c) arg = Some v /\
    (forall ck' arg', (ck', arg') <> ((sc, cs_sel c), arg) ->
       prov_at s' ck' arg' = prov_at s ck' arg' /\ store_at s' ck' arg' = store_at s ck' arg').
Proof. exact bind_records_location. Qed.

(* the location chain: each enclosing level appends its (file, line), innermost first; SyntaxErrors pass untouched *)
Theorem C16_chain_append : forall A l c ch, @with_loc A l (SErr (SEOther c ch)) = SErr (SEOther c (ch ++ [l])).
Proof. exact with_loc_chain. Qed.
Theorem C16_syntax_untouched : forall A l f n, @with_loc A l (SErr (SESyntax f n)) = SErr (SESyntax f n).
Proof. exact with_loc_syntax. Qed.

(* ---- with includes, at any depth, whatever ends the parse ---- *)
(* flatten_px tags every group of the flattened text with its file and include chain and returns the error that
   ends the text (syntax / tokenizer error or missing file in any file at any depth), if any.  Parsing equals
   running the tagged groups in order: same registry / constants / store / lock / recorded imports (sim; the imports
   in the same order), and EXACTLY the same error, location chain included. *)
Theorem C16_stream_eq_with_includes : forall fuel env sk fname o pending ts s im ic gs pe tg fin,
  parse_groups fuel o pending ts = (gs, pe) -> List.length gs < fuel ->
  flatten_px fuel env fname gs pe = Some (tg, fin) ->
  sim (fst (parse_tokens fuel env sk fname o pending ts s im ic)) (fst (run_tagged env sk tg fin s)) /\
  err_match (snd (parse_tokens fuel env sk fname o pending ts s im ic)) (snd (run_tagged env sk tg fin s)).
Proof. exact StmtProofs5.C16_stream_eq_with_includes. Qed.

(* exactly the preceding statements of the flattened text have taken effect, and the error names the file and line
   of the offending statement followed by one (including file, line of the include) per level *)
Theorem C16_failed_parse_with_includes_located : forall fuel env sk fname o pending ts s im ic gs pe tg fin s1 e,
  parse_groups fuel o pending ts = (gs, pe) -> List.length gs < fuel -> flatten_px fuel env fname gs pe = Some (tg, fin) ->
  parse_tokens fuel env sk fname o pending ts s im ic = (s1, SErr e) ->
  (exists s0, consume_tagged env sk tg s = (s0, None) /\ fin = Some e /\ sim s1 s0) \/
  (exists t1 t t2 s0 e0, tg = t1 ++ t :: t2 /\ consume_tagged env sk t1 s = (s0, None) /\
     e = wrap_chain (chain_of t) e0 /\
     ((resolve_group s0 sk (tg_file t) (tg_stmts t) = SErr e0 /\ sim s1 s0) \/
      exists g' pre st post s0' im' ic' c,
        resolve_group s0 sk (tg_file t) (tg_stmts t) = SOk g' /\ g' = pre ++ st :: post /\
        apply_stmts env sk (tg_file t) no_inc pre s0 [] [] = (s0', SOk (im', ic')) /\
        apply_stmts env sk (tg_file t) no_inc [st] s0' im' ic' = (s0', SErr e0) /\ sim s1 s0' /\
        e0 = SEOther c [(tg_file t, stmt_line st)] /\
        e = SEOther c ((tg_file t, stmt_line st) :: chain_of t))).
Proof. exact StmtProofs5.C16_failed_parse_with_includes_located. Qed.

(* ... and has recorded exactly the imports of those preceding statements of the flattened text, in order *)
Theorem C16_failed_parse_with_includes_records_imports : forall fuel env sk fname o pending ts s im ic gs pe tg fin s1 e,
  parse_groups fuel o pending ts = (gs, pe) -> List.length gs < fuel -> flatten_px fuel env fname gs pe = Some (tg, fin) ->
  parse_tokens fuel env sk fname o pending ts s im ic = (s1, SErr e) ->
  (exists s0, consume_tagged env sk tg s = (s0, None) /\ fin = Some e /\
     t_imports s1 = t_imports s ++ imports_of env (map tg_stmts tg)) \/
  (exists t1 t t2 s0 e0, tg = t1 ++ t :: t2 /\ consume_tagged env sk t1 s = (s0, None) /\
     e = wrap_chain (chain_of t) e0 /\
     ((resolve_group s0 sk (tg_file t) (tg_stmts t) = SErr e0 /\
       t_imports s1 = t_imports s ++ imports_of env (map tg_stmts t1)) \/
      exists g' pre st post s0' im' ic',
        resolve_group s0 sk (tg_file t) (tg_stmts t) = SOk g' /\ g' = pre ++ st :: post /\
        apply_stmts env sk (tg_file t) no_inc pre s0 [] [] = (s0', SOk (im', ic')) /\
        apply_stmts env sk (tg_file t) no_inc [st] s0' im' ic' = (s0', SErr e0) /\
        t_imports s1 = t_imports s ++ imports_of env (map tg_stmts t1) ++ flat_map (stmt_imports env) pre)).
Proof. exact StmtProofs5.C16_failed_parse_with_includes_records_imports. Qed.

Theorem C16_chain_once_per_level : forall ch c ch0, wrap_chain ch (SEOther c ch0) = SEOther c (ch0 ++ ch).
Proof. exact wrap_chain_other. Qed.
Theorem C16_syntax_error_passes_all_levels : forall ch f n, wrap_chain ch (SESyntax f n) = SESyntax f n.
Proof. exact wrap_chain_syntax. Qed.

(* hypotheses satisfiable: depth 2, a semantic error in the innermost file, and a syntax error in the innermost file *)
Theorem C16_with_includes_nonvacuous : True.
Proof. pose proof StmtProofs5.C16DeepExample.hyps. pose proof StmtProofs5.C16DeepExample.hyps_syntax. exact I. Qed.

Print Assumptions C16_stream_eq.
Print Assumptions C16_failed_parse_is_prefix.
Print Assumptions C16_group_prefix.
Print Assumptions C16_error_leaves_flags_gen.
Print Assumptions C16_error_leaves_flags.
Print Assumptions C16_applied_statements_record_imports.
Print Assumptions C16_applied_groups_record_imports.
Print Assumptions C16_success_records_imports.
Print Assumptions C16_success_records_returned_imports.
Print Assumptions C16_orig_failed_parse_loses_imports.
Print Assumptions C16_provenance.
Print Assumptions C16_chain_append.
Print Assumptions C16_syntax_untouched.
Print Assumptions C16_stream_eq_with_includes.
Print Assumptions C16_failed_parse_with_includes_located.
Print Assumptions C16_failed_parse_with_includes_records_imports.
Print Assumptions C16_chain_once_per_level.
Print Assumptions C16_syntax_error_passes_all_levels.
Print Assumptions C16_with_includes_nonvacuous.
