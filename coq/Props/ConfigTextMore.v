(* Two additions to Props/ConfigText.v / Props/ConfigTextImports.v.  Statements only; proofs in Proofs/ConfigTextParams.v and
   Proofs/ConfigTextImportsInput.v.
   1. the TEXT of config_str does not depend on the order of the parameters inside an entry either
      ([param_perm e e']: same scope / selector / method, the parameter lists are permutations of each other, names distinct);
   2. the import header: [import_ok] from conditions on the RECORDED imports only ([import_input_ok i]: the module is a
      dotted sequence of identifiers, a given alias is an identifier, a from-import's module has a dot): import_manager keeps
      the modules and its generated aliases <name><number> are identifiers. *)
From Coq Require Import List String ZArith Bool Arith Ascii Sorting.Permutation.
From GinV Require Import Lib.Out Lib.PyStr Model.SelectorMap Model.Parser Model.ParserSpec Model.Repr Model.ReprText Model.Lexer.
From GinV Require Import Model.PPrint Model.Serial Model.ConfigText Model.ConfigSerial Model.ConfigTextImports.
From GinV Require Import Proofs.SerialProofs Proofs.ConfigTextProofs Proofs.ConfigTextBridge Proofs.ConfigTextImports Proofs.ConfigTextParams Proofs.ConfigTextImportsInput.
Import ListNotations.
Open Scope string_scope.
Open Scope list_scope.

Theorem ConfigText_items_same_sig : forall registry es1 es2 maxlen, Forall2 same_sig es1 es2 ->
  ConfigText.config_items registry es1 maxlen = ConfigText.config_items registry es2 maxlen.
Proof. exact config_items_same_sig. Qed.
Theorem ConfigText_param_perm_same_sig : forall e e', param_perm e e' -> same_sig e e'.
Proof. exact param_perm_same_sig. Qed.
Theorem ConfigText_params_order_independent : forall registry es1 es1' maxlen indent,
  Forall2 param_perm es1 es1' ->
  ConfigText.config_text registry es1 maxlen indent = ConfigText.config_text registry es1' maxlen indent.
Proof. exact config_text_params_order_independent. Qed.
(* any permutation of the entries AND of each entry's parameters gives the identical text *)
Theorem ConfigText_order_independent_full : forall registry es1 es1' es2 maxlen indent,
  Forall2 param_perm es1 es1' -> Permutation es1' es2 ->
  NoDup (map (fun e => (c_scope e, c_sel e)) es1') ->
  Forall (entry_ascii (reg_of registry) (maxlen - indent)) es1' ->
  ConfigText.config_text registry es1 maxlen indent = ConfigText.config_text registry es2 maxlen indent.
Proof. exact config_text_order_independent_full. Qed.

Theorem ConfigTextImports_import_ok_of_input : forall i, import_input_ok i -> import_ok i.
Proof. exact import_ok_of_input. Qed.
Theorem ConfigTextImports_manager_keeps_ok : forall imports,
  Forall import_input_ok imports -> Forall import_input_ok (Serial.import_manager imports).
Proof. exact import_manager_input_ok. Qed.
Theorem ConfigTextImports_header_ok : forall imports,
  Forall import_input_ok imports -> Forall import_ok (Model.ConfigTextImports.header_imports imports).
Proof. exact header_imports_ok. Qed.
Theorem ConfigTextImports_reads_back_input : forall o registry imports entries maxlen indent,
  Forall import_input_ok imports -> Forall (item_ok o) (ConfigText.config_items registry entries maxlen) ->
  supported (config_text_imports registry imports entries maxlen indent) = true ->
  exists ts, lex (config_text_imports registry imports entries maxlen indent) = Some ts /\
    exists fuel0, forall fuel, fuel0 <= fuel ->
      parse_all fuel o false ts [] = (expected_stmts_imports o registry imports entries maxlen indent, None).
Proof. exact config_text_imports_reads_back_input. Qed.
(* the recorded imports of the example of Props/ConfigTextImports.v satisfy the input condition *)
Example ConfigTextImports_ex_input_ok : Forall import_input_ok cti_imports.
Proof.
  unfold cti_imports. repeat (apply Forall_cons || apply Forall_nil); unfold import_input_ok; cbn [i_module i_alias i_from];
    (split; [vm_compute; reflexivity|]); (split; [intros a E; first [discriminate E | injection E as <-; reflexivity] | intro E; first [discriminate E | reflexivity]]).
Qed.

Print Assumptions ConfigText_items_same_sig.
Print Assumptions ConfigText_param_perm_same_sig.
Print Assumptions ConfigText_params_order_independent.
Print Assumptions ConfigText_order_independent_full.
Print Assumptions ConfigTextImports_import_ok_of_input.
Print Assumptions ConfigTextImports_manager_keeps_ok.
Print Assumptions ConfigTextImports_header_ok.
Print Assumptions ConfigTextImports_reads_back_input.
Print Assumptions ConfigTextImports_ex_input_ok.
