(* C11 — only configurable parameters of registered configurables can ever be bound.
   Statements only; proofs in Proofs/MachineProofs.v, Proofs/MachineStore.v. *)
From Coq Require Import List String ZArith Bool.
From GinV Require Import Lib.Out Lib.PyStr Model.SelectorMap Model.Values Model.Gin Model.GinEngine
                         Proofs.MachineFrame Proofs.MachineProofs Proofs.MachineStore.
Import ListNotations.
Open Scope string_scope.
Open Scope list_scope.

Theorem C11_accept_iff : forall s sc sel a v,
  (exists s', bind_split s sc sel a v = (s', Ok tt)) <->
  (locked s = false /\ exists c, reg_lookup s sel = LFound c /\
     (c_method c = true -> contains_char dot sel = true) /\
     might_have_parameter (c_sig c) a = true /\
     (c_allow c = [] \/ str_in a (c_allow c) = true) /\ str_in a (c_deny c) = false).
Proof. exact bind_split_accept_iff. Qed.

(* a rejected binding leaves the WHOLE state exactly as it was *)
Theorem C11_reject_frame : forall s sc sel a v s' e, bind_split s sc sel a v = (s', Raise e) -> s' = s.
Proof. exact bind_split_reject_frame. Qed.

(* ... through every binding op of the language (string key, tuple key, config text incl. the macro form) *)
Theorem C11_reject_frame_all_paths : forall f s o s' e,
  ((exists k v, o = OBind k v) \/ (exists a b c v, o = OBindT a b c v) \/ (exists k v, o = OParse k v)) ->
  exec f s o = (s', Raise e) -> s' = s.
Proof. exact exec_bind_reject_frame. Qed.

(* an accepted binding writes exactly one parameter under the COMPLETE selector *)
Theorem C11_accept_effect : forall s sc sel a v s', bind_split s sc sel a v = (s', Ok tt) ->
  exists c, reg_lookup s sel = LFound c /\
    config s' = cset (sc, c_sel c) (sset a v (match cget (sc, c_sel c) (config s) with Some d => d | None => [] end)) (config s) /\
    reg s' = reg s /\ locked s' = locked s /\ operative s' = operative s /\ scopes s' = scopes s.
Proof. exact bind_split_effect. Qed.

(* store invariant over every op (hooks at finalize and nested bodies included): every stored parameter is a
   configurable parameter of a registered configurable; side condition: no registration while interactive *)
Theorem C11_store_invariant : forall fuel s o s' r, reg_ok s -> store_ok s -> no_reregister fuel s o ->
  exec fuel s o = (s', r) -> reg_ok s' /\ store_ok s'.
Proof. exact exec_store_ok. Qed.

Theorem C11_store_invariant_history : forall fuel ops s, reg_ok s -> store_ok s -> interactive s = false ->
  all_safe false ops -> reg_ok (run_top fuel s ops) /\ store_ok (run_top fuel s ops).
Proof. exact run_top_store_ok. Qed.

(* the side condition is necessary: re-registration in interactive mode can orphan a stored binding *)
Theorem C11_side_condition_needed : exists s o s' r,
  reg_ok s /\ store_ok s /\ exec 5 s o = (s', r) /\ r = Ok tt /\ ~ store_ok s'.
Proof. exact exec_store_ok_needs_side_condition. Qed.

Print Assumptions C11_accept_iff.
Print Assumptions C11_reject_frame.
Print Assumptions C11_reject_frame_all_paths.
Print Assumptions C11_accept_effect.
Print Assumptions C11_store_invariant.
Print Assumptions C11_store_invariant_history.
Print Assumptions C11_side_condition_needed.
