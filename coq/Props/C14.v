(* C14 — includes act as in-place inclusion; files resolve through ordered locations.
   Model: Model/Stmt.v (parse_config / parse_config_file / include handling over Model/Parser.v tokens;
   the file system is an association list (reader, path) -> file, search prefixes and readers are ordered
   lists).  Proved here:
     - file resolution: the FIRST search location (in registration order) in which SOME reader can read the
       name wins, and within it the first reader; an absolute name bypasses the locations; a name nobody
       can read is an OSError that leaves the configuration untouched (both at top level and in an include);
     - inclusion in place: an include statement hands over to the included file at that point and the rest
       of the including file runs on the resulting state; the effect of a file with one include equals the
       effect of the flattened statement list (store, registry, constants, lock, success / error class);
       the returned tree mirrors the include structure.
   NOT proved in Coq: arbitrary nesting depth as ONE theorem (the one-level theorem composes; the
   correspondence engine textm exercises depth up to 3), package-relative names through the Python path
   (not modelled) and the multi-file entry point (modelled in Model/StmtEngine.v, validated only). *)
From Coq Require Import List String ZArith Bool Arith.
From GinV Require Import Lib.Out Lib.PyStr Model.SelectorMap Model.Parser Model.Stmt Model.StmtSpec Proofs.StmtProofs Proofs.StmtProofs2.
Import ListNotations.
Open Scope string_scope.
Open Scope list_scope.

(* ---- ordered resolution ---- *)
Theorem C14_resolve_order : forall env name full g, is_abs name = false -> resolve_file env name = Some (full, g) ->
  exists p r, In p (e_prefixes env) /\ In r (e_readers env) /\ full = path_join p name /\
    al_get rp_eqb (r, full) (e_files env) = Some g /\
    (exists ps1 ps2 rs1 rs2, e_prefixes env = ps1 ++ p :: ps2 /\ e_readers env = rs1 ++ r :: rs2 /\
       (forall p', In p' ps1 -> forall r', In r' (e_readers env) -> ~ readable env r' (path_join p' name)) /\
       (forall r', In r' rs1 -> ~ readable env r' full)).
Proof. exact StmtProofs2.C14_resolve_order. Qed.

Theorem C14_resolve_first : forall env name p r g ps1 ps2 rs1 rs2,
  (if is_abs name then [""] else e_prefixes env) = ps1 ++ p :: ps2 -> e_readers env = rs1 ++ r :: rs2 ->
  al_get rp_eqb (r, path_join p name) (e_files env) = Some g ->
  (forall p', In p' ps1 -> forall r', In r' (e_readers env) -> ~ readable env r' (path_join p' name)) ->
  (forall r', In r' rs1 -> ~ readable env r' (path_join p name)) ->
  resolve_file env name = Some (path_join p name, g).
Proof. exact StmtProofs2.C14_resolve_first. Qed.

Theorem C14_absolute_bypasses : forall env name, is_abs name = true ->
  resolve_file env name =
  resolve_file {| e_files := e_files env; e_readers := e_readers env; e_prefixes := [""]; e_modules := e_modules env |} name.
Proof. exact StmtProofs2.C14_absolute_bypasses. Qed.

Theorem C14_absolute_full_is_name : forall env name full g, is_abs name = true ->
  resolve_file env name = Some (full, g) -> full = name.
Proof. exact StmtProofs2.C14_absolute_full_is_name. Qed.

Theorem C14_missing : forall env name,
  (forall p r, In p (if is_abs name then [""] else e_prefixes env) -> In r (e_readers env) -> ~ readable env r (path_join p name)) ->
  resolve_file env name = None.
Proof. exact StmtProofs2.C14_missing. Qed.

Theorem C14_missing_applies_nothing : forall env sk name s, resolve_file env name = None ->
  parse_config_file env sk name s = (s, SErr (SEOther "OSError" [])).
Proof. exact StmtProofs2.C14_missing_applies_nothing. Qed.

Theorem C14_missing_include_applies_nothing : forall f env sk name s, resolve_file env name = None ->
  inc_of f env sk name s = (s, SErr (SEOther "OSError" [])).
Proof. exact StmtProofs2.C14_missing_include_applies_nothing. Qed.

(* ---- in place ---- *)
Theorem C14_include_step : forall env sk fname inc v line rest s im ic,
  apply_stmts env sk fname inc (SInclude v line :: rest) s im ic =
  (let '(s', r) := inc (str_of_value v) s in
   match r with
   | SErr e => (s', with_loc (fname, line) (SErr e))
   | SOk t => apply_stmts env sk fname inc rest s' im (ic ++ [t])
   end).
Proof. exact StmtProofs2.C14_include_step. Qed.

Theorem C14_inplace_sequential : forall fuel env sk fname o pending ts s im ic gs1 v line gs3 full g ts0 gs2,
  parse_groups fuel o pending ts = (gs1 ++ [SInclude v line] :: gs3, None) ->
  no_includes gs1 -> no_includes gs3 -> List.length gs1 + S (List.length gs3) < fuel ->
  resolve_file env (str_of_value v) = Some (full, g) -> settle (f_tokens g) = POk ts0 ->
  parse_groups (fuel - S (List.length gs1)) (f_oracle g) false ts0 = (gs2, None) -> no_includes gs2 ->
  List.length gs2 < fuel - S (List.length gs1) ->
  parse_tokens fuel env sk fname o pending ts s im ic =
  (let '(s1, r1) := consume env sk fname no_inc gs1 s im ic in
   match r1 with SErr e => (s1, SErr e) | SOk (im1, ic1) =>
     let '(s2, r2) := consume env sk full no_inc gs2 s1 [] [] in
     match r2 with SErr e => (s2, SErr (with_loc_err (fname, line) e)) | SOk (im2, ic2) =>
       let '(s3, r3) := consume env sk fname no_inc gs3 (add_imports im2 s2) im1 (ic1 ++ [INode (str_of_value v) im2 ic2]) in
       match r3 with SErr e => (s3, SErr e) | SOk (im3, ic3) => (add_imports im3 s3, SOk (im3, ic3)) end end end).
Proof. exact StmtProofs2.C14_inplace_sequential. Qed.

(* exactly as in the flattened text: same registry, constants, store and lock, same success / error class *)
Theorem C14_flatten : forall fuel env sk fname o pending ts s im ic gs1 v line gs3 full g ts0 gs2,
  parse_groups fuel o pending ts = (gs1 ++ [SInclude v line] :: gs3, None) ->
  no_includes gs1 -> no_includes gs3 -> List.length gs1 + S (List.length gs3) < fuel ->
  resolve_file env (str_of_value v) = Some (full, g) -> settle (f_tokens g) = POk ts0 ->
  parse_groups (fuel - S (List.length gs1)) (f_oracle g) false ts0 = (gs2, None) -> no_includes gs2 ->
  List.length gs2 < fuel - S (List.length gs1) ->
  sim (fst (parse_tokens fuel env sk fname o pending ts s im ic))
      (fst (consume env sk fname no_inc (gs1 ++ gs2 ++ gs3) s im ic)) /\
  res_sim (snd (parse_tokens fuel env sk fname o pending ts s im ic))
          (snd (consume env sk fname no_inc (gs1 ++ gs2 ++ gs3) s im ic)).
Proof. exact StmtProofs2.C14_flatten_store. Qed.

(* the hypotheses of the two theorems above are satisfiable: main.gin = f.x=1 / include 'b.gin' / f.y=3 *)
Theorem C14_flatten_nonvacuous : True.
Proof. pose proof StmtProofs2.C14Example.hyps. exact I. Qed.

Print Assumptions C14_resolve_order.
Print Assumptions C14_resolve_first.
Print Assumptions C14_absolute_bypasses.
Print Assumptions C14_absolute_full_is_name.
Print Assumptions C14_missing.
Print Assumptions C14_missing_applies_nothing.
Print Assumptions C14_missing_include_applies_nothing.
Print Assumptions C14_include_step.
Print Assumptions C14_inplace_sequential.
Print Assumptions C14_flatten.
Print Assumptions C14_flatten_nonvacuous.
