(* C14 — includes act as in-place inclusion; files resolve through ordered locations.
   Model: Model/Stmt.v (parse_config / parse_config_file / include handling over Model/Parser.v tokens;
   the file system is an association list (reader, path) -> file, search prefixes and readers are ordered
   lists).  Proved here:
     - file resolution: the FIRST search location (in registration order) in which SOME reader can read the
       name wins, and within it the first reader; an absolute name bypasses the locations; a name nobody
       can read is an OSError that leaves the configuration untouched (both at top level and in an include);
     - inclusion in place: an include statement hands over to the included file at that point and the rest
       of the including file runs on the resulting state; the effect of a file with one include equals the
       effect of the flattened statement list (store, registry, constants, lock, success / error class);
       the returned tree mirrors the include structure.
     - to any depth: for any number of includes at any nesting depth, parsing equals consuming the
       recursively flattened statement list (C14_flatten_any_depth), and the returned value is the include
       tree with each file's own imports (C14_tree_mirrors_includes);
     - the multi-file entry point applies the files in the order given, stops at the first error (later
       files and the bindings untouched), then the bindings, then finalizes iff asked to (lock unchanged
       otherwise);
     - without skip_unknown an unknown target is an error at every entry point.
   Outside the model: package-relative names through the Python path, os.path / open. *)
From Coq Require Import List String ZArith Bool Arith.
From GinV Require Import Lib.Out Lib.PyStr Model.SelectorMap Model.Parser Model.Stmt Model.StmtSpec Model.StmtEngine Proofs.StmtProofs Proofs.StmtProofs2 Proofs.StmtProofs3.
Import ListNotations.
Open Scope string_scope.
Open Scope list_scope.

(* ---- ordered resolution ---- *)
Theorem C14_resolve_order : forall env name full g, is_abs name = false -> resolve_file env name = Some (full, g) ->
  exists p r, In p (e_prefixes env) /\ In r (e_readers env) /\ full = path_join p name /\
    al_get rp_eqb (r, full) (e_files env) = Some g /\
    (exists ps1 ps2 rs1 rs2, e_prefixes env = ps1 ++ p :: ps2 /\ e_readers env = rs1 ++ r :: rs2 /\
       (forall p', In p' ps1 -> forall r', In r' (e_readers env) -> ~ readable env r' (path_join p' name)) /\
       (forall r', In r' rs1 -> ~ readable env r' full)).
Proof. exact StmtProofs2.C14_resolve_order. Qed.

Theorem C14_resolve_first : forall env name p r g ps1 ps2 rs1 rs2,
  (if is_abs name then [""] else e_prefixes env) = ps1 ++ p :: ps2 -> e_readers env = rs1 ++ r :: rs2 ->
  al_get rp_eqb (r, path_join p name) (e_files env) = Some g ->
  (forall p', In p' ps1 -> forall r', In r' (e_readers env) -> ~ readable env r' (path_join p' name)) ->
  (forall r', In r' rs1 -> ~ readable env r' (path_join p name)) ->
  resolve_file env name = Some (path_join p name, g).
Proof. exact StmtProofs2.C14_resolve_first. Qed.

Theorem C14_absolute_bypasses : forall env name, is_abs name = true ->
  resolve_file env name =
  resolve_file {| e_files := e_files env; e_readers := e_readers env; e_prefixes := [""]; e_modules := e_modules env;
                  e_mod_regs := e_mod_regs env |} name.
Proof. exact StmtProofs2.C14_absolute_bypasses. Qed.

Theorem C14_absolute_full_is_name : forall env name full g, is_abs name = true ->
  resolve_file env name = Some (full, g) -> full = name.
Proof. exact StmtProofs2.C14_absolute_full_is_name. Qed.

Theorem C14_missing : forall env name,
  (forall p r, In p (if is_abs name then [""] else e_prefixes env) -> In r (e_readers env) -> ~ readable env r (path_join p name)) ->
  resolve_file env name = None.
Proof. exact StmtProofs2.C14_missing. Qed.

Theorem C14_missing_applies_nothing : forall env sk name s, resolve_file env name = None ->
  parse_config_file env sk name s = (s, SErr (SEOther "OSError" [])).
Proof. exact StmtProofs2.C14_missing_applies_nothing. Qed.

Theorem C14_missing_include_applies_nothing : forall f env sk name s, resolve_file env name = None ->
  inc_of f env sk name s = (s, SErr (SEOther "OSError" [])).
Proof. exact StmtProofs2.C14_missing_include_applies_nothing. Qed.

(* ---- in place ---- *)
Theorem C14_include_step : forall env sk fname inc v line rest s im ic,
  apply_stmts env sk fname inc (SInclude v line :: rest) s im ic =
  (let '(s', r) := inc (str_of_value v) s in
   match r with
   | SErr e => (s', with_loc (fname, line) (SErr e))
   | SOk t => apply_stmts env sk fname inc rest s' im (ic ++ [t])
   end).
Proof. exact StmtProofs2.C14_include_step. Qed.

Theorem C14_inplace_sequential : forall fuel env sk fname o pending ts s im ic gs1 v line gs3 full g ts0 gs2,
  parse_groups fuel o pending ts = (gs1 ++ [SInclude v line] :: gs3, None) ->
  no_includes gs1 -> no_includes gs3 -> List.length gs1 + S (List.length gs3) < fuel ->
  resolve_file env (str_of_value v) = Some (full, g) -> settle (f_tokens g) = POk ts0 ->
  parse_groups (fuel - S (List.length gs1)) (f_oracle g) false ts0 = (gs2, None) -> no_includes gs2 ->
  List.length gs2 < fuel - S (List.length gs1) ->
  parse_tokens fuel env sk fname o pending ts s im ic =
  (let '(s1, r1) := consume env sk fname no_inc gs1 s im ic in
   match r1 with SErr e => (s1, SErr e) | SOk (im1, ic1) =>
     let '(s2, r2) := consume env sk full no_inc gs2 s1 [] [] in
     match r2 with SErr e => (s2, SErr (with_loc_err (fname, line) e)) | SOk (im2, ic2) =>
       consume env sk fname no_inc gs3 s2 im1 (ic1 ++ [INode (str_of_value v) im2 ic2]) end end).
Proof. exact StmtProofs2.C14_inplace_sequential. Qed.

(* exactly as in the flattened text: same registry, constants, store, lock and recorded imports (sim; each import is
   recorded when its statement takes effect, so also in the same order), same success / error class *)
Theorem C14_flatten : forall fuel env sk fname o pending ts s im ic gs1 v line gs3 full g ts0 gs2,
  parse_groups fuel o pending ts = (gs1 ++ [SInclude v line] :: gs3, None) ->
  no_includes gs1 -> no_includes gs3 -> List.length gs1 + S (List.length gs3) < fuel ->
  resolve_file env (str_of_value v) = Some (full, g) -> settle (f_tokens g) = POk ts0 ->
  parse_groups (fuel - S (List.length gs1)) (f_oracle g) false ts0 = (gs2, None) -> no_includes gs2 ->
  List.length gs2 < fuel - S (List.length gs1) ->
  sim (fst (parse_tokens fuel env sk fname o pending ts s im ic))
      (fst (consume env sk fname no_inc (gs1 ++ gs2 ++ gs3) s im ic)) /\
  res_sim (snd (parse_tokens fuel env sk fname o pending ts s im ic))
          (snd (consume env sk fname no_inc (gs1 ++ gs2 ++ gs3) s im ic)).
Proof. exact StmtProofs2.C14_flatten_store. Qed.

(* the hypotheses of the two theorems above are satisfiable: main.gin = f.x=1 / include 'b.gin' / f.y=3 *)
Theorem C14_flatten_nonvacuous : True.
Proof. pose proof StmtProofs2.C14Example.hyps. exact I. Qed.

(* ---- any depth ---- *)
Theorem C14_flatten_any_depth : forall fuel env sk fname o pending ts s im ic gs flat,
  parse_groups fuel o pending ts = (gs, None) -> List.length gs < fuel -> flatten_groups fuel env gs = Some flat ->
  sim (fst (parse_tokens fuel env sk fname o pending ts s im ic)) (fst (consume env sk fname no_inc flat s im ic)) /\
  res_sim (snd (parse_tokens fuel env sk fname o pending ts s im ic)) (snd (consume env sk fname no_inc flat s im ic)).
Proof. exact StmtProofs3.C14_flatten_any_depth. Qed.

Theorem C14_tree_mirrors_includes : forall fuel env sk fname o pending ts s im ic gs flat trees s1 imR icR,
  parse_groups fuel o pending ts = (gs, None) -> List.length gs < fuel -> flatten_both fuel env gs = Some (flat, trees) ->
  parse_tokens fuel env sk fname o pending ts s im ic = (s1, SOk (imR, icR)) ->
  imR = im ++ imports_of env gs /\ icR = ic ++ trees.
Proof. exact StmtProofs3.C14_tree_mirrors_includes. Qed.

Theorem C14_parse_config_file_any_depth : forall env sk name full g s ts gs flat trees,
  resolve_file env name = Some (full, g) ->
  settle (f_tokens g) = POk ts -> parse_groups 60 (f_oracle g) false ts = (gs, None) -> List.length gs < 60 ->
  flatten_both 60 env gs = Some (flat, trees) ->
  sim (fst (parse_config_file env sk name s)) (fst (consume env sk full no_inc flat s [] [])) /\
  res_sim (snd (parse_config_file env sk name s)) (snd (consume env sk full no_inc flat s [] [])) /\
  (forall s1 t, parse_config_file env sk name s = (s1, SOk t) -> t = INode name (imports_of env gs) trees).
Proof. exact StmtProofs3.C14_parse_config_file_any_depth. Qed.

(* the flattened list contains no include any more *)
Theorem C14_flattened_is_include_free : forall fuel env gs flat trees,
  flatten_both fuel env gs = Some (flat, trees) -> no_includes flat.
Proof. exact flatten_both_no_includes. Qed.

(* hypotheses satisfiable at depth 2 with two includes in one file *)
Theorem C14_any_depth_nonvacuous : True.
Proof. pose proof StmtProofs3.C14DeepExample.hyps. exact I. Qed.

(* ---- the multi-file entry point ---- *)
Theorem C14_files_then_bindings_then_finalize : forall env s files b fin sk,
  run_call2 env s (PFilesBindings files b fin sk) =
  (let '(s1, r) := parse_files env sk files s in
   match r with SErr e => (s1, serr_out e)
   | SOk trees => let '(s2, r2) := parse_config env sk "" b s1 in
                  match r2 with SErr e => (s2, serr_out e) | SOk _ => finalize_step fin trees s2 end end).
Proof. exact StmtProofs3.C14_files_then_bindings_then_finalize. Qed.

Theorem C14_entry_stops_at_first_error : forall env sk fs1 f fs2 b fin s s1 ts1 s2 e,
  parse_files env sk fs1 s = (s1, SOk ts1) -> parse_config_file env sk f s1 = (s2, SErr e) ->
  run_call2 env s (PFilesBindings (fs1 ++ f :: fs2) b fin sk) = (s2, serr_out e).
Proof. exact StmtProofs3.C14_entry_stops_at_first_error. Qed.

Theorem C14_entry_no_finalize_keeps_lock : forall env s files b sk,
  t_locked (fst (run_call2 env s (PFilesBindings files b false sk))) = t_locked s.
Proof. exact StmtProofs3.C14_entry_no_finalize_keeps_lock. Qed.

(* ---- unknown names are errors unless skip_unknown is passed ---- *)
Theorem C14_unknown_is_error_parse_config : forall env fname g s ts gs pe,
  pure_imports env ->
  settle (f_tokens g) = POk ts -> parse_groups 60 (f_oracle g) false ts = (gs, pe) -> no_includes gs -> has_unknown s gs ->
  exists e, snd (parse_config env SkFalse fname g s) = SErr e.
Proof. exact C15_parse_config_unknown_is_error. Qed.
Theorem C14_unknown_is_error_entry_point : forall env s files b fin ts gs pe,
  pure_imports env ->
  settle (f_tokens b) = POk ts -> parse_groups 60 (f_oracle b) false ts = (gs, pe) -> no_includes gs -> has_unknown s gs ->
  exists e, snd (run_call2 env s (PFilesBindings files b fin SkFalse)) = serr_out e.
Proof. exact C15_entry_unknown_binding_is_error. Qed.

Print Assumptions C14_resolve_order.
Print Assumptions C14_resolve_first.
Print Assumptions C14_absolute_bypasses.
Print Assumptions C14_absolute_full_is_name.
Print Assumptions C14_missing.
Print Assumptions C14_missing_applies_nothing.
Print Assumptions C14_missing_include_applies_nothing.
Print Assumptions C14_include_step.
Print Assumptions C14_inplace_sequential.
Print Assumptions C14_flatten.
Print Assumptions C14_flatten_nonvacuous.
Print Assumptions C14_flatten_any_depth.
Print Assumptions C14_tree_mirrors_includes.
Print Assumptions C14_parse_config_file_any_depth.
Print Assumptions C14_flattened_is_include_free.
Print Assumptions C14_any_depth_nonvacuous.
Print Assumptions C14_files_then_bindings_then_finalize.
Print Assumptions C14_entry_stops_at_first_error.
Print Assumptions C14_entry_no_finalize_keeps_lock.
Print Assumptions C14_unknown_is_error_parse_config.
Print Assumptions C14_unknown_is_error_entry_point.
