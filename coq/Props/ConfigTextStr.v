(* config_text_s (Model/ConfigTextStr.v: the text of config_str for stores whose strs carry their content; value texts by
   pformat_s, with pprint's splitting of long strs; compared character for character with gin by
   harness_new/config_text_str_corr.py, which skips no store because of a split str) is lexed and parsed into exactly
   the emitted bindings.  Statements only; proofs in Proofs/ConfigTextStrProofs.v.
   [oracle_agrees_with_decode o strv], [lit_wf o (pformat_s_lit w v)]: as in Props/PPrintStrReadsBack.v;
   [str_neg_all o]: the oracle gives no value to "-" followed by a str literal;
   [sbind_ok o w key v]: well-formed written key; lit_wf o (pformat_s_lit w v); denote o (erase v) defined; atoms lexable and
     newline-free; ASCII str contents; depth < 200; no value for "-" + a bytes atom;
   [sitem_ok]: a comment begins with "#" and has no newline; a binding satisfies sbind_ok. *)
From Coq Require Import List String ZArith NArith Bool Arith Ascii.
From GinV Require Import Lib.Out Lib.PyStr Model.SelectorMap Model.Parser Model.ParserSpec Model.ParserSpec2 Model.Repr Model.ReprText Model.Lexer.
From GinV Require Import Model.PPrint Model.Serial Model.ConfigText Model.StrLit Model.PPrintStr Model.PPrintStrLit Model.ConfigTextStr.
From GinV Require Import Proofs.ParserSound Proofs.ReprProofs Proofs.ReprTextProofs Proofs.PPrintProofs Proofs.ConfigTextProofs Proofs.PPrintStrLayout
  Proofs.PPrintStrProofs Proofs.ConfigTextStrProofs.
Import ListNotations.
Open Scope string_scope.
Open Scope list_scope.

(* MAIN *)
Theorem ConfigTextStr_reads_back : forall o strv registry entries maxlen indent,
  oracle_agrees_with_decode o strv -> str_neg_all o ->
  Forall (sitem_ok o (maxlen - indent)) (config_sitems registry entries maxlen) ->
  supported (config_text_s registry entries maxlen indent) = true ->
  exists ts, lex (config_text_s registry entries maxlen indent) = Some ts /\
    exists fuel0, forall fuel, fuel0 <= fuel ->
      parse_all fuel o false ts [] = (expected_stmts_s o registry entries maxlen indent, None).
Proof. exact config_text_s_reads_back. Qed.
(* ONE BINDING with split strings in its value, in either form of format_binding *)
Theorem ConfigTextStr_binding_lexes : forall o strv maxlen indent key v row R,
  oracle_agrees_with_decode o strv -> str_neg_all o -> sbind_ok o (maxlen - indent) key v ->
  exists eqt vtoks nlt x, denote o (erase v) = Some x /\
    tk_ok o (TKBind row (key_parts key) eqt vtoks nlt x) /\
    Forall (Qtok o) (tk_tokens (TKBind row (key_parts key) eqt vtoks nlt x)) /\
    Steps false (bol_st row) (list_ascii_of_string (format_binding_s maxlen indent key v) ++ nl :: R)
          (name_tokens row 0 (key_parts key) true ++ eqt :: vtoks ++ [nlt])
          (bol_st (row + S (count_nl (format_binding_s maxlen indent key v)))) R.
Proof. exact binding_s_lexes. Qed.
(* the continuation lines: indenting a layout gives a layout with the same tokens and the same literal tree *)
Theorem ConfigTextStr_indent : forall j f c ts sl L, PPS f c ts sl L -> sf_okP nl_free_atom f -> PPS f (indent_chars j c) ts sl L.
Proof. exact PPS_indent. Qed.
(* non-vacuity (by computation): the long string, split over two continuation lines *)
Example ConfigTextStr_ex_text : config_text_s ["gin.macro"; "gin.constant"; "gin.singleton"; "m.f"] cts_ex_entries 40 4 =
"# Parameters for f:
# ======================================
f.a = \
    ('the quick brown fox jumps over '
     'the lazy dog and keeps running')
f.n = 3
".
Proof. exact cts_ex_text. Qed.
Example ConfigTextStr_ex_reads_back_computes :
  option_map (fun ts => parse_all 10 cts_ex_oracle false ts [])
             (lex (config_text_s ["gin.macro"; "gin.constant"; "gin.singleton"; "m.f"] cts_ex_entries 40 4)) =
  Some (expected_stmts_s cts_ex_oracle ["gin.macro"; "gin.constant"; "gin.singleton"; "m.f"] cts_ex_entries 40 4, None) /\
  expected_stmts_s cts_ex_oracle ["gin.macro"; "gin.constant"; "gin.singleton"; "m.f"] cts_ex_entries 40 4 =
  [SBind "" "f" "a" (OT "str" [OS "the quick brown fox jumps over the lazy dog and keeps running"]) 3; SBind "" "f" "n" (OT "int" [OS "3"]) 6].
Proof. exact cts_ex_reads_back_computes. Qed.

Print Assumptions ConfigTextStr_reads_back.
Print Assumptions ConfigTextStr_binding_lexes.
Print Assumptions ConfigTextStr_indent.
Print Assumptions ConfigTextStr_ex_text.
Print Assumptions ConfigTextStr_ex_reads_back_computes.
