(* C17 — exceptions from configurables keep their type, data and traceback (PARTIAL).
   What is proved is the attribute-resolution argument over the measured slot table; CPython's
   constructors and struct layouts are measured by the harness, not modelled. *)
From Coq Require Import List String ZArith Bool.
From GinV Require Import Lib.Out Model.ExcProxy.
Import ListNotations.
Open Scope string_scope.
Open Scope list_scope.

(* repaired code: every public attribute of the original reads the same on what the caller catches,
   whatever the class's slot table *)
Theorem C17_all_attributes_equal : forall is_exc constructible attrs,
  is_exc = true ->
  run (is_exc, constructible, attrs) = OT "Proxy" [OL (map (fun a => OL [OS (fst (fst a)); OB true]) attrs)].
Proof.
  intros is_exc constructible attrs H. subst. unfold run, run_gen. cbn [negb andb].
  rewrite Bool.andb_false_r. do 3 f_equal. apply map_ext. intros [[n s] f]. unfold reads_same.
  destruct s; reflexivity.
Qed.

(* exceptions that are not Exception subclasses pass through untouched *)
Theorem C17_non_exception_passthrough : forall constructible attrs repaired,
  run_gen repaired (false, constructible, attrs) = OT "PassThrough" [].
Proof. reflexivity. Qed.

(* attributes living only in the instance dict were always forwarded *)
Theorem C17_dict_attributes_forwarded : forall repaired n fresh, reads_same repaired (n, false, fresh) = true.
Proof. reflexivity. Qed.

(* the code before the repair: a slot-backed attribute whose default differs from the original's value
   read differently (args == (), errno None, ...), and a class that cannot be constructed without
   arguments lost its type *)
Theorem C17_orig_refuted :
  (exists a, reads_same false a = false) /\
  (exists attrs, run_orig (true, false, attrs) = OT "ClassLost" [OS "TypeError"]).
Proof. split; [exists ("args", true, false) | exists []]; reflexivity. Qed.

Print Assumptions C17_all_attributes_equal.
Print Assumptions C17_non_exception_passthrough.
Print Assumptions C17_dict_attributes_forwarded.
Print Assumptions C17_orig_refuted.
