(* C17 — exceptions from configurables keep their type, data and traceback (PARTIAL).
   What is proved is the attribute-resolution argument over the measured attribute table of the class (Python's
   lookup order on the proxy: type-level data descriptor, instance dict, other class-level attribute, __getattr__)
   and over which constructions of the stand-in succeed; CPython's constructors and struct layouts are measured by
   the harness, not modelled. *)
From Coq Require Import List String ZArith Bool.
From GinV Require Import Lib.Out Model.ExcProxy.
Import ListNotations.
Open Scope string_scope.
Open Scope list_scope.

(* current (repaired) code: the exception class is NEVER lost — the caller receives either a stand-in on which every
   public attribute of the original reads the same, or the original itself — whatever the class's attribute table and
   whichever constructions succeed *)
Theorem C17_class_never_lost : forall c attrs,
  run (true, c, attrs) = OT "Original" [] \/
  run (true, c, attrs) = OT "Proxy" [OL (map (fun a => OL [OS (fst a); OB true]) attrs)].
Proof.
  intros [[[sub fa] fn] fb] attrs. unfold run, run_gen. cbn [negb].
  destruct (negb (constructed current sub fa fn fb)); [left; reflexivity|right].
  do 3 f_equal. apply map_ext. intros [n k]. unfold reads_same, current. cbn [snd fst r_slots r_dict]. destruct k; reflexivity.
Qed.

Theorem C17_all_attributes_equal : forall sub fa fn fb attrs,
  constructed current sub fa fn fb = true ->
  run (true, (sub, fa, fn, fb), attrs) = OT "Proxy" [OL (map (fun a => OL [OS (fst a); OB true]) attrs)].
Proof.
  intros sub fa fn fb attrs H. unfold run, run_gen. rewrite H. cbn [negb]. do 3 f_equal. apply map_ext.
  intros [n k]. unfold reads_same, current. cbn [snd fst r_slots r_dict]. destruct k; reflexivity.
Qed.

(* exceptions that are not Exception subclasses pass through untouched *)
Theorem C17_non_exception_passthrough : forall r c attrs, run_gen r (false, c, attrs) = OT "PassThrough" [].
Proof. intros r [[[a b] c] d] attrs. reflexivity. Qed.

(* attributes living only in the instance dict, or only on the class, always read the same *)
Theorem C17_plain_attributes_forwarded : forall r n, reads_same r (n, ADict) = true /\ reads_same r (n, AClass) = true.
Proof. intros. split; reflexivity. Qed.

(* each repair is needed: the code before it read an attribute differently or lost the class *)
Theorem C17_slots_repair_needed :
  reads_same {| r_slots := false; r_dict := true; r_new := true; r_fallback := true |} ("args", ASlot false) = false.
Proof. reflexivity. Qed.
Theorem C17_dict_repair_needed :
  reads_same {| r_slots := true; r_dict := false; r_new := true; r_fallback := true |} ("code", ADictShadow) = false.
Proof. reflexivity. Qed.
Theorem C17_new_repair_needed : forall attrs,
  run_gen {| r_slots := true; r_dict := true; r_new := false; r_fallback := false |} (true, (true, ATypeError, ATypeError, true), attrs) = OT "ClassLost" [].
Proof. reflexivity. Qed.
Theorem C17_fallback_repair_needed : forall attrs,
  (* a class that cannot be subclassed without class keywords; an exception group whose args were re-assigned; a __new__
     that raises something other than TypeError on the original's args *)
  run_gen {| r_slots := true; r_dict := true; r_new := true; r_fallback := false |} (true, (false, AOk, AOk, true), attrs) = OT "ClassLost" [] /\
  run_gen {| r_slots := true; r_dict := true; r_new := true; r_fallback := false |} (true, (true, ATypeError, ATypeError, false), attrs) = OT "ClassLost" [] /\
  run_gen {| r_slots := true; r_dict := true; r_new := true; r_fallback := false |} (true, (true, AOtherError, AOk, true), attrs) = OT "ClassLost" [].
Proof. repeat split; reflexivity. Qed.
(* kept under its earlier name: the original code (no repair at all) *)
Theorem C17_orig_refuted :
  (exists a, reads_same {| r_slots := false; r_dict := false; r_new := false; r_fallback := false |} a = false) /\
  (exists attrs, run_gen {| r_slots := false; r_dict := false; r_new := false; r_fallback := false |} (true, (true, ATypeError, ATypeError, true), attrs) = OT "ClassLost" []).
Proof. split; [exists ("args", ASlot false) | exists []]; reflexivity. Qed.

Print Assumptions C17_class_never_lost.
Print Assumptions C17_all_attributes_equal.
Print Assumptions C17_non_exception_passthrough.
Print Assumptions C17_plain_attributes_forwarded.
Print Assumptions C17_slots_repair_needed.
Print Assumptions C17_dict_repair_needed.
Print Assumptions C17_new_repair_needed.
Print Assumptions C17_fallback_repair_needed.
Print Assumptions C17_orig_refuted.
