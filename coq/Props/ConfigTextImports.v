(* The import header of config_str (static registration), from characters: Model/ConfigTextImports.v
   ([config_text_imports registry imports entries maxlen indent]: the lines  import a.b [as c] / from a import b [as c]
   that Serial.import_manager / sorted_imports / import_format produce, one empty string if there is any, then the text
   of Model/ConfigText.v; compared character for character with gin.config_str() by harness_new/config_text_corr.py on
   stores reached by parsing configs that import stdlib modules in the four forms).  Statements only; proofs in
   Proofs/ConfigTextImports.v.  Dynamic registration (from __gin__ import dynamic_registration; selectors re-spelled
   through module aliases) is OUT of scope.
   [import_ok i]: the alias, if any, is an identifier; the module is a well-formed dotted name accepted by the parser's
   module check (selector_format_ok false false); a from-import has a leaf behind its last dot, an identifier. *)
From Coq Require Import List String ZArith Bool Arith Ascii.
From GinV Require Import Lib.Out Lib.PyStr Model.SelectorMap Model.Parser Model.ParserSpec Model.ParserSpec2 Model.Repr Model.ReprText Model.Lexer.
From GinV Require Import Model.PPrint Model.Serial Model.ConfigText Model.ConfigSerial Model.ConfigTextImports.
From GinV Require Import Proofs.ParserSound Proofs.StatementProofs Proofs.ReprProofs Proofs.ReprTextProofs Proofs.PPrintProofs Proofs.ConfigTextProofs.
From GinV Require Import Proofs.SerialProofs Proofs.ConfigTextBridge Proofs.ConfigTextImports.
Import ListNotations.
Open Scope string_scope.
Open Scope list_scope.

(* config_text is the instance without imports *)
Theorem ConfigTextImports_nil : forall registry entries maxlen indent,
  config_text_imports registry [] entries maxlen indent = ConfigText.config_text registry entries maxlen indent.
Proof. exact config_text_is_imports_nil. Qed.
Theorem ConfigTextImports_expected_nil : forall o registry entries maxlen indent,
  expected_stmts_imports o registry [] entries maxlen indent = expected_stmts o registry entries maxlen indent.
Proof. exact expected_stmts_imports_nil. Qed.

(* MAIN: lexing and parsing the characters yields the SImport statements of the header (module, is_from, alias, line),
   then the bindings, and nothing else *)
Theorem ConfigTextImports_reads_back : forall o registry imports entries maxlen indent,
  Forall import_ok (header_imports imports) -> Forall (item_ok o) (ConfigText.config_items registry entries maxlen) ->
  supported (config_text_imports registry imports entries maxlen indent) = true ->
  exists ts, lex (config_text_imports registry imports entries maxlen indent) = Some ts /\
    exists fuel0, forall fuel, fuel0 <= fuel ->
      parse_all fuel o false ts [] = (expected_stmts_imports o registry imports entries maxlen indent, None).
Proof. exact config_text_imports_reads_back. Qed.

(* one import statement on REAL tokens: the keyword token (its own positions, on one line), the canonical name tokens of
   the module, NAME tokens spelled  import <leaf>  (from-form) and  as <alias>, a NEWLINE token *)
Theorem ConfigTextImports_import_step : forall o (isfrom : bool) (leaf : string) alias kt row col parts mid atoks nlt lead rest,
  ty kt = NAME -> text kt = (if isfrom then "from" else "import") -> srow kt = row -> erow kt = row ->
  wf_name parts -> selector_format_ok false false (name_text parts) = true ->
  mid_real isfrom leaf mid -> alias_real alias atoks -> ty nlt = NEWLINE -> text nlt <> "as" ->
  text nlt <> "/" -> text nlt <> "." -> Forall lead_tok lead ->
  parse_statement o false (lead ++ (kt :: name_tokens row col parts true ++ mid ++ atoks ++ [nlt]) ++ rest) =
  POk (Some ([SImport (if isfrom then name_text parts ++ "." ++ leaf else name_text parts)%string isfrom alias row], nlt :: rest, true)).
Proof. exact import_step_real. Qed.
(* an import line from characters: keyword, dotted module, further blank-separated identifiers, the newline *)
Theorem ConfigTextImports_line_lexes : forall row kw mparts words R,
  is_identifier kw = true -> mparts <> [] -> alt_ok mparts true -> Forall (fun w => is_identifier w = true) words ->
  exists kt wtoks nlt,
    Steps false (bol_st row)
          ((list_ascii_of_string kw ++ " "%char :: flat_map list_ascii_of_string mparts ++ words_chars words) ++ nl :: R)
          (kt :: name_tokens row (S (String.length kw)) mparts true ++ wtoks ++ [nlt]) (bol_st (S row)) R /\
    ty kt = NAME /\ text kt = kw /\ srow kt = row /\ erow kt = row /\ Forall2 word_tok words wtoks /\
    ty nlt = NEWLINE /\ text nlt = String nl EmptyString.
Proof. exact lex_import_line. Qed.
(* streams of trivia, flat bindings and import statements on real tokens *)
Theorem ConfigTextImports_tokens_parse : forall o eof, ty eof = ENDMARKER ->
  forall xs, Forall (tkx_ok o) xs -> forall lead pending prev acc fuel,
  Forall lead_tok lead -> Forall (lit_tok o) (tkx_render xs ++ [eof]) -> List.length xs < fuel ->
  parse_all fuel o pending (pend pending prev (lead ++ tkx_render xs ++ [eof])) acc = (acc ++ flat_map tkx_stmts xs, None).
Proof. exact tkx_parse_all. Qed.

(* THE BRIDGE with imports, and the fixed point of C06_roundtrip_text at the level of characters *)
Theorem ConfigTextImports_is_config_lines : forall registry imports entries maxlen indent,
  Forall (entry_ascii (reg_of registry) (maxlen - indent)) entries ->
  config_text_imports registry imports entries maxlen indent =
  join_lines (Serial.config_lines registry imports (map (sentry_of (maxlen - indent)) entries) maxlen indent).
Proof. exact config_text_imports_is_config_lines. Qed.
Theorem ConfigTextImports_restored_fixpoint : forall registry imports entries maxlen indent,
  List.length imports + 3 <= 10 ^ 20 ->
  NoDup (map (fun e => (c_scope e, c_sel e)) entries) ->
  (forall e, In e entries -> c_section_ok e = true -> c_lit_params e <> []) ->
  Forall (entry_ascii (reg_of registry) (maxlen - indent)) entries ->
  config_text_imports registry (header_imports imports) (c_restored entries) maxlen indent =
  config_text_imports registry imports entries maxlen indent.
Proof. exact config_text_imports_restored_fixpoint. Qed.

(* non-vacuity: the four forms *)
Example ConfigTextImports_ex_text : config_text_imports ct_ex_registry cti_imports ct_ex_entries 24 4 =
"from collections import abc as cabc
from json import decoder
import math as m
import os.path

# Macros:
# ======================
mm = 3

# Parameters for a/b/f:
# ======================
a/b/f.lr = -1
a/b/f.x = \
    {3: 'ab',
     'k': [-1,
           (2,),
           {'x': [1.5,
                  None,
                  True]}],
     'key2': (10,
              20,
              30)}

# Parameters for h:
# ======================
# None.
".
Proof. exact cti_text. Qed.
Example ConfigTextImports_ex_expected : expected_stmts_imports pp_ex_oracle ct_ex_registry cti_imports ct_ex_entries 24 4 =
  [SImport "collections.abc" true (Some "cabc") 1; SImport "json.decoder" true None 2; SImport "math" false (Some "m") 3;
   SImport "os.path" false None 4;
   SBind "" "mm" "" (OT "int" [OS "3"]) 8; SBind "a/b" "f" "lr" (OT "int" [OS "-1"]) 12; SBind "a/b" "f" "x" pp_ex_out 13].
Proof. exact cti_expected. Qed.
Example ConfigTextImports_ex_reads_back_applies :
  exists ts, lex (config_text_imports ct_ex_registry cti_imports ct_ex_entries 24 4) = Some ts /\
    exists fuel0, forall fuel, fuel0 <= fuel ->
      parse_all fuel pp_ex_oracle false ts [] = (expected_stmts_imports pp_ex_oracle ct_ex_registry cti_imports ct_ex_entries 24 4, None).
Proof. apply ConfigTextImports_reads_back; [exact cti_imports_ok | exact ct_ex_items_ok | vm_compute; reflexivity]. Qed.
Example ConfigTextImports_ex_reads_back_computes :
  option_map (fun ts => parse_all 12 pp_ex_oracle false ts []) (lex (config_text_imports ct_ex_registry cti_imports ct_ex_entries 24 4)) =
  Some (expected_stmts_imports pp_ex_oracle ct_ex_registry cti_imports ct_ex_entries 24 4, None).
Proof. exact cti_reads_back_computes. Qed.

Print Assumptions ConfigTextImports_nil.
Print Assumptions ConfigTextImports_expected_nil.
Print Assumptions ConfigTextImports_reads_back.
Print Assumptions ConfigTextImports_import_step.
Print Assumptions ConfigTextImports_line_lexes.
Print Assumptions ConfigTextImports_tokens_parse.
Print Assumptions ConfigTextImports_is_config_lines.
Print Assumptions ConfigTextImports_restored_fixpoint.
Print Assumptions ConfigTextImports_ex_text.
Print Assumptions ConfigTextImports_ex_expected.
Print Assumptions ConfigTextImports_ex_reads_back_applies.
Print Assumptions ConfigTextImports_ex_reads_back_computes.
