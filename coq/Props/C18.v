(* C18 — shared records stay consistent under threads; singletons are constructed once.
   Statements only; proofs in Proofs/ThreadsProofs.v.  Schedules are arbitrary lists of thread ids, the
   number of threads and their programs are arbitrary. *)
From Coq Require Import List String ZArith Bool Arith.
From GinV Require Import Lib.Out Lib.PyStr Model.Values Model.Threads Proofs.ThreadsProofs.
Import ListNotations.
Open Scope string_scope.
Open Scope list_scope.

(* the lock is held exactly by the thread inside its critical section, in every reachable state *)
Theorem C18_mutual_exclusion : forall progs pi,
  let g := run_schedule true true (init_g progs) pi in
  (forall t ts, nth_error (g_threads g) t = Some ts -> In SRelease (th_steps ts) -> g_lock g = Some t) /\
  (forall t, g_lock g = Some t -> exists ts, nth_error (g_threads g) t = Some ts /\ In SRelease (th_steps ts)).
Proof. exact C18_mutual_exclusion. Qed.

(* no call or read ever fails because of another thread *)
Theorem C18_no_failure : forall progs pi, g_failed (run_schedule true true (init_g progs) pi) = false.
Proof. exact C18_no_failure. Qed.

(* every completed read returned the operative record of that moment (a consistent snapshot) *)
Theorem C18_read_is_snapshot : forall progs pi t g g',
  g = run_schedule true true (init_g progs) pi -> step true true g t = Some g' ->
  forall ts ts', nth_error (g_threads g) t = Some ts -> nth_error (g_threads g') t = Some ts' ->
  forall o, th_results ts' = o :: th_results ts ->
    (next_step true true ts = Some SIterNext /\ o = oper_out (g_oper g) /\ g_oper g' = g_oper g) \/
    (exists n obj, next_step true true ts = Some (SReadS n) /\ o = OZ (Z.of_nat obj) /\ In (n, obj) (g_constructed g)).
Proof. exact C18_read_is_snapshot. Qed.

(* when all threads have finished, every look-up in the operative record is independent of the schedule
   (hence equal to that of running the same calls one after another) *)
Theorem C18_sequential_equiv : forall progs pi1 pi2, consistent_eff progs ->
  finished (run_schedule true true (init_g progs) pi1) = true ->
  finished (run_schedule true true (init_g progs) pi2) = true ->
  forall k p, (match oget k (g_oper (run_schedule true true (init_g progs) pi1)) with Some d => aget String.eqb p d | None => None end) =
              (match oget k (g_oper (run_schedule true true (init_g progs) pi2)) with Some d => aget String.eqb p d | None => None end).
Proof. exact C18_sequential_equiv. Qed.

(* singletons (repaired code): at most one construction per name, every use receives that object, for ever *)
Theorem C18_singleton_once : forall progs pi,
  let g := run_schedule true true (init_g progs) pi in
  NoDup (map fst (g_constructed g)) /\
  (forall t g' ts name, step true true g t = Some g' -> nth_error (g_threads g) t = Some ts ->
     next_step true true ts = Some (SReadS name) ->
     exists obj ts', In (name, obj) (g_constructed g') /\
                     (forall obj', In (name, obj') (g_constructed g') -> obj' = obj) /\
                     g_constructed g' = g_constructed g /\
                     nth_error (g_threads g') t = Some ts' /\
                     th_results ts' = OZ (Z.of_nat obj) :: th_results ts) /\
  (forall name obj, sget name (g_single g) = Some obj -> In (name, obj) (g_constructed g)).
Proof. exact C18_singleton_once. Qed.

(* the original, unlocked singleton_value: two first uses can construct twice and see different objects *)
Theorem C18_singleton_orig_refuted : exists progs pi,
  let g := run_schedule true false (init_g progs) pi in
  finished g = true /\ List.length (filter (fun c => String.eqb (fst c) "s") (g_constructed g)) = 2 /\
  exists r0 r1, map (fun ts => th_results ts) (g_threads g) = [[r0]; [r1]] /\ r0 <> r1.
Proof. exact C18_singleton_orig_refuted. Qed.

(* sanity of the model: without the operative lock a read CAN fail *)
Theorem C18_unlocked_read_can_fail : exists progs pi, g_failed (run_schedule false true (init_g progs) pi) = true.
Proof. exact C18_unlocked_read_can_fail. Qed.

Print Assumptions C18_mutual_exclusion.
Print Assumptions C18_no_failure.
Print Assumptions C18_read_is_snapshot.
Print Assumptions C18_sequential_equiv.
Print Assumptions C18_singleton_once.
Print Assumptions C18_singleton_orig_refuted.
Print Assumptions C18_unlocked_read_can_fail.
