(* C01 — injected arguments: caller's values over scope-layered bindings.
   Statements only; proofs in Proofs/CallLemmas.v, Proofs/CallProofs.v. *)
From Coq Require Import List String ZArith Bool Arith.
From GinV Require Import Lib.PyStr Model.SelectorMap Model.Values Model.Gin Model.CallSpec
                         Proofs.CallLemmas Proofs.CallProofs.
Import ListNotations.
Open Scope string_scope.
Open Scope list_scope.

(* the overlay loop (config.py:1393-1397) computes the longest-prefix rule, for every
   store, every scope depth, every parameter *)
Theorem C01_overlay_correct : forall cfg scope sel p, cfg_wf cfg ->
  sget p (get_bindings_for cfg scope sel true) = overlay_spec cfg scope sel p.
Proof. exact overlay_correct. Qed.

Theorem C01_overlay_longest_prefix : forall cfg scope sel p v,
  overlay_spec cfg scope sel p = Some v <->
  exists q, is_prefix q scope /\ bound_at cfg q sel p = Some v /\
            forall q', is_prefix q' scope -> List.length q < List.length q' -> bound_at cfg q' sel p = None.
Proof. exact overlay_longest. Qed.

Theorem C01_overlay_none : forall cfg scope sel p,
  overlay_spec cfg scope sel p = None <-> forall q, is_prefix q scope -> bound_at cfg q sel p = None.
Proof. exact overlay_none. Qed.

(* bindings made under a scope that is not a prefix of the active scope never apply *)
Theorem C01_non_prefix_never_applies : forall cfg scope q' sel d,
  scope_ok scope -> scope_ok q' -> ~ is_prefix q' scope ->
  get_bindings_for (cset (scope_str q', sel) d cfg) scope sel true = get_bindings_for cfg scope sel true.
Proof. exact non_prefix_never_applies. Qed.

Theorem C01_other_selector_frame : forall cfg scope sel sel' s' d, sel' <> sel ->
  get_bindings_for (cset (s', sel') d cfg) scope sel true = get_bindings_for cfg scope sel true.
Proof. exact other_selector_frame. Qed.

Theorem C01_scope_string_injective : forall l1 l2, scope_ok l1 -> scope_ok l2 ->
  join_slash l1 = join_slash l2 -> l1 = l2.
Proof. exact join_slash_inj. Qed.

(* names the caller supplies (positionally or by keyword) are removed from the bindings before the call *)
Theorem C01_prep_bindings : forall cfg scope c args kwargs p, cfg_wf cfg -> no_req args -> no_req_kw kwargs ->
  sget p (prep_bindings cfg scope c args kwargs) =
  if str_in p (supplied_positional_names (c_sig c) args) || smem p kwargs then None
  else overlay_spec cfg scope (c_sel c) p.
Proof. exact prep_bindings_spec. Qed.

(* Gin never creates a "multiple values for argument" error *)
Theorem C01_no_gin_multiple_values : forall c cfg scope args kwargs k, no_req args ->
  smem k (supdate (prep_bindings cfg scope c args kwargs) kwargs) = true ->
  str_in k (supplied_positional_names (c_sig c) args) = true -> smem k kwargs = true.
Proof. exact no_gin_multiple_values. Qed.

(* The property: what the function sees, for every signature shape, store, scope and split of
   the arguments.  nk is the deep copy of the applicable bindings (same keys). *)
Theorem C01_injection : forall c cfg scope args kwargs nk env p,
  let sg := c_sig c in
  sig_wf sg -> cfg_wf cfg -> keys_nodup kwargs -> no_req args -> no_req_kw kwargs -> signature_required c = [] ->
  map fst nk = map fst (prep_bindings cfg scope c args kwargs) ->
  merge_call c args kwargs nk = Ok (args, supdate nk kwargs) /\
  (py_bind sg args (supdate nk kwargs) = Some env -> named sg p ->
     (forall i v, nth_error (s_args sg) i = Some p -> nth_error args i = Some v -> sget p env = Some v) /\
     (forall v, sget p kwargs = Some v -> sget p env = Some v) /\
     (str_in p (supplied_positional_names sg args) = false -> sget p kwargs = None ->
        (forall v, sget p nk = Some v -> sget p env = Some v) /\
        (overlay_spec cfg scope (c_sel c) p = None -> sget p env = sget p (kwarg_defaults sg)))).
Proof. exact C01_injection. Qed.

Theorem C01_varargs_surplus : forall sg args kw env, ~ named sg "*" ->
  py_bind sg args kw = Some env -> s_varargs sg = true ->
  sget "*" env = Some (VTuple (skipn (List.length (s_args sg)) args)).
Proof. exact py_bind_varargs. Qed.

(* non-vacuity: a three-deep scope with overrides at two prefixes and a non-prefix binding *)
Example C01_nonvacuous :
  let cfg := [(("", "m.f"), [("a", VInt 1); ("b", VInt 1)]); (("s1", "m.f"), [("a", VInt 2)]);
              (("s1/s2", "m.f"), [("b", VInt 3)]); (("s2/s1", "m.f"), [("a", VInt 99)])] in
  cfg_wf cfg /\ overlay_spec cfg ["s1"; "s2"; "s3"] "m.f" "a" = Some (VInt 2) /\
  overlay_spec cfg ["s1"; "s2"; "s3"] "m.f" "b" = Some (VInt 3) /\
  sget "a" (get_bindings_for cfg ["s1"; "s2"; "s3"] "m.f" true) = Some (VInt 2).
Proof.
  split.
  - intros k d H. cbn in H.
    repeat match type of H with
           | (if ?b then _ else _) = _ => destruct b; [inversion H; subst; cbn; repeat constructor; cbn; intuition congruence|]
           end. discriminate.
  - vm_compute. intuition.
Qed.

Print Assumptions C01_overlay_correct.
Print Assumptions C01_overlay_longest_prefix.
Print Assumptions C01_overlay_none.
Print Assumptions C01_non_prefix_never_applies.
Print Assumptions C01_other_selector_frame.
Print Assumptions C01_scope_string_injective.
Print Assumptions C01_prep_bindings.
Print Assumptions C01_no_gin_multiple_values.
Print Assumptions C01_injection.
Print Assumptions C01_varargs_surplus.
