(* C10 — REQUIRED parameters are filled from the config or the call fails cleanly.
   Statements only; proofs in Proofs/CallProofs.v, Proofs/MachineProofs.v. *)
From Coq Require Import List String ZArith Bool Arith.
From GinV Require Import Lib.PyStr Model.SelectorMap Model.Values Model.Gin Model.CallSpec
                         Proofs.CallLemmas Proofs.CallProofs.
Import ListNotations.
Open Scope string_scope.
Open Scope list_scope.

(* the marker itself never reaches the function (given that no binding evaluates to the marker,
   and the *args guard of config.py:1513-1519 passed) *)
Theorem C10_never_leaks : forall c args kwargs nk na fk, keys_nodup nk ->
  (forall k v, sget k nk = Some v -> is_req v = false) ->
  existsb is_req (skipn (List.length (supplied_positional_names (c_sig c) args)) args) = false ->
  merge_call c args kwargs nk = Ok (na, fk) ->
  Forall (fun v => is_req v = false) na /\ (forall k v, sget k fk = Some v -> is_req v = false).
Proof. exact C10_never_leaks. Qed.

(* filled in place: a positional marker at index i is replaced, at index i, by the value bound
   to the i-th parameter; every other positional argument keeps position and value *)
Theorem C10_filled_in_place : forall names args nk na nk' miss i a, NoDup names ->
  fill_required names args nk = (na, nk', miss) -> nth_error args i = Some a ->
  nth_error na i = Some (if is_req a then match nth_error names i with
                                          | Some p => match sget p nk with Some v => v | None => a end
                                          | None => a end else a).
Proof. exact fill_required_nth. Qed.

Theorem C10_other_args_unchanged : forall c args kwargs nk na fk i a,
  merge_call c args kwargs nk = Ok (na, fk) -> nth_error args i = Some a -> is_req a = false ->
  nth_error na i = Some a.
Proof. exact C10_other_args_unchanged. Qed.

(* exactly the unfilled positional markers are reported ... *)
Theorem C10_missing_positional_exact : forall names args nk na nk' miss p, NoDup names ->
  fill_required names args nk = (na, nk', miss) ->
  (In p miss <-> exists i, nth_error names i = Some p /\ nth_error args i = Some VReq /\ sget p nk = None).
Proof. exact fill_required_missing. Qed.

(* ... an unfilled marker (positional or keyword) always makes the call fail before the body runs *)
Theorem C10_missing_raises : forall c args kwargs nk,
  ((exists i p, nth_error (s_args (c_sig c)) i = Some p /\ nth_error args i = Some VReq /\ sget p nk = None) \/
   (exists p, sget p kwargs = Some VReq /\ sget p nk = None)) ->
  exists e, merge_call c args kwargs nk = Raise e.
Proof. exact C10_missing_raises. Qed.

(* ... and the error names them in signature order *)
Theorem C10_error_names_in_signature_order : forall c args kwargs nk e, merge_call c args kwargs nk = Raise e ->
  exists missing, missing <> [] /\
    e = ("RuntimeError:" ++ join "," (order_by_signature (c_sig c) missing))%string.
Proof. exact C10_error_names_sorted. Qed.

Theorem C10_order_by_signature_members : forall sg names p, In p (order_by_signature sg names) <-> In p names.
Proof. exact order_by_signature_in. Qed.
Theorem C10_order_by_signature_nodup : forall sg names, NoDup names -> NoDup (s_args sg ++ kwonly_names sg) ->
  NoDup (order_by_signature sg names).
Proof. exact order_by_signature_nodup. Qed.
Theorem C10_order_by_signature_order : forall sg names, exists rest,
  order_by_signature sg names = filter (fun a => str_in a names) (s_args sg ++ kwonly_names sg) ++ rest /\
  forall r, In r rest -> ~ In r (s_args sg ++ kwonly_names sg).
Proof. exact order_by_signature_sig_order. Qed.

(* without any caller marker: either the call goes through untouched or exactly the unsupplied
   signature-level REQUIRED names are reported *)
Theorem C10_signature_required : forall c args kwargs nk, no_req args -> no_req_kw kwargs ->
  merge_call c args kwargs nk =
  match filter (fun r => negb (str_in r (supplied_positional_names (c_sig c) args)) && negb (smem r kwargs)
                         && negb (smem r nk)) (signature_required c) with
  | [] => Ok (args, supdate nk kwargs)
  | m :: ms => Raise ("RuntimeError:" ++ join "," (order_by_signature (c_sig c) (m :: ms)))%string
  end.
Proof. exact merge_call_no_marker. Qed.

Example C10_nonvacuous :
  let sg := {| s_args := ["a"; "b"; "c"]; s_defaults := [VReq]; s_varargs := false;
               s_kwonly := [("k1", Some VReq); ("k2", None)]; s_varkw := true |} in
  let c := {| c_sel := "m.f"; c_kind := KProbe; c_sig := sg; c_allow := []; c_deny := []; c_method := false |} in
  merge_call c [VReq; VInt 1] [("k2", VReq); ("z", VReq)] [("a", VInt 5)] = Raise "RuntimeError:c,k1,k2,z" /\
  merge_call c [VReq; VInt 1] [("k2", VReq)] [("a", VInt 5); ("c", VInt 6); ("k1", VInt 7); ("k2", VInt 8)]
    = Ok ([VInt 5; VInt 1], [("c", VInt 6); ("k1", VInt 7); ("k2", VInt 8)]).
Proof. vm_compute. split; reflexivity. Qed.

Print Assumptions C10_never_leaks.
Print Assumptions C10_filled_in_place.
Print Assumptions C10_other_args_unchanged.
Print Assumptions C10_missing_positional_exact.
Print Assumptions C10_missing_raises.
Print Assumptions C10_error_names_in_signature_order.
Print Assumptions C10_order_by_signature_members.
Print Assumptions C10_order_by_signature_nodup.
Print Assumptions C10_order_by_signature_order.
Print Assumptions C10_signature_required.
