(* C20 — clear_config returns the configuration to its pristine state.
   Statements only; proofs in Proofs/MachineProofs.v, Proofs/MachineClear.v. *)
From Coq Require Import List String ZArith Bool.
From GinV Require Import Lib.Out Lib.PyStr Model.SelectorMap Model.Values Model.Gin Model.GinEngine
                         Proofs.MachineFrame Proofs.MachineProofs Proofs.MachineClear.
Import ListNotations.
Open Scope string_scope.
Open Scope list_scope.

(* clear_config always succeeds (repaired code) ... *)
Theorem C20_clear_total : forall s b, exists s', clear_config s b = (s', Ok tt).
Proof. exact clear_total. Qed.

(* ... and leaves no bindings, no operative record, no singletons, an unlocked configuration, the same registry *)
Theorem C20_pristine : forall s b s', clear_config s b = (s', Ok tt) ->
  config s' = [] /\ operative s' = [] /\ singletons s' = [] /\ locked s' = false /\ reg s' = reg s /\
  scopes s' = scopes s /\ (b = true -> constants s' = req_constants).
Proof. exact clear_ok_pristine. Qed.

(* after ANY history from any set of registrations, clear_config() keeps every constant *)
Theorem C20_after_any_history : forall fuel regs ops,
  let s := run_top fuel (setup regs) ops in
  exists s', clear_config s false = (s', Ok tt) /\
    sm_flat (constants s') = sm_flat (constants s) /\
    config s' = [] /\ operative s' = [] /\ singletons s' = [] /\ locked s' = false.
Proof. exact clear_keeps_constants_run. Qed.

(* the code before the repair could fail: constants a.b.X then b.X defined in interactive mode *)
Theorem C20_orig_can_fail_refuted : exists s,
  (exists s0 ops, s = run_top 50 init_state ops /\ s0 = s) /\
  exists s' e, clear_config_orig s false = (s', Raise e).
Proof. exact clear_can_fail_refuted. Qed.

Print Assumptions C20_clear_total.
Print Assumptions C20_pristine.
Print Assumptions C20_after_any_history.
Print Assumptions C20_orig_can_fail_refuted.
