(* pprint.pformat WITH the splitting of long strs (Model/PPrintStr.v: [pformat_s], value trees whose string atoms carry
   their ASCII content; compared character for character with CPython 3.12.1 by harness_new/pprint_str_corr.py, which skips
   no case because of a split str).  Statements only; proofs in Proofs/PPrintStrProofs.v.
   PROVED: the cases without re-layout, and the witness against the docstring of gin/config.py:_config_str.
   NOT PROVED (future work): the general pformat_s_reads_back (adjacent STRING tokens / LStrs, LParen; the oracle tied
   to StrLit.decode_str_literals) and  pformat_s w v = pformat w (erase v)  for trees in which nothing is split. *)
From Coq Require Import List String ZArith NArith Bool Arith Ascii.
From GinV Require Import Lib.Out Lib.PyStr Model.Parser Model.ParserSpec Model.Repr Model.Lexer Model.ReprText Model.PPrint Model.StrLit Model.PPrintStr.
From GinV Require Import Proofs.PPrintStrProofs.
Import ListNotations.
Open Scope string_scope.
Open Scope list_scope.

Theorem PPrintStr_fits : forall (w : nat) v, (String.length (repr_string (erase v)) <= w)%nat -> pformat_s w v = repr_string (erase v).
Proof. exact pformat_s_fits. Qed.
Theorem PPrintStr_atom : forall w t, pformat_s w (SAtom t) = text t /\ pformat_s w (SRaw t) = text t /\ pformat_s w (SStr []) = "''".
Proof. exact pformat_s_atom. Qed.
(* pprint.pformat('the quick brown fox jumps over the lazy dog and keeps running', width=36) *)
Example PPrintStr_ex_split : pformat_s 36 (SStr pps_fox) =
"('the quick brown fox jumps over '
 'the lazy dog and keeps running')".
Proof. exact pps_fox_split. Qed.
Example PPrintStr_ex_in_list : pformat_s 36 (SList [SStr pps_fox]) =
"['the quick brown fox jumps over '
 'the lazy dog and keeps running']".
Proof. exact pps_fox_in_list. Qed.
(* gin/config.py:_config_str says "long strings won't be split into a concatenation of shorter strings": FALSE for
   strings with blanks -- this is the text gin.config_str(40, 4) prints for  m.f.a = <that string> *)
Example PPrintStr_docstring_claim_false :
  format_binding_s 40 4 "f.a" (SStr pps_fox) =
"f.a = \
    ('the quick brown fox jumps over '
     'the lazy dog and keeps running')" /\
  pformat_s 36 (SStr pps_fox) <> repr_string (erase (SStr pps_fox)).
Proof. exact pps_docstring_claim_false. Qed.
(* ... which the modelled tokenizer and parser read back as the string (two STRING tokens in parentheses) *)
Example PPrintStr_ex_reads_back :
  option_map (fun ts => run_value_api (pps_oracle, ts)) (lex (pformat_s 36 (SStr pps_fox))) =
  Some (OT "Value" [OT "str" [OS "the quick brown fox jumps over the lazy dog and keeps running"]]).
Proof. exact pps_fox_reads_back. Qed.

Print Assumptions PPrintStr_fits.
Print Assumptions PPrintStr_atom.
Print Assumptions PPrintStr_ex_split.
Print Assumptions PPrintStr_ex_in_list.
Print Assumptions PPrintStr_docstring_claim_false.
Print Assumptions PPrintStr_ex_reads_back.
