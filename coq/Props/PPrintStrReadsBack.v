(* pformat_s (Model/PPrintStr.v: pprint.pformat with the splitting of long strs) is read back by gin as the value repr
   denotes.  Statements only; proofs in Proofs/PPrintStrLayout.v.
   [pformat_s_lit w v] (Model/PPrintStrLit.v): the literal tree of the text -- lit_of (erase v), except that a split str is a
     run of adjacent string literals LStrs, inside LParen when it is the whole value;
   [oracle_agrees_with_decode o strv]: whatever the oracle answers for a run of str literal texts that
     StrLit.decode_str_literals decodes is [strv] of the decoded concatenation (a statement about the entries the table has;
     harness_new/pprint_str_corr.py checks it on every run of every generated case against ast.literal_eval);
   [lit_wf o (pformat_s_lit w v)]: the oracle HAS an answer for every text the parser hands to ast.literal_eval (every
     prefix of every run of adjacent literals);
   [sv_atoms] the NAME / NUMBER / bytes tokens of the tree, [sv_strs] the contents of its strs (ASCII), [svd] its depth. *)
From Coq Require Import List String ZArith NArith Bool Arith Ascii.
From GinV Require Import Lib.Out Lib.PyStr Model.Parser Model.ParserSpec Model.Repr Model.Lexer Model.ReprText Model.PPrint Model.StrLit
  Model.PPrintStr Model.PPrintStrLit.
From GinV Require Import Proofs.ReprProofs Proofs.ReprTextProofs Proofs.PPrintProofs Proofs.PPrintStrProofs Proofs.PPrintStrLayout.
Import ListNotations.
Open Scope string_scope.
Open Scope list_scope.

(* the chunks pprint cuts a str into concatenate to the str *)
Theorem PPrintStr_chunks_concat : forall w s i a top, List.concat (str_chunks w s i a top) = s.
Proof. exact str_chunks_concat. Qed.
(* the text is a layout (relation PPS) whose literal tree is pformat_s_lit, at every column / allowance / level *)
Theorem PPrintStr_is_layout : forall w v i a top,
  exists ts sl, PPS (SFV v) (list_ascii_of_string (pformat_s_at w v i a top)) ts sl (L1 (pformat_s_lit_at w v i a top)).
Proof. exact pformat_s_at_PPS. Qed.
(* lexing the characters gives, up to positions, a rendering of that literal tree in a layout of NL tokens *)
Theorem PPrintStr_is_rendering : forall w v,
  Forall atom_lexable (sv_atoms v) -> Forall ascii_str (sv_strs v) -> svd v < 200 -> supported (pformat_s w v) = true ->
  exists toks n e lay rtoks n',
    lex (pformat_s w v) = Some (toks ++ [n; e]) /\
    lay_ok lay /\ (forall k, lay k = [] \/ lay k = [nl_tok]) /\ render (pformat_s_lit w v) lay 0 false = (rtoks, n') /\
    map ty toks = map ty rtoks /\ map text toks = map text rtoks /\
    ty n = NEWLINE /\ text n = "" /\ ty e = ENDMARKER /\ text e = "".
Proof. exact pformat_s_is_rendering. Qed.
(* the literal tree of the text means what the literal tree of repr means *)
Theorem PPrintStr_same_meaning : forall o strv w v x,
  oracle_agrees_with_decode o strv -> Forall ascii_str (sv_strs v) -> lit_wf o (pformat_s_lit w v) ->
  py_eval o (lit_of (erase v)) = Some x -> py_eval o (pformat_s_lit w v) = Some x.
Proof.
  intros o strv w v x Hag Hst Hwf Hx. unfold pformat_s_lit in *. destruct (pformat_s_at_PPS w v 0 0 true) as [ts [sl H]].
  exact (PPS_eval o strv Hag _ _ _ _ _ H Hst Hwf x Hx).
Qed.
(* MAIN *)
Theorem PPrintStr_reads_back : forall o strv w v x,
  oracle_agrees_with_decode o strv -> lit_wf o (pformat_s_lit w v) -> denote o (erase v) = Some x ->
  Forall atom_lexable (sv_atoms v) -> Forall ascii_str (sv_strs v) -> svd v < 200 -> supported (pformat_s w v) = true ->
  exists ts, lex (pformat_s w v) = Some ts /\ run_value_api (o, ts) = OT "Value" [x].
Proof. exact pformat_s_reads_back. Qed.
(* the definedness hypothesis is satisfiable: the witness string, two literals in parentheses *)
Example PPrintStr_ex_lit : pformat_s_lit 36 (SStr pps_fox) = LParen (LStrs [str_tok (firstn 31 pps_fox); str_tok (skipn 31 pps_fox)]).
Proof. exact pps_fox_lit. Qed.
Example PPrintStr_ex_lit_wf : lit_wf pps_oracle (pformat_s_lit 36 (SStr pps_fox)).
Proof. exact pps_fox_lit_wf. Qed.

Print Assumptions PPrintStr_chunks_concat.
Print Assumptions PPrintStr_is_layout.
Print Assumptions PPrintStr_is_rendering.
Print Assumptions PPrintStr_same_meaning.
Print Assumptions PPrintStr_reads_back.
Print Assumptions PPrintStr_ex_lit.
Print Assumptions PPrintStr_ex_lit_wf.

(* (appended) pformat_s is pformat of the erased tree whenever pprint splits no str of the value -- so the theorems of
   Props/PPrint.v are the special case; [unsplit w v]: every str of v is written as its repr by _pprint_str at width w,
   wherever it stands *)
From GinV Require Import Proofs.PPrintStrErase.
Theorem PPrintStr_unsplit : forall w v, unsplit w v -> pformat_s w v = pformat w (erase v).
Proof. exact pformat_s_unsplit. Qed.
Theorem PPrintStr_str_free : forall w v, sv_strs v = [] -> pformat_s w v = pformat w (erase v).
Proof. exact pformat_s_str_free. Qed.
Print Assumptions PPrintStr_unsplit.
Print Assumptions PPrintStr_str_free.
