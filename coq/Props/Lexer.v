(* The character-level lexer Model/Lexer.v ([lex], a model of CPython 3.12's tokenize.generate_tokens on the
   class of texts [supported]; validated differentially against the real tokenizer, see difftest.py / RESULTS.txt)
   and its connection to the token-level parser theory.
   Statements only; proofs in Proofs/LexerProofs.v (the lexer) and Proofs/LexerParser.v (lexer meets parser).
   Every theorem is about ALL supported texts: [lex s = Some ts] means exactly [supported s = true]. *)
From Coq Require Import List String ZArith Bool Arith Ascii.
From GinV Require Import Lib.Out Lib.PyStr Model.Parser Model.ParserSpec.
From GinV Require Import Proofs.ParserLemmas Proofs.ParserProofs Proofs.ParserSound Proofs.ParserApi.
From GinV Require Import Model.Lexer Proofs.LexerProofs Proofs.LexerParser Proofs.LexerFlush.
Import ListNotations.
Open Scope string_scope.
Open Scope list_scope.

(* ------------------------------------------------------------------ *)
(* the modelled class is decided by the boolean [supported]: bytes 10 and 32..126 only, and no f / F directly
   (or with an r / R in between) in front of a quote *)
Theorem Lexer_defined_iff_supported : forall s, lex s = None <-> supported s = false.
Proof. exact lex_none_iff. Qed.

(* ------------------------------------------------------------------ *)
(* (a) shape: body tokens, then exactly one final token -- the ENDMARKER (empty text), or the error token
   TERR "TokenError" (line 0) / TERR "IndentationError" (at its line); no ENDMARKER / TERR / ERRORTOKEN before it *)
Theorem Lexer_shape : forall s ts, lex s = Some ts ->
  exists front last, ts = front ++ [last] /\
    Forall (fun t => In (ty t) [NAME; NUMBER; STRING; OP; NEWLINE; NL; COMMENT; INDENT; DEDENT]) front /\
    ((ty last = ENDMARKER /\ text last = "") \/ last = terr_token \/ exists n, last = terr_indent n).
Proof. exact lex_shape. Qed.
(* nothing follows an ENDMARKER or an error token *)
Theorem Lexer_endmarker_last : forall s ts, lex s = Some ts ->
  forall pre t post, ts = pre ++ t :: post -> ty t = ENDMARKER \/ ty t = TERR -> post = [].
Proof. exact lex_one_endmarker. Qed.

(* ------------------------------------------------------------------ *)
(* (b) bracket discipline.  [depth pre]: the OP tokens ( [ { of [pre] minus its OP tokens ) ] }, a closer at
   depth 0 not counted ([tok_level]; the tokenizer itself tolerates unmatched closers).
   NEWLINE, INDENT and DEDENT tokens only occur at depth 0 ... *)
Theorem Lexer_newline_at_depth_0 : forall s ts, lex s = Some ts ->
  forall pre t post, ts = pre ++ t :: post -> ty t = NEWLINE \/ ty t = INDENT \/ ty t = DEDENT -> depth pre = 0.
Proof. exact lex_layout_depth0. Qed.
(* ... so every line end inside brackets is an NL token *)
Theorem Lexer_line_end_in_brackets_is_NL : forall s ts, lex s = Some ts ->
  forall pre t post, ts = pre ++ t :: post -> ty t = NEWLINE \/ ty t = NL -> 0 < depth pre -> ty t = NL.
Proof. exact lex_nl_in_brackets. Qed.

(* ------------------------------------------------------------------ *)
(* (c) INDENT / DEDENT stand at the start of a line: an INDENT is the first token or follows a NEWLINE / NL token,
   a DEDENT likewise or follows another DEDENT (and both are at bracket depth 0, see (b)) *)
Theorem Lexer_indent_at_line_start : forall s ts, lex s = Some ts ->
  forall pre t post, ts = pre ++ t :: post -> ty t = INDENT \/ ty t = DEDENT ->
  pre = [] \/ exists pre' u, pre = pre' ++ [u] /\ (ty u = NEWLINE \/ ty u = NL \/ (ty t = DEDENT /\ ty u = DEDENT)).
Proof. exact lex_indent_placement. Qed.
(* in error-free output every INDENT has its DEDENT; in any output there are never more DEDENTs than INDENTs *)
Theorem Lexer_indents_balanced : forall s ts, lex s = Some ts ->
  forall front e, ts = front ++ [e] -> ty e = ENDMARKER -> count_ty INDENT front = count_ty DEDENT front.
Proof. exact lex_balanced. Qed.
Theorem Lexer_dedents_le_indents : forall s ts, lex s = Some ts -> count_ty DEDENT ts <= count_ty INDENT ts.
Proof. exact lex_dedent_le. Qed.

(* ------------------------------------------------------------------ *)
(* (d) positions.  [ordered (1,0) ts]: skipping the error token (it carries the exception's line, not a position),
   every token starts at or behind the end of its predecessor (lexicographically on (row, column), the first one
   at or behind line 1 column 0), ends at or behind its start, and strictly behind it when its text is not empty *)
Theorem Lexer_ordered : forall s ts, lex s = Some ts -> ordered (1, 0) ts.
Proof. exact lex_ordered. Qed.
(* spelled out: rows never decrease along the stream, columns increase within a row ... *)
Theorem Lexer_adjacent_tokens : forall s ts, lex s = Some ts ->
  forall pre a b post, ts = pre ++ a :: b :: post -> ty b <> TERR ->
  erow a <= srow b /\ (erow a = srow b -> ecol a <= scol b) /\ srow a <= srow b.
Proof. exact lex_adjacent. Qed.
(* ... and inside one token *)
Theorem Lexer_token_span : forall s ts, lex s = Some ts ->
  forall t, In t ts -> ty t <> TERR ->
  srow t <= erow t /\ (srow t = erow t -> scol t <= ecol t) /\ (text t <> "" -> srow t = erow t -> scol t < ecol t).
Proof. exact lex_token_span. Qed.

(* ------------------------------------------------------------------ *)
(* (e) losslessness: the text of every token that has one is the slice of the text AS GIVEN (not normalised)
   at the token's position; [slice s srow scol erow ecol] walks [s] with 1-based rows and 0-based columns.
   Tokens with the empty text are the synthetic ones: DEDENT, ENDMARKER, the NEWLINE / NL the tokenizer adds to an
   unterminated last line, and an INDENT whose blanks sit on a line joined with a backslash. *)
Theorem Lexer_lossless : forall s ts, lex s = Some ts ->
  forall t, In t ts -> ty t <> TERR -> text t <> "" -> slice s (srow t) (scol t) (erow t) (ecol t) = text t.
Proof. exact lex_lossless. Qed.

(* ------------------------------------------------------------------ *)
(* (f) kinds *)
Theorem Lexer_NAME_is_identifier : forall s ts, lex s = Some ts ->
  forall t, In t ts -> ty t = NAME -> is_identifier (text t) = true.
Proof. exact lex_name. Qed.
(* [op_table]: token.EXACT_TOKEN_TYPES of 3.12 (with "!" and "<>"), and the characters $ ? ` *)
Theorem Lexer_OP_in_table : forall s ts, lex s = Some ts -> forall t, In t ts -> ty t = OP -> In (text t) op_table.
Proof. exact lex_op. Qed.
Theorem Lexer_COMMENT_shape : forall s ts, lex s = Some ts ->
  forall t, In t ts -> ty t = COMMENT -> exists r, text t = String "#" r /\ all_chars not_nl r = true.
Proof. exact lex_comment. Qed.
(* an optional prefix of at most two letters, then a quote ... the same quote *)
Theorem Lexer_STRING_shape : forall s ts, lex s = Some ts ->
  forall t, In t ts -> ty t = STRING ->
  exists pfx q body, text t = (pfx ++ String q (body ++ String q ""))%string /\
    (q = "'"%char \/ q = """"%char) /\ String.length pfx <= 2 /\ all_chars is_alpha_ pfx = true.
Proof. exact lex_string. Qed.
Theorem Lexer_NUMBER_shape : forall s ts, lex s = Some ts ->
  forall t, In t ts -> ty t = NUMBER ->
  exists c r, text t = String c r /\ (is_digit c = true \/ c = "."%char) /\ all_chars not_nl r = true.
Proof. exact lex_number. Qed.
Theorem Lexer_layout_texts : forall s ts, lex s = Some ts ->
  forall t, In t ts ->
  (ty t = INDENT -> all_chars is_space (text t) = true) /\
  (ty t = DEDENT \/ ty t = ENDMARKER -> text t = "") /\
  (ty t = NEWLINE \/ ty t = NL -> text t = String nl "" \/ text t = "").
Proof. exact lex_layout_text. Qed.

(* ================================================================== *)
(* The lexer meets the parser theory: the per-token side conditions of Props/C02.v, C03.v hold for its output *)
Theorem Lexer_tok_ok : forall s ts, lex s = Some ts -> Forall tok_ok ts.
Proof. exact lex_tok_ok. Qed.
Theorem Lexer_no_ERRORTOKEN : forall s ts, lex s = Some ts -> Forall (fun t => ty t <> ERRORTOKEN) ts.
Proof. exact lex_no_errortoken. Qed.
(* _advance_one_token's skipping of blank ERRORTOKENs never fires *)
Theorem Lexer_settle_id : forall s ts, lex s = Some ts -> forall ts', settle ts = POk ts' -> ts' = ts.
Proof. exact lex_settle. Qed.
Theorem Lexer_plain_within_block : forall s ts, lex s = Some ts -> Forall (plain_tok true) ts.
Proof. exact lex_plain_true. Qed.
(* outside a block: as soon as the text produces no INDENT token (then it has no DEDENT either) *)
Theorem Lexer_plain : forall s ts, lex s = Some ts ->
  Forall (fun t => ty t <> INDENT) ts -> Forall (plain_tok false) ts.
Proof. exact lex_plain_false. Qed.

(* FINDING.  The hypothesis [Forall canon_punct ts] of C02_sound / C02_sound_strong / C02_api_sound_exact ("exact form,
   for streams as the real tokenizer produces them") is NOT met by real token streams: canon_punct wants every
   token spelled - [ ] ( ) { } , : to BE [op_tok text], whose position is line 1, columns 0..0, while a real
   punctuation token is one column wide.  On lexer output the hypothesis holds only if there is no punctuation: *)
Theorem Lexer_not_canon_punct : forall s ts, lex s = Some ts ->
  forall t, In t ts -> punct (text t) -> ~ canon_punct t.
Proof. exact lex_not_canon. Qed.
Theorem Lexer_canon_punct_iff_no_punct : forall s ts, lex s = Some ts ->
  (Forall canon_punct ts <-> Forall (fun t => ~ punct (text t)) ts).
Proof. exact lex_canon_iff. Qed.
Example Lexer_bracket_example :
  lex "[1]" = Some [ {| ty := OP; text := "["; srow := 1; scol := 0; erow := 1; ecol := 1 |};
                     {| ty := NUMBER; text := "1"; srow := 1; scol := 1; erow := 1; ecol := 2 |};
                     {| ty := OP; text := "]"; srow := 1; scol := 2; erow := 1; ecol := 3 |};
                     {| ty := NEWLINE; text := ""; srow := 1; scol := 3; erow := 1; ecol := 4 |};
                     {| ty := ENDMARKER; text := ""; srow := 2; scol := 0; erow := 2; ecol := 0 |} ].
Proof. exact lex_bracket_example. Qed.

(* The exact form that real streams DO satisfy (no canon_punct; consumed tokens = rendering up to the positions
   of punctuation tokens, [tok_sim]) -- a theorem of the token level ... *)
Theorem C02_api_sound_plain : forall o ts v,
  parse_single_value o ts = POk v -> Forall (lit_tok o) ts -> Forall (plain_tok false) ts ->
  exists l lay toks n' used skipped e more,
    lay_ok lay /\ lit_wf o l /\ py_eval o l = Some v /\ render l lay 0 true = (toks, n') /\
    Forall2 tok_sim toks used /\ ts = used ++ skipped ++ e :: more /\
    Forall (fun t => ty t = NEWLINE \/ ty t = NL \/ ty t = COMMENT) skipped /\ ty e = ENDMARKER.
Proof. exact api_sound_plain. Qed.

(* ... and END TO END FROM CHARACTERS: if the modelled API gin.config.parse_value (tokenize, _advance_one_token,
   parse_single_value) returns the value v on a supported text whose tokens contain no "@" / "%" sigil and no
   INDENT (the oracle, a table of ast.literal_eval results, having no value for "-" + string literal), then the
   text IS a literal: its tokens are, up to the positions of punctuation tokens, the rendering of a well-formed
   literal tree l, in a layout of NL / COMMENT tokens, whose Python value is v; behind it only NEWLINE / NL /
   COMMENT tokens and the end marker.  tok_ok, plain_tok and the ERRORTOKEN clauses are discharged by the lexer. *)
Theorem Lexer_api_sound : forall s ts o v,
  lex s = Some ts ->
  run_value_api (o, ts) = OT "Value" [v] ->
  (forall t, In t ts -> text t <> "@" /\ text t <> "%") ->
  (forall t, In t ts -> ty t <> INDENT) ->
  (forall t, In t ts -> ty t = STRING -> forall w, olookup o ("-" ++ text t)%string <> Some (Some w)) ->
  exists l lay toks n' used skipped e more,
    lay_ok lay /\ lit_wf o l /\ py_eval o l = Some v /\ render l lay 0 true = (toks, n') /\
    Forall2 tok_sim toks used /\ ts = used ++ skipped ++ e :: more /\
    Forall (fun t => ty t = NEWLINE \/ ty t = NL \/ ty t = COMMENT) skipped /\ ty e = ENDMARKER.
Proof. exact lexer_api_sound. Qed.


(* A CHARACTER-level condition for "no INDENT token": [flush_left s] -- no line of the text begins with a blank or a
   backslash (sufficient, not necessary: indented lines inside brackets would be harmless) *)
Theorem Lexer_flush_left_no_INDENT : forall s ts, lex s = Some ts -> flush_left s = true ->
  Forall (fun t => ty t <> INDENT) ts.
Proof. exact lex_flush_no_indent. Qed.
(* ... so the end-to-end theorem needs no hypothesis about INDENT tokens *)
Theorem Lexer_api_sound_text : forall s ts o v,
  lex s = Some ts -> flush_left s = true ->
  run_value_api (o, ts) = OT "Value" [v] ->
  (forall t, In t ts -> text t <> "@" /\ text t <> "%") ->
  (forall t, In t ts -> ty t = STRING -> forall w, olookup o ("-" ++ text t)%string <> Some (Some w)) ->
  exists l lay toks n' used skipped e more,
    lay_ok lay /\ lit_wf o l /\ py_eval o l = Some v /\ render l lay 0 true = (toks, n') /\
    Forall2 tok_sim toks used /\ ts = used ++ skipped ++ e :: more /\
    Forall (fun t => ty t = NEWLINE \/ ty t = NL \/ ty t = COMMENT) skipped /\ ty e = ENDMARKER.
Proof. exact lexer_api_sound_text. Qed.

Print Assumptions Lexer_defined_iff_supported.
Print Assumptions Lexer_shape.
Print Assumptions Lexer_endmarker_last.
Print Assumptions Lexer_newline_at_depth_0.
Print Assumptions Lexer_line_end_in_brackets_is_NL.
Print Assumptions Lexer_indent_at_line_start.
Print Assumptions Lexer_indents_balanced.
Print Assumptions Lexer_dedents_le_indents.
Print Assumptions Lexer_ordered.
Print Assumptions Lexer_adjacent_tokens.
Print Assumptions Lexer_token_span.
Print Assumptions Lexer_lossless.
Print Assumptions Lexer_NAME_is_identifier.
Print Assumptions Lexer_OP_in_table.
Print Assumptions Lexer_COMMENT_shape.
Print Assumptions Lexer_STRING_shape.
Print Assumptions Lexer_NUMBER_shape.
Print Assumptions Lexer_layout_texts.
Print Assumptions Lexer_tok_ok.
Print Assumptions Lexer_no_ERRORTOKEN.
Print Assumptions Lexer_settle_id.
Print Assumptions Lexer_plain_within_block.
Print Assumptions Lexer_plain.
Print Assumptions Lexer_not_canon_punct.
Print Assumptions Lexer_canon_punct_iff_no_punct.
Print Assumptions Lexer_bracket_example.
Print Assumptions C02_api_sound_plain.
Print Assumptions Lexer_api_sound.
Print Assumptions Lexer_flush_left_no_INDENT.
Print Assumptions Lexer_api_sound_text.
