(* pprint.pformat on literal value trees (Model/PPrint.v: [pformat w v], a character-level model of CPython 3.12.1
   PrettyPrinter._format with gin's settings, compared text for text with the real pprint.pformat and with
   gin.config_str by harness_new/pprint_corr.py) writes a RE-LAYOUT of repr's token stream, and gin's reader
   (tokenizer model Model/Lexer.v + parser model Model/Parser.v) reads the text back as the value.
   Statements only; proofs in Proofs/PPrintProofs.v.
   Class: value trees over atom TOKENS (Model/Repr.v); dict items in the order given (pprint's sorted order is
   supplied by whoever builds the tree); string / bytes atoms are never split (pprint splits long strs with blanks /
   line breaks and bytes longer than 4: outside this model); lengths are byte counts (ASCII texts).
   [atom_lexable t]: the text of the atom t, alone, is lexed into one token of t's type and text;
   200 is the tokenizer's limit on open brackets; [supported] is the class of texts of the lexer model.
   [nl_tok]: the NL token; [drop_nl]: a token list without its NL tokens. *)
From Coq Require Import List String ZArith Bool Arith Ascii.
From GinV Require Import Lib.Out Lib.PyStr Model.Parser Model.ParserSpec Model.Repr Model.ReprText Model.Lexer Model.PPrint.
From GinV Require Import Proofs.ReprProofs Proofs.ReprTextProofs Proofs.PPrintProofs.
Import ListNotations.
Open Scope string_scope.
Open Scope list_scope.

(* ------------------------------------------------------------------ *)
(* structure *)
(* what fits in the width is written as repr writes it *)
Theorem PPrint_pformat_fits : forall w v, String.length (repr_string v) <= w -> pformat w v = repr_string v.
Proof. exact pformat_fits. Qed.
Theorem PPrint_pformat_at_fits : forall w v i a,
  String.length (repr_string v) + i + a <= w -> pformat_at w v i a = repr_string v.
Proof. exact pformat_at_fits. Qed.
(* atoms are never re-laid (strings: see the restriction above) *)
Theorem PPrint_pformat_atom : forall w v, pv_depth v = 0 -> pformat w v = repr_string v.
Proof. exact pformat_atom. Qed.
(* the text is a layout in the sense of the relation PP (Proofs/PPrintProofs.v): repr with some of the ", "
   separators replaced by a comma, a newline and blanks; at every column and allowance *)
Theorem PPrint_pformat_is_layout : forall w v i a,
  exists ts sl, PP (FV v) (list_ascii_of_string (pformat_at w v i a)) ts sl.
Proof. exact pformat_at_PP. Qed.
(* STRING LEVEL: replacing, behind every comma, a newline and the blanks after it by one blank gives repr's text
   ([plain_atom]: the atom text is not empty, does not begin with a blank, contains no newline, does not end in a comma) *)
Theorem PPrint_pformat_erase_layout : forall w v,
  Forall plain_atom (pv_atoms v) -> erase_layout (pformat w v) = repr_string v.
Proof. exact pformat_erase_layout. Qed.

(* ------------------------------------------------------------------ *)
(* MAIN: lexing the characters of [pformat w v] gives, up to token positions, [render (lit_of v) lay 0 false] for a
   layout [lay] that puts nothing or the one NL token behind a token (so: NL tokens inside brackets only, and the other
   tokens are exactly repr's), then the NEWLINE the tokenizer adds (empty text) and the end marker *)
Theorem PPrint_pformat_is_relayout : forall w v,
  Forall atom_lexable (pv_atoms v) -> pv_depth v <= 200 -> supported (pformat w v) = true ->
  exists toks n e lay rtoks n',
    lex (pformat w v) = Some (toks ++ [n; e]) /\
    lay_ok lay /\ (forall k, lay k = [] \/ lay k = [nl_tok]) /\ render (lit_of v) lay 0 false = (rtoks, n') /\
    map ty toks = map ty rtoks /\ map text toks = map text rtoks /\ drop_nl rtoks = repr_toks v /\
    ty n = NEWLINE /\ text n = "" /\ ty e = ENDMARKER /\ text e = "".
Proof. exact pformat_is_relayout. Qed.
(* END TO END FROM CHARACTERS: gin.config.parse_value (tokenizer + parser, both modelled) reads the text pformat
   writes back as the value the tree denotes *)
Theorem PPrint_pformat_reads_back : forall o w v x,
  atoms_ok o v -> denote o v = Some x ->
  Forall atom_lexable (pv_atoms v) -> pv_depth v <= 200 -> supported (pformat w v) = true ->
  exists ts, lex (pformat w v) = Some ts /\ run_value_api (o, ts) = OT "Value" [x].
Proof. exact pformat_reads_back. Qed.
(* the same for EVERY layout of the relation PP, not only the one pformat chooses *)
Theorem PPrint_layout_is_relayout : forall v s ts sl, PP (FV v) (list_ascii_of_string s) ts sl ->
  Forall atom_lexable (pv_atoms v) -> pv_depth v <= 200 -> supported s = true ->
  exists toks n e lay rtoks n',
    lex s = Some (toks ++ [n; e]) /\
    lay_ok lay /\ (forall k, lay k = [] \/ lay k = [nl_tok]) /\ render (lit_of v) lay 0 false = (rtoks, n') /\
    map ty toks = map ty rtoks /\ map text toks = map text rtoks /\ drop_nl rtoks = repr_toks v /\
    ty n = NEWLINE /\ text n = "" /\ ty e = ENDMARKER /\ text e = "".
Proof. exact layout_is_relayout. Qed.
Theorem PPrint_layout_reads_back : forall o v s rtoks sl x, PP (FV v) (list_ascii_of_string s) rtoks sl ->
  atoms_ok o v -> denote o v = Some x ->
  Forall atom_lexable (pv_atoms v) -> pv_depth v <= 200 -> supported s = true ->
  exists ts, lex s = Some ts /\ run_value_api (o, ts) = OT "Value" [x].
Proof. exact layout_reads_back. Qed.

(* ------------------------------------------------------------------ *)
(* gin's format_binding (gin/config.py, _config_str): the two forms ... *)
Theorem PPrint_format_binding_one_line : forall maxlen indent key v,
  has_nl (pformat (maxlen - indent) v) = false ->
  String.length key + String.length (pformat (maxlen - indent) v) <= maxlen ->
  format_binding maxlen indent key v = (key ++ " = " ++ pformat (maxlen - indent) v)%string.
Proof. exact format_binding_one_line. Qed.
Theorem PPrint_format_binding_continuation : forall maxlen indent key v,
  has_nl (pformat (maxlen - indent) v) = true \/
  maxlen < String.length key + String.length (pformat (maxlen - indent) v) ->
  format_binding maxlen indent key v =
  (key ++ " = \" ++ nls ++ blanks indent ++ indent_lines_from indent (pformat (maxlen - indent) v))%string.
Proof. exact format_binding_continuation. Qed.
(* ... and the value text of the continuation form -- every line after the first indented by [k] more blanks -- is a
   re-layout of repr's tokens as well and is read back as the same value ([nl_free_atom]: no newline in the atom text).
   NOT proved: the whole statement  key = \ <newline> <blanks> <text>  through the statement parser (C03): future work *)
Theorem PPrint_pformat_indented_is_relayout : forall k w v,
  Forall atom_lexable (pv_atoms v) -> Forall nl_free_atom (pv_atoms v) -> pv_depth v <= 200 ->
  supported (indent_lines_from k (pformat w v)) = true ->
  exists toks n e lay rtoks n',
    lex (indent_lines_from k (pformat w v)) = Some (toks ++ [n; e]) /\
    lay_ok lay /\ (forall j, lay j = [] \/ lay j = [nl_tok]) /\ render (lit_of v) lay 0 false = (rtoks, n') /\
    map ty toks = map ty rtoks /\ map text toks = map text rtoks /\ drop_nl rtoks = repr_toks v /\
    ty n = NEWLINE /\ text n = "" /\ ty e = ENDMARKER /\ text e = "".
Proof. exact pformat_indented_is_relayout. Qed.
Theorem PPrint_pformat_indented_reads_back : forall o k w v x,
  atoms_ok o v -> denote o v = Some x ->
  Forall atom_lexable (pv_atoms v) -> Forall nl_free_atom (pv_atoms v) -> pv_depth v <= 200 ->
  supported (indent_lines_from k (pformat w v)) = true ->
  exists ts, lex (indent_lines_from k (pformat w v)) = Some ts /\ run_value_api (o, ts) = OT "Value" [x].
Proof. exact pformat_indented_reads_back. Qed.

(* ------------------------------------------------------------------ *)
(* non-vacuity: {3: 'ab', 'k': [-1, (2,), {'x': [1.5, None, True]}], 'key2': (10, 20, 30)}; the texts are CPython's *)
Example PPrint_ex_pformat_20 : pformat 20 pp_ex_value =
"{3: 'ab',
 'k': [-1,
       (2,),
       {'x': [1.5,
              None,
              True]}],
 'key2': (10,
          20,
          30)}".
Proof. exact pp_ex_pformat_20. Qed.
Example PPrint_ex_pformat_30 : pformat 30 pp_ex_value =
"{3: 'ab',
 'k': [-1,
       (2,),
       {'x': [1.5,
              None,
              True]}],
 'key2': (10, 20, 30)}".
Proof. exact pp_ex_pformat_30. Qed.
Example PPrint_ex_pformat_80 : pformat 80 pp_ex_value = "{3: 'ab', 'k': [-1, (2,), {'x': [1.5, None, True]}], 'key2': (10, 20, 30)}".
Proof. vm_compute. reflexivity. Qed.
Example PPrint_ex_format_binding : format_binding 24 4 "probe.x" pp_ex_value =
"probe.x = \
    {3: 'ab',
     'k': [-1,
           (2,),
           {'x': [1.5,
                  None,
                  True]}],
     'key2': (10,
              20,
              30)}".
Proof. exact pp_ex_format_binding. Qed.
Example PPrint_ex_reads_back_computes :
  option_map (fun ts => run_value_api (pp_ex_oracle, ts)) (lex (pformat 20 pp_ex_value)) = Some (OT "Value" [pp_ex_out]).
Proof. exact pp_ex_reads_back_computes. Qed.
Example PPrint_ex_reads_back_applies :
  exists ts, lex (pformat 20 pp_ex_value) = Some ts /\ run_value_api (pp_ex_oracle, ts) = OT "Value" [pp_ex_out].
Proof.
  apply (PPrint_pformat_reads_back pp_ex_oracle 20 pp_ex_value pp_ex_out pp_ex_atoms_ok pp_ex_denotes pp_ex_atoms_lexable).
  - vm_compute. repeat constructor.
  - vm_compute. reflexivity.
Qed.
Example PPrint_ex_indented_reads_back_applies :
  exists ts, lex (indent_lines_from 4 (pformat 20 pp_ex_value)) = Some ts /\ run_value_api (pp_ex_oracle, ts) = OT "Value" [pp_ex_out].
Proof. exact pp_ex_indented_reads_back_applies. Qed.
Example PPrint_ex_erase_applies : erase_layout (pformat 20 pp_ex_value) = repr_string pp_ex_value.
Proof. exact (PPrint_pformat_erase_layout 20 pp_ex_value pp_ex_atoms_plain). Qed.
Example PPrint_ex_erase_proper : erase_layout (pformat 20 pp_ex_value) <> pformat 20 pp_ex_value /\
  erase_layout ("[1" ++ nls ++ " ]")%string = ("[1" ++ nls ++ " ]")%string.
Proof. exact pp_ex_erase_proper. Qed.

Print Assumptions PPrint_pformat_fits.
Print Assumptions PPrint_pformat_at_fits.
Print Assumptions PPrint_pformat_atom.
Print Assumptions PPrint_pformat_is_layout.
Print Assumptions PPrint_pformat_erase_layout.
Print Assumptions PPrint_pformat_is_relayout.
Print Assumptions PPrint_pformat_reads_back.
Print Assumptions PPrint_layout_is_relayout.
Print Assumptions PPrint_layout_reads_back.
Print Assumptions PPrint_format_binding_one_line.
Print Assumptions PPrint_format_binding_continuation.
Print Assumptions PPrint_pformat_indented_is_relayout.
Print Assumptions PPrint_pformat_indented_reads_back.
Print Assumptions PPrint_ex_pformat_20.
Print Assumptions PPrint_ex_pformat_30.
Print Assumptions PPrint_ex_pformat_80.
Print Assumptions PPrint_ex_format_binding.
Print Assumptions PPrint_ex_reads_back_computes.
Print Assumptions PPrint_ex_reads_back_applies.
Print Assumptions PPrint_ex_indented_reads_back_applies.
Print Assumptions PPrint_ex_erase_applies.
Print Assumptions PPrint_ex_erase_proper.
