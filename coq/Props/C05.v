(* C05 — macros and constants are late-bound named values.
   Model: the Gin machine (Model/Gin.v): '%name' is resolved at parse time to an evaluated reference to the
   builtin configurable gin.macro under the scope spelled by the name (or to gin.constant for a name matching
   a Python-defined constant); 'name = value' binds gin.macro's parameter 'value' under that scope.
   Proved here:
     - late binding: what a use of %name yields is a function of the store AT THE TIME OF USE only
       (the value currently bound), never of the history of definitions or of their order relative to
       the use; a macro bound to an evaluated reference evaluates it at every use (the use IS an
       evaluation of the bound value); an unbound macro raises at use;
     - parse-time resolution depends only on the registry and the constants;
     - constants: a unique dotted-suffix match yields that constant, an ambiguous abbreviation is an error;
     - finalize: the macro hook accepts iff every macro reference occurring (at any depth) in a bound value
       is evaluated and names a bound macro; otherwise finalize raises.
   Validated only (harness/props/c05.py): identity of the delivered constant OBJECT and duplicate /
   invalid constant definitions (C20 / C13 cover gin.constant's registration errors in the model). *)
From Coq Require Import List String ZArith Bool Arith.
From GinV Require Import Lib.Out Lib.PyStr Model.SelectorMap Model.Values Model.Gin Model.GinEngine Model.CallSpec
                         Proofs.CallLemmas Proofs.CallProofs Proofs.MachineFrame Proofs.MachineProofs Proofs.MacroOperProofs.
Import ListNotations.
Open Scope string_scope.
Open Scope list_scope.

(* a use is a reference to gin.macro under the scope the name spells *)
Theorem C05_use_is_reference : forall s name, sm_matching (to_key name) (constants s) = [] ->
  resolve s (VMacro name) = Ok (VRef (split_slash name) "gin.macro" true).
Proof. exact MacroOperProofs.C05_use_is_reference. Qed.

(* a definition is a binding of gin.macro.value under that scope *)
Theorem C05_definition_is_binding : forall f s name v v' scope sel,
  resolve s v = Ok v' -> contains_char dot name = false -> parse_scoped_selector name = (scope, sel) ->
  exec (S f) s (OParse name v) =
  run_res (bind_split s (if String.eqb scope "" then sel else (scope ++ "/" ++ sel)%string) "gin.macro" "value" v') ONone.
Proof. exact MacroOperProofs.C05_definition_is_binding_explicit. Qed.

(* resolution at parse time reads only the registry and the constants: not the store, so a use may precede its definition *)
Theorem C05_resolution_is_static : forall s1 s2 v,
  reg s1 = reg s2 -> constants s1 = constants s2 -> resolve s1 v = resolve s2 v.
Proof. exact resolve_depends_on_reg_constants. Qed.

(* the use yields the value bound NOW (exact final state: only the operative record gains the macro's section) *)
Theorem C05_use_evaluates_to_current_binding : forall f s name v,
  atomic v -> scope_valid (split_slash name) = true ->
  lookup_sel s "gin.macro" = Some macro_cfg ->
  sget "value" (get_bindings_for (config s) (split_slash name) "gin.macro" true) = Some v ->
  (forall p x, sget p (get_bindings_for (config s) (split_slash name) "gin.macro" true) = Some x -> p = "value") ->
  eval (S (S (S (S f)))) s (VRef (split_slash name) "gin.macro" true) =
  (oper_update s (scope_str (split_slash name), "gin.macro") [("value", v)], Ok v).
Proof. exact C05_use_evaluates_to_current_binding_exact. Qed.

(* two histories that end with the same current binding give the same value *)
Theorem C05_late_binding_history_independent : forall f s1 s2 name v,
  atomic v -> scope_valid (split_slash name) = true ->
  lookup_sel s1 "gin.macro" = Some macro_cfg -> lookup_sel s2 "gin.macro" = Some macro_cfg ->
  get_bindings_for (config s1) (split_slash name) "gin.macro" true = [("value", v)] ->
  get_bindings_for (config s2) (split_slash name) "gin.macro" true = [("value", v)] ->
  snd (eval (S (S (S (S f)))) s1 (VRef (split_slash name) "gin.macro" true)) = Ok v /\
  snd (eval (S (S (S (S f)))) s2 (VRef (split_slash name) "gin.macro" true)) = Ok v.
Proof. exact MacroOperProofs.C05_late_binding_history_independent. Qed.

(* any bound value (e.g. an evaluated reference @g()) is evaluated AT the use, every time *)
Theorem C05_use_reevaluates_bound_value : forall f s sc v, sc <> [] -> scope_valid sc = true ->
  lookup_sel s "gin.macro" = Some macro_cfg ->
  get_bindings_for (config s) sc "gin.macro" true = [("value", v)] ->
  eval (S (S (S f))) s (VRef sc "gin.macro" true) =
  (let '(s2, r) := eval f (oper_update (set_scopes (sc :: scopes s) s) (scope_str sc, "gin.macro") [("value", v)]) v in
   (set_scopes (tl (scopes s2)) s2, r)).
Proof. exact C05_use_evaluates_bound_value_gen. Qed.

Theorem C05_unbound_macro_raises : forall f s sc, sc <> [] -> scope_valid sc = true ->
  lookup_sel s "gin.macro" = Some macro_cfg ->
  get_bindings_for (config s) sc "gin.macro" true = [] ->
  eval (S (S (S f))) s (VRef sc "gin.macro" true) = (oper_update s (scope_str sc, "gin.macro") [], Raise "TypeError").
Proof. exact macro_use_unbound_exact. Qed.

(* constants *)
Theorem C05_constant_unique : forall s name k, sm_matching (to_key name) (constants s) = [k] ->
  resolve s (VMacro name) = Ok (VRef (split_slash (of_key k)) "gin.constant" true).
Proof. exact MacroOperProofs.C05_constant_unique. Qed.
Theorem C05_constant_ambiguous : forall s name k1 k2 r, sm_matching (to_key name) (constants s) = k1 :: k2 :: r ->
  resolve s (VMacro name) = Raise "ValueError".
Proof. exact MacroOperProofs.C05_constant_ambiguous. Qed.

(* finalize *)
Theorem C05_macros_hook_iff : forall s, macros_hook_ok s = true <->
  (forall ck p k v sc ev, In (ck, p) (config s) -> In (k, v) p -> In (VRef sc "gin.macro" ev) (flat_values 50 v) ->
     amem ckey_eqb (scope_str sc, "gin.macro") (config s) = true /\ ev = true).
Proof. exact MacroOperProofs.C05_macros_hook_iff. Qed.
Theorem C05_finalize_rejects_bad_macro : forall s ck p k v sc ev, locked s = false ->
  cget ck (config s) = Some p -> sget k p = Some v -> In (VRef sc "gin.macro" ev) (flat_values 50 v) ->
  (amem ckey_eqb (scope_str sc, "gin.macro") (config s) = false \/ ev = false) ->
  exists s', finalize s = (s', Raise "ValueError").
Proof. exact MacroOperProofs.C05_finalize_rejects_bad_macro. Qed.

(* the repaired hooks visit dictionary KEYS too *)
Theorem C05_hook_sees_dict_keys : forall f k x l r,
  In r (flat_values f k) -> In r (flat_values (S f) (VDict ((k, x) :: l))).
Proof. exact MacroOperProofs.C05_hook_sees_dict_keys. Qed.
Theorem C05_flat_values_dict_iff : forall f l r,
  In r (flat_values (S f) (VDict l)) <->
  r = VDict l \/ exists k x, In (k, x) l /\ (In r (flat_values f k) \/ In r (flat_values f x)).
Proof. exact MacroOperProofs.C05_flat_values_dict_iff. Qed.
Theorem C05_finalize_rejects_bad_macro_key : forall s ck p k sc ev x l, locked s = false ->
  cget ck (config s) = Some p -> sget k p = Some (VDict ((VRef sc "gin.macro" ev, x) :: l)) ->
  (amem ckey_eqb (scope_str sc, "gin.macro") (config s) = false \/ ev = false) ->
  exists s', finalize s = (s', Raise "ValueError").
Proof. exact MacroOperProofs.C05_finalize_rejects_bad_macro_key. Qed.
(* the code before the repair (flat_values_orig / macros_hook_ok_orig: values only) accepted `m.f.b = {%undefined: 0}` *)
Theorem C05_orig_finalize_ignored_dict_keys :
  let sg := {| s_args := ["b"]; s_defaults := []; s_varargs := false; s_kwonly := []; s_varkw := false |} in
  let pf := {| c_sel := "m.f"; c_kind := KProbe; c_sig := sg; c_allow := []; c_deny := []; c_method := false |} in
  let s := run_top 50 (setup [pf]) [OParse "f.b" (VDict [(VMacro "undefined", VInt 0)])] in
  config s = [(("", "m.f"), [("b", VDict [(VRef ["undefined"] "gin.macro" true, VInt 0)])])] /\
  locked s = false /\
  macros_hook_ok_orig s = true /\
  macros_hook_ok s = false /\
  exists s', finalize s = (s', Raise "ValueError").
Proof. exact MacroOperProofs.C05_orig_finalize_ignored_dict_keys. Qed.

(* a dict literal in a bound value is the Python dict that the parser's dict(items) builds when the statement is parsed:
   keys that are equal then -- the same macro or reference written twice (same scopes, configurable and flag), 1 / True,
   equal tuples -- are ONE item (the earlier key and place, the later value), a key that cannot be hashed raises TypeError *)
Theorem C05_resolve_dict_is_python_dict : forall s l l', rs_dict s l = Ok l' ->
  resolve s (VDict l) = match vdict_build l' with Some d => Ok (VDict d) | None => Raise "TypeError" end.
Proof. exact MacroOperProofs.resolve_dict_is_python_dict. Qed.
Theorem C05_parse_time_dict_example :
  let sg := {| s_args := ["b"]; s_defaults := []; s_varargs := false; s_kwonly := []; s_varkw := false |} in
  let pf := {| c_sel := "m.f"; c_kind := KProbe; c_sig := sg; c_allow := []; c_deny := []; c_method := false |} in
  let pg := {| c_sel := "n.g"; c_kind := KProbe; c_sig := sg; c_allow := []; c_deny := []; c_method := false |} in
  let s := run_top 50 (setup [pf; pg])
     [OParse "hk" (VInt 5);
      OParse "f.b" (VDict [(VMacro "hk", VStr "a"); (VInt 1, VStr "x"); (VMacro "hk", VStr "b"); (VBool true, VStr "y");
                           (VRef [] "g" true, VMacro "undefined"); (VRef [] "n.g" true, VInt 3); (VRef ["s1"] "g" true, VInt 4)])] in
  let s' := run_top 50 s [OParse "f.b" (VDict [(VInt 1, VInt 2); (VList [VInt 1], VMacro "undefined")])] in
  cget ("", "m.f") (config s) =
    Some [("b", VDict [(VRef ["hk"] "gin.macro" true, VStr "b"); (VInt 1, VStr "y");
                       (VRef [] "n.g" true, VInt 3); (VRef ["s1"] "n.g" true, VInt 4)])] /\
  macros_hook_ok s = true /\
  config s' = config s /\ hd ONone (obs s') = OErr "TypeError".
Proof. exact MacroOperProofs.parse_time_dict_example. Qed.

Print Assumptions C05_use_is_reference.
Print Assumptions C05_definition_is_binding.
Print Assumptions C05_resolution_is_static.
Print Assumptions C05_use_evaluates_to_current_binding.
Print Assumptions C05_late_binding_history_independent.
Print Assumptions C05_use_reevaluates_bound_value.
Print Assumptions C05_unbound_macro_raises.
Print Assumptions C05_constant_unique.
Print Assumptions C05_constant_ambiguous.
Print Assumptions C05_macros_hook_iff.
Print Assumptions C05_finalize_rejects_bad_macro.
Print Assumptions C05_hook_sees_dict_keys.
Print Assumptions C05_flat_values_dict_iff.
Print Assumptions C05_finalize_rejects_bad_macro_key.
Print Assumptions C05_orig_finalize_ignored_dict_keys.
Print Assumptions C05_resolve_dict_is_python_dict.
Print Assumptions C05_parse_time_dict_example.
