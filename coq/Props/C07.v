(* C07 — the operative config records exactly what Gin supplied and suffices to replay.
   Model: the Gin machine's operative record (Model/Gin.v: oper_update, prep_operative, configurable_defaults).
   Proved here:
     - sections: a call that is not rejected records a section for (current scope, configurable); sections
       never disappear; operations that call nothing leave the record untouched, so a configurable that was
       never called has no section (from the initial state: the record is empty);
     - parameters: what ONE call contributes for a parameter p is: nothing if the caller supplied p
       (positionally or by keyword), otherwise the bound value if there is one, otherwise the signature
       default provided it is allowed by the allowlist, not in the denylist and representable;
       merging into the section is a dict update (the most recent contribution wins, other sections unchanged).
     - exactly: the sections that differ after a call (of any nesting, with references evaluated on the
       way) are those of the calls that were ENTERED during it, and each of them exists afterwards; with
       reference-free bindings exactly one section is written;
     - replay of one call: in ANY store whose bindings for this (scope, configurable) are what the call
       recorded (e.g. the cleared store with just that section), the repeated call is handed the same
       positional arguments and Python binds the same environment (defaults that were filtered out of the
       record by allowlist / denylist / representability are re-supplied by the signature), and it
       records the same section again.
     - replay of a whole sequence of calls made under one store: in the store consisting of ALL recorded
       sections at once every call of the sequence is handed the same arguments again (the sections of
       prefix scopes add nothing new), and replaying records the same sections again.
   NOT proved in Coq (validated by harness/props/c07.py with a replay in a second fresh gin): that
   parsing operative_config_str() produces that store — it goes through the real serialiser and parser
   (C06 / C02 / C03 cover their halves). *)
From Coq Require Import List String ZArith Bool Arith.
From GinV Require Import Lib.Out Lib.PyStr Model.SelectorMap Model.Values Model.Gin Model.GinEngine Model.CallSpec
                         Proofs.CallLemmas Proofs.CallProofs Proofs.MachineFrame Proofs.MachineProofs Proofs.MacroOperProofs Proofs.OperReplayProofs Proofs.OperReplaySeq.
Import ListNotations.
Open Scope string_scope.
Open Scope list_scope.

(* ---- sections ---- *)
Theorem C07_call_records_section : forall f s sel args kwargs s' r c, lookup_sel s sel = Some c ->
  existsb is_req (skipn (List.length (supplied_positional_names (c_sig c) args)) args) = false ->
  call (S f) s sel args kwargs = (s', r) -> cget (scope_str (current_scope s), sel) (operative s') <> None.
Proof. exact C07_call_records_section_gen. Qed.

Theorem C07_sections_only_grow : forall fuel s sel args kw s' r k, call fuel s sel args kw = (s', r) ->
  cget k (operative s) <> None -> cget k (operative s') <> None.
Proof. exact MacroOperProofs.C07_sections_only_grow. Qed.

Theorem C07_non_call_ops_keep_operative : forall fuel ops s, Forall non_calling ops ->
  operative (run_top fuel s ops) = operative s.
Proof. exact C07_never_called_empty. Qed.

Theorem C07_never_called_empty : forall fuel ops, Forall non_calling ops ->
  operative (run_top fuel init_state ops) = [].
Proof. exact C07_never_called_empty_init. Qed.

(* ---- parameters ---- *)
Theorem C07_call_contribution : forall cfg scope c args kwargs p,
  sget p (prep_operative c args kwargs (prep_bindings cfg scope c args kwargs)) =
  if (str_in p (supplied_positional_names (c_sig c) args) && negb (str_in p (required_positions (supplied_positional_names (c_sig c) args) args)))
     || (str_in p (map fst kwargs) && negb (str_in p (map fst (filter (fun kv => is_req (snd kv)) kwargs))))
  then None
  else match sget p (get_bindings_for cfg scope (c_sel c) true) with
       | Some v => Some v
       | None => sget p (configurable_defaults c)
       end.
Proof. exact MacroOperProofs.C07_call_contribution. Qed.

Theorem C07_defaults_recorded_iff : forall c p v,
  (sget p (configurable_defaults c) = Some v <->
   sget p (kwarg_defaults (c_sig c)) = Some v /\ (c_allow c = [] \/ str_in p (c_allow c) = true) /\
   str_in p (c_deny c) = false /\ representable v = true).
Proof. exact C07_configurable_defaults_spec_strong. Qed.

Theorem C07_merge_most_recent_wins : forall s k vals, cget k (operative (oper_update s k vals)) =
  Some (supdate (match cget k (operative s) with Some d => d | None => [] end) vals).
Proof. exact C07_oper_update_get. Qed.
Theorem C07_merge_other_sections_unchanged : forall s k k' vals, ckey_eqb k' k = false ->
  cget k' (operative (oper_update s k vals)) = cget k' (operative s).
Proof. exact C07_oper_update_other. Qed.

(* ---- exactly the pairs that were called ---- *)
Theorem C07_changed_section_was_entered : forall fuel s sel args kw s' r k, call fuel s sel args kw = (s', r) ->
  cget k (operative s') <> cget k (operative s) -> In k (call_keys fuel s sel args kw).
Proof. exact OperReplayProofs.C07_changed_section_was_entered. Qed.
Theorem C07_entered_section_exists : forall fuel s sel args kw s' r k, call fuel s sel args kw = (s', r) ->
  In k (call_keys fuel s sel args kw) -> cget k (operative s') <> None.
Proof. exact OperReplayProofs.C07_entered_section_exists. Qed.
Theorem C07_entered_means_called : forall f s sel args kw c, lookup_sel s sel = Some c ->
  existsb is_req (skipn (List.length (supplied_positional_names (c_sig c) args)) args) = false ->
  exists rest, call_keys (S f) s sel args kw = (scope_str (current_scope s), sel) :: rest.
Proof. exact call_keys_head. Qed.
Theorem C07_call_operative_exact : forall f s sel args kwargs s' r c, lookup_sel s sel = Some c ->
  c_kind c <> KSingleton ->
  existsb is_req (skipn (List.length (supplied_positional_names (c_sig c) args)) args) = false ->
  (forall k v, In (k, v) (prep_bindings (config s) (current_scope s) c args kwargs) -> ref_free_at f v = true) ->
  call (S f) s sel args kwargs = (s', r) ->
  operative s' = operative (oper_update s (scope_str (current_scope s), sel)
                   (prep_operative c args kwargs (prep_bindings (config s) (current_scope s) c args kwargs))).
Proof. exact OperReplayProofs.C07_call_operative_exact. Qed.

(* ---- replay ---- *)
Theorem C07_replay_one_call : forall c cfg cfg' scope args kwargs na fk,
  get_bindings_for cfg' scope (c_sel c) true =
    prep_operative c args kwargs (prep_bindings cfg scope c args kwargs) ->
  merge_call c args kwargs (prep_bindings cfg scope c args kwargs) = Ok (na, fk) ->
  exists fk',
    merge_call c args kwargs (prep_bindings cfg' scope c args kwargs) = Ok (na, fk') /\
    py_bind (c_sig c) na fk' = py_bind (c_sig c) na fk.
Proof.
  intros c cfg cfg' scope args kwargs na fk H1 H2.
  destruct (OperReplayProofs.C07_replay_one_call c cfg cfg' scope args kwargs na fk H1 H2) as [fk' [A [B _]]].
  exists fk'. split; assumption.
Qed.
Theorem C07_replay_from_cleared_store : forall c cfg scope args kwargs na fk,
  let d := prep_operative c args kwargs (prep_bindings cfg scope c args kwargs) in
  let cfg' := [((scope_str scope, c_sel c), d)] in
  merge_call c args kwargs (prep_bindings cfg scope c args kwargs) = Ok (na, fk) ->
  exists fk', merge_call c args kwargs (prep_bindings cfg' scope c args kwargs) = Ok (na, fk') /\
              py_bind (c_sig c) na fk' = py_bind (c_sig c) na fk.
Proof. exact OperReplayProofs.C07_replay_from_cleared_store. Qed.
Theorem C07_record_reproduces : forall c cfg cfg' scope args kwargs,
  get_bindings_for cfg' scope (c_sel c) true =
    prep_operative c args kwargs (prep_bindings cfg scope c args kwargs) ->
  forall p, sget p (prep_operative c args kwargs (prep_bindings cfg' scope c args kwargs)) =
            sget p (prep_operative c args kwargs (prep_bindings cfg scope c args kwargs)).
Proof. exact OperReplayProofs.C07_record_reproduces. Qed.

(* ---- replay of a whole sequence of calls made under one store ---- *)
(* R = recorded cfg cs is the record after the calls cs (each step is oper_update); it is the store that parsing
   operative_config_str() into a cleared configuration yields.  A call in scope a/b also sees, in R, the sections
   recorded for the same configurable in scopes a and "": they add nothing new. *)
Theorem C07_replay_sequence : forall cfg cs scope c args kwargs na fk,
  In (scope, c, args, kwargs) cs -> one_cfgable_per_selector cs -> scopes_ok cs ->
  s_varkw (c_sig c) = false ->
  merge_call c args kwargs (prep_bindings cfg scope c args kwargs) = Ok (na, fk) ->
  exists fk', merge_call c args kwargs (prep_bindings (recorded cfg cs) scope c args kwargs) = Ok (na, fk') /\
              py_bind (c_sig c) na fk' = py_bind (c_sig c) na fk.
Proof. exact OperReplaySeq.C07_replay_sequence. Qed.

(* any signature (also **kwargs): the same positional arguments and the same keyword VALUES; only the order of the
   entries of ** may differ (replay_sequence_varkw_order is the example) *)
Theorem C07_replay_sequence_any_signature : forall cfg cs scope c args kwargs na fk,
  In (scope, c, args, kwargs) cs -> one_cfgable_per_selector cs -> scopes_ok cs ->
  merge_call c args kwargs (prep_bindings cfg scope c args kwargs) = Ok (na, fk) ->
  exists fk', merge_call c args kwargs (prep_bindings (recorded cfg cs) scope c args kwargs) = Ok (na, fk') /\
    (forall p v, sget p fk = Some v -> sget p fk' = Some v) /\
    (forall p v, sget p fk = None -> sget p fk' = Some v ->
       sget p (configurable_defaults c) = Some v /\ sget p (kwarg_defaults (c_sig c)) = Some v /\
       str_in p (supplied_positional_names (c_sig c) args) = false /\ str_in p (map fst kwargs) = false).
Proof. exact C07_replay_sequence_merge. Qed.

Theorem C07_record_reproduces_sequence : forall cfg cs, one_cfgable_per_selector cs -> scopes_ok cs ->
  map fst (recorded (recorded cfg cs) cs) = map fst (recorded cfg cs) /\
  forall k p, sget p (sec_of (recorded (recorded cfg cs) cs) k) = sget p (sec_of (recorded cfg cs) k).
Proof. exact OperReplaySeq.C07_record_reproduces_sequence. Qed.

Theorem C07_recorded_sections_are_the_calls : forall (dfun : callrecd -> pdict) cs k,
  cget k (recorded_with dfun cs) <> None <-> exists x, In x cs /\ call_key x = k.
Proof. exact recorded_has_section_iff. Qed.

Print Assumptions C07_call_records_section.
Print Assumptions C07_sections_only_grow.
Print Assumptions C07_non_call_ops_keep_operative.
Print Assumptions C07_never_called_empty.
Print Assumptions C07_call_contribution.
Print Assumptions C07_defaults_recorded_iff.
Print Assumptions C07_merge_most_recent_wins.
Print Assumptions C07_merge_other_sections_unchanged.
Print Assumptions C07_changed_section_was_entered.
Print Assumptions C07_entered_section_exists.
Print Assumptions C07_entered_means_called.
Print Assumptions C07_call_operative_exact.
Print Assumptions C07_replay_one_call.
Print Assumptions C07_replay_from_cleared_store.
Print Assumptions C07_record_reproduces.
Print Assumptions C07_replay_sequence.
Print Assumptions C07_replay_sequence_any_signature.
Print Assumptions C07_record_reproduces_sequence.
Print Assumptions C07_recorded_sections_are_the_calls.
