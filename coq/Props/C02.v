(* C02 — literal values parse to exactly what Python evaluates them to.
   Statements only; proofs in Proofs/ParserSmall.v, ParserLemmas.v, ParserProofs.v. *)
From Coq Require Import List String ZArith Bool Arith.
From GinV Require Import Lib.Out Lib.PyStr Model.Parser Model.ParserSpec
                         Proofs.ParserSmall Proofs.ParserLemmas Proofs.ParserProofs.
Import ListNotations.
Open Scope string_scope.
Open Scope list_scope.

(* Completeness, for EVERY tree of the literal grammar (any nesting depth, trailing commas, one-tuples,
   parenthesised values, leading minus, runs of adjacent strings), in EVERY layout (any NL / COMMENT
   tokens after any token inside brackets) and whatever follows: parse_value returns exactly Python's
   value and consumes exactly the literal's own tokens and the trivia behind it. *)
Theorem C02_complete : forall o l wb lay n inside v toks n' tr rest fuel,
  lay_ok lay -> lit_wf o l -> py_eval o l = Some v -> render l lay n inside = (toks, n') ->
  Forall tok_ok toks -> Forall trivia_tok tr ->
  rest <> [] -> (forall t r', rest = t :: r' -> follow_ok t) ->
  List.length toks <= fuel ->
  parse_value fuel o wb (toks ++ tr ++ rest) = POk (v, rest).
Proof. exact C02_complete_strong. Qed.

(* with the fuel the parser actually uses *)
Theorem C02_complete_value_fuel : forall o l wb lay n inside v toks n' tr rest,
  lay_ok lay -> lit_wf o l -> py_eval o l = Some v -> render l lay n inside = (toks, n') ->
  Forall tok_ok toks -> Forall trivia_tok tr ->
  rest <> [] -> (forall t r', rest = t :: r' -> follow_ok t) ->
  parse_value (value_fuel (toks ++ tr ++ rest)) o wb (toks ++ tr ++ rest) = POk (v, rest).
Proof. exact C02_value_fuel. Qed.

(* "(x)" is x; "(x,)" is the one-tuple *)
Theorem C02_paren_is_value : forall o x, py_eval o (LParen x) = py_eval o x.
Proof. exact one_tuple_rule. Qed.
Theorem C02_one_tuple : forall o x trailing,
  py_eval o (LTuple [x] trailing) = match py_eval o x with Some v => Some (OT "T" [v]) | None => None end.
Proof. exact one_tuple_rule_comma. Qed.

Print Assumptions C02_complete.
Print Assumptions C02_complete_value_fuel.
Print Assumptions C02_paren_is_value.
Print Assumptions C02_one_tuple.
