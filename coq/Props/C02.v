(* C02 — literal values parse to exactly what Python evaluates them to.
   Statements only; proofs in Proofs/ParserSmall.v, ParserLemmas.v, ParserProofs.v, ParserSound.v, ParserApi.v. *)
From Coq Require Import List String ZArith Bool Arith.
From GinV Require Import Lib.Out Lib.PyStr Model.Parser Model.ParserSpec
                         Proofs.ParserSmall Proofs.ParserLemmas Proofs.ParserProofs Proofs.ParserSound Proofs.ParserApi.
Import ListNotations.
Open Scope string_scope.
Open Scope list_scope.

(* Completeness, for EVERY tree of the literal grammar (any nesting depth, trailing commas, one-tuples,
   parenthesised values, leading minus, runs of adjacent strings), in EVERY layout (any NL / COMMENT
   tokens after any token inside brackets) and whatever follows: parse_value returns exactly Python's
   value and consumes exactly the literal's own tokens and the trivia behind it. *)
Theorem C02_complete : forall o l wb lay n inside v toks n' tr rest fuel,
  lay_ok lay -> lit_wf o l -> py_eval o l = Some v -> render l lay n inside = (toks, n') ->
  Forall tok_ok toks -> Forall trivia_tok tr ->
  rest <> [] -> (forall t r', rest = t :: r' -> follow_ok t) ->
  List.length toks <= fuel ->
  parse_value fuel o wb (toks ++ tr ++ rest) = POk (v, rest).
Proof. exact C02_complete_strong. Qed.

(* with the fuel the parser actually uses *)
Theorem C02_complete_value_fuel : forall o l wb lay n inside v toks n' tr rest,
  lay_ok lay -> lit_wf o l -> py_eval o l = Some v -> render l lay n inside = (toks, n') ->
  Forall tok_ok toks -> Forall trivia_tok tr ->
  rest <> [] -> (forall t r', rest = t :: r' -> follow_ok t) ->
  parse_value (value_fuel (toks ++ tr ++ rest)) o wb (toks ++ tr ++ rest) = POk (v, rest).
Proof. exact C02_value_fuel. Qed.

(* "(x)" is x; "(x,)" is the one-tuple *)
Theorem C02_paren_is_value : forall o x, py_eval o (LParen x) = py_eval o x.
Proof. exact one_tuple_rule. Qed.
Theorem C02_one_tuple : forall o x trailing,
  py_eval o (LTuple [x] trailing) = match py_eval o x with Some v => Some (OT "T" [v]) | None => None end.
Proof. exact one_tuple_rule_comma. Qed.

(* Soundness — "text that is not such a literal never yields some other value": whenever the parser succeeds on
   tokens none of which is the reference / macro sigil, the value it returns IS Python's value of a well-formed
   tree of the literal grammar, and the tokens it consumed are a rendering of that tree (punctuation compared by
   text, skipped tokens being exactly those the parser's whitespace mode skips).  No hypothesis on fuel: an
   out-of-fuel run is an error, never a value. *)
Theorem C02_sound : forall fuel o wb ts v rest n,
  parse_value fuel o wb ts = POk (v, rest) -> Forall (lit_tok o) ts ->
  exists l lay n' toks used,
    lit_wf o l /\ py_eval o l = Some v /\ ts = used ++ rest /\
    render l lay n true = (toks, n') /\ Forall2 tok_sim toks used /\
    (forall k, Forall (skippable wb) (lay k)).
Proof. exact C02_sound_gen. Qed.

(* exact form, for streams whose punctuation tokens are literally [op_tok s] (position (1,0)-(1,0)): the consumed
   tokens ARE a rendering in a layout of trivia.  CAUTION: this is NOT the shape of real tokenizer output -- a real
   punctuation token carries its own position, so [Forall canon_punct] holds of a real stream only if it has no
   punctuation at all (Props/Lexer.v: Lexer_not_canon_punct, Lexer_canon_punct_iff_no_punct; found when the
   character-level lexer model was connected to this theory).  For real streams use C02_sound above (rendering up to
   [tok_sim], i.e. up to the positions of punctuation tokens) or Lexer_api_sound, which starts from characters. *)
Theorem C02_sound_exact : forall fuel o wb ts v rest n,
  parse_value fuel o wb ts = POk (v, rest) ->
  Forall (lit_tok o) ts -> Forall (plain_tok wb) ts -> Forall canon_punct ts ->
  exists l lay toks n', lay_ok lay /\ lit_wf o l /\ py_eval o l = Some v /\
    render l lay n true = (toks, n') /\ ts = toks ++ rest.
Proof. exact C02_sound_strong. Qed.

(* never some other value: on a rendered tree the parser's answer, with ANY fuel, is Python's value *)
Theorem C02_never_another_value : forall o l wb lay n inside v' toks n' tr rest fuel v rest2,
  lay_ok lay -> lit_wf o l -> py_eval o l = Some v' -> render l lay n inside = (toks, n') ->
  Forall tok_ok toks -> Forall trivia_tok tr ->
  rest <> [] -> (forall t r', rest = t :: r' -> follow_ok t) ->
  parse_value fuel o wb (toks ++ tr ++ rest) = POk (v, rest2) ->
  v = v' /\ rest2 = rest.
Proof. exact C02_agree. Qed.

(* ---- dict literals: the value is the Python dict that dict(items) builds (config_parser._maybe_parse_container) ----
   No hypothesis about the keys is made anywhere above: [py_eval] of a dict literal IS the successive assignment
   y[k] = v over the evaluated items with Python's key equality [out_py_eqb] (numbers by value across bool / int / float /
   complex, tuples pointwise, everything else -- None, str, bytes, what the delegate returned for a reference or a macro --
   when the observations are the same), and no value at all (TypeError) when a key cannot be hashed. *)
Theorem C02_dict_is_python_dict : forall o items trailing,
  py_eval o (LDict items trailing) =
  match eval_ditems o items with
  | Some kvs => if keys_hashable kvs then Some (build_dict kvs) else None
  | None => None
  end.
Proof. exact py_eval_LDict. Qed.
(* 1, True and 1.0 are one key, which keeps the first spelling and place and takes the last value; so are (1, 'a') and
   (True, 'a'); 0, -0.0, False and 0j; '' is another key.  The model before it followed Python's equality ([dict_set_orig]:
   keys compared as observations) kept them apart. *)
Example C02_dict_equal_keys_one_entry :
  let i1 := OT "int" [OS "1"] in let t := OT "bool" [OS "True"] in let f1 := OT "float" [OS "0x1.0000000000000p+0"] in
  let s := fun x => OT "str" [OS x] in
  build_dict [(t, s "a"); (OT "int" [OS "2"], s "b"); (i1, s "c"); (f1, s "d")]
    = OT "D" [OL [t; s "d"]; OL [OT "int" [OS "2"]; s "b"]] /\
  build_dict [(OT "T" [i1; s "a"], i1); (OT "T" [t; s "a"], t)] = OT "D" [OL [OT "T" [i1; s "a"]; t]] /\
  build_dict [(OT "int" [OS "0"], i1); (OT "float" [OS "-0x0.0p+0"], t); (OT "bool" [OS "False"], f1);
              (OT "complex" [OS "0x0.0p+0"; OS "0x0.0p+0"], s "z"); (s "", i1)]
    = OT "D" [OL [OT "int" [OS "0"]; s "z"]; OL [s ""; i1]] /\
  fold_left (fun acc kv => dict_set_orig (fst kv) (snd kv) acc) [(t, s "a"); (i1, s "c")] [] = [(t, s "a"); (i1, s "c")].
Proof. vm_compute. repeat split; reflexivity. Qed.
(* the token stream of "{[1]: 2}" (then NEWLINE, ENDMARKER): the key cannot be hashed: TypeError, raised once the closing
   bracket has been passed; Python's literal has no value either *)
Definition C02_unhashable_stream : list token :=
  [ {| ty := OP; text := "{"; srow := 1; scol := 0; erow := 1; ecol := 1 |};
    {| ty := OP; text := "["; srow := 1; scol := 1; erow := 1; ecol := 2 |};
    {| ty := NUMBER; text := "1"; srow := 1; scol := 2; erow := 1; ecol := 3 |};
    {| ty := OP; text := "]"; srow := 1; scol := 3; erow := 1; ecol := 4 |};
    {| ty := OP; text := ":"; srow := 1; scol := 4; erow := 1; ecol := 5 |};
    {| ty := NUMBER; text := "2"; srow := 1; scol := 6; erow := 1; ecol := 7 |};
    {| ty := OP; text := "}"; srow := 1; scol := 7; erow := 1; ecol := 8 |};
    {| ty := NEWLINE; text := ""; srow := 1; scol := 8; erow := 1; ecol := 9 |};
    {| ty := ENDMARKER; text := ""; srow := 2; scol := 0; erow := 2; ecol := 0 |} ].
Definition C02_unhashable_oracle : oracle :=
  [("1", Some (OT "int" [OS "1"])); ("-1", Some (OT "int" [OS "-1"]));
   ("2", Some (OT "int" [OS "2"])); ("-2", Some (OT "int" [OS "-2"]))].
Example C02_unhashable_key_is_TypeError :
  parse_value (value_fuel C02_unhashable_stream) C02_unhashable_oracle false C02_unhashable_stream = PErr (EOther "TypeError") /\
  py_eval C02_unhashable_oracle
    (LDict [(LList [LBasic false (nth 2 C02_unhashable_stream eof_token)] false,
             LBasic false (nth 5 C02_unhashable_stream eof_token))] false) = None.
Proof. vm_compute. split; reflexivity. Qed.


(* The leading minus (repaired defect): a '-' that is not followed by a NAME / NUMBER / STRING token is never
   accepted -- for any fuel the parse is an error (with at least one unit of fuel: the SyntaxError at the token
   behind the minus).  [closer (text (cur ts)) = None] need not be assumed: it follows from the token being "-". *)
Theorem C02_minus_needs_number : forall o wb ts ts1,
  cur_is ts "-" = true -> advance wb ts = POk ts1 ->
  in_types (ty (cur ts1)) [NAME; NUMBER; STRING] = false ->
  forall fuel, exists e, parse_value fuel o wb ts = PErr e.
Proof. exact minus_needs_number. Qed.
Theorem C02_minus_needs_number_exact : forall o wb ts ts1 f,
  cur_is ts "-" = true -> advance wb ts = POk ts1 ->
  in_types (ty (cur ts1)) [NAME; NUMBER; STRING] = false ->
  parse_value (S f) o wb ts = PErr (ESyntax (srow (cur ts1))).
Proof. exact minus_needs_number_S. Qed.
(* conversely a value that starts with '-' is the negated atom read by the basic-type loop *)
Theorem C02_minus_value_is_basic : forall fuel o wb ts v rest,
  cur_is ts "-" = true -> parse_value fuel o wb ts = POk (v, rest) ->
  exists ts1, advance wb ts = POk ts1 /\ in_types (ty (cur ts1)) [NAME; NUMBER; STRING] = true /\
              basic_loop (S (List.length ts1)) o wb ts1 "-" = POk (v, rest).
Proof. exact minus_value_is_basic. Qed.
(* hence the first token decides: a bracket, a sigil, or a basic value *)
Theorem C02_value_first_token : forall fuel o wb ts v rest,
  parse_value fuel o wb ts = POk (v, rest) ->
  closer (text (cur ts)) <> None \/ cur_is ts "@" = true \/ cur_is ts "%" = true \/
  maybe_basic o wb ts = POk (Some (v, rest)).
Proof. exact value_first_token. Qed.

(* Refutation of the code before the repair ([parse_value_orig] = parse_value over [maybe_basic_orig], which
   returned "not a basic type" after having consumed the '-'): the token stream of "-@x" yields the reference x,
   the minus sign silently dropped; the repaired parser raises the SyntaxError. *)
Definition C02_minus_ref_stream : list token :=
  [ {| ty := OP; text := "-"; srow := 1; scol := 4; erow := 1; ecol := 5 |};
    {| ty := OP; text := "@"; srow := 1; scol := 5; erow := 1; ecol := 6 |};
    {| ty := NAME; text := "x"; srow := 1; scol := 6; erow := 1; ecol := 7 |};
    {| ty := NEWLINE; text := ""; srow := 1; scol := 7; erow := 1; ecol := 8 |};
    {| ty := ENDMARKER; text := ""; srow := 2; scol := 0; erow := 2; ecol := 0 |} ].
Example C02_orig_minus_dropped :
  parse_value_orig (value_fuel C02_minus_ref_stream) [] false C02_minus_ref_stream
  = POk (OT "Ref" [OS "x"; OB false], skipn 3 C02_minus_ref_stream).
Proof. vm_compute. reflexivity. Qed.
Example C02_repaired_minus_rejected :
  parse_value (value_fuel C02_minus_ref_stream) [] false C02_minus_ref_stream = PErr (ESyntax 1).
Proof. vm_compute. reflexivity. Qed.


(* ---- the API: gin.config.parse_value / ConfigParser.parse_single_value (repaired defect F39) ----
   [parse_single_value] runs the value parser, skips tokens of the [end_types] (NEWLINE, NL, COMMENT, INDENT,
   DEDENT) and demands the end marker; [parse_single_value_orig] is the code before the repair. *)

(* acceptance at the API is: one value, then only tokens of the end types, then the end marker *)
Theorem C02_api_is_value_then_only_trivia : forall o ts v,
  parse_single_value o ts = POk v ->
  exists rest rest',
    parse_value (value_fuel ts) o false ts = POk (v, rest) /\
    skip (S (List.length rest)) end_types rest = POk rest' /\ ty (cur rest') = ENDMARKER.
Proof. exact api_is_value_then_only_trivia. Qed.
(* ... and exactly that *)
Theorem C02_api_accepts_iff : forall o ts v,
  parse_single_value o ts = POk v <->
  exists rest rest',
    parse_value (value_fuel ts) o false ts = POk (v, rest) /\
    skip (S (List.length rest)) end_types rest = POk rest' /\ ty (cur rest') = ENDMARKER.
Proof. exact api_accepts_iff. Qed.
(* ... so the stream really holds an ENDMARKER token, and between the value and it only tokens of the end types
   (and the blank ERRORTOKENs that _advance_one_token drops) *)
Theorem C02_api_accept_shape : forall o ts v,
  parse_single_value o ts = POk v ->
  exists rest skipped e more,
    parse_value (value_fuel ts) o false ts = POk (v, rest) /\
    rest = skipped ++ e :: more /\
    Forall (fun t => In (ty t) end_types \/ blank_err t) skipped /\ ty e = ENDMARKER.
Proof. exact api_accept_shape. Qed.

(* anything else behind the value is the SyntaxError at that token: never a value *)
Theorem C02_api_rejects_trailing_junk : forall o ts v rest rest',
  parse_value (value_fuel ts) o false ts = POk (v, rest) ->
  skip (S (List.length rest)) end_types rest = POk rest' -> ty (cur rest') <> ENDMARKER ->
  parse_single_value o ts = PErr (ESyntax (srow (cur rest'))).
Proof. exact api_rejects_trailing_junk. Qed.
(* the first token behind the value that is not of an end type decides *)
Theorem C02_api_rejects_first_junk : forall o ts v tl t r,
  parse_value (value_fuel ts) o false ts = POk (v, tl ++ t :: r) ->
  Forall (fun x => In (ty x) end_types) tl ->
  ~ In (ty t) end_types -> ty t <> ENDMARKER -> ty t <> TERR -> ty t <> ERRORTOKEN ->
  parse_single_value o ts = PErr (ESyntax (srow t)).
Proof. exact api_rejects_first_junk. Qed.
(* user level: a NAME / NUMBER / STRING / OP token right behind the value ("1 + 2", "1 2", "[1] x") *)
Theorem C02_api_rejects_junk_token : forall o ts v t r,
  parse_value (value_fuel ts) o false ts = POk (v, t :: r) ->
  (ty t = NAME \/ ty t = NUMBER \/ ty t = STRING \/ ty t = OP) ->
  parse_single_value o ts = PErr (ESyntax (srow t)).
Proof. exact api_rejects_junk_token. Qed.

(* completeness and exactness at the API: every literal tree in every layout, followed by comments / NLs [tr], then
   nothing or a NEWLINE and any tokens of the end types [tl], then the end marker, yields exactly Python's value.
   ([tl] may not START with INDENT / DEDENT: C02_complete wants a follow token behind the trivia; the tokenizer
   never emits INDENT / DEDENT before the NEWLINE that ends the value's logical line.) *)
Theorem C02_api_never_another_value : forall o l lay n inside v toks n' tr tl e more,
  lay_ok lay -> lit_wf o l -> py_eval o l = Some v -> render l lay n inside = (toks, n') ->
  Forall tok_ok toks ->
  Forall trivia_tok tr ->
  Forall (fun t => In (ty t) end_types) tl -> (forall t r, tl = t :: r -> ty t = NEWLINE) ->
  ty e = ENDMARKER ->
  parse_single_value o (toks ++ tr ++ tl ++ e :: more) = POk v.
Proof. exact api_never_another_value. Qed.
Theorem C02_api_never_another_value_eof : forall o l lay n v toks n' tl,
  lay_ok lay -> lit_wf o l -> py_eval o l = Some v -> render l lay n false = (toks, n') ->
  Forall tok_ok toks ->
  Forall (fun t => In (ty t) end_types) tl -> (forall t r, tl = t :: r -> ty t = NEWLINE) ->
  parse_single_value o (toks ++ tl ++ [eof_token]) = POk v.
Proof. exact api_never_another_value_eof. Qed.

(* soundness at the API: an accepted stream without reference / macro sigils IS a rendering of a well-formed literal
   tree whose Python value is the value returned, then tokens of the end types, then the end marker *)
Theorem C02_api_sound : forall o ts v,
  parse_single_value o ts = POk v -> Forall (lit_tok o) ts ->
  exists l lay n' toks used skipped e more,
    lit_wf o l /\ py_eval o l = Some v /\
    ts = used ++ skipped ++ e :: more /\
    render l lay 0 true = (toks, n') /\ Forall2 tok_sim toks used /\
    (forall k, Forall (skippable false) (lay k)) /\
    Forall (fun t => In (ty t) end_types \/ blank_err t) skipped /\ ty e = ENDMARKER.
Proof. exact api_sound. Qed.
(* the same with the parser's own skip *)
Theorem C02_api_sound_skip : forall o ts v,
  parse_single_value o ts = POk v -> Forall (lit_tok o) ts ->
  exists l lay n' toks used rest rest',
    lit_wf o l /\ py_eval o l = Some v /\ ts = used ++ rest /\
    render l lay 0 true = (toks, n') /\ Forall2 tok_sim toks used /\
    (forall k, Forall (skippable false) (lay k)) /\
    skip (S (List.length rest)) end_types rest = POk rest' /\ ty (cur rest') = ENDMARKER.
Proof. exact api_sound_skip. Qed.
(* exact form for streams with canonical punctuation tokens (same caution as for C02_sound_exact: real streams are
   covered by C02_api_sound and, from characters, by Lexer_api_sound / C02_api_sound_plain in Props/Lexer.v) *)
Theorem C02_api_sound_exact : forall o ts v,
  parse_single_value o ts = POk v ->
  Forall (lit_tok o) ts -> Forall (plain_tok false) ts -> Forall canon_punct ts ->
  exists l lay toks n' skipped e more,
    lay_ok lay /\ lit_wf o l /\ py_eval o l = Some v /\ render l lay 0 true = (toks, n') /\
    ts = toks ++ skipped ++ e :: more /\
    Forall (fun t => ty t = NEWLINE \/ ty t = NL \/ ty t = COMMENT) skipped /\ ty e = ENDMARKER.
Proof. exact api_sound_exact. Qed.

(* Refutation of the code before the repair: the token stream of the text "1 + 2" was accepted as the value 1;
   the repaired code raises the SyntaxError (line 1). *)
Definition C02_junk_stream : list token :=
  [ {| ty := NUMBER; text := "1"; srow := 1; scol := 0; erow := 1; ecol := 1 |};
    {| ty := OP; text := "+"; srow := 1; scol := 2; erow := 1; ecol := 3 |};
    {| ty := NUMBER; text := "2"; srow := 1; scol := 4; erow := 1; ecol := 5 |};
    {| ty := NEWLINE; text := ""; srow := 1; scol := 5; erow := 1; ecol := 6 |};
    {| ty := ENDMARKER; text := ""; srow := 2; scol := 0; erow := 2; ecol := 0 |} ].
Definition C02_int_oracle : oracle :=
  [("1", Some (OT "int" [OS "1"])); ("-1", Some (OT "int" [OS "-1"]));
   ("2", Some (OT "int" [OS "2"])); ("-2", Some (OT "int" [OS "-2"]))].
Example C02_api_orig_accepts_junk :
  parse_single_value_orig C02_int_oracle C02_junk_stream = POk (OT "int" [OS "1"]) /\
  parse_single_value C02_int_oracle C02_junk_stream = PErr (ESyntax 1).
Proof. vm_compute. split; reflexivity. Qed.

(* Non-vacuity of C02_api_never_another_value: the stream of "[1,\n 2]  # c\n\n" -- a list over two lines, a comment,
   the NEWLINE, a blank line's NL, the end marker.  It is the rendering of a tree followed by such a tail (first
   example, proved BY the theorem from its hypotheses), and evaluates to the list (second, by computation). *)
Definition C02_api_stream : list token :=
  [ {| ty := OP; text := "["; srow := 1; scol := 0; erow := 1; ecol := 0 |};
    {| ty := NUMBER; text := "1"; srow := 1; scol := 1; erow := 1; ecol := 2 |};
    {| ty := OP; text := ","; srow := 1; scol := 0; erow := 1; ecol := 0 |};
    {| ty := NL; text := ""; srow := 1; scol := 3; erow := 1; ecol := 4 |};
    {| ty := NUMBER; text := "2"; srow := 2; scol := 1; erow := 2; ecol := 2 |};
    {| ty := OP; text := "]"; srow := 1; scol := 0; erow := 1; ecol := 0 |};
    {| ty := COMMENT; text := "# c"; srow := 2; scol := 5; erow := 2; ecol := 8 |};
    {| ty := NEWLINE; text := ""; srow := 2; scol := 8; erow := 2; ecol := 9 |};
    {| ty := NL; text := ""; srow := 3; scol := 0; erow := 3; ecol := 1 |};
    {| ty := ENDMARKER; text := ""; srow := 4; scol := 0; erow := 4; ecol := 0 |} ].
Example C02_api_stream_is_rendering :
  C02_api_stream = fst (render C02_ApiExample.ex_lit C02_ApiExample.ex_lay 0 false)
                   ++ C02_ApiExample.ex_tr ++ C02_ApiExample.ex_tl ++ [C02_ApiExample.ex_end].
Proof. vm_compute. reflexivity. Qed.
Example C02_api_complete_applies :
  parse_single_value C02_int_oracle
    (fst (render C02_ApiExample.ex_lit C02_ApiExample.ex_lay 0 false)
     ++ C02_ApiExample.ex_tr ++ C02_ApiExample.ex_tl ++ [C02_ApiExample.ex_end])
  = POk (OT "L" [OT "int" [OS "1"]; OT "int" [OS "2"]]).
Proof. exact C02_ApiExample.ex_complete_applies. Qed.
Example C02_api_complete_computes :
  parse_single_value C02_int_oracle C02_api_stream = POk (OT "L" [OT "int" [OS "1"]; OT "int" [OS "2"]]).
Proof. vm_compute. reflexivity. Qed.
(* the same stream with a second value behind the first is refused *)
Example C02_api_second_value_refused :
  parse_single_value C02_int_oracle
    (firstn 6 C02_api_stream ++ {| ty := NUMBER; text := "2"; srow := 2; scol := 4; erow := 2; ecol := 5 |}
     :: skipn 6 C02_api_stream) = PErr (ESyntax 2).
Proof. vm_compute. reflexivity. Qed.

Print Assumptions C02_complete.
Print Assumptions C02_complete_value_fuel.
Print Assumptions C02_paren_is_value.
Print Assumptions C02_one_tuple.
Print Assumptions C02_sound.
Print Assumptions C02_sound_exact.
Print Assumptions C02_never_another_value.
Print Assumptions C02_dict_is_python_dict.
Print Assumptions C02_dict_equal_keys_one_entry.
Print Assumptions C02_unhashable_key_is_TypeError.
Print Assumptions C02_minus_needs_number.
Print Assumptions C02_minus_needs_number_exact.
Print Assumptions C02_minus_value_is_basic.
Print Assumptions C02_value_first_token.
Print Assumptions C02_orig_minus_dropped.
Print Assumptions C02_repaired_minus_rejected.
Print Assumptions C02_api_is_value_then_only_trivia.
Print Assumptions C02_api_accepts_iff.
Print Assumptions C02_api_accept_shape.
Print Assumptions C02_api_rejects_trailing_junk.
Print Assumptions C02_api_rejects_first_junk.
Print Assumptions C02_api_rejects_junk_token.
Print Assumptions C02_api_never_another_value.
Print Assumptions C02_api_never_another_value_eof.
Print Assumptions C02_api_sound.
Print Assumptions C02_api_sound_skip.
Print Assumptions C02_api_sound_exact.
Print Assumptions C02_api_orig_accepts_junk.
Print Assumptions C02_api_stream_is_rendering.
Print Assumptions C02_api_complete_applies.
Print Assumptions C02_api_complete_computes.
Print Assumptions C02_api_second_value_refused.
