(* C02 — literal values parse to exactly what Python evaluates them to.
   Statements only; proofs in Proofs/ParserSmall.v, ParserLemmas.v, ParserProofs.v. *)
From Coq Require Import List String ZArith Bool Arith.
From GinV Require Import Lib.Out Lib.PyStr Model.Parser Model.ParserSpec
                         Proofs.ParserSmall Proofs.ParserLemmas Proofs.ParserProofs Proofs.ParserSound.
Import ListNotations.
Open Scope string_scope.
Open Scope list_scope.

(* Completeness, for EVERY tree of the literal grammar (any nesting depth, trailing commas, one-tuples,
   parenthesised values, leading minus, runs of adjacent strings), in EVERY layout (any NL / COMMENT
   tokens after any token inside brackets) and whatever follows: parse_value returns exactly Python's
   value and consumes exactly the literal's own tokens and the trivia behind it. *)
Theorem C02_complete : forall o l wb lay n inside v toks n' tr rest fuel,
  lay_ok lay -> lit_wf o l -> py_eval o l = Some v -> render l lay n inside = (toks, n') ->
  Forall tok_ok toks -> Forall trivia_tok tr ->
  rest <> [] -> (forall t r', rest = t :: r' -> follow_ok t) ->
  List.length toks <= fuel ->
  parse_value fuel o wb (toks ++ tr ++ rest) = POk (v, rest).
Proof. exact C02_complete_strong. Qed.

(* with the fuel the parser actually uses *)
Theorem C02_complete_value_fuel : forall o l wb lay n inside v toks n' tr rest,
  lay_ok lay -> lit_wf o l -> py_eval o l = Some v -> render l lay n inside = (toks, n') ->
  Forall tok_ok toks -> Forall trivia_tok tr ->
  rest <> [] -> (forall t r', rest = t :: r' -> follow_ok t) ->
  parse_value (value_fuel (toks ++ tr ++ rest)) o wb (toks ++ tr ++ rest) = POk (v, rest).
Proof. exact C02_value_fuel. Qed.

(* "(x)" is x; "(x,)" is the one-tuple *)
Theorem C02_paren_is_value : forall o x, py_eval o (LParen x) = py_eval o x.
Proof. exact one_tuple_rule. Qed.
Theorem C02_one_tuple : forall o x trailing,
  py_eval o (LTuple [x] trailing) = match py_eval o x with Some v => Some (OT "T" [v]) | None => None end.
Proof. exact one_tuple_rule_comma. Qed.

(* Soundness — "text that is not such a literal never yields some other value": whenever the parser succeeds on
   tokens none of which is the reference / macro sigil, the value it returns IS Python's value of a well-formed
   tree of the literal grammar, and the tokens it consumed are a rendering of that tree (punctuation compared by
   text, skipped tokens being exactly those the parser's whitespace mode skips).  No hypothesis on fuel: an
   out-of-fuel run is an error, never a value. *)
Theorem C02_sound : forall fuel o wb ts v rest n,
  parse_value fuel o wb ts = POk (v, rest) -> Forall (lit_tok o) ts ->
  exists l lay n' toks used,
    lit_wf o l /\ py_eval o l = Some v /\ ts = used ++ rest /\
    render l lay n true = (toks, n') /\ Forall2 tok_sim toks used /\
    (forall k, Forall (skippable wb) (lay k)).
Proof. exact C02_sound_gen. Qed.

(* exact form: for streams as the real tokenizer produces them (no ERRORTOKEN, canonical punctuation) the
   consumed tokens ARE literally a rendering in a layout of trivia *)
Theorem C02_sound_exact : forall fuel o wb ts v rest n,
  parse_value fuel o wb ts = POk (v, rest) ->
  Forall (lit_tok o) ts -> Forall (plain_tok wb) ts -> Forall canon_punct ts ->
  exists l lay toks n', lay_ok lay /\ lit_wf o l /\ py_eval o l = Some v /\
    render l lay n true = (toks, n') /\ ts = toks ++ rest.
Proof. exact C02_sound_strong. Qed.

(* never some other value: on a rendered tree the parser's answer, with ANY fuel, is Python's value *)
Theorem C02_never_another_value : forall o l wb lay n inside v' toks n' tr rest fuel v rest2,
  lay_ok lay -> lit_wf o l -> py_eval o l = Some v' -> render l lay n inside = (toks, n') ->
  Forall tok_ok toks -> Forall trivia_tok tr ->
  rest <> [] -> (forall t r', rest = t :: r' -> follow_ok t) ->
  parse_value fuel o wb (toks ++ tr ++ rest) = POk (v, rest2) ->
  v = v' /\ rest2 = rest.
Proof. exact C02_agree. Qed.


(* The leading minus (repaired defect): a '-' that is not followed by a NAME / NUMBER / STRING token is never
   accepted -- for any fuel the parse is an error (with at least one unit of fuel: the SyntaxError at the token
   behind the minus).  [closer (text (cur ts)) = None] need not be assumed: it follows from the token being "-". *)
Theorem C02_minus_needs_number : forall o wb ts ts1,
  cur_is ts "-" = true -> advance wb ts = POk ts1 ->
  in_types (ty (cur ts1)) [NAME; NUMBER; STRING] = false ->
  forall fuel, exists e, parse_value fuel o wb ts = PErr e.
Proof. exact minus_needs_number. Qed.
Theorem C02_minus_needs_number_exact : forall o wb ts ts1 f,
  cur_is ts "-" = true -> advance wb ts = POk ts1 ->
  in_types (ty (cur ts1)) [NAME; NUMBER; STRING] = false ->
  parse_value (S f) o wb ts = PErr (ESyntax (srow (cur ts1))).
Proof. exact minus_needs_number_S. Qed.
(* conversely a value that starts with '-' is the negated atom read by the basic-type loop *)
Theorem C02_minus_value_is_basic : forall fuel o wb ts v rest,
  cur_is ts "-" = true -> parse_value fuel o wb ts = POk (v, rest) ->
  exists ts1, advance wb ts = POk ts1 /\ in_types (ty (cur ts1)) [NAME; NUMBER; STRING] = true /\
              basic_loop (S (List.length ts1)) o wb ts1 "-" = POk (v, rest).
Proof. exact minus_value_is_basic. Qed.
(* hence the first token decides: a bracket, a sigil, or a basic value *)
Theorem C02_value_first_token : forall fuel o wb ts v rest,
  parse_value fuel o wb ts = POk (v, rest) ->
  closer (text (cur ts)) <> None \/ cur_is ts "@" = true \/ cur_is ts "%" = true \/
  maybe_basic o wb ts = POk (Some (v, rest)).
Proof. exact value_first_token. Qed.

(* Refutation of the code before the repair ([parse_value_orig] = parse_value over [maybe_basic_orig], which
   returned "not a basic type" after having consumed the '-'): the token stream of "-@x" yields the reference x,
   the minus sign silently dropped; the repaired parser raises the SyntaxError. *)
Definition C02_minus_ref_stream : list token :=
  [ {| ty := OP; text := "-"; srow := 1; scol := 4; erow := 1; ecol := 5 |};
    {| ty := OP; text := "@"; srow := 1; scol := 5; erow := 1; ecol := 6 |};
    {| ty := NAME; text := "x"; srow := 1; scol := 6; erow := 1; ecol := 7 |};
    {| ty := NEWLINE; text := ""; srow := 1; scol := 7; erow := 1; ecol := 8 |};
    {| ty := ENDMARKER; text := ""; srow := 2; scol := 0; erow := 2; ecol := 0 |} ].
Example C02_orig_minus_dropped :
  parse_value_orig (value_fuel C02_minus_ref_stream) [] false C02_minus_ref_stream
  = POk (OT "Ref" [OS "x"; OB false], skipn 3 C02_minus_ref_stream).
Proof. vm_compute. reflexivity. Qed.
Example C02_repaired_minus_rejected :
  parse_value (value_fuel C02_minus_ref_stream) [] false C02_minus_ref_stream = PErr (ESyntax 1).
Proof. vm_compute. reflexivity. Qed.

Print Assumptions C02_complete.
Print Assumptions C02_complete_value_fuel.
Print Assumptions C02_paren_is_value.
Print Assumptions C02_one_tuple.
Print Assumptions C02_sound.
Print Assumptions C02_sound_exact.
Print Assumptions C02_never_another_value.
Print Assumptions C02_minus_needs_number.
Print Assumptions C02_minus_needs_number_exact.
Print Assumptions C02_minus_value_is_basic.
Print Assumptions C02_value_first_token.
Print Assumptions C02_orig_minus_dropped.
Print Assumptions C02_repaired_minus_rejected.
