(* C15 — skip_unknown drops exactly the statements that target unknown names.
   Model: Model/Stmt.v (should_skip = _should_skip, apply_stmts, make_reference).  Proved here:
     - the decision: a known configurable is never skipped; skip_unknown=False skips nothing; a list skips
       exactly the listed unknown names; True skips every unknown name;
     - exactly deletion: applying a statement list with skip_unknown equals applying the list from which
       the covered statements (bindings / blocks whose target is unknown and covered, imports of missing
       modules) were deleted — and when every remaining target is known, equals applying that reduced
       list with skipping switched off;
     - an unknown target that the list does not cover is still a ValueError (located at the statement);
     - references: an unknown, covered reference inside an applied binding is kept as the placeholder
       'Unk' (never dropped, never resolved to something else); a known one resolves to its configurable;
       an uncovered unknown one is a ValueError.
     - imports may REGISTER configurables (e_mod_regs): the registry is consulted at each statement, so the
       deletion tracks the registry through the successful imports (reduce / C15_reduce_equiv_dynamic); a
       binding after the import that makes its target known is applied whatever skip_unknown says, the same
       binding before it is dropped iff covered.  The static form (covered read off the start state) is the
       special case of imports without side effects (pure_imports).
   The behaviour of a placeholder when USED (call time / finalize) is the gin machine's: see C11/C12 and
   the independent predicates of harness/props/c15.py. *)
From Coq Require Import List String ZArith Bool Arith.
From GinV Require Import Lib.Out Lib.PyStr Model.SelectorMap Model.Parser Model.Stmt Model.StmtSpec Model.StmtEngine Proofs.StmtProofs Proofs.StmtProofs2 Proofs.StmtProofs3 Proofs.StmtProofs4.
From GinV Require Model.DynReg Proofs.DynRegProofs Proofs.DynRegSkip.
Import ListNotations.
Open Scope string_scope.
Open Scope list_scope.

Theorem C15_known_never_skipped : forall s sel sk, sm_matching (to_key sel) (t_reg s) <> [] -> should_skip s sel sk = false.
Proof. exact StmtProofs2.C15_known_never_skipped. Qed.
Theorem C15_skip_false : forall s sel, should_skip s sel SkFalse = false.
Proof. exact StmtProofs2.C15_skip_false. Qed.
Theorem C15_skip_list : forall s sel l, sm_matching (to_key sel) (t_reg s) = [] -> should_skip s sel (SkList l) = str_in sel l.
Proof. exact StmtProofs2.C15_skip_list. Qed.
Theorem C15_skip_true : forall s sel, sm_matching (to_key sel) (t_reg s) = [] -> should_skip s sel SkTrue = true.
Proof. exact StmtProofs2.C15_skip_true. Qed.

(* exactly deletion (include-free statement lists; includes are handled by C14); imports without side effects:
   the covered statements can be read off the start state.  The general case follows below (C15_reduce_equiv_dynamic) *)
Theorem C15_reduce_equiv : forall env sk fname inc stmts s im ic,
  pure_imports env ->
  forallb (fun st => negb (is_include st)) stmts = true ->
  apply_stmts env sk fname inc stmts s im ic =
  apply_stmts env sk fname inc (filter (fun st => negb (covered_env env s sk st)) stmts) s im ic.
Proof. exact StmtProofs2.C15_reduce_equiv_imports. Qed.

Theorem C15_reduce_equiv_skfalse : forall env sk fname inc stmts s im ic,
  pure_imports env ->
  forallb (fun st => negb (is_include st)) stmts = true ->
  forallb (targets_known env s) (filter (fun st => negb (covered_env env s sk st)) stmts) = true ->
  apply_stmts env sk fname inc stmts s im ic =
  apply_stmts env SkFalse fname inc (filter (fun st => negb (covered_env env s sk st)) stmts) s im ic.
Proof. exact StmtProofs2.C15_reduce_equiv_skfalse. Qed.

Theorem C15_known_targets_skip_irrelevant : forall env sk fname inc stmts s im ic,
  pure_imports env ->
  forallb (fun st => negb (is_include st)) stmts = true -> forallb (targets_known env s) stmts = true ->
  apply_stmts env sk fname inc stmts s im ic = apply_stmts env SkFalse fname inc stmts s im ic.
Proof. exact StmtProofs2.C15_known_targets_skip_irrelevant. Qed.

(* not covered: still an error, raised at that statement, nothing after it applied *)
Theorem C15_uncovered_unknown_errors : forall env sk fname inc sc sel arg v line rest s im ic,
  arg <> "" -> should_skip s sel sk = false -> sm_get_match (to_key sel) (t_reg s) = MNone -> t_locked s = false ->
  apply_stmts env sk fname inc (SBind sc sel arg v line :: rest) s im ic = (s, SErr (SEOther "ValueError" [(fname, line)])).
Proof. exact StmtProofs2.C15_uncovered_unknown_errors_exact. Qed.
Theorem C15_uncovered_unknown_block_errors : forall env sk fname inc sc sel line rest s im ic,
  should_skip s sel sk = false -> sm_get_match (to_key sel) (t_reg s) = MNone ->
  apply_stmts env sk fname inc (SBlock sc sel line :: rest) s im ic = (s, SErr (SEOther "ValueError" [(fname, line)])).
Proof. exact StmtProofs2.C15_uncovered_unknown_block_errors. Qed.

(* whole-file form: the first uncovered unknown target stops the parse with a located ValueError, and the state is
   exactly the one after the earlier groups and the earlier statements of the same group *)
Theorem C15_first_unknown_is_ValueError : forall env fname gf s ts gs1 g gs3 pe pre sc sel arg v line post s0 im0 ic0 s1 im1 ic1,
  pure_imports env ->
  settle (f_tokens gf) = POk ts ->
  parse_groups 60 (f_oracle gf) false ts = (gs1 ++ g :: gs3, pe) -> no_includes (gs1 ++ g :: gs3) ->
  consume env SkFalse fname no_inc gs1 s [] [] = (s0, SOk (im0, ic0)) ->
  resolve_group s0 SkFalse fname g = SOk (pre ++ SBind sc sel arg v line :: post) ->
  apply_stmts env SkFalse fname no_inc pre s0 im0 ic0 = (s1, SOk (im1, ic1)) ->
  arg <> "" -> sm_matching (to_key sel) (t_reg s) = [] -> t_locked s = false ->
  parse_config env SkFalse fname gf s = (s1, SErr (SEOther "ValueError" [(fname, line)])).
Proof. exact StmtProofs3.C15_first_unknown_is_ValueError. Qed.

(* references inside applied bindings *)
Theorem C15_placeholder_kept : forall s sk scoped ev, should_skip s (last_slash scoped) sk = true ->
  make_reference s sk scoped ev = SOk (OT "Unk" [OS (last_slash scoped); OB ev]).
Proof. exact StmtProofs2.C15_placeholder_kept. Qed.
Theorem C15_known_reference_resolved : forall s sk scoped ev k c,
  sm_get_match (to_key (last_slash scoped)) (t_reg s) = MOne k (Some c) ->
  make_reference s sk scoped ev = SOk (OT "Ref" [OL (map OS (removelast (split_slash scoped))); OS (cs_sel c); OB ev]).
Proof. exact StmtProofs2.C15_known_reference_resolved. Qed.
Theorem C15_unknown_reference_errors : forall s sk scoped ev,
  should_skip s (last_slash scoped) sk = false -> sm_get_match (to_key (last_slash scoped)) (t_reg s) = MNone ->
  make_reference s sk scoped ev = SErr (SEOther "ValueError" []).
Proof. exact StmtProofs2.C15_unknown_reference_errors. Qed.

(* ---- imports that register configurables: the registry is consulted at each statement ---- *)
(* exactly deletion, the registry tracked through the successful imports (no hypothesis on the list: nothing after an
   include is touched) *)
Theorem C15_reduce_equiv_dynamic : forall env sk fname inc stmts s im ic,
  apply_stmts env sk fname inc stmts s im ic = apply_stmts env sk fname inc (reduce env sk s stmts) s im ic.
Proof. exact StmtProofs4.C15_reduce_equiv_dynamic. Qed.
Theorem C15_reduce_is_static_when_pure : forall env sk s stmts, pure_imports env ->
  forallb (fun st => negb (is_include st)) stmts = true ->
  reduce env sk s stmts = filter (fun st => negb (covered_env env s sk st)) stmts.
Proof. exact StmtProofs4.reduce_pure. Qed.
Theorem C15_reduce_equiv_dynamic_skfalse : forall env sk fname inc stmts s im ic,
  targets_known_dyn env s (reduce env sk s stmts) = true ->
  apply_stmts env sk fname inc stmts s im ic = apply_stmts env SkFalse fname inc (reduce env sk s stmts) s im ic.
Proof. exact StmtProofs4.C15_reduce_equiv_dynamic_skfalse. Qed.
(* a name the import makes known: a binding after the import is applied whatever skip_unknown says ... *)
Theorem C15_known_after_import : forall env sk fname inc m isf al l1 sc sel arg v line rest s s1 im ic,
  str_in m (e_modules env) = true -> register_mod env m s = SOk s1 ->
  sm_matching (to_key sel) (t_reg s1) <> [] -> arg <> "" ->
  apply_stmts env sk fname inc (SImport m isf al l1 :: SBind sc sel arg v line :: rest) s im ic =
  match bind (add_imports [m] s1) sc sel arg v (fname, line) with
  | SErr e => (add_imports [m] s1, with_loc (fname, line) (SErr e))
  | SOk s2 => apply_stmts env sk fname inc rest s2 (im ++ [m]) ic
  end.
Proof. exact StmtProofs4.C15_known_after_import. Qed.
Theorem C15_import_registers : forall env m s s1 c,
  register_mod env m s = SOk s1 -> In c (mod_regs env m) ->
  sm_matching (to_key (cs_sel c)) (t_reg s1) = [to_key (cs_sel c)].
Proof. exact StmtProofs4.register_mod_registers. Qed.
(* ... while the same binding before the import is dropped iff covered, and is an error otherwise *)
Theorem C15_unknown_before_import : forall env sk fname inc m isf al l1 sc sel arg v line rest s im ic,
  sm_matching (to_key sel) (t_reg s) = [] -> arg <> "" ->
  let cov := match sk with SkList l => str_in sel l | SkTrue => true | SkFalse => false end in
  should_skip s sel sk = cov /\
  (cov = true ->
     apply_stmts env sk fname inc (SBind sc sel arg v line :: SImport m isf al l1 :: rest) s im ic =
     apply_stmts env sk fname inc (SImport m isf al l1 :: rest) s im ic) /\
  (cov = false ->
     exists e, apply_stmts env sk fname inc (SBind sc sel arg v line :: SImport m isf al l1 :: rest) s im ic = (s, SErr e)).
Proof. exact StmtProofs4.C15_unknown_before_import. Qed.
(* whole-file form, "unknown" judged where the statement is reached *)
Theorem C15_first_unknown_is_ValueError_at_point : forall env fname gf s ts gs1 g gs3 pe pre sc sel arg v line post s0 im0 ic0 s1 im1 ic1,
  settle (f_tokens gf) = POk ts ->
  parse_groups 60 (f_oracle gf) false ts = (gs1 ++ g :: gs3, pe) -> no_includes (gs1 ++ g :: gs3) ->
  consume env SkFalse fname no_inc gs1 s [] [] = (s0, SOk (im0, ic0)) ->
  resolve_group s0 SkFalse fname g = SOk (pre ++ SBind sc sel arg v line :: post) ->
  apply_stmts env SkFalse fname no_inc pre s0 im0 ic0 = (s1, SOk (im1, ic1)) ->
  arg <> "" -> sm_matching (to_key sel) (t_reg s1) = [] -> t_locked s = false ->
  parse_config env SkFalse fname gf s = (s1, SErr (SEOther "ValueError" [(fname, line)])).
Proof. exact StmtProofs3.C15_first_unknown_is_ValueError_at_point. Qed.
(* lfn.a = 1 / import plug / lfn.b = 2 with skip_unknown=['lfn'], plug registering late.lfn: first dropped, second applied *)
Theorem C15_dynamic_nonvacuous : True.
Proof. pose proof StmtProofs4.C15DynExample.reduced. pose proof StmtProofs4.C15DynExample.run_list. exact I. Qed.

(* ---- skip_unknown under dynamic registration (Model/DynReg.v, Proofs/DynRegSkip.v) ---- *)
(* Under dynamic registration a name is KNOWN exactly when the file's own imports provide it (ParseContext.provides: it
   would be registered on first use), independent of what was parsed before; without dynamic registration, when the
   registry matches it.  The original code consulted the registry only and dropped bindings to names that were merely
   not registered yet (F12, should_skip_dyn_orig); the code after that repair counted "registered OR provided", so that
   under dynamic registration a name the file's imports do not provide was not skipped -- and raised NameError -- when
   something else had registered that spelling (should_skip_dyn_orig2). *)
Theorem C15_dyn_provided_never_skipped : forall c sel, DynReg.provides c sel = true ->
  forall sk reg, DynReg.should_skip_dyn sk reg c sel = false.
Proof. exact DynRegSkip.C15_dyn_provided_never_skipped. Qed.
Theorem C15_dyn_known_is_provided : forall reg c sel, DynReg.c_dynamic c = true ->
  DynReg.known_dyn reg c sel = DynReg.provides c sel.
Proof. exact DynRegSkip.C15_dyn_known_is_provided. Qed.
Theorem C15_static_known_is_registered : forall reg c sel, DynReg.c_dynamic c = false ->
  DynReg.known_dyn reg c sel = DynReg.reg_matches reg sel.
Proof. exact DynRegSkip.C15_static_known_is_registered. Qed.
(* without dynamic registration a registered name is never skipped *)
Theorem C15_dyn_registered_never_skipped : forall reg sel c, DynReg.c_dynamic c = false -> DynReg.reg_matches reg sel = true ->
  forall sk, DynReg.should_skip_dyn sk reg c sel = false.
Proof. exact DynRegSkip.C15_dyn_registered_never_skipped. Qed.
(* under dynamic registration a name the file's own imports do not provide is skipped iff covered, whatever is registered *)
Theorem C15_dyn_unprovided_skip_decision : forall c sel, DynReg.c_dynamic c = true -> DynReg.provides c sel = false ->
  forall sk reg, DynReg.should_skip_dyn sk reg c sel = DynReg.dsk_covers sk sel.
Proof. exact DynRegSkip.C15_dyn_unprovided_skip_decision. Qed.
Theorem C15_dyn_registered_unprovided_skipped : forall reg c sel sk, DynReg.c_dynamic c = true -> DynReg.reg_matches reg sel = true ->
  DynReg.provides c sel = false -> DynReg.dsk_covers sk sel = true -> DynReg.should_skip_dyn sk reg c sel = true.
Proof. exact DynRegSkip.C15_dyn_registered_unprovided_skipped. Qed.
(* "known" is independent of what was parsed before: for a dynamic context the decision does not depend on the registry *)
Theorem C15_dyn_known_independent_of_registry : forall sk reg1 reg2 c sel, DynReg.c_dynamic c = true ->
  DynReg.should_skip_dyn sk reg1 c sel = DynReg.should_skip_dyn sk reg2 c sel.
Proof. exact DynRegSkip.C15_dyn_known_independent_of_registry. Qed.
Theorem C15_dyn_skip_decision_full : forall sk reg c sel,
  DynReg.should_skip_dyn sk reg c sel
  = negb (if DynReg.c_dynamic c then DynReg.provides c sel else DynReg.reg_matches reg sel) && DynReg.dsk_covers sk sel.
Proof. exact DynRegSkip.C15_dyn_skip_decision_full. Qed.
Theorem C15_dyn_skip_decision : forall sk reg c sel, DynReg.reg_matches reg sel = false -> DynReg.provides c sel = false ->
  DynReg.should_skip_dyn sk reg c sel = DynReg.dsk_covers sk sel.
Proof. exact DynRegSkip.C15_dyn_skip_decision. Qed.
Theorem C15_dyn_skipped_block_dropped : forall skipf univ sk scope sel rest s refs c, skipf sk (DynReg.ds_reg s) c sel = true ->
  DynReg.run_stmts_sk skipf univ sk (DynReg.DBlock scope sel :: rest) s refs c = DynReg.run_stmts_sk skipf univ sk rest s refs c.
Proof. exact DynRegSkip.C15_dyn_skipped_block_dropped. Qed.
Theorem C15_dyn_skipped_binding_dropped : forall skipf univ sk scope sel param z rest s refs c, skipf sk (DynReg.ds_reg s) c sel = true ->
  DynReg.run_stmts_sk skipf univ sk (DynReg.DBind scope sel param (DynReg.DVal z) :: rest) s refs c = DynReg.run_stmts_sk skipf univ sk rest s refs c.
Proof. exact DynRegSkip.C15_dyn_skipped_binding_dropped. Qed.
Theorem C15_dyn_skipped_ref_binding_dropped : forall skipf univ sk scope sel param scopes rsel rest s refs c s1 refs1 c1,
  skipf sk (DynReg.ds_reg s) c rsel = false ->
  DynReg.run_stmts univ [DynReg.DBlock "" rsel] s refs c = (s1, refs1, c1, None) -> skipf sk (DynReg.ds_reg s1) c1 sel = true ->
  DynReg.run_stmts_sk skipf univ sk (DynReg.DBind scope sel param (DynReg.DRef scopes rsel) :: rest) s refs c
  = DynReg.run_stmts_sk skipf univ sk rest s1 refs1 c1.
Proof. exact DynRegSkip.C15_dyn_skipped_ref_binding_dropped. Qed.
(* a reference to a name that is itself skipped is a placeholder: nothing is resolved or registered for it; the binding
   stores an opaque plain value *)
Theorem C15_dyn_placeholder_binding : forall skipf univ sk scope sel param scopes rsel rest s refs c,
  skipf sk (DynReg.ds_reg s) c rsel = true -> skipf sk (DynReg.ds_reg s) c sel = false ->
  DynReg.run_stmts_sk skipf univ sk (DynReg.DBind scope sel param (DynReg.DRef scopes rsel) :: rest) s refs c =
  DynRegSkip.then_run (DynReg.run_stmts univ [DynReg.DBind scope sel param (DynReg.DVal 0)] s refs c) (DynReg.run_stmts_sk skipf univ sk rest).
Proof. exact DynRegSkip.C15_dyn_placeholder_binding. Qed.
Theorem C15_dyn_placeholder_binding_dropped : forall skipf univ sk scope sel param scopes rsel rest s refs c,
  skipf sk (DynReg.ds_reg s) c rsel = true -> skipf sk (DynReg.ds_reg s) c sel = true ->
  DynReg.run_stmts_sk skipf univ sk (DynReg.DBind scope sel param (DynReg.DRef scopes rsel) :: rest) s refs c
  = DynReg.run_stmts_sk skipf univ sk rest s refs c.
Proof. exact DynRegSkip.C15_dyn_placeholder_binding_dropped. Qed.
Theorem C15_dyn_placeholder_registers_nothing : forall skipf univ sk scope sel param scopes rsel s refs c,
  skipf sk (DynReg.ds_reg s) c rsel = true -> skipf sk (DynReg.ds_reg s) c sel = false ->
  DynReg.run_stmts_sk skipf univ sk [DynReg.DBind scope sel param (DynReg.DRef scopes rsel)] s refs c =
  DynReg.run_stmts univ [DynReg.DBind scope sel param (DynReg.DVal 0)] s refs c.
Proof. exact DynRegSkip.C15_dyn_placeholder_registers_nothing. Qed.
(* a reference to a name the file's own imports provide is never a placeholder: it is resolved *)
Theorem C15_dyn_provided_reference_resolved : forall univ sk scope sel param scopes rsel rest s refs c,
  DynReg.provides c rsel = true ->
  DynReg.run_stmts_sk DynReg.should_skip_dyn univ sk (DynReg.DBind scope sel param (DynReg.DRef scopes rsel) :: rest) s refs c =
  DynRegSkip.then_run (DynReg.run_stmts univ [DynReg.DBlock "" rsel] s refs c)
    (fun s1 refs1 c1 =>
       if DynReg.should_skip_dyn sk (DynReg.ds_reg s1) c1 sel then DynReg.run_stmts_sk DynReg.should_skip_dyn univ sk rest s1 refs1 c1
       else DynRegSkip.then_run (DynReg.run_stmts univ [DynReg.DBind scope sel param (DynReg.DRef scopes rsel)] s1 refs1 c1)
                                (DynReg.run_stmts_sk DynReg.should_skip_dyn univ sk rest)).
Proof. exact DynRegSkip.C15_dyn_provided_reference_resolved. Qed.
(* nowhere.thing unknown: with skip_unknown=True the binding stores an opaque value, nothing registered for the reference;
   with False it is a NameError *)
Theorem C15_dyn_placeholder_example :
  DynRegSkip.DynSkipExample.summary_refs (DynReg.run_stmts_sk DynReg.should_skip_dyn DynRegSkip.DynSkipExample.univ DynReg.DSkTrue
     DynRegSkip.DynSkipExample.stmts_ph DynRegSkip.DynSkipExample.s0 [] DynReg.empty_ctx)
    = (["dmod.fn"], [(("", "dmod.fn"), [("x", 0%Z)])], [], None) /\
  DynRegSkip.DynSkipExample.summary_refs (DynReg.run_stmts_sk DynReg.should_skip_dyn DynRegSkip.DynSkipExample.univ DynReg.DSkFalse
     DynRegSkip.DynSkipExample.stmts_ph DynRegSkip.DynSkipExample.s0 [] DynReg.empty_ctx) = ([], [], [], Some "NameError").
Proof. exact DynRegSkip.DynSkipExample.C15_dyn_placeholder_example. Qed.
Theorem C15_dyn_missing_import_dropped : forall skipf univ sk d rest s refs c, DynReg.dsk_truthy sk = true ->
  DynReg.process_import univ c d = DynReg.DErr "ModuleNotFoundError" ->
  DynReg.run_stmts_sk skipf univ sk (DynReg.DImport d :: rest) s refs c = DynReg.run_stmts_sk skipf univ sk rest s refs c.
Proof. exact DynRegSkip.C15_dyn_missing_import_dropped. Qed.
(* when every target is known at its point and no import is skipped, skip_unknown is irrelevant *)
Theorem C15_dyn_known_targets_skip_irrelevant : forall univ sk stmts s refs c,
  DynRegProofs.class_ids_ok (DynReg.PMod univ) = true -> DynRegProofs.table_ok c ->
  DynRegSkip.all_known_dyn univ sk stmts s refs c = true ->
  DynReg.run_stmts_sk DynReg.should_skip_dyn univ sk stmts s refs c = DynReg.run_stmts univ stmts s refs c.
Proof. exact DynRegSkip.C15_dyn_known_targets_skip_irrelevant. Qed.
(* skip_unknown=False is the plain parse *)
Theorem C15_dyn_skip_false : forall univ stmts s refs c, DynRegProofs.class_ids_ok (DynReg.PMod univ) = true -> DynRegProofs.table_ok c ->
  DynReg.run_stmts_sk DynReg.should_skip_dyn univ DynReg.DSkFalse stmts s refs c = DynReg.run_stmts univ stmts s refs c.
Proof. exact DynRegSkip.run_stmts_sk_false_dyn. Qed.
(* the code before the repair: `import dmod` / `dmod.fn.x = 1` with skip_unknown=True lost the binding *)
Theorem C15_dyn_orig_drops_provided_binding :
  DynRegSkip.DynSkipExample.summary (DynReg.run_stmts_sk DynReg.should_skip_dyn_orig DynRegSkip.DynSkipExample.univ DynReg.DSkTrue
     DynRegSkip.DynSkipExample.stmts DynRegSkip.DynSkipExample.s0 [] DynReg.empty_ctx) = ([], [], None) /\
  DynRegSkip.DynSkipExample.summary (DynReg.run_stmts_sk DynReg.should_skip_dyn DynRegSkip.DynSkipExample.univ DynReg.DSkTrue
     DynRegSkip.DynSkipExample.stmts DynRegSkip.DynSkipExample.s0 [] DynReg.empty_ctx)
    = (["dmod.fn"], [(("", "dmod.fn"), [("x", 1%Z)])], None) /\
  DynReg.run_stmts_sk DynReg.should_skip_dyn DynRegSkip.DynSkipExample.univ DynReg.DSkTrue
     DynRegSkip.DynSkipExample.stmts DynRegSkip.DynSkipExample.s0 [] DynReg.empty_ctx
    = DynReg.run_stmts DynRegSkip.DynSkipExample.univ DynRegSkip.DynSkipExample.stmts DynRegSkip.DynSkipExample.s0 [] DynReg.empty_ctx /\
  DynRegSkip.all_known_dyn DynRegSkip.DynSkipExample.univ DynReg.DSkTrue DynRegSkip.DynSkipExample.stmts DynRegSkip.DynSkipExample.s0 [] DynReg.empty_ctx = true.
Proof. exact DynRegSkip.DynSkipExample.C15_dyn_orig_drops_provided_binding. Qed.
(* the code between the two repairs: other.g registered by something else, the file imports dmod only;
   `other.g.x = 7` / `dmod.fn.x = 1` with skip_unknown=True raised NameError instead of dropping the first binding, and
   the outcome depended on what was parsed before *)
Theorem C15_dyn_orig_registered_spelling_not_skipped :
  DynReg.c_dynamic DynRegSkip.DynSkipExample2.ctx2 = true /\ DynReg.provides DynRegSkip.DynSkipExample2.ctx2 "other.g" = false /\
  DynReg.reg_matches (DynReg.ds_reg DynRegSkip.DynSkipExample2.s_reg) "other.g" = true /\
  DynReg.dsk_covers DynReg.DSkTrue "other.g" = true /\
  DynReg.should_skip_dyn_orig2 DynReg.DSkTrue (DynReg.ds_reg DynRegSkip.DynSkipExample2.s_reg) DynRegSkip.DynSkipExample2.ctx2 "other.g" = false /\
  DynRegSkip.DynSkipExample.summary (DynReg.run_stmts_sk DynReg.should_skip_dyn_orig2 DynRegSkip.DynSkipExample2.univ2 DynReg.DSkTrue
     DynRegSkip.DynSkipExample2.stmts2 DynRegSkip.DynSkipExample2.s_reg [] DynReg.empty_ctx) = (["other.g"], [], Some "NameError") /\
  DynRegSkip.DynSkipExample.summary (DynReg.run_stmts_sk DynReg.should_skip_dyn_orig2 DynRegSkip.DynSkipExample2.univ2 DynReg.DSkTrue
     DynRegSkip.DynSkipExample2.stmts2 DynRegSkip.DynSkipExample.s0 [] DynReg.empty_ctx)
    = (["dmod.fn"], [(("", "dmod.fn"), [("x", 1%Z)])], None) /\
  DynReg.should_skip_dyn DynReg.DSkTrue (DynReg.ds_reg DynRegSkip.DynSkipExample2.s_reg) DynRegSkip.DynSkipExample2.ctx2 "other.g" = true /\
  DynRegSkip.DynSkipExample.summary (DynReg.run_stmts_sk DynReg.should_skip_dyn DynRegSkip.DynSkipExample2.univ2 DynReg.DSkTrue
     DynRegSkip.DynSkipExample2.stmts2 DynRegSkip.DynSkipExample2.s_reg [] DynReg.empty_ctx)
    = (["other.g"; "dmod.fn"], [(("", "dmod.fn"), [("x", 1%Z)])], None) /\
  DynRegSkip.DynSkipExample.summary (DynReg.run_stmts_sk DynReg.should_skip_dyn DynRegSkip.DynSkipExample2.univ2 DynReg.DSkTrue
     DynRegSkip.DynSkipExample2.stmts2 DynRegSkip.DynSkipExample.s0 [] DynReg.empty_ctx)
    = (["dmod.fn"], [(("", "dmod.fn"), [("x", 1%Z)])], None).
Proof. exact DynRegSkip.DynSkipExample2.C15_dyn_orig_registered_spelling_not_skipped. Qed.

Print Assumptions C15_known_never_skipped.
Print Assumptions C15_skip_false.
Print Assumptions C15_skip_list.
Print Assumptions C15_skip_true.
Print Assumptions C15_reduce_equiv.
Print Assumptions C15_reduce_equiv_skfalse.
Print Assumptions C15_known_targets_skip_irrelevant.
Print Assumptions C15_uncovered_unknown_errors.
Print Assumptions C15_uncovered_unknown_block_errors.
Print Assumptions C15_placeholder_kept.
Print Assumptions C15_known_reference_resolved.
Print Assumptions C15_unknown_reference_errors.
Print Assumptions C15_first_unknown_is_ValueError.
Print Assumptions C15_reduce_equiv_dynamic.
Print Assumptions C15_reduce_is_static_when_pure.
Print Assumptions C15_reduce_equiv_dynamic_skfalse.
Print Assumptions C15_known_after_import.
Print Assumptions C15_import_registers.
Print Assumptions C15_unknown_before_import.
Print Assumptions C15_first_unknown_is_ValueError_at_point.
Print Assumptions C15_dynamic_nonvacuous.
Print Assumptions C15_dyn_provided_never_skipped.
Print Assumptions C15_dyn_registered_never_skipped.
Print Assumptions C15_dyn_skip_decision.
Print Assumptions C15_dyn_skip_decision_full.
Print Assumptions C15_dyn_known_is_provided.
Print Assumptions C15_static_known_is_registered.
Print Assumptions C15_dyn_unprovided_skip_decision.
Print Assumptions C15_dyn_registered_unprovided_skipped.
Print Assumptions C15_dyn_known_independent_of_registry.
Print Assumptions C15_dyn_orig_registered_spelling_not_skipped.
Print Assumptions C15_dyn_skipped_block_dropped.
Print Assumptions C15_dyn_skipped_binding_dropped.
Print Assumptions C15_dyn_skipped_ref_binding_dropped.
Print Assumptions C15_dyn_missing_import_dropped.
Print Assumptions C15_dyn_known_targets_skip_irrelevant.
Print Assumptions C15_dyn_skip_false.
Print Assumptions C15_dyn_orig_drops_provided_binding.
Print Assumptions C15_dyn_placeholder_binding.
Print Assumptions C15_dyn_placeholder_binding_dropped.
Print Assumptions C15_dyn_placeholder_registers_nothing.
Print Assumptions C15_dyn_provided_reference_resolved.
Print Assumptions C15_dyn_placeholder_example.
