(* C03 — statements are recovered exactly, whatever the layout of the config text.
   Proved so far: strictness of scoped names and the key splitting.  The full statement round-trip over
   all layouts is NOT yet proved (it is carried by the correspondence engine parser-stmts); hence the
   level claimed for C03 is translation validation. *)
From Coq Require Import List String ZArith Bool Arith.
From GinV Require Import Lib.Out Lib.PyStr Model.Parser Model.ParserSpec Proofs.ParserSmall.
Import ListNotations.
Open Scope string_scope.
Open Scope list_scope.

(* an accepted scoped name is spelled by adjacent tokens and matches the pattern: never repaired *)
Theorem C03_selector_strict : forall scoped allow wb ts s rest,
  parse_selector scoped allow wb ts = POk (s, rest) ->
  selector_format_ok scoped allow s = true /\
  exists toks, contiguous toks = true /\ s = concat_strs (map text toks) /\ toks <> [] /\ (forall t, In t toks -> In t ts).
Proof. exact selector_strict. Qed.

(* a separator that does not touch the preceding name (inner blank, other line) is never accepted *)
Theorem C03_selector_rejects_gap : forall scoped allow wb t1 t2 r,
  ty t1 = NAME -> (text t2 = "/" \/ text t2 = ".") -> ty t2 = OP ->
  (srow t1 <> srow t2 \/ ecol t1 <> scol t2) ->
  forall x, parse_selector scoped allow wb (t1 :: t2 :: r) = POk x -> False.
Proof. exact selector_rejects_gap. Qed.

(* binding-key splitting inverts joining: scope = everything before the last '/', parameter = after the last '.' *)
Theorem C03_split_binding_key : forall scope sel arg,
  contains_char slash sel = false -> contains_char slash arg = false -> contains_char dot arg = false ->
  split_binding_key ((if String.eqb scope "" then "" else scope ++ "/") ++ sel ++ "." ++ arg)%string = (scope, sel, arg).
Proof. exact split_binding_key_spec_strong. Qed.
Theorem C03_split_scoped : forall scope sel, contains_char slash sel = false -> scope <> "" ->
  split_scoped (scope ++ "/" ++ sel)%string = (scope, sel).
Proof. exact split_scoped_spec. Qed.

Print Assumptions C03_selector_strict.
Print Assumptions C03_selector_rejects_gap.
Print Assumptions C03_split_binding_key.
Print Assumptions C03_split_scoped.
