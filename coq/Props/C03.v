(* C03 — statements are recovered exactly, whatever the layout of the config text.
   Proved: (1) strictness of scoped names and the key splitting; (2) the statement round-trip: a file that
   spells a sequence of flat bindings / macro definitions (any literal value of the grammar of C02 in any
   layout of blanks, comments and continuation lines, any leading blank / comment lines, any trailing
   comment) and imports in the four forms (import m, import m as a, from p import n, from p import n as a),
   in any order, is read as exactly that sequence; (3) two layouts of the same statements give the same
   statements (line numbers aside).
   (4) the same for the indented-block layout 'scope/name:' + members and for include statements: a file
   mixing all five kinds of statement in any order is read as exactly what it spells (C03_roundtrip_all),
   and flat and block layouts of the same bindings give the same bindings (C03_bindings_layout_irrelevant).
   Outside the model: CPython's tokenizer (the token shapes of the rendering are those it produces; the
   correspondence engine parser-stmts feeds the model the real tokenizer's tokens). *)
From Coq Require Import List String ZArith Bool Arith.
From GinV Require Import Lib.Out Lib.PyStr Model.Parser Model.ParserSpec Model.ParserSpec2 Model.ParserEngine Proofs.ParserSmall Proofs.ParserProofs Proofs.StatementProofs Proofs.StatementProofs2.
Import ListNotations.
Open Scope string_scope.
Open Scope list_scope.

(* an accepted scoped name is spelled by adjacent tokens and matches the pattern: never repaired *)
Theorem C03_selector_strict : forall scoped allow wb ts s rest,
  parse_selector scoped allow wb ts = POk (s, rest) ->
  selector_format_ok scoped allow s = true /\
  exists toks, contiguous toks = true /\ s = concat_strs (map text toks) /\ toks <> [] /\ (forall t, In t toks -> In t ts).
Proof. exact selector_strict. Qed.

(* a separator that does not touch the preceding name (inner blank, other line) is never accepted *)
Theorem C03_selector_rejects_gap : forall scoped allow wb t1 t2 r,
  ty t1 = NAME -> (text t2 = "/" \/ text t2 = ".") -> ty t2 = OP ->
  (srow t1 <> srow t2 \/ ecol t1 <> scol t2) ->
  forall x, parse_selector scoped allow wb (t1 :: t2 :: r) = POk x -> False.
Proof. exact selector_rejects_gap. Qed.

(* binding-key splitting inverts joining: scope = everything before the last '/', parameter = after the last '.' *)
Theorem C03_split_binding_key : forall scope sel arg,
  contains_char slash sel = false -> contains_char slash arg = false -> contains_char dot arg = false ->
  split_binding_key ((if String.eqb scope "" then "" else scope ++ "/") ++ sel ++ "." ++ arg)%string = (scope, sel, arg).
Proof. exact split_binding_key_spec_strong. Qed.
Theorem C03_split_scoped : forall scope sel, contains_char slash sel = false -> scope <> "" ->
  split_scoped (scope ++ "/" ++ sel)%string = (scope, sel).
Proof. exact split_scoped_spec. Qed.

(* ---- one statement ---- *)
Theorem C03_binding_statement : forall o lit lay n v vtoks n' trailing lead row parts rest,
  lay_ok lay -> lit_wf o lit -> py_eval o lit = Some v -> render lit lay n false = (vtoks, n') -> Forall tok_ok vtoks ->
  Forall trivia_tok trailing -> Forall lead_tok lead -> wf_name parts ->
  parse_statement o false (lead ++ binding_tokens row parts vtoks trailing ++ rest) =
  POk (Some ([let '(scope, sel, arg) := split_binding_key (name_text parts) in SBind scope sel arg v row],
            tok NEWLINE "" row :: rest, true)).
Proof. exact StatementProofs.C03_binding_statement. Qed.

Theorem C03_import_statement : forall o row mparts alias rest,
  wf_name mparts -> selector_format_ok false false (name_text mparts) = true ->
  (forall a, alias = Some a -> is_identifier a = true) ->
  parse_statement o false (import_tokens row mparts alias ++ rest) =
  POk (Some ([SImport (name_text mparts) false alias row], tok NEWLINE "" row :: rest, true)).
Proof. exact StatementProofs.C03_import_statement. Qed.

Theorem C03_from_statement : forall o row mparts leaf alias rest,
  wf_name mparts -> selector_format_ok false false (name_text mparts) = true ->
  is_identifier leaf = true -> (forall a, alias = Some a -> is_identifier a = true) ->
  parse_statement o false (from_tokens row mparts leaf alias ++ rest) =
  POk (Some ([SImport (name_text mparts ++ "." ++ leaf)%string true alias row], tok NEWLINE "" row :: rest, true)).
Proof. exact StatementProofs.C03_from_statement. Qed.

(* ---- whole files: exactly the statements spelled, in order, nothing else, no error ---- *)
Theorem C03_roundtrip : forall o its final_lead eof,
  Forall (ritem_ok o) its -> Forall lead_tok final_lead -> ty eof = ENDMARKER ->
  exists fuel0, forall fuel, fuel0 <= fuel ->
    parse_all fuel o false (render_items_file its ++ final_lead ++ [eof]) [] = (map ritem_expected its, None).
Proof. exact C03_roundtrip_mixed. Qed.

(* the engine entry point that the correspondence check runs (its own fuel suffices) *)
Theorem C03_roundtrip_engine : forall o rs final_lead eof,
  Forall (rstmt_ok o) rs -> Forall lead_tok final_lead -> ty eof = ENDMARKER ->
  run_stmts (o, render_file rs ++ final_lead ++ [eof]) = OL (map stmt_out (map expected rs)).
Proof. exact C03_run_stmts. Qed.

(* ---- two layouts of the same statements ---- *)
Theorem C03_layout_irrelevant : forall o rs1 rs2 fl1 fl2 eof1 eof2,
  Forall (rstmt_ok o) rs1 -> Forall (rstmt_ok o) rs2 ->
  map (fun r => (rs_parts r, rs_value r)) rs1 = map (fun r => (rs_parts r, rs_value r)) rs2 ->
  Forall lead_tok fl1 -> Forall lead_tok fl2 -> ty eof1 = ENDMARKER -> ty eof2 = ENDMARKER ->
  exists fuel, map strip_line (fst (parse_all fuel o false (render_file rs1 ++ fl1 ++ [eof1]) [])) =
               map strip_line (fst (parse_all fuel o false (render_file rs2 ++ fl2 ++ [eof2]) [])) /\
               snd (parse_all fuel o false (render_file rs1 ++ fl1 ++ [eof1]) []) = None.
Proof. exact StatementProofs.C03_layout_irrelevant. Qed.

(* ---- blocks and includes ---- *)
Theorem C03_block_statement : forall o lead row parts hc pre indent ms tail dedent rest,
  Forall lead_tok lead -> wf_name parts ->
  Forall (fun t => ty t = COMMENT) hc -> Forall trivia_tok pre -> ty indent = INDENT ->
  Forall (bmember_ok o) ms -> Forall trivia_tok tail -> ty dedent = DEDENT ->
  parse_statement o false (lead ++ block_tokens row parts hc pre indent ms tail dedent ++ rest) =
  POk (Some (block_stmts row parts ms, dedent :: rest, true)).
Proof. exact StatementProofs2.C03_block_statement. Qed.

Theorem C03_include_statement : forall o lead row strs trailing v rest,
  Forall lead_tok lead -> Forall str_tok_ok strs -> Forall trivia_tok trailing ->
  lit_wf o (LStrs strs) -> py_eval o (LStrs strs) = Some v -> is_str_value v = true ->
  parse_statement o false (lead ++ include_tokens_tr row strs trailing ++ rest) =
  POk (Some ([SInclude v row], tok NEWLINE "" row :: rest, true)).
Proof. exact C03_include_statement_lead. Qed.

Theorem C03_roundtrip_all : forall o its final_lead eof,
  Forall (aitem_ok o) its -> Forall lead_tok final_lead -> ty eof = ENDMARKER ->
  exists fuel0, forall fuel, fuel0 <= fuel ->
    parse_all fuel o false (render_all its ++ final_lead ++ [eof]) [] = (flat_map aitem_stmts its, None).
Proof. exact StatementProofs2.C03_roundtrip_all. Qed.

(* flat or grouped in a block, in any mixture on either side: the same bindings *)
Theorem C03_bindings_layout_irrelevant : forall o its1 its2 fl1 fl2 eof1 eof2,
  Forall (aitem_ok o) its1 -> Forall (aitem_ok o) its2 ->
  flat_map aitem_binds its1 = flat_map aitem_binds its2 ->
  Forall lead_tok fl1 -> Forall lead_tok fl2 -> ty eof1 = ENDMARKER -> ty eof2 = ENDMARKER ->
  exists fuel0, forall fuel, fuel0 <= fuel ->
    map strip_line (filter is_bind (fst (parse_all fuel o false (render_all its1 ++ fl1 ++ [eof1]) []))) =
    map strip_line (filter is_bind (fst (parse_all fuel o false (render_all its2 ++ fl2 ++ [eof2]) []))) /\
    snd (parse_all fuel o false (render_all its1 ++ fl1 ++ [eof1]) []) = None /\
    snd (parse_all fuel o false (render_all its2 ++ fl2 ++ [eof2]) []) = None.
Proof. exact StatementProofs2.C03_bindings_layout_irrelevant. Qed.

(* the hypotheses are satisfiable: a commented two-member block and its parse *)
Theorem C03_block_nonvacuous : rblock_ok ex_o ex_block /\
  parse_all 5 ex_o false ex_file [] = ([SBlock "a" "b" 2; SBind "a" "b" "x" (OZ 1) 3; SBind "a" "b" "y" (OZ 2) 5], None).
Proof. split; [exact ex_block_ok | exact ex_block_parse]. Qed.

Print Assumptions C03_selector_strict.
Print Assumptions C03_selector_rejects_gap.
Print Assumptions C03_split_binding_key.
Print Assumptions C03_split_scoped.
Print Assumptions C03_binding_statement.
Print Assumptions C03_import_statement.
Print Assumptions C03_from_statement.
Print Assumptions C03_roundtrip.
Print Assumptions C03_roundtrip_engine.
Print Assumptions C03_layout_irrelevant.
Print Assumptions C03_block_statement.
Print Assumptions C03_include_statement.
Print Assumptions C03_roundtrip_all.
Print Assumptions C03_bindings_layout_irrelevant.
Print Assumptions C03_block_nonvacuous.
