(* C06 — the config string round-trips, is canonical and always parses.
   Model: Model/Serial.v (config_str at the level of lines; the TEXT of a value and its representability
   are an oracle supplied per value by the harness: v_lines, v_repr_ok).
   Proved here, for every registry, import list, entry list, width and indent:
     - canonical: the text depends only on the SET of bindings (any permutation of the sections, any
       permutation of the parameters inside a section gives the identical lines); sections and parameters
       are sorted by a strict total order whose ties cannot occur between different (scope, selector) keys;
     - always parses / omits: a value is emitted iff it is representable (both directions);
     - layout of one binding (single line, continuation, too long);
     - Markdown keeps every binding line verbatim (4-space code block), for every text config_str can emit.
     - re-serialisation: the store that a parse of the text yields is determined (per emitted section
       exactly the emitted bindings, the emitted imports); serialising THAT store gives the identical text
       (C06_roundtrip_text), except for sections printing only "# None." (C06_none_section_refuted: the
       recorded finding F18 — the hypothesis of the theorem is exactly its complement).
     - header (repaired code): unique modules and bound names, the reserved symbol gin never bound under
       dynamic registration, __gin__ feature statements first (C06_feature_statement_first; the original
       order is refuted by C06_orig_header_order_refuted), idempotent on its own output;
       independent of the order in which the recorded statements are presented -- _IMPORTS is a set --
       (C06_import_header_order_independent; the code before the F37 repair is refuted by
       C06_orig_import_header_order_dependent).
     - value texts (Model/Repr.v, Proofs/ReprProofs.v; last section of this file): the text gin writes for a value
       -- Python's repr of it, or ANY re-layout of that text by pprint (line breaks / comments after any token
       inside brackets) -- is a rendering of the value's own literal tree, for values of any nesting depth; the
       parser (parse_value, and the API parse_single_value = gin.config.parse_value) reads back exactly the
       value the tree denotes; the order in which the items of a dict are written is irrelevant.
   NOT proved in Coq (validated on the real tokenizer and the real pprint/repr by the value-text engine and the
   independent predicates of harness/props/c06.py): that the token stream of the real repr / pformat text of a
   Python value IS repr_toks / a rendering of the tree the harness builds for it, and that the oracle's atom
   values are the Python values. *)
From Coq Require Import List String ZArith Bool Arith Ascii Sorting.Permutation Sorting.Sorted.
From GinV Require Import Lib.Out Lib.PyStr Model.SelectorMap Model.Serial Proofs.SerialProofs Proofs.SerialProofs2 Proofs.SerialProofs3.
From GinV Require Import Model.Parser Model.ParserSpec Model.Repr
                         Proofs.ParserLemmas Proofs.ParserProofs Proofs.ParserApi Proofs.ReprProofs.
From GinV Require Import Model.Lexer Model.ReprText Proofs.ParserSim Proofs.ReprTextProofs.
Import ListNotations.
Open Scope string_scope.
Open Scope list_scope.

(* ---- canonical ---- *)
Theorem C06_order_independent : forall registry imports es1 es2 maxlen indent,
  NoDup (map (fun e => (e_scope e, e_sel e)) es1) -> Permutation es1 es2 ->
  config_lines registry imports es1 maxlen indent = config_lines registry imports es2 maxlen indent.
Proof. exact SerialProofs.C06_order_independent. Qed.

Theorem C06_params_order_independent : forall e1 e2,
  NoDup (map fst (e_params e1)) -> Permutation (e_params e1) (e_params e2) ->
  section_params e1 = section_params e2.
Proof. exact SerialProofs.C06_section_params_order_independent. Qed.

Theorem C06_params_sorted : forall e,
  StronglySorted (fun x y => String.ltb (fst y) (fst x) = false) (section_params e).
Proof. exact SerialProofs.C06_params_sorted. Qed.

Theorem C06_sections_sorted : forall entries,
  StronglySorted (fun x y => full_key_ltb (full_key y) (full_key x) = false) (sort_stable full_key full_key_ltb entries).
Proof. intros. apply sort_stable_sorted. exact full_key_ltb_strict_total. Qed.

(* the order is total on keys: two sections compare equal only if they are the same (scope, selector) *)
Theorem C06_order_total : strict_total full_key_ltb /\
  (forall e1 e2, full_key e1 = full_key e2 -> e_scope e1 = e_scope e2 /\ e_sel e1 = e_sel e2).
Proof. split; [exact full_key_ltb_strict_total | exact full_key_injective]. Qed.

(* ---- only what parses is emitted, and everything that parses is ---- *)
Theorem C06_lines_are_rendered_items : forall registry imports entries maxlen indent,
  config_lines registry imports entries maxlen indent =
  flat_map (render_item maxlen indent) (config_items registry imports entries maxlen).
Proof. exact config_lines_items. Qed.

Theorem C06_only_representable_emitted : forall registry imports entries maxlen,
  Forall (fun v => v_repr_ok v = true) (emitted_values registry imports entries maxlen).
Proof. exact SerialProofs.C06_only_representable_emitted. Qed.

Theorem C06_emitted_binding_origin : forall registry imports entries maxlen key v,
  In (IBind key v) (config_items registry imports entries maxlen) ->
  v_repr_ok v = true /\ exists e name, In e entries /\ In (name, v) (e_params e).
Proof. exact config_items_bind_origin. Qed.

Theorem C06_representable_emitted : forall registry imports entries maxlen e k v,
  In e entries -> section_ok e = true -> In (k, v) (e_params e) -> v_repr_ok v = true ->
  In (section_name registry e ^^ "." ^^ k, v) (emitted_bindings registry imports entries maxlen).
Proof. exact SerialProofs.C06_representable_emitted. Qed.

(* ---- one binding ---- *)
Theorem C06_binding_single_line : forall maxlen indent key one, cp_length (key ^^ one) <= maxlen ->
  format_binding maxlen indent key {| v_repr_ok := true; v_lines := [one] |} = [key ^^ " = " ^^ one].
Proof. exact format_binding_single. Qed.
Theorem C06_binding_continuation : forall maxlen indent key ls v, v_lines v = ls -> List.length ls <> 1 ->
  format_binding maxlen indent key v = (key ^^ " = \") :: map (indent_line indent) ls.
Proof. exact format_binding_continuation. Qed.
Theorem C06_binding_too_long : forall maxlen indent key one v, v_lines v = [one] ->
  maxlen < cp_length (key ^^ one) ->
  format_binding maxlen indent key v = [key ^^ " = \"; indent_line indent one].
Proof. exact format_binding_too_long. Qed.

(* ---- Markdown ---- *)
Theorem C06_markdown_verbatim : forall registry imports entries maxlen indent,
  1 <= indent ->
  (forall e, In e entries -> String.prefix "#" (e_scope e) = false /\ contains_char hash (e_sel e) = false) ->
  let ls := md_body (config_lines registry imports entries maxlen indent) in
  filter (fun l => String.prefix "    " l && negb (String.eqb l "    # None.")) (markdown ls) =
  map (fun l => "    " ^^ l) (filter (fun l => negb (String.prefix "#" l)) ls).
Proof. intros. apply C06_markdown_verbatim_config; [assumption | apply keys_hash_free_of_selectors; assumption]. Qed.

(* the unconditional statement over arbitrary lines is false: a comment line that is itself indented *)
Theorem C06_markdown_arbitrary_lines_refuted :
  filter (fun l => String.prefix "    " l && negb (String.eqb l "    # None.")) (markdown ["#     x"]) <>
  map (fun l => "    " ^^ l) (filter (fun l => negb (String.prefix "#" l)) ["#     x"]).
Proof. vm_compute. discriminate. Qed.

(* ---- re-serialising what the text restores ---- *)
Theorem C06_roundtrip_text : forall registry imports entries maxlen indent,
  List.length imports + 3 <= 10 ^ 20 -> NoDup (map (fun e => (e_scope e, e_sel e)) entries) ->
  (forall e, In e (other_entries entries) -> section_params e <> []) ->
  config_lines registry (sorted_imports (import_manager imports)) (restored entries) maxlen indent =
  config_lines registry imports entries maxlen indent.
Proof. exact SerialProofs2.C06_roundtrip_text. Qed.
Theorem C06_restored_fixpoint : forall entries,
  NoDup (map (fun e => (e_scope e, e_sel e)) entries) -> restored (restored entries) = restored entries.
Proof. exact restored_fixpoint. Qed.
(* F18: a section that prints only "# None." is not restored, so the second text lacks it *)
Theorem C06_none_section_refuted :
  config_lines ["f"] [] (restored f18_entries) 80 4 <> config_lines ["f"] [] f18_entries 80 4.
Proof. exact SerialProofs2.C06_none_section_refuted. Qed.
Theorem C06_import_header_idempotent : forall imports, List.length imports + 3 <= 10 ^ 20 ->
  let imps' := sorted_imports (import_manager imports) in
  map import_format (sorted_imports (import_manager imps')) = map import_format imps'.
Proof. exact C06_import_lines_idempotent. Qed.
(* the sort is stable (Python's sorted): equal keys keep their input order *)
Theorem C06_sort_is_stable : forall A K (key : A -> K) ltb (keqb : K -> K -> bool),
  (forall a b, keqb a b = true -> a = b) -> (forall a, ltb a a = false) ->
  forall k (l : list A),
  filter (fun y => keqb (key y) k) (sort_stable key ltb l) = filter (fun y => keqb (key y) k) l.
Proof. exact sort_stable_is_stable. Qed.

(* ---- imports of the header ---- *)
Theorem C06_import_modules_unique : forall imports, NoDup (map i_module (import_manager imports)).
Proof. exact import_manager_unique_modules. Qed.
Theorem C06_import_modules_complete : forall imports i, In i imports ->
  In (i_module i) (map i_module (import_manager imports)).
Proof. exact import_manager_modules_complete. Qed.
Theorem C06_import_names_unique : forall imports, List.length imports + 3 <= 10 ^ 20 ->
  NoDup (map bound_name (import_manager imports)).
Proof. exact import_manager_unique_names. Qed.

(* under dynamic registration the reserved symbol gin is never bound by a statement (repaired code) *)
Theorem C06_import_gin_reserved : forall imports, List.length imports + 3 <= 10 ^ 20 ->
  is_dynamic imports = true -> ~ In "gin" (map bound_name (import_manager imports)).
Proof. exact import_manager_gin_reserved. Qed.
Theorem C06_import_names_and_reserved_distinct : forall imports, List.length imports + 3 <= 10 ^ 20 ->
  NoDup (names0 imports ++ map bound_name (import_manager imports)).
Proof. exact import_manager_names_inv. Qed.
Theorem C06_import_modules_sound : forall imports m,
  In m (map i_module (import_manager imports)) -> In m (map i_module imports).
Proof. exact import_manager_modules_sound. Qed.
Theorem C06_import_dynamic_preserved : forall imports,
  is_dynamic (sorted_imports (import_manager imports)) = is_dynamic imports.
Proof. intros. rewrite is_dynamic_sorted_imports. apply is_dynamic_import_manager. Qed.
Theorem C06_header_order_strict_total : strict_total sorted_key_ltb.
Proof. exact sorted_key_ltb_strict_total. Qed.
(* the header lists the __gin__ feature statements first, whatever the other module names are (repaired code) *)
Theorem C06_feature_statement_first : forall imports,
  exists l1 l2, sorted_imports (import_manager imports) = l1 ++ l2 /\
    Forall (fun i => is_feature_module (i_module i) = true) l1 /\
    Forall (fun i => is_feature_module (i_module i) = false) l2.
Proof. exact SerialProofs2.C06_feature_statement_first. Qed.
Theorem C06_feature_statement_before : forall imports i j,
  In i (import_manager imports) -> is_feature_module (i_module i) = true ->
  In j (import_manager imports) -> is_feature_module (i_module j) = false ->
  exists a b c, sorted_imports (import_manager imports) = a ++ i :: b ++ j :: c.
Proof. exact SerialProofs2.C06_feature_statement_before. Qed.
(* the original code: "import Zmod" came before "from __gin__ import dynamic_registration" *)
Theorem C06_orig_header_order_refuted :
  let imports := [ {| i_module := "__gin__.dynamic_registration"; i_from := true; i_alias := None |};
                   {| i_module := "Zmod"; i_from := false; i_alias := None |} ] in
  map import_format (sorted_imports_orig (import_manager imports)) =
    ["import Zmod"; "from __gin__ import dynamic_registration"] /\
  map import_format (sorted_imports (import_manager imports)) =
    ["from __gin__ import dynamic_registration"; "import Zmod"].
Proof. exact SerialProofs2.C06_orig_header_order_refuted. Qed.
Theorem C06_reserved_gin_realiased :
  let dyn := {| i_module := "__gin__.dynamic_registration"; i_from := true; i_alias := None |} in
  let ginc := {| i_module := "gin.config"; i_from := false; i_alias := None |} in
  let zcx := {| i_module := "zcx"; i_from := false; i_alias := None |} in
  map import_format (sorted_imports (import_manager [dyn; ginc; zcx])) =
    ["from __gin__ import dynamic_registration"; "import gin.config as gin2"; "import zcx"] /\
  map import_format (sorted_imports (import_manager [ginc; zcx])) = ["import gin.config"; "import zcx"].
Proof. exact SerialProofs2.C06_reserved_gin_realiased. Qed.

(* feature statements are added first (repaired code): they are never re-aliased *)
Theorem C06_feature_statement_never_realiased : forall imports i,
  In i imports -> is_feature_module (i_module i) = true ->
  (forall j, In j imports -> i_module j = i_module i -> j = i) ->
  ~ In (bound_name i) (names0 imports) ->
  (forall j, In j imports -> is_feature_module (i_module j) = true -> i_module j <> i_module i ->
     bound_name j <> bound_name i /\ forall k, bound_name j ^^ nat_str k <> bound_name i) ->
  In i (import_manager imports) /\
  exists i', In i' (import_manager imports) /\ i_module i' = i_module i /\ i_alias i' = i_alias i.
Proof. exact SerialProofs2.C06_feature_statement_never_realiased. Qed.
Theorem C06_enabling_statement_unchanged : forall imports,
  In enabling_stmt imports ->
  (forall j, In j imports -> i_module j = "__gin__.dynamic_registration" -> j = enabling_stmt) ->
  (forall j, In j imports -> is_feature_module (i_module j) = true ->
     i_module j <> "__gin__.dynamic_registration" -> bound_name j <> "dynamic_registration") ->
  In enabling_stmt (import_manager imports).
Proof. exact SerialProofs2.C06_enabling_statement_unchanged. Qed.
Theorem C06_enabling_statement_unchanged_single : forall imports,
  In enabling_stmt imports ->
  (forall j, In j imports -> is_feature_module (i_module j) = true -> j = enabling_stmt) ->
  In enabling_stmt (import_manager imports).
Proof. exact SerialProofs2.C06_enabling_statement_unchanged_single. Qed.
(* the original order of addition: the enabling statement itself was the one re-aliased *)
Theorem C06_orig_enabling_statement_realiased :
  let pkg := {| i_module := "Pkg.dynamic_registration"; i_from := true; i_alias := None |} in
  map import_format (import_manager_orig [enabling_stmt; pkg]) =
    ["from Pkg import dynamic_registration"; "from __gin__ import dynamic_registration as dynamic_registration2"] /\
  map import_format (import_manager [enabling_stmt; pkg]) =
    ["from __gin__ import dynamic_registration"; "from Pkg import dynamic_registration as dynamic_registration2"].
Proof. exact SerialProofs2.C06_orig_enabling_statement_realiased. Qed.
(* the order of addition is the pull-back of a strict total order on (not feature, (module, (not from, alias or ''))) *)
Theorem C06_import_add_order : strict_total import_sort_key_ltb /\
  (forall a b, import_key_ltb a b = import_sort_key_ltb (import_sort_key a) (import_sort_key b)).
Proof. split; [exact import_sort_key_ltb_strict_total | exact import_key_ltb_as_key]. Qed.
(* the emitted statements are a fixed point of the manager *)
Theorem C06_import_manager_idempotent : forall imports, List.length imports + 3 <= 10 ^ 20 ->
  let imps' := sorted_imports (import_manager imports) in
  import_manager imps' = imps' /\ sorted_imports (import_manager imps') = imps'.
Proof. exact import_manager_idempotent. Qed.

(* F37 (repaired code): the statements kept by the manager -- hence the header and the whole text -- do not
   depend on the order in which the recorded statements are presented (the real _IMPORTS is a set).  The empty
   alias, which the parser cannot produce and which `alias or ''` identifies with no alias, is excluded. *)
Theorem C06_import_header_order_independent : forall l1 l2,
  Permutation l1 l2 -> Forall (fun i => i_alias i <> Some "") l1 ->
  import_manager l1 = import_manager l2.
Proof. exact import_manager_order_independent. Qed.
Theorem C06_import_lines_order_independent : forall l1 l2,
  Permutation l1 l2 -> Forall (fun i => i_alias i <> Some "") l1 ->
  map import_format (sorted_imports (import_manager l1)) = map import_format (sorted_imports (import_manager l2)).
Proof. exact import_header_order_independent. Qed.
Theorem C06_text_import_order_independent : forall registry l1 l2 entries maxlen indent,
  Permutation l1 l2 -> Forall (fun i => i_alias i <> Some "") l1 ->
  config_lines registry l1 entries maxlen indent = config_lines registry l2 entries maxlen indent.
Proof. exact config_lines_import_order_independent. Qed.
(* the repaired sort key determines the statement *)
Theorem C06_import_sort_key_injective : forall a b, i_alias a <> Some "" -> i_alias b <> Some "" ->
  import_sort_key a = import_sort_key b -> a = b.
Proof. exact import_sort_key_injective. Qed.
(* the code before the F37 repair (no tie-break on the alias): the header names whichever statement came first *)
Theorem C06_orig_import_header_order_dependent :
  let a := {| i_module := "_under"; i_from := false; i_alias := Some "al" |} in
  let b := {| i_module := "_under"; i_from := false; i_alias := Some "alpha" |} in
  map import_format (import_manager_noalias [a; b]) = ["import _under as al"] /\
  map import_format (import_manager_noalias [b; a]) = ["import _under as alpha"] /\
  import_manager [a; b] = import_manager [b; a].
Proof. exact orig_import_header_order_dependent. Qed.
(* the hypothesis on the empty alias is needed in the model *)
Theorem C06_import_header_empty_alias_order_dependent :
  let a := {| i_module := "m"; i_from := false; i_alias := Some "" |} in
  let b := {| i_module := "m"; i_from := false; i_alias := None |} in
  import_manager [a; b] = [a] /\ import_manager [b; a] = [b].
Proof. exact import_manager_order_dependent_on_empty_alias. Qed.

Print Assumptions C06_import_header_order_independent.
Print Assumptions C06_import_lines_order_independent.
Print Assumptions C06_text_import_order_independent.
Print Assumptions C06_import_sort_key_injective.
Print Assumptions C06_orig_import_header_order_dependent.
Print Assumptions C06_import_header_empty_alias_order_dependent.
Print Assumptions C06_feature_statement_never_realiased.
Print Assumptions C06_enabling_statement_unchanged.
Print Assumptions C06_enabling_statement_unchanged_single.
Print Assumptions C06_orig_enabling_statement_realiased.
Print Assumptions C06_import_add_order.
Print Assumptions C06_import_manager_idempotent.
Print Assumptions C06_import_gin_reserved.
Print Assumptions C06_import_names_and_reserved_distinct.
Print Assumptions C06_import_modules_sound.
Print Assumptions C06_import_dynamic_preserved.
Print Assumptions C06_header_order_strict_total.
Print Assumptions C06_feature_statement_first.
Print Assumptions C06_feature_statement_before.
Print Assumptions C06_orig_header_order_refuted.
Print Assumptions C06_reserved_gin_realiased.
Print Assumptions C06_order_independent.
Print Assumptions C06_params_order_independent.
Print Assumptions C06_params_sorted.
Print Assumptions C06_sections_sorted.
Print Assumptions C06_order_total.
Print Assumptions C06_lines_are_rendered_items.
Print Assumptions C06_only_representable_emitted.
Print Assumptions C06_emitted_binding_origin.
Print Assumptions C06_representable_emitted.
Print Assumptions C06_binding_single_line.
Print Assumptions C06_binding_continuation.
Print Assumptions C06_binding_too_long.
Print Assumptions C06_markdown_verbatim.
Print Assumptions C06_markdown_arbitrary_lines_refuted.
Print Assumptions C06_import_modules_unique.
Print Assumptions C06_import_modules_complete.
Print Assumptions C06_import_names_unique.
Print Assumptions C06_roundtrip_text.
Print Assumptions C06_restored_fixpoint.
Print Assumptions C06_none_section_refuted.
Print Assumptions C06_import_header_idempotent.
Print Assumptions C06_sort_is_stable.


(* ================================================================== *)
(* ---- value texts: what gin writes for a value reads back as that value (Model/Repr.v) ----
   [pv] is a value tree (atoms given by the tokens of their repr), [lit_of v] the syntax tree of repr(v) in the
   literal grammar of C02, [repr_toks v] the token stream of Python's repr(v), [denote o v] Python's meaning of the
   tree (atoms through the oracle), [atoms_ok o v]: the atoms are NAME / NUMBER / STRING tokens the oracle knows.
   [pv_atoms v] are the atom tokens; [tok_ok] (C02) says a NAME / NUMBER / STRING token never spells a bracket,
   "-" or nothing -- asked of the atoms only, it follows for every token of every rendering. *)

(* repr(v) is the trivia-free rendering of the value's own tree *)
Theorem C06_value_repr_is_rendering : forall v n,
  exists n', render (lit_of v) (fun _ => []) n false = (repr_toks v, n').
Proof. exact value_repr_is_rendering. Qed.
Theorem C06_value_repr_is_rendering_inside : forall v n inside,
  exists n', render (lit_of v) (fun _ => []) n inside = (repr_toks v, n').
Proof. exact value_repr_is_rendering_inside. Qed.

(* every tree over meaningful atoms is well formed and means something *)
Theorem C06_value_wf : forall o v, atoms_ok o v -> lit_wf o (lit_of v).
Proof. exact value_wf. Qed.
Theorem C06_value_denotes : forall o v, atoms_ok o v -> exists x, denote o v = Some x.
Proof. exact value_denotes. Qed.

(* the side condition of C02 on tokens is one on the atoms only *)
Theorem C06_value_repr_toks_ok : forall v, Forall tok_ok (repr_toks v) <-> Forall tok_ok (pv_atoms v).
Proof. exact repr_toks_ok_iff. Qed.
Theorem C06_value_layout_toks_ok : forall v lay n inside toks n',
  Forall tok_ok (pv_atoms v) -> lay_ok lay -> render (lit_of v) lay n inside = (toks, n') -> Forall tok_ok toks.
Proof. intros v lay n inside toks n' H. exact (layout_toks_ok_all v H lay n inside toks n'). Qed.

(* round trip on the repr text, whatever follows it (an operator, the NEWLINE, the end marker) *)
Theorem C06_value_repr_roundtrip : forall o v x rest wb,
  atoms_ok o v -> denote o v = Some x -> Forall tok_ok (pv_atoms v) ->
  rest <> [] -> (forall t r', rest = t :: r' -> follow_ok t) ->
  parse_value (value_fuel (repr_toks v ++ rest)) o wb (repr_toks v ++ rest) = POk (x, rest).
Proof. exact value_repr_roundtrip. Qed.

(* ... and on ANY layout of it: any NL / COMMENT tokens after any token inside brackets (what pprint's line
   breaking produces), trailing trivia [tr] behind the value *)
Theorem C06_value_any_layout_roundtrip : forall o v x lay n inside toks n' tr rest wb,
  atoms_ok o v -> denote o v = Some x -> Forall tok_ok (pv_atoms v) ->
  lay_ok lay -> render (lit_of v) lay n inside = (toks, n') -> Forall trivia_tok tr ->
  rest <> [] -> (forall t r', rest = t :: r' -> follow_ok t) ->
  parse_value (value_fuel (toks ++ tr ++ rest)) o wb (toks ++ tr ++ rest) = POk (x, rest).
Proof. exact value_any_layout_roundtrip_atoms. Qed.

(* the API (gin.config.parse_value, run by _format_value's representability test and by a reader of the text):
   any rendering, then comments / NLs, then nothing or a NEWLINE and any end-type tokens, then the end marker *)
Theorem C06_value_text_reads_back : forall o v x lay n inside toks n' tr tl e more,
  atoms_ok o v -> denote o v = Some x -> Forall tok_ok (pv_atoms v) ->
  lay_ok lay -> render (lit_of v) lay n inside = (toks, n') ->
  Forall trivia_tok tr ->
  Forall (fun t => In (ty t) end_types) tl -> (forall t r, tl = t :: r -> ty t = NEWLINE) ->
  ty e = ENDMARKER ->
  parse_single_value o (toks ++ tr ++ tl ++ e :: more) = POk x.
Proof. exact value_text_reads_back. Qed.
(* the text of repr(v) as the tokenizer delivers it: its tokens, NEWLINE, ENDMARKER *)
Theorem C06_value_repr_reads_back : forall o v x nl e,
  atoms_ok o v -> denote o v = Some x -> Forall tok_ok (pv_atoms v) ->
  ty nl = NEWLINE -> ty e = ENDMARKER ->
  parse_single_value o (repr_toks v ++ [nl; e]) = POk x.
Proof. exact value_repr_reads_back. Qed.

(* dict order (pprint sorts the items by key; Python dict equality ignores order).  [out_eqb] decides equality of
   observations; [keys_distinct] is "pairwise different keys" with PYTHON's key equality [out_py_eqb] (numbers by value:
   1, True and 1.0 are one key; tuples pointwise), which dict(...) uses.  Pairwise different keys are in particular
   different observations; not conversely. *)
Theorem C06_out_eqb_iff : forall a b, out_eqb a b = true <-> a = b.
Proof. exact out_eqb_iff. Qed.
Theorem C06_out_py_eqb_refl : forall a, out_py_eqb a a = true.
Proof. exact out_py_eqb_refl. Qed.
Theorem C06_keys_distinct_NoDup : forall kvs, keys_distinct kvs -> NoDup (map fst kvs).
Proof. exact keys_distinct_NoDup. Qed.
Example C06_NoDup_keys_not_distinct :
  let kvs := [(OT "int" [OS "1"], OS "a"); (OT "bool" [OS "True"], OS "b")] in
  NoDup (map fst kvs) /\ ~ keys_distinct kvs /\
  build_dict kvs = OT "D" [OL [OT "int" [OS "1"]; OS "b"]].
Proof. exact NoDup_keys_not_distinct. Qed.
(* with pairwise different keys no entry is merged, and a permutation of the items gives a permutation of the entries *)
Theorem C06_dict_order_irrelevant : forall kvs1 kvs2,
  keys_distinct kvs1 -> Permutation kvs1 kvs2 ->
  keys_distinct kvs2 /\
  exists es1 es2, build_dict kvs1 = OT "D" es1 /\ build_dict kvs2 = OT "D" es2 /\
    es1 = map (fun kv => OL [fst kv; snd kv]) kvs1 /\ es2 = map (fun kv => OL [fst kv; snd kv]) kvs2 /\
    Permutation es1 es2.
Proof. exact dict_order_irrelevant. Qed.
(* at the level of values: the items of a dict value written in another order denote a dict with the same entries *)
Theorem C06_dict_value_order_irrelevant : forall o l1 l2 x1,
  Permutation l1 l2 -> denote o (PDict l1) = Some x1 ->
  (forall kvs, eval_ditems o (map ditem_lit l1) = Some kvs -> keys_distinct kvs) ->
  exists x2 kvs1 kvs2, denote o (PDict l2) = Some x2 /\
    x1 = OT "D" (map (fun kv => OL [fst kv; snd kv]) kvs1) /\
    x2 = OT "D" (map (fun kv => OL [fst kv; snd kv]) kvs2) /\
    eval_ditems o (map ditem_lit l1) = Some kvs1 /\ eval_ditems o (map ditem_lit l2) = Some kvs2 /\
    Permutation kvs1 kvs2.
Proof. exact dict_value_order_irrelevant. Qed.
(* the hypothesis is needed: equal keys are merged (the later value, at the earlier position) *)
Example C06_dict_equal_keys_merged :
  build_dict [(OZ 1, OS "a"); (OZ 2, OS "b"); (OZ 1, OS "c")] = OT "D" [OL [OZ 1; OS "c"]; OL [OZ 2; OS "b"]] /\
  build_dict [(OT "int" [OS "1"], OS "a"); (OT "int" [OS "2"], OS "b"); (OT "float" [OS "0x1.0000000000000p+0"], OS "c")]
  = OT "D" [OL [OT "int" [OS "1"]; OS "c"]; OL [OT "int" [OS "2"]; OS "b"]].
Proof. vm_compute. split; reflexivity. Qed.

(* the condition on the atom tokens is needed (atoms_ok alone does not give it): an "atom" spelled like a bracket,
   known to the oracle, satisfies atoms_ok and denotes a value, but the parser takes it for a container *)
Example C06_atom_condition_needed :
  let v := PAtom {| ty := NAME; text := "["; srow := 1; scol := 0; erow := 1; ecol := 1 |} in
  let o := [("[", Some (OZ 1))] in
  atoms_ok o v /\ denote o v = Some (OZ 1) /\ ~ Forall tok_ok (pv_atoms v) /\
  parse_single_value o (repr_toks v ++ [ {| ty := NEWLINE; text := ""; srow := 1; scol := 1; erow := 1; ecol := 2 |};
                                         {| ty := ENDMARKER; text := ""; srow := 2; scol := 0; erow := 2; ecol := 0 |} ])
  = PErr (ESyntax 1).
Proof.
  cbv zeta. split; [|split; [|split]].
  - cbn. split; [left; reflexivity|]. split; [discriminate | eexists; reflexivity].
  - vm_compute. reflexivity.
  - cbn. intro H. pose proof (Forall_inv H (or_introl eq_refl)) as [_ [_ [C _]]]. cbn in C. discriminate.
  - vm_compute. reflexivity.
Qed.

(* ---- non-vacuity: the value {'k': [-1, (2,)], 3: 'a b'} ---- *)
Definition C06_tk (k : ttype) (s : string) : token := {| ty := k; text := s; srow := 1; scol := 0; erow := 1; ecol := 0 |}.
Definition C06_ex_value : pv :=
  PDict [(PStr (C06_tk STRING "'k'"), PList [PNeg (C06_tk NUMBER "1"); PTuple [PAtom (C06_tk NUMBER "2")]]);
         (PAtom (C06_tk NUMBER "3"), PStr (C06_tk STRING "'a b'"))].
Definition C06_ex_oracle : oracle :=
  [("'k'", Some (OT "str" [OS "k"])); ("-1", Some (OT "int" [OS "-1"])); ("2", Some (OT "int" [OS "2"]));
   ("3", Some (OT "int" [OS "3"])); ("'a b'", Some (OT "str" [OS "a b"]))].
Definition C06_ex_out : out :=
  OT "D" [OL [OT "str" [OS "k"]; OT "L" [OT "int" [OS "-1"]; OT "T" [OT "int" [OS "2"]]]];
          OL [OT "int" [OS "3"]; OT "str" [OS "a b"]]].
Definition C06_ex_tail : list token := [C06_tk NEWLINE ""; C06_tk ENDMARKER ""].

Example C06_ex_atoms_ok : atoms_ok C06_ex_oracle C06_ex_value.
Proof.
  cbn. repeat split; try (right; reflexivity); try discriminate;
    try (intros a Ha; injection Ha as <-; reflexivity); eexists; reflexivity.
Qed.
Example C06_ex_atoms_tok_ok : Forall tok_ok (pv_atoms C06_ex_value).
Proof.
  cbn. repeat (apply Forall_cons; [intros _; unfold text_ok; cbn; repeat split; discriminate|]). apply Forall_nil.
Qed.
Example C06_ex_denotes : denote C06_ex_oracle C06_ex_value = Some C06_ex_out.
Proof. vm_compute. reflexivity. Qed.
Example C06_ex_repr_texts :
  map text (repr_toks C06_ex_value) =
  ["{"; "'k'"; ":"; "["; "-"; "1"; ","; "("; "2"; ","; ")"; "]"; ","; "3"; ":"; "'a b'"; "}"].
Proof. vm_compute. reflexivity. Qed.
(* by computation ... *)
Example C06_ex_repr_reads_back_computes :
  parse_single_value C06_ex_oracle (repr_toks C06_ex_value ++ C06_ex_tail) = POk C06_ex_out.
Proof. vm_compute. reflexivity. Qed.
(* ... and BY the theorem, from its hypotheses *)
Example C06_ex_repr_reads_back_applies :
  parse_single_value C06_ex_oracle (repr_toks C06_ex_value ++ C06_ex_tail) = POk C06_ex_out.
Proof.
  exact (C06_value_repr_reads_back C06_ex_oracle C06_ex_value C06_ex_out (C06_tk NEWLINE "") (C06_tk ENDMARKER "")
           C06_ex_atoms_ok C06_ex_denotes C06_ex_atoms_tok_ok eq_refl eq_refl).
Qed.
(* a re-layout: a line break after the opening brace, a comment and a line break after the comma inside the list,
   line breaks behind the tuple, after the comma between the two items and before the closing brace *)
Definition C06_ex_layout : layout :=
  fun n => match n with 0 | 11 | 14 | 18 => [C06_tk NL ""] | 6 => [C06_tk COMMENT "# c"; C06_tk NL ""] | _ => [] end.
Example C06_ex_layout_ok : lay_ok C06_ex_layout.
Proof.
  intro n. do 19 (destruct n as [|n]; [cbn; repeat constructor; (left; reflexivity) || (right; reflexivity)|]).
  constructor.
Qed.
Example C06_ex_layout_texts :
  map text (fst (render (lit_of C06_ex_value) C06_ex_layout 0 false)) =
  ["{"; ""; "'k'"; ":"; "["; "-"; "1"; ","; "# c"; ""; "("; "2"; ","; ")"; ""; "]"; ","; ""; "3"; ":"; "'a b'"; ""; "}"].
Proof. vm_compute. reflexivity. Qed.
Example C06_ex_layout_reads_back_applies :
  parse_single_value C06_ex_oracle (fst (render (lit_of C06_ex_value) C06_ex_layout 0 false) ++ [] ++ [C06_tk NEWLINE ""] ++ C06_tk ENDMARKER "" :: [])
  = POk C06_ex_out.
Proof.
  apply (C06_value_text_reads_back C06_ex_oracle C06_ex_value C06_ex_out C06_ex_layout 0 false _
           (snd (render (lit_of C06_ex_value) C06_ex_layout 0 false)) [] [C06_tk NEWLINE ""] (C06_tk ENDMARKER "") []
           C06_ex_atoms_ok C06_ex_denotes C06_ex_atoms_tok_ok C06_ex_layout_ok).
  - apply surjective_pairing.
  - constructor.
  - repeat constructor.
  - intros t r E. injection E as <- _. reflexivity.
  - reflexivity.
Qed.
Example C06_ex_layout_reads_back_computes :
  parse_single_value C06_ex_oracle (fst (render (lit_of C06_ex_value) C06_ex_layout 0 false) ++ C06_ex_tail) = POk C06_ex_out.
Proof. vm_compute. reflexivity. Qed.
(* the items in the other order (as pprint would sort them if 3 < 'k' were defined): the same entries *)
Example C06_ex_dict_other_order :
  denote C06_ex_oracle (PDict (rev match C06_ex_value with PDict l => l | _ => [] end))
  = Some (OT "D" (rev match C06_ex_out with OT _ es => es | _ => [] end)).
Proof. vm_compute. reflexivity. Qed.

Print Assumptions C06_value_repr_is_rendering.
Print Assumptions C06_value_repr_is_rendering_inside.

(* ------------------------------------------------------------------ *)
(* VALUE TEXTS AT CHARACTER LEVEL (Model/ReprText.v: [repr_string v], the string Python's repr prints;
   Model/Lexer.v: the tokenizer; proofs in Proofs/ReprTextProofs.v and Proofs/ParserSim.v).
   [atom_lexable t]: the text of the atom t, alone, is lexed into one token of t's type and text (decided by
   [atom_lexable_b]); 200 is the tokenizer's limit on open brackets. *)
Theorem C06_value_string_atom_lexable_b : forall t, atom_lexable_b t = true -> atom_lexable t.
Proof. exact atom_lexable_b_ok. Qed.
(* the characters of repr_string v are lexed into exactly the tokens repr_toks v (types and texts; the positions
   are the real ones), then the NEWLINE the tokenizer adds to a last line without one (empty text), then ENDMARKER *)
Theorem C06_value_string_lexes : forall v,
  Forall atom_lexable (pv_atoms v) -> pv_depth v <= 200 -> supported (repr_string v) = true ->
  exists toks n e, lex (repr_string v) = Some (toks ++ [n; e]) /\
    map ty toks = map ty (repr_toks v) /\ map text toks = map text (repr_toks v) /\
    ty n = NEWLINE /\ text n = "" /\ ty e = ENDMARKER /\ text e = "".
Proof. exact value_string_lexes. Qed.
(* the value parser looks at token positions only to report error lines (and inside "@" / "%" selectors):
   streams with the same types and texts, free of the two sigils, are accepted together, with the same value *)
Theorem C06_value_string_positions_irrelevant : forall o a b v,
  Forall2 (fun x y => ty x = ty y /\ text x = text y /\ text x <> "@" /\ text x <> "%") a b ->
  run_value_api (o, a) = OT "Value" [v] -> run_value_api (o, b) = OT "Value" [v].
Proof. exact run_value_api_transfer. Qed.
(* END TO END FROM CHARACTERS: gin.config.parse_value (tokenizer + parser, both modelled) reads the text repr prints
   for a value back as the value it denotes *)
Theorem C06_value_string_reads_back : forall o v x,
  atoms_ok o v -> denote o v = Some x ->
  Forall atom_lexable (pv_atoms v) -> pv_depth v <= 200 -> supported (repr_string v) = true ->
  exists ts, lex (repr_string v) = Some ts /\ run_value_api (o, ts) = OT "Value" [x].
Proof. exact value_string_reads_back. Qed.

(* the example value {'k': [-1, (2,)], 3: 'a b'} again *)
Example C06_value_string_ex_text : repr_string C06_ex_value = "{'k': [-1, (2,)], 3: 'a b'}".
Proof. vm_compute. reflexivity. Qed.
Example C06_value_string_ex_atoms : Forall atom_lexable (pv_atoms C06_ex_value).
Proof. cbn [C06_ex_value pv_atoms flat_map fst snd app]. repeat constructor; apply atom_lexable_b_ok; vm_compute; reflexivity. Qed.
Example C06_value_string_ex_lexes :
  option_map (map (fun t => (ty t, text t, scol t))) (lex "{'k': [-1, (2,)], 3: 'a b'}") =
  Some [(OP, "{", 0); (STRING, "'k'", 1); (OP, ":", 4); (OP, "[", 6); (OP, "-", 7); (NUMBER, "1", 8); (OP, ",", 9);
        (OP, "(", 11); (NUMBER, "2", 12); (OP, ",", 13); (OP, ")", 14); (OP, "]", 15); (OP, ",", 16); (NUMBER, "3", 18);
        (OP, ":", 19); (STRING, "'a b'", 21); (OP, "}", 26); (NEWLINE, "", 27); (ENDMARKER, "", 0)].
Proof. vm_compute. reflexivity. Qed.
(* by computation ... *)
Example C06_value_string_ex_reads_back_computes :
  option_map (fun ts => run_value_api (C06_ex_oracle, ts)) (lex (repr_string C06_ex_value)) = Some (OT "Value" [C06_ex_out]).
Proof. vm_compute. reflexivity. Qed.
(* ... and BY the theorem, from its hypotheses *)
Example C06_value_string_ex_reads_back_applies :
  exists ts, lex (repr_string C06_ex_value) = Some ts /\ run_value_api (C06_ex_oracle, ts) = OT "Value" [C06_ex_out].
Proof.
  apply (C06_value_string_reads_back C06_ex_oracle C06_ex_value C06_ex_out C06_ex_atoms_ok C06_ex_denotes
           C06_value_string_ex_atoms).
  - vm_compute. repeat constructor.
  - vm_compute. reflexivity.
Qed.
Print Assumptions C06_value_wf.
Print Assumptions C06_value_denotes.
Print Assumptions C06_value_repr_toks_ok.
Print Assumptions C06_value_layout_toks_ok.
Print Assumptions C06_value_repr_roundtrip.
Print Assumptions C06_value_any_layout_roundtrip.
Print Assumptions C06_value_text_reads_back.
Print Assumptions C06_value_repr_reads_back.
Print Assumptions C06_out_eqb_iff.
Print Assumptions C06_keys_distinct_NoDup.
Print Assumptions C06_out_py_eqb_refl.
Print Assumptions C06_NoDup_keys_not_distinct.
Print Assumptions C06_dict_order_irrelevant.
Print Assumptions C06_dict_value_order_irrelevant.
Print Assumptions C06_dict_equal_keys_merged.
Print Assumptions C06_atom_condition_needed.
Print Assumptions C06_ex_atoms_ok.
Print Assumptions C06_ex_atoms_tok_ok.
Print Assumptions C06_ex_denotes.
Print Assumptions C06_ex_repr_texts.
Print Assumptions C06_ex_repr_reads_back_computes.
Print Assumptions C06_ex_repr_reads_back_applies.
Print Assumptions C06_ex_layout_ok.
Print Assumptions C06_ex_layout_texts.
Print Assumptions C06_ex_layout_reads_back_applies.
Print Assumptions C06_ex_layout_reads_back_computes.
Print Assumptions C06_ex_dict_other_order.
Print Assumptions C06_value_string_atom_lexable_b.
Print Assumptions C06_value_string_lexes.
Print Assumptions C06_value_string_positions_irrelevant.
Print Assumptions C06_value_string_reads_back.
Print Assumptions C06_value_string_ex_text.
Print Assumptions C06_value_string_ex_atoms.
Print Assumptions C06_value_string_ex_lexes.
Print Assumptions C06_value_string_ex_reads_back_computes.
Print Assumptions C06_value_string_ex_reads_back_applies.

(* ---- F58: a root-scope binding of gin.macro.value is an ordinary binding, not a macro named "" ---- *)
Definition C06_rootmacro_entries : list sentry :=
  [ {| e_scope := ""; e_sel := "gin.macro"; e_method := false;
       e_params := [("value", {| v_repr_ok := true; v_lines := ["5"] |})] |};
    {| e_scope := "mm"; e_sel := "gin.macro"; e_method := false;
       e_params := [("value", {| v_repr_ok := true; v_lines := ["1"] |})] |} ].
Theorem C06_rootscope_macro_is_a_section :
  config_lines ["gin.macro"] [] C06_rootmacro_entries 80 4 =
  ["# Macros:"; rule 80; "mm = 1"; ""; "# Parameters for macro:"; rule 80; "macro.value = 5"; ""].
Proof. vm_compute. reflexivity. Qed.
Print Assumptions C06_rootscope_macro_is_a_section.
(* the macro section holds exactly the entries of gin.macro under a non-empty scope (their name) *)
Theorem C06_macro_iff_named : forall e, is_macro e = true <-> (e_sel e = "gin.macro" /\ e_scope e <> "").
Proof.
  intro e. unfold is_macro. rewrite Bool.andb_true_iff, Bool.negb_true_iff, String.eqb_eq, String.eqb_neq. tauto.
Qed.
Print Assumptions C06_macro_iff_named.
(* the code before the repair printed the root-scope entry in the macro section, as the line " = 5" *)
Theorem C06_orig_rootscope_macro_treated_as_macro :
  is_macro_orig {| e_scope := ""; e_sel := "gin.macro"; e_method := false;
                   e_params := [("value", {| v_repr_ok := true; v_lines := ["5"] |})] |} = true /\
  format_binding 80 4 "" {| v_repr_ok := true; v_lines := ["5"] |} = [" = 5"].
Proof. vm_compute. split; reflexivity. Qed.
Print Assumptions C06_orig_rootscope_macro_treated_as_macro.
