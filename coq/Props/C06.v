From Coq Require Import List String.
From GinV Require Import Model.Values Model.Gin.
Import ListNotations.
Theorem C06_placeholder : prefixes [1;2] = [[]; [1]; [1;2]].
Proof. reflexivity. Qed.
Print Assumptions C06_placeholder.
