(* C06 — the config string round-trips, is canonical and always parses.
   Model: Model/Serial.v (config_str at the level of lines; the TEXT of a value and its representability
   are an oracle supplied per value by the harness: v_lines, v_repr_ok).
   Proved here, for every registry, import list, entry list, width and indent:
     - canonical: the text depends only on the SET of bindings (any permutation of the sections, any
       permutation of the parameters inside a section gives the identical lines); sections and parameters
       are sorted by a strict total order whose ties cannot occur between different (scope, selector) keys;
     - always parses / omits: a value is emitted iff it is representable (both directions);
     - layout of one binding (single line, continuation, too long);
     - Markdown keeps every binding line verbatim (4-space code block), for every text config_str can emit.
     - re-serialisation: the store that a parse of the text yields is determined (per emitted section
       exactly the emitted bindings, the emitted imports); serialising THAT store gives the identical text
       (C06_roundtrip_text), except for sections printing only "# None." (C06_none_section_refuted: the
       recorded finding F18 — the hypothesis of the theorem is exactly its complement).
     - header (repaired code): unique modules and bound names, the reserved symbol gin never bound under
       dynamic registration, __gin__ feature statements first (C06_feature_statement_first; the original
       order is refuted by C06_orig_header_order_refuted), idempotent on its own output;
       independent of the order in which the recorded statements are presented -- _IMPORTS is a set --
       (C06_import_header_order_independent; the code before the F37 repair is refuted by
       C06_orig_import_header_order_dependent).
   NOT proved in Coq (validated on the real parser and the real pprint/repr by the independent predicates
   of harness/props/c06.py): that parsing the emitted text does yield that store, i.e. that each emitted
   value text evaluates back to an equal value of the same type. *)
From Coq Require Import List String ZArith Bool Arith Ascii Sorting.Permutation Sorting.Sorted.
From GinV Require Import Lib.Out Lib.PyStr Model.SelectorMap Model.Serial Proofs.SerialProofs Proofs.SerialProofs2 Proofs.SerialProofs3.
Import ListNotations.
Open Scope string_scope.
Open Scope list_scope.

(* ---- canonical ---- *)
Theorem C06_order_independent : forall registry imports es1 es2 maxlen indent,
  NoDup (map (fun e => (e_scope e, e_sel e)) es1) -> Permutation es1 es2 ->
  config_lines registry imports es1 maxlen indent = config_lines registry imports es2 maxlen indent.
Proof. exact SerialProofs.C06_order_independent. Qed.

Theorem C06_params_order_independent : forall e1 e2,
  NoDup (map fst (e_params e1)) -> Permutation (e_params e1) (e_params e2) ->
  section_params e1 = section_params e2.
Proof. exact SerialProofs.C06_section_params_order_independent. Qed.

Theorem C06_params_sorted : forall e,
  StronglySorted (fun x y => String.ltb (fst y) (fst x) = false) (section_params e).
Proof. exact SerialProofs.C06_params_sorted. Qed.

Theorem C06_sections_sorted : forall entries,
  StronglySorted (fun x y => full_key_ltb (full_key y) (full_key x) = false) (sort_stable full_key full_key_ltb entries).
Proof. intros. apply sort_stable_sorted. exact full_key_ltb_strict_total. Qed.

(* the order is total on keys: two sections compare equal only if they are the same (scope, selector) *)
Theorem C06_order_total : strict_total full_key_ltb /\
  (forall e1 e2, full_key e1 = full_key e2 -> e_scope e1 = e_scope e2 /\ e_sel e1 = e_sel e2).
Proof. split; [exact full_key_ltb_strict_total | exact full_key_injective]. Qed.

(* ---- only what parses is emitted, and everything that parses is ---- *)
Theorem C06_lines_are_rendered_items : forall registry imports entries maxlen indent,
  config_lines registry imports entries maxlen indent =
  flat_map (render_item maxlen indent) (config_items registry imports entries maxlen).
Proof. exact config_lines_items. Qed.

Theorem C06_only_representable_emitted : forall registry imports entries maxlen,
  Forall (fun v => v_repr_ok v = true) (emitted_values registry imports entries maxlen).
Proof. exact SerialProofs.C06_only_representable_emitted. Qed.

Theorem C06_emitted_binding_origin : forall registry imports entries maxlen key v,
  In (IBind key v) (config_items registry imports entries maxlen) ->
  v_repr_ok v = true /\ exists e name, In e entries /\ In (name, v) (e_params e).
Proof. exact config_items_bind_origin. Qed.

Theorem C06_representable_emitted : forall registry imports entries maxlen e k v,
  In e entries -> section_ok e = true -> In (k, v) (e_params e) -> v_repr_ok v = true ->
  In (section_name registry e ^^ "." ^^ k, v) (emitted_bindings registry imports entries maxlen).
Proof. exact SerialProofs.C06_representable_emitted. Qed.

(* ---- one binding ---- *)
Theorem C06_binding_single_line : forall maxlen indent key one, cp_length (key ^^ one) <= maxlen ->
  format_binding maxlen indent key {| v_repr_ok := true; v_lines := [one] |} = [key ^^ " = " ^^ one].
Proof. exact format_binding_single. Qed.
Theorem C06_binding_continuation : forall maxlen indent key ls v, v_lines v = ls -> List.length ls <> 1 ->
  format_binding maxlen indent key v = (key ^^ " = \") :: map (indent_line indent) ls.
Proof. exact format_binding_continuation. Qed.
Theorem C06_binding_too_long : forall maxlen indent key one v, v_lines v = [one] ->
  maxlen < cp_length (key ^^ one) ->
  format_binding maxlen indent key v = [key ^^ " = \"; indent_line indent one].
Proof. exact format_binding_too_long. Qed.

(* ---- Markdown ---- *)
Theorem C06_markdown_verbatim : forall registry imports entries maxlen indent,
  1 <= indent ->
  (forall e, In e entries -> String.prefix "#" (e_scope e) = false /\ contains_char hash (e_sel e) = false) ->
  let ls := md_body (config_lines registry imports entries maxlen indent) in
  filter (fun l => String.prefix "    " l && negb (String.eqb l "    # None.")) (markdown ls) =
  map (fun l => "    " ^^ l) (filter (fun l => negb (String.prefix "#" l)) ls).
Proof. intros. apply C06_markdown_verbatim_config; [assumption | apply keys_hash_free_of_selectors; assumption]. Qed.

(* the unconditional statement over arbitrary lines is false: a comment line that is itself indented *)
Theorem C06_markdown_arbitrary_lines_refuted :
  filter (fun l => String.prefix "    " l && negb (String.eqb l "    # None.")) (markdown ["#     x"]) <>
  map (fun l => "    " ^^ l) (filter (fun l => negb (String.prefix "#" l)) ["#     x"]).
Proof. vm_compute. discriminate. Qed.

(* ---- re-serialising what the text restores ---- *)
Theorem C06_roundtrip_text : forall registry imports entries maxlen indent,
  List.length imports + 3 <= 10 ^ 20 -> NoDup (map (fun e => (e_scope e, e_sel e)) entries) ->
  (forall e, In e (other_entries entries) -> section_params e <> []) ->
  config_lines registry (sorted_imports (import_manager imports)) (restored entries) maxlen indent =
  config_lines registry imports entries maxlen indent.
Proof. exact SerialProofs2.C06_roundtrip_text. Qed.
Theorem C06_restored_fixpoint : forall entries,
  NoDup (map (fun e => (e_scope e, e_sel e)) entries) -> restored (restored entries) = restored entries.
Proof. exact restored_fixpoint. Qed.
(* F18: a section that prints only "# None." is not restored, so the second text lacks it *)
Theorem C06_none_section_refuted :
  config_lines ["f"] [] (restored f18_entries) 80 4 <> config_lines ["f"] [] f18_entries 80 4.
Proof. exact SerialProofs2.C06_none_section_refuted. Qed.
Theorem C06_import_header_idempotent : forall imports, List.length imports + 3 <= 10 ^ 20 ->
  let imps' := sorted_imports (import_manager imports) in
  map import_format (sorted_imports (import_manager imps')) = map import_format imps'.
Proof. exact C06_import_lines_idempotent. Qed.
(* the sort is stable (Python's sorted): equal keys keep their input order *)
Theorem C06_sort_is_stable : forall A K (key : A -> K) ltb (keqb : K -> K -> bool),
  (forall a b, keqb a b = true -> a = b) -> (forall a, ltb a a = false) ->
  forall k (l : list A),
  filter (fun y => keqb (key y) k) (sort_stable key ltb l) = filter (fun y => keqb (key y) k) l.
Proof. exact sort_stable_is_stable. Qed.

(* ---- imports of the header ---- *)
Theorem C06_import_modules_unique : forall imports, NoDup (map i_module (import_manager imports)).
Proof. exact import_manager_unique_modules. Qed.
Theorem C06_import_modules_complete : forall imports i, In i imports ->
  In (i_module i) (map i_module (import_manager imports)).
Proof. exact import_manager_modules_complete. Qed.
Theorem C06_import_names_unique : forall imports, List.length imports + 3 <= 10 ^ 20 ->
  NoDup (map bound_name (import_manager imports)).
Proof. exact import_manager_unique_names. Qed.

(* under dynamic registration the reserved symbol gin is never bound by a statement (repaired code) *)
Theorem C06_import_gin_reserved : forall imports, List.length imports + 3 <= 10 ^ 20 ->
  is_dynamic imports = true -> ~ In "gin" (map bound_name (import_manager imports)).
Proof. exact import_manager_gin_reserved. Qed.
Theorem C06_import_names_and_reserved_distinct : forall imports, List.length imports + 3 <= 10 ^ 20 ->
  NoDup (names0 imports ++ map bound_name (import_manager imports)).
Proof. exact import_manager_names_inv. Qed.
Theorem C06_import_modules_sound : forall imports m,
  In m (map i_module (import_manager imports)) -> In m (map i_module imports).
Proof. exact import_manager_modules_sound. Qed.
Theorem C06_import_dynamic_preserved : forall imports,
  is_dynamic (sorted_imports (import_manager imports)) = is_dynamic imports.
Proof. intros. rewrite is_dynamic_sorted_imports. apply is_dynamic_import_manager. Qed.
Theorem C06_header_order_strict_total : strict_total sorted_key_ltb.
Proof. exact sorted_key_ltb_strict_total. Qed.
(* the header lists the __gin__ feature statements first, whatever the other module names are (repaired code) *)
Theorem C06_feature_statement_first : forall imports,
  exists l1 l2, sorted_imports (import_manager imports) = l1 ++ l2 /\
    Forall (fun i => is_feature_module (i_module i) = true) l1 /\
    Forall (fun i => is_feature_module (i_module i) = false) l2.
Proof. exact SerialProofs2.C06_feature_statement_first. Qed.
Theorem C06_feature_statement_before : forall imports i j,
  In i (import_manager imports) -> is_feature_module (i_module i) = true ->
  In j (import_manager imports) -> is_feature_module (i_module j) = false ->
  exists a b c, sorted_imports (import_manager imports) = a ++ i :: b ++ j :: c.
Proof. exact SerialProofs2.C06_feature_statement_before. Qed.
(* the original code: "import Zmod" came before "from __gin__ import dynamic_registration" *)
Theorem C06_orig_header_order_refuted :
  let imports := [ {| i_module := "__gin__.dynamic_registration"; i_from := true; i_alias := None |};
                   {| i_module := "Zmod"; i_from := false; i_alias := None |} ] in
  map import_format (sorted_imports_orig (import_manager imports)) =
    ["import Zmod"; "from __gin__ import dynamic_registration"] /\
  map import_format (sorted_imports (import_manager imports)) =
    ["from __gin__ import dynamic_registration"; "import Zmod"].
Proof. exact SerialProofs2.C06_orig_header_order_refuted. Qed.
Theorem C06_reserved_gin_realiased :
  let dyn := {| i_module := "__gin__.dynamic_registration"; i_from := true; i_alias := None |} in
  let ginc := {| i_module := "gin.config"; i_from := false; i_alias := None |} in
  let zcx := {| i_module := "zcx"; i_from := false; i_alias := None |} in
  map import_format (sorted_imports (import_manager [dyn; ginc; zcx])) =
    ["from __gin__ import dynamic_registration"; "import gin.config as gin2"; "import zcx"] /\
  map import_format (sorted_imports (import_manager [ginc; zcx])) = ["import gin.config"; "import zcx"].
Proof. exact SerialProofs2.C06_reserved_gin_realiased. Qed.

(* feature statements are added first (repaired code): they are never re-aliased *)
Theorem C06_feature_statement_never_realiased : forall imports i,
  In i imports -> is_feature_module (i_module i) = true ->
  (forall j, In j imports -> i_module j = i_module i -> j = i) ->
  ~ In (bound_name i) (names0 imports) ->
  (forall j, In j imports -> is_feature_module (i_module j) = true -> i_module j <> i_module i ->
     bound_name j <> bound_name i /\ forall k, bound_name j ^^ nat_str k <> bound_name i) ->
  In i (import_manager imports) /\
  exists i', In i' (import_manager imports) /\ i_module i' = i_module i /\ i_alias i' = i_alias i.
Proof. exact SerialProofs2.C06_feature_statement_never_realiased. Qed.
Theorem C06_enabling_statement_unchanged : forall imports,
  In enabling_stmt imports ->
  (forall j, In j imports -> i_module j = "__gin__.dynamic_registration" -> j = enabling_stmt) ->
  (forall j, In j imports -> is_feature_module (i_module j) = true ->
     i_module j <> "__gin__.dynamic_registration" -> bound_name j <> "dynamic_registration") ->
  In enabling_stmt (import_manager imports).
Proof. exact SerialProofs2.C06_enabling_statement_unchanged. Qed.
Theorem C06_enabling_statement_unchanged_single : forall imports,
  In enabling_stmt imports ->
  (forall j, In j imports -> is_feature_module (i_module j) = true -> j = enabling_stmt) ->
  In enabling_stmt (import_manager imports).
Proof. exact SerialProofs2.C06_enabling_statement_unchanged_single. Qed.
(* the original order of addition: the enabling statement itself was the one re-aliased *)
Theorem C06_orig_enabling_statement_realiased :
  let pkg := {| i_module := "Pkg.dynamic_registration"; i_from := true; i_alias := None |} in
  map import_format (import_manager_orig [enabling_stmt; pkg]) =
    ["from Pkg import dynamic_registration"; "from __gin__ import dynamic_registration as dynamic_registration2"] /\
  map import_format (import_manager [enabling_stmt; pkg]) =
    ["from __gin__ import dynamic_registration"; "from Pkg import dynamic_registration as dynamic_registration2"].
Proof. exact SerialProofs2.C06_orig_enabling_statement_realiased. Qed.
(* the order of addition is the pull-back of a strict total order on (not feature, (module, (not from, alias or ''))) *)
Theorem C06_import_add_order : strict_total import_sort_key_ltb /\
  (forall a b, import_key_ltb a b = import_sort_key_ltb (import_sort_key a) (import_sort_key b)).
Proof. split; [exact import_sort_key_ltb_strict_total | exact import_key_ltb_as_key]. Qed.
(* the emitted statements are a fixed point of the manager *)
Theorem C06_import_manager_idempotent : forall imports, List.length imports + 3 <= 10 ^ 20 ->
  let imps' := sorted_imports (import_manager imports) in
  import_manager imps' = imps' /\ sorted_imports (import_manager imps') = imps'.
Proof. exact import_manager_idempotent. Qed.

(* F37 (repaired code): the statements kept by the manager -- hence the header and the whole text -- do not
   depend on the order in which the recorded statements are presented (the real _IMPORTS is a set).  The empty
   alias, which the parser cannot produce and which `alias or ''` identifies with no alias, is excluded. *)
Theorem C06_import_header_order_independent : forall l1 l2,
  Permutation l1 l2 -> Forall (fun i => i_alias i <> Some "") l1 ->
  import_manager l1 = import_manager l2.
Proof. exact import_manager_order_independent. Qed.
Theorem C06_import_lines_order_independent : forall l1 l2,
  Permutation l1 l2 -> Forall (fun i => i_alias i <> Some "") l1 ->
  map import_format (sorted_imports (import_manager l1)) = map import_format (sorted_imports (import_manager l2)).
Proof. exact import_header_order_independent. Qed.
Theorem C06_text_import_order_independent : forall registry l1 l2 entries maxlen indent,
  Permutation l1 l2 -> Forall (fun i => i_alias i <> Some "") l1 ->
  config_lines registry l1 entries maxlen indent = config_lines registry l2 entries maxlen indent.
Proof. exact config_lines_import_order_independent. Qed.
(* the repaired sort key determines the statement *)
Theorem C06_import_sort_key_injective : forall a b, i_alias a <> Some "" -> i_alias b <> Some "" ->
  import_sort_key a = import_sort_key b -> a = b.
Proof. exact import_sort_key_injective. Qed.
(* the code before the F37 repair (no tie-break on the alias): the header names whichever statement came first *)
Theorem C06_orig_import_header_order_dependent :
  let a := {| i_module := "_under"; i_from := false; i_alias := Some "al" |} in
  let b := {| i_module := "_under"; i_from := false; i_alias := Some "alpha" |} in
  map import_format (import_manager_noalias [a; b]) = ["import _under as al"] /\
  map import_format (import_manager_noalias [b; a]) = ["import _under as alpha"] /\
  import_manager [a; b] = import_manager [b; a].
Proof. exact orig_import_header_order_dependent. Qed.
(* the hypothesis on the empty alias is needed in the model *)
Theorem C06_import_header_empty_alias_order_dependent :
  let a := {| i_module := "m"; i_from := false; i_alias := Some "" |} in
  let b := {| i_module := "m"; i_from := false; i_alias := None |} in
  import_manager [a; b] = [a] /\ import_manager [b; a] = [b].
Proof. exact import_manager_order_dependent_on_empty_alias. Qed.

Print Assumptions C06_import_header_order_independent.
Print Assumptions C06_import_lines_order_independent.
Print Assumptions C06_text_import_order_independent.
Print Assumptions C06_import_sort_key_injective.
Print Assumptions C06_orig_import_header_order_dependent.
Print Assumptions C06_import_header_empty_alias_order_dependent.
Print Assumptions C06_feature_statement_never_realiased.
Print Assumptions C06_enabling_statement_unchanged.
Print Assumptions C06_enabling_statement_unchanged_single.
Print Assumptions C06_orig_enabling_statement_realiased.
Print Assumptions C06_import_add_order.
Print Assumptions C06_import_manager_idempotent.
Print Assumptions C06_import_gin_reserved.
Print Assumptions C06_import_names_and_reserved_distinct.
Print Assumptions C06_import_modules_sound.
Print Assumptions C06_import_dynamic_preserved.
Print Assumptions C06_header_order_strict_total.
Print Assumptions C06_feature_statement_first.
Print Assumptions C06_feature_statement_before.
Print Assumptions C06_orig_header_order_refuted.
Print Assumptions C06_reserved_gin_realiased.
Print Assumptions C06_order_independent.
Print Assumptions C06_params_order_independent.
Print Assumptions C06_params_sorted.
Print Assumptions C06_sections_sorted.
Print Assumptions C06_order_total.
Print Assumptions C06_lines_are_rendered_items.
Print Assumptions C06_only_representable_emitted.
Print Assumptions C06_emitted_binding_origin.
Print Assumptions C06_representable_emitted.
Print Assumptions C06_binding_single_line.
Print Assumptions C06_binding_continuation.
Print Assumptions C06_binding_too_long.
Print Assumptions C06_markdown_verbatim.
Print Assumptions C06_markdown_arbitrary_lines_refuted.
Print Assumptions C06_import_modules_unique.
Print Assumptions C06_import_modules_complete.
Print Assumptions C06_import_names_unique.
Print Assumptions C06_roundtrip_text.
Print Assumptions C06_restored_fixpoint.
Print Assumptions C06_none_section_refuted.
Print Assumptions C06_import_header_idempotent.
Print Assumptions C06_sort_is_stable.
