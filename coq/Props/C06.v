(* C06 — the config string round-trips, is canonical and always parses.
   Model: Model/Serial.v (config_str at the level of lines; the TEXT of a value and its representability
   are an oracle supplied per value by the harness: v_lines, v_repr_ok).
   Proved here, for every registry, import list, entry list, width and indent:
     - canonical: the text depends only on the SET of bindings (any permutation of the sections, any
       permutation of the parameters inside a section gives the identical lines); sections and parameters
       are sorted by a strict total order whose ties cannot occur between different (scope, selector) keys;
     - always parses / omits: a value is emitted iff it is representable (both directions);
     - layout of one binding (single line, continuation, too long);
     - Markdown keeps every binding line verbatim (4-space code block), for every text config_str can emit.
     - re-serialisation: the store that a parse of the text yields is determined (per emitted section
       exactly the emitted bindings, the emitted imports); serialising THAT store gives the identical text
       (C06_roundtrip_text), except for sections printing only "# None." (C06_none_section_refuted: the
       recorded finding F18 — the hypothesis of the theorem is exactly its complement).
   NOT proved in Coq (validated on the real parser and the real pprint/repr by the independent predicates
   of harness/props/c06.py): that parsing the emitted text does yield that store, i.e. that each emitted
   value text evaluates back to an equal value of the same type. *)
From Coq Require Import List String ZArith Bool Arith Ascii Sorting.Permutation Sorting.Sorted.
From GinV Require Import Lib.Out Lib.PyStr Model.SelectorMap Model.Serial Proofs.SerialProofs Proofs.SerialProofs2.
Import ListNotations.
Open Scope string_scope.
Open Scope list_scope.

(* ---- canonical ---- *)
Theorem C06_order_independent : forall registry imports es1 es2 maxlen indent,
  NoDup (map (fun e => (e_scope e, e_sel e)) es1) -> Permutation es1 es2 ->
  config_lines registry imports es1 maxlen indent = config_lines registry imports es2 maxlen indent.
Proof. exact SerialProofs.C06_order_independent. Qed.

Theorem C06_params_order_independent : forall e1 e2,
  NoDup (map fst (e_params e1)) -> Permutation (e_params e1) (e_params e2) ->
  section_params e1 = section_params e2.
Proof. exact SerialProofs.C06_section_params_order_independent. Qed.

Theorem C06_params_sorted : forall e,
  StronglySorted (fun x y => String.ltb (fst y) (fst x) = false) (section_params e).
Proof. exact SerialProofs.C06_params_sorted. Qed.

Theorem C06_sections_sorted : forall entries,
  StronglySorted (fun x y => full_key_ltb (full_key y) (full_key x) = false) (sort_stable full_key full_key_ltb entries).
Proof. intros. apply sort_stable_sorted. exact full_key_ltb_strict_total. Qed.

(* the order is total on keys: two sections compare equal only if they are the same (scope, selector) *)
Theorem C06_order_total : strict_total full_key_ltb /\
  (forall e1 e2, full_key e1 = full_key e2 -> e_scope e1 = e_scope e2 /\ e_sel e1 = e_sel e2).
Proof. split; [exact full_key_ltb_strict_total | exact full_key_injective]. Qed.

(* ---- only what parses is emitted, and everything that parses is ---- *)
Theorem C06_lines_are_rendered_items : forall registry imports entries maxlen indent,
  config_lines registry imports entries maxlen indent =
  flat_map (render_item maxlen indent) (config_items registry imports entries maxlen).
Proof. exact config_lines_items. Qed.

Theorem C06_only_representable_emitted : forall registry imports entries maxlen,
  Forall (fun v => v_repr_ok v = true) (emitted_values registry imports entries maxlen).
Proof. exact SerialProofs.C06_only_representable_emitted. Qed.

Theorem C06_emitted_binding_origin : forall registry imports entries maxlen key v,
  In (IBind key v) (config_items registry imports entries maxlen) ->
  v_repr_ok v = true /\ exists e name, In e entries /\ In (name, v) (e_params e).
Proof. exact config_items_bind_origin. Qed.

Theorem C06_representable_emitted : forall registry imports entries maxlen e k v,
  In e entries -> section_ok e = true -> In (k, v) (e_params e) -> v_repr_ok v = true ->
  In (section_name registry e ^^ "." ^^ k, v) (emitted_bindings registry imports entries maxlen).
Proof. exact SerialProofs.C06_representable_emitted. Qed.

(* ---- one binding ---- *)
Theorem C06_binding_single_line : forall maxlen indent key one, cp_length (key ^^ one) <= maxlen ->
  format_binding maxlen indent key {| v_repr_ok := true; v_lines := [one] |} = [key ^^ " = " ^^ one].
Proof. exact format_binding_single. Qed.
Theorem C06_binding_continuation : forall maxlen indent key ls v, v_lines v = ls -> List.length ls <> 1 ->
  format_binding maxlen indent key v = (key ^^ " = \") :: map (indent_line indent) ls.
Proof. exact format_binding_continuation. Qed.
Theorem C06_binding_too_long : forall maxlen indent key one v, v_lines v = [one] ->
  maxlen < cp_length (key ^^ one) ->
  format_binding maxlen indent key v = [key ^^ " = \"; indent_line indent one].
Proof. exact format_binding_too_long. Qed.

(* ---- Markdown ---- *)
Theorem C06_markdown_verbatim : forall registry imports entries maxlen indent,
  1 <= indent ->
  (forall e, In e entries -> String.prefix "#" (e_scope e) = false /\ contains_char hash (e_sel e) = false) ->
  let ls := md_body (config_lines registry imports entries maxlen indent) in
  filter (fun l => String.prefix "    " l && negb (String.eqb l "    # None.")) (markdown ls) =
  map (fun l => "    " ^^ l) (filter (fun l => negb (String.prefix "#" l)) ls).
Proof. intros. apply C06_markdown_verbatim_config; [assumption | apply keys_hash_free_of_selectors; assumption]. Qed.

(* the unconditional statement over arbitrary lines is false: a comment line that is itself indented *)
Theorem C06_markdown_arbitrary_lines_refuted :
  filter (fun l => String.prefix "    " l && negb (String.eqb l "    # None.")) (markdown ["#     x"]) <>
  map (fun l => "    " ^^ l) (filter (fun l => negb (String.prefix "#" l)) ["#     x"]).
Proof. vm_compute. discriminate. Qed.

(* ---- re-serialising what the text restores ---- *)
Theorem C06_roundtrip_text : forall registry imports entries maxlen indent,
  List.length imports + 3 <= 10 ^ 20 -> NoDup (map (fun e => (e_scope e, e_sel e)) entries) ->
  (forall e, In e (other_entries entries) -> section_params e <> []) ->
  config_lines registry (sorted_imports (import_manager imports)) (restored entries) maxlen indent =
  config_lines registry imports entries maxlen indent.
Proof. exact SerialProofs2.C06_roundtrip_text. Qed.
Theorem C06_restored_fixpoint : forall entries,
  NoDup (map (fun e => (e_scope e, e_sel e)) entries) -> restored (restored entries) = restored entries.
Proof. exact restored_fixpoint. Qed.
(* F18: a section that prints only "# None." is not restored, so the second text lacks it *)
Theorem C06_none_section_refuted :
  config_lines ["f"] [] (restored f18_entries) 80 4 <> config_lines ["f"] [] f18_entries 80 4.
Proof. exact SerialProofs2.C06_none_section_refuted. Qed.
Theorem C06_import_header_idempotent : forall imports, List.length imports + 3 <= 10 ^ 20 ->
  let imps' := sorted_imports (import_manager imports) in
  map import_format (sorted_imports (import_manager imps')) = map import_format imps'.
Proof. exact C06_import_lines_idempotent. Qed.
(* the sort is stable (Python's sorted): equal keys keep their input order *)
Theorem C06_sort_is_stable : forall A K (key : A -> K) ltb (keqb : K -> K -> bool),
  (forall a b, keqb a b = true -> a = b) -> (forall a, ltb a a = false) ->
  forall k (l : list A),
  filter (fun y => keqb (key y) k) (sort_stable key ltb l) = filter (fun y => keqb (key y) k) l.
Proof. exact sort_stable_is_stable. Qed.

(* ---- imports of the header ---- *)
Theorem C06_import_modules_unique : forall imports, NoDup (map i_module (import_manager imports)).
Proof. exact import_manager_unique_modules. Qed.
Theorem C06_import_modules_complete : forall imports i, In i imports ->
  In (i_module i) (map i_module (import_manager imports)).
Proof. exact import_manager_modules_complete. Qed.
Theorem C06_import_names_unique : forall imports, List.length imports + 3 <= 10 ^ 20 ->
  NoDup (map bound_name (import_manager imports)).
Proof. exact import_manager_unique_names. Qed.

Print Assumptions C06_order_independent.
Print Assumptions C06_params_order_independent.
Print Assumptions C06_params_sorted.
Print Assumptions C06_sections_sorted.
Print Assumptions C06_order_total.
Print Assumptions C06_lines_are_rendered_items.
Print Assumptions C06_only_representable_emitted.
Print Assumptions C06_emitted_binding_origin.
Print Assumptions C06_representable_emitted.
Print Assumptions C06_binding_single_line.
Print Assumptions C06_binding_continuation.
Print Assumptions C06_binding_too_long.
Print Assumptions C06_markdown_verbatim.
Print Assumptions C06_markdown_arbitrary_lines_refuted.
Print Assumptions C06_import_modules_unique.
Print Assumptions C06_import_modules_complete.
Print Assumptions C06_import_names_unique.
Print Assumptions C06_roundtrip_text.
Print Assumptions C06_restored_fixpoint.
Print Assumptions C06_none_section_refuted.
Print Assumptions C06_import_header_idempotent.
Print Assumptions C06_sort_is_stable.
