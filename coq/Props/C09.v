(* C09 — config scopes nest, are restored on every exit path, and are private to a thread.
   Statements only; proofs in Proofs/MachineProofs.v, Proofs/ScopeThreadsProofs.v. *)
From Coq Require Import List String ZArith Bool.
From GinV Require Import Lib.Out Lib.PyStr Model.SelectorMap Model.Values Model.Gin Model.GinEngine
                         Proofs.MachineFrame Proofs.MachineProofs Model.ScopeThreads Proofs.ScopeThreadsProofs.
Import ListNotations.
Open Scope string_scope.
Open Scope list_scope.

(* composition rule of config_scope *)
Theorem C09_compose : forall cur,
  (forall l, enter_scope_value cur (SList l) = (l, true)) /\
  (forall str, str <> "" -> enter_scope_value cur (SStr str) = (cur ++ split_slash str, true)) /\
  enter_scope_value cur (SStr "") = ([], true) /\ enter_scope_value cur SNone = ([], true).
Proof. exact enter_scope_compose. Qed.

(* inside the block the body runs under exactly the composed scope *)
Theorem C09_body_scope : forall f s a body new_scope,
  enter_scope_value (current_scope s) a = (new_scope, true) -> scope_valid new_scope = true ->
  exec (S f) s (OWith a body) =
  (let '(s2, r) := exec_body f (emit (OL (map OS new_scope)) (set_scopes (new_scope :: scopes s) s)) body in
   (set_scopes (tl (scopes s2)) s2, r)).
Proof. exact with_body_scope_exec_body. Qed.

(* an invalid scope value raises, runs nothing, and leaves the stack as it was *)
Theorem C09_invalid_scope : forall f s a body new_scope valid,
  enter_scope_value (current_scope s) a = (new_scope, valid) ->
  (valid = false \/ scope_valid new_scope = false) ->
  exists s', exec (S f) s (OWith a body) = (s', Raise "ValueError") /\
             scopes s' = scopes s /\ config s' = config s /\ obs s' = obs s.
Proof. exact with_invalid_raises. Qed.

(* THE restoration theorem: every op of the language — config_scope blocks of any nesting depth,
   bodies that raise, scoped references, get_configurable with a scope, nested configurable calls —
   leaves the scope stack exactly as it found it, on both the normal and the exceptional exit *)
Theorem C09_restored : forall fuel s o s' r, exec fuel s o = (s', r) -> scopes s' = scopes s.
Proof. exact exec_scopes_restored. Qed.

Theorem C09_restored_history : forall fuel ops s, scopes (run_top fuel s ops) = scopes s.
Proof. exact run_top_scopes. Qed.

(* calls and reference evaluation restore the stack as well (and never touch the store) *)
Theorem C09_call_frame : forall fuel s sel args kw s' r, call fuel s sel args kw = (s', r) -> same_static s s'.
Proof. exact call_frame. Qed.

(* Thread half.  The scope stack is per thread: for EVERY schedule (any number of threads, any interleaving
   of enter / exit / observe / scoped-lookup steps) every thread observes exactly what it observes when it
   runs alone, and ends with the same stack. *)
Theorem C09_thread_private : forall cfg pi st t,
  obs_of t (snd (trun cfg st pi)) = obs_of t (snd (trun cfg st (only t pi))) /\
  stack_of (fst (trun cfg st pi)) t = stack_of (fst (trun cfg st (only t pi))) t.
Proof. exact C09_thread_private. Qed.

Theorem C09_other_thread_frame : forall cfg st t u x, u <> t ->
  stack_of (fst (tstep_run cfg st u x)) t = stack_of st t.
Proof. exact other_thread_frame. Qed.

(* a rejected entry pushes nothing; an accepted entry followed by the exit restores the stack *)
Theorem C09_enter_exit : forall cfg st t a st1 o1,
  stack_of st t <> [] -> tstep_run cfg st t (TEnter a) = (st1, o1) ->
  (o1 = OErr "ValueError" /\ stack_of st1 t = stack_of st t) \/
  (exists sc, o1 = OL (map OS sc) /\ stack_of st1 t = sc :: stack_of st t /\
              stack_of (fst (tstep_run cfg st1 t TExit)) t = stack_of st t).
Proof. exact enter_exit_precise. Qed.

Example C09_nonvacuous :
  let s := run_top 50 init_state
    [OWith (SStr "a") [OWith (SStr "b/c") [OCurScope; OWith (SList ["z"]) [OCurScope; ORaise]; OCurScope]];
     OCurScope; OWith (SStr "a") [OWith (SStr "1x") [OCurScope]]; OCurScope] in
  scopes s = [[]] /\
  rev (obs s) = [OL [OS "a"]; OL [OS "a"; OS "b"; OS "c"]; OL [OS "a"; OS "b"; OS "c"]; OL [OS "z"]; OL [OS "z"];
                 OErr "KeyError"; OL []; OL [OS "a"]; OErr "ValueError"; OL []].
Proof. vm_compute. split; reflexivity. Qed.

Print Assumptions C09_compose.
Print Assumptions C09_body_scope.
Print Assumptions C09_invalid_scope.
Print Assumptions C09_restored.
Print Assumptions C09_restored_history.
Print Assumptions C09_call_frame.
Print Assumptions C09_thread_private.
Print Assumptions C09_other_thread_frame.
Print Assumptions C09_enter_exit.
