(* The text repr writes for one atom means that atom again.
   Model: Model/StrLit.v -- py_repr_str / py_repr_bytes / py_repr_int (CPython's unicode_repr, bytes_repr, decimal
   text), decode_str_literal / decode_bytes_literal / decode_int_literal / decode_str_literals (what
   ast.literal_eval makes of ONE literal token text, of adjacent string literals); code points and bytes are [N].
   [pr] is str.isprintable of one character: a parameter, every theorem holds for every function.
   Proved here (Proofs/StrLitProofs.v, Proofs/StrLitLex.v):
     - round trip for str (every string of code points, lone surrogates included, for every printable function that
       does not call a surrogate printable -- CPython's does not; the statement without that hypothesis is refuted by
       atom_str_roundtrip_refuted), bytes, non-negative int below the 4300 digit limit of CPython 3.12 (the limit is
       real: atom_int_roundtrip_refuted, atom_int_limit_refuted; atom_int_roundtrip_nolimit is the statement for the limit switched off), the
       negative int is "-" and the text of the absolute value;
     - the repr text of a str / bytes has no line break; it is printable ASCII when every character is ASCII or not
       printable (bytes: always);
     - it is  q body q  for a quote q with no unprotected q in the body, and the tokenizer's scan of the string ends
       exactly at the last character whatever follows;
     - adjacent literals (pprint's splitting of a long string) read back as the concatenation;
     - on the tokenizer model (Model/Lexer.v): the repr text of an ASCII str is ONE STRING token, the text of a
       non-negative int ONE NUMBER token, followed by NEWLINE and ENDMARKER (atom_lexable_b of Model/ReprText.v; for
       str under the lexer model's own restriction no_fquote -- it refuses texts like 'f' conservatively:
       atom_repr_str_atom_lexable_refuted -- and unconditionally for the raw token list lex_raw).
   Correspondence of the model functions with CPython 3.12.1: harness_new/atoms.py (differential, vm_compute). *)
From Coq Require Import List String Ascii NArith ZArith Bool.
From GinV Require Import Model.Parser Model.Lexer Model.ReprText Model.StrLit Proofs.ReprTextProofs Proofs.StrLitProofs Proofs.StrLitLex.
Import ListNotations.
Open Scope N_scope.
Open Scope list_scope.

(* ---- digits ---- *)
Theorem atom_hex_digit_roundtrip : forall d, d < 16 -> hex_val (hex_char d) = Some d.
Proof. exact hex_digit_roundtrip. Qed.

(* ---- str ---- *)
Theorem atom_str_roundtrip : forall pr s,
  Forall (fun c => c <= 0x10FFFF /\ (is_surrogate c = true -> pr c = false)) s ->
  decode_str_literal (py_repr_str pr s) = Some s.
Proof. exact str_roundtrip. Qed.

Theorem atom_str_roundtrip_python : forall pr s, (forall c, is_surrogate c = true -> pr c = false) ->
  Forall (fun c => c <= 0x10FFFF) s -> decode_str_literal (py_repr_str pr s) = Some s.
Proof. exact str_roundtrip_python. Qed.

Theorem atom_str_roundtrip_refuted :
  Forall (fun c => c <= 0x10FFFF) [0xD800] /\ decode_str_literal (py_repr_str (fun _ => true) [0xD800]) = None.
Proof. exact str_roundtrip_refuted. Qed.

Theorem atom_repr_str_single_line : forall pr s, Forall (fun c => c <= 0x10FFFF) s ->
  Forall (fun c => no_line_break c = true) (py_repr_str pr s) /\
  (Forall (fun c => c < 128 \/ pr c = false) s -> Forall (fun c => printable_ascii c = true) (py_repr_str pr s)).
Proof. exact repr_str_single_line. Qed.

Theorem atom_repr_str_quote_closed : forall pr s, Forall (fun c => c <= 0x10FFFF) s ->
  exists q body, py_repr_str pr s = q :: body ++ [q] /\ is_quote_n q = true /\ no_unescaped q body = true /\
                 (body = [] \/ exists x r, body = x :: r /\ x <> q) /\
                 forall rest, body1 q (body ++ q :: rest) = Some (body, rest).
Proof. exact repr_str_quote_closed. Qed.

Theorem atom_concat_roundtrip : forall pr pieces, pieces <> [] ->
  Forall (Forall (fun c => c <= 0x10FFFF /\ (is_surrogate c = true -> pr c = false))) pieces ->
  decode_str_literals (map (py_repr_str pr) pieces) = Some (List.concat pieces).
Proof. exact concat_roundtrip. Qed.

(* ---- bytes ---- *)
Theorem atom_bytes_roundtrip : forall b, Forall (fun c => c <= 255) b -> decode_bytes_literal (py_repr_bytes b) = Some b.
Proof. exact bytes_roundtrip. Qed.

Theorem atom_repr_bytes_single_line : forall b, Forall (fun c => c <= 255) b ->
  Forall (fun c => no_line_break c = true) (py_repr_bytes b) /\ Forall (fun c => printable_ascii c = true) (py_repr_bytes b).
Proof. exact repr_bytes_single_line. Qed.

Theorem atom_repr_bytes_quote_closed : forall b, Forall (fun c => c <= 255) b ->
  exists q body, py_repr_bytes b = 98 :: q :: body ++ [q] /\ is_quote_n q = true /\ no_unescaped q body = true /\
                 (body = [] \/ exists x r, body = x :: r /\ x <> q) /\
                 forall rest, body1 q (body ++ q :: rest) = Some (body, rest).
Proof. exact repr_bytes_quote_closed. Qed.

(* ---- int ---- *)
Theorem atom_int_roundtrip : forall z, (0 <= z)%Z -> (z < 10 ^ 4300)%Z -> decode_int_literal (py_repr_int z) = Some z.
Proof. exact int_roundtrip. Qed.

Theorem atom_int_roundtrip_nolimit : forall z, (0 <= z)%Z -> decode_int_literal_nolimit (py_repr_int z) = Some z.
Proof. exact int_roundtrip_nolimit. Qed.

Theorem atom_int_repr_negative : forall z, (z < 0)%Z -> py_repr_int z = 45 :: py_repr_int (- z).
Proof. exact int_repr_negative. Qed.

Theorem atom_int_roundtrip_refuted : (0 <= 10 ^ 4300)%Z /\ decode_int_literal (py_repr_int (10 ^ 4300)) = None.
Proof. exact int_roundtrip_refuted. Qed.

Theorem atom_py_repr_int_pow10 : forall k, py_repr_int (10 ^ Z.of_nat k) = 49 :: repeat 48 k.
Proof. exact py_repr_int_pow10. Qed.

Theorem atom_int_limit_refuted :
  decode_int_literal (49 :: repeat 48 4300%nat) = None /\
  option_map (Z.eqb (10 ^ 4300)) (decode_int_literal_nolimit (49 :: repeat 48 4300%nat)) = Some true /\
  option_map (Z.eqb (10 ^ 4299)) (decode_int_literal (49 :: repeat 48 4299%nat)) = Some true.
Proof. exact int_limit_refuted. Qed.

(* ---- the tokenizer model ---- *)
Theorem atom_repr_str_lexes : forall pr s, Forall (fun c => c < 128) s ->
  exists t' n e, lex_raw (to_string (py_repr_str pr s)) = [t'; n; e] /\ ty t' = STRING /\
                 text t' = to_string (py_repr_str pr s) /\
                 ty n = NEWLINE /\ text n = EmptyString /\ ty e = ENDMARKER /\ text e = EmptyString.
Proof. exact repr_str_lexes. Qed.

Theorem atom_repr_str_atom_lexable : forall pr s, Forall (fun c => c < 128) s ->
  no_fquote (to_chars (py_repr_str pr s)) = true -> atom_lexable_b (str_token pr s) = true.
Proof. exact repr_str_atom_lexable. Qed.

Theorem atom_repr_str_atom_lexable_refuted :
  to_string (py_repr_str (fun _ => false) [102]) = "'f'"%string /\
  atom_lexable_b (str_token (fun _ => false) [102]) = false /\
  (exists t' n e, lex_raw "'f'" = [t'; n; e] /\ ty t' = STRING /\ text t' = "'f'"%string).
Proof. exact repr_str_atom_lexable_refuted. Qed.

Theorem atom_repr_str_atom_scans : forall pr s, Forall (fun c => c < 128) s -> atom_scans (str_token pr s).
Proof. exact repr_str_atom_scans. Qed.

Theorem atom_repr_int_atom_lexable : forall z, (0 <= z)%Z -> atom_lexable_b (int_token z) = true.
Proof. exact repr_int_atom_lexable. Qed.

Theorem atom_repr_int_lexes : forall z, (0 <= z)%Z ->
  exists t' n e, lex (to_string (py_repr_int z)) = Some [t'; n; e] /\ ty t' = NUMBER /\ text t' = to_string (py_repr_int z) /\
                 ty n = NEWLINE /\ text n = EmptyString /\ ty e = ENDMARKER /\ text e = EmptyString.
Proof. exact repr_int_lexes. Qed.

(* ---- non-vacuity: concrete texts as CPython 3.12.1 writes and reads them ---- *)
Theorem atom_ex_str_repr : py_repr_str ex_pr ex_str = ex_str_text.
Proof. exact ex_str_repr. Qed.
Theorem atom_ex_str_decode : decode_str_literal ex_str_text = Some ex_str.
Proof. exact ex_str_decode. Qed.
Theorem atom_ex_str_roundtrip_applies : decode_str_literal (py_repr_str ex_pr ex_str) = Some ex_str.
Proof. exact ex_str_roundtrip_applies. Qed.
Theorem atom_ex_str_single_line :
  existsb (N.eqb LF) ex_str = true /\ forallb no_line_break ex_str_text = true /\
  forallb printable_ascii (py_repr_str (fun _ => false) ex_str) = true /\ forallb printable_ascii ex_str_text = false.
Proof. exact ex_str_single_line. Qed.
Theorem atom_ex_bytes_repr :
  py_repr_bytes ex_bytes = ex_bytes_text /\ py_repr_bytes [105; 116; 39; 115] = [98; 34; 105; 116; 39; 115; 34].
Proof. exact ex_bytes_repr. Qed.
Theorem atom_ex_bytes_roundtrip_applies : decode_bytes_literal (py_repr_bytes ex_bytes) = Some ex_bytes.
Proof. exact ex_bytes_roundtrip_applies. Qed.
Theorem atom_ex_concat_roundtrip_applies :
  decode_str_literals (map (py_repr_str ex_pr) [ex_str; []; [105; 116; 39; 115]]) = Some (ex_str ++ [105; 116; 39; 115]).
Proof. exact ex_concat_roundtrip_applies. Qed.

Print Assumptions atom_hex_digit_roundtrip.
Print Assumptions atom_str_roundtrip.
Print Assumptions atom_str_roundtrip_python.
Print Assumptions atom_str_roundtrip_refuted.
Print Assumptions atom_repr_str_single_line.
Print Assumptions atom_repr_str_quote_closed.
Print Assumptions atom_concat_roundtrip.
Print Assumptions atom_bytes_roundtrip.
Print Assumptions atom_repr_bytes_single_line.
Print Assumptions atom_repr_bytes_quote_closed.
Print Assumptions atom_int_roundtrip.
Print Assumptions atom_int_roundtrip_nolimit.
Print Assumptions atom_int_repr_negative.
Print Assumptions atom_int_roundtrip_refuted.
Print Assumptions atom_py_repr_int_pow10.
Print Assumptions atom_int_limit_refuted.
Print Assumptions atom_repr_str_lexes.
Print Assumptions atom_repr_str_atom_lexable.
Print Assumptions atom_repr_str_atom_lexable_refuted.
Print Assumptions atom_repr_str_atom_scans.
Print Assumptions atom_repr_int_atom_lexable.
Print Assumptions atom_repr_int_lexes.
Print Assumptions atom_ex_str_repr.
Print Assumptions atom_ex_str_decode.
Print Assumptions atom_ex_str_roundtrip_applies.
Print Assumptions atom_ex_str_single_line.
Print Assumptions atom_ex_bytes_repr.
Print Assumptions atom_ex_bytes_roundtrip_applies.
Print Assumptions atom_ex_concat_roundtrip_applies.
