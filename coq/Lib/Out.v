(* Canonical observation type shared by every correspondence engine.
   The Python harness prints what the implementation did as a term of type
   [out]; each model converts its own result to [out]; [mismatches] returns the
   indices of the cases on which the two differ (evaluated with vm_compute). *)
From Coq Require Import List String ZArith Bool.
Import ListNotations.
Open Scope string_scope.
Open Scope list_scope.

Inductive out : Type :=
| OS : string -> out            (* a string *)
| OZ : Z -> out                 (* an integer *)
| OL : list out -> out          (* a sequence *)
| OT : string -> list out -> out (* a tagged tuple, e.g. OT "Err" [OS "KeyError"] *).

Fixpoint out_eqb (a b : out) {struct a} : bool :=
  match a, b with
  | OS x, OS y => String.eqb x y
  | OZ x, OZ y => Z.eqb x y
  | OL xs, OL ys =>
      (fix go (l1 l2 : list out) {struct l1} : bool :=
         match l1, l2 with
         | [], [] => true
         | x :: r1, y :: r2 => out_eqb x y && go r1 r2
         | _, _ => false
         end) xs ys
  | OT t xs, OT u ys =>
      String.eqb t u &&
      (fix go (l1 l2 : list out) {struct l1} : bool :=
         match l1, l2 with
         | [], [] => true
         | x :: r1, y :: r2 => out_eqb x y && go r1 r2
         | _, _ => false
         end) xs ys
  | _, _ => false
  end.

Definition OB (b : bool) : out := OT (if b then "True" else "False") [].
Definition ONone : out := OT "None" [].
Definition OErr (cls : string) : out := OT "Err" [OS cls].
Definition OOpt {A} (f : A -> out) (o : option A) : out :=
  match o with Some a => f a | None => ONone end.

Section Mismatch.
  Context {I : Type}.
  Variable run : I -> out.
  Fixpoint mismatches_from (n : nat) (cs : list (I * out)) : list nat :=
    match cs with
    | [] => []
    | (i, expected) :: r =>
        if out_eqb (run i) expected then mismatches_from (S n) r
        else n :: mismatches_from (S n) r
    end.
  Definition mismatches := mismatches_from 0.
End Mismatch.
