(* Python string operations used by gin, as total functions on Coq strings. *)
From Coq Require Import List String Ascii Bool Arith.
Import ListNotations.
Open Scope string_scope.
Open Scope list_scope.

(* str.split(sep) for a one-character separator: never returns []. *)
Fixpoint split_aux (sep : ascii) (s : string) (cur : string) : list string :=
  match s with
  | EmptyString => [cur]
  | String c r =>
      if Ascii.eqb c sep then cur :: split_aux sep r EmptyString
      else split_aux sep r (cur ++ String c EmptyString)
  end.
Definition split (sep : ascii) (s : string) : list string := split_aux sep s EmptyString.

(* sep.join(parts) *)
Fixpoint join (sep : string) (l : list string) : string :=
  match l with
  | [] => ""
  | [x] => x
  | x :: r => x ++ sep ++ join sep r
  end.

Definition dot : ascii := "."%char.
Definition slash : ascii := "/"%char.
Definition split_dot := split dot.
Definition join_dot := join ".".
Definition split_slash := split slash.
Definition join_slash := join "/".

Fixpoint contains_char (c : ascii) (s : string) : bool :=
  match s with
  | EmptyString => false
  | String d r => Ascii.eqb c d || contains_char c r
  end.

(* [a-zA-Z_] and \w restricted to ASCII (the harness only generates ASCII names) *)
Definition is_alpha_ (c : ascii) : bool :=
  let n := nat_of_ascii c in
  (((65 <=? n) && (n <=? 90)) || ((97 <=? n) && (n <=? 122)) || (n =? 95))%nat.
Definition is_word (c : ascii) : bool :=
  let n := nat_of_ascii c in is_alpha_ c || ((48 <=? n) && (n <=? 57))%nat.
Fixpoint all_chars (p : ascii -> bool) (s : string) : bool :=
  match s with EmptyString => true | String c r => p c && all_chars p r end.
(* IDENTIFIER_RE  ^[a-zA-Z_]\w*$ *)
Definition is_identifier (s : string) : bool :=
  match s with EmptyString => false | String c r => is_alpha_ c && all_chars is_word r end.
(* SELECTOR_RE  ^([a-zA-Z_]\w*\.)*[a-zA-Z_]\w*$  *)
Definition is_selector (s : string) : bool := forallb is_identifier (split_dot s).

Fixpoint list_eqb {A} (e : A -> A -> bool) (a b : list A) : bool :=
  match a, b with
  | [], [] => true
  | x :: r, y :: q => e x y && list_eqb e r q
  | _, _ => false
  end.
Definition key_eqb := list_eqb String.eqb.

(* b is a (component-wise) suffix of a *)
Fixpoint is_prefix_b (p l : list string) : bool :=
  match p, l with
  | [], _ => true
  | x :: r, y :: q => String.eqb x y && is_prefix_b r q
  | _ :: _, [] => false
  end.
Definition is_suffix_b (s l : list string) : bool := is_prefix_b (rev s) (rev l).
