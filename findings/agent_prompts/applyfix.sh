#!/bin/bash
# usage: applyfix.sh <patch> "<commit message>"
set -e
cd /repo
test -z "$(git status --porcelain)" || { echo "repo dirty"; exit 2; }
git apply --check "$1" || { echo "DOES NOT APPLY"; exit 3; }
git apply "$1"
res=$(PYTHONPATH=/repo /venv/bin/python -m pytest -q -p no:cacheprovider --continue-on-collection-errors tests/ 2>&1 | tail -1)
echo "$res"
if echo "$res" | grep -Eq "6 failed, 128 passed, 1 skipped, (4 warnings, )?4 errors"; then
  git commit -qam "$2"; git log --oneline | head -1
else
  echo "SUITE CHANGED - reverting"; git checkout -- .; exit 4
fi
