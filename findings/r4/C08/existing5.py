# C08 existing defect 5: the '%name' spelling of a macro binding key resolves
# through the *partial* name 'macro', so it stops resolving as soon as any
# other configurable whose name ends in 'macro' is registered -- while every
# other spelling of the very same parameter keeps working.
#
# Property: "Names resolve ... identically through every API"; "every
# unambiguous spelling of one parameter [is] the same key".
#
# config_parser.parse_scoped_selector (gin/config_parser.py) rewrites
# '%scope/name' to 'scope/name/macro.value', i.e. to the partial selector
# 'macro' rather than the complete 'gin.macro' that parse_config
# (`bind_parameter((macro_name, 'gin.macro', 'value'), ...)`) and
# ParserDelegate.macro (`name + '/gin.macro'`) use.  After registering e.g.
# 'mylib.macro', bind_parameter('%batch', ...) and query_parameter('%batch')
# raise "Ambiguous selector 'macro'", although the config-file statement
# `batch = 64`, the reference `%batch` and the key 'batch/gin.macro.value' all
# still address the parameter.

import gin


@gin.configurable
def consumer(size=None):
  return size


gin.bind_parameter('%batch', 32)
assert gin.query_parameter('%batch') == 32
assert gin.query_parameter('batch/gin.macro.value') == 32


@gin.configurable('macro', module='mylib')  # Unrelated user configurable.
def my_macro(v=0):
  return v


problems = []
# Spellings that go through the complete name still work:
gin.parse_config('batch = 64\nconsumer.size = %batch')
assert consumer() == 64
assert gin.query_parameter('batch/gin.macro.value') == 64
# ... the '%' spelling of the same key must too.
try:
  got = gin.query_parameter('%batch')
  if got != 64:
    problems.append("query_parameter('%%batch') == %r" % (got,))
except KeyError as e:
  problems.append("query_parameter('%%batch') -> KeyError: %s" % e)
try:
  gin.bind_parameter('%batch', 128)
  if consumer() != 128:
    problems.append("bind_parameter('%batch', 128) did not reach the macro")
except KeyError as e:
  problems.append("bind_parameter('%%batch', 128) -> KeyError: %s" % e)

assert not problems, '\n  '.join(
    ["the '%name' spelling no longer addresses the macro:"] + problems)
print('PASS')
