# C08 existing inconsistency 6 (deliberate upstream rule, but it contradicts the
# property as stated): the bare name of a registered *method* is an unambiguous
# spelling that some APIs resolve and others reject.
#
# Property: "A configurable ... can be addressed by its name preceded by any
# number of trailing components of its module path ... identically through
# every API."
#
# ParsedBindingKey.parse (gin/config.py,
# `if configurable_.is_method and '.' not in selector: raise ValueError(
# "Method '{}' referenced without class name ...")`) rejects the bare method
# name for bind_parameter / query_parameter / parse_config bindings / finalize
# hooks.  References (`@method`, ConfigurableReference.initialize) and
# get_configurable / get_bindings (_as_scope_and_selector) go straight to
# _REGISTRY.get_match and accept the very same spelling.  tests/config_test.py
# (testMustSpecifyClassNameForRegisteredMethods) pins the binding half of this
# behaviour, so it is intentional there -- the point is only that the APIs do
# not agree.

import gin


@gin.register
class Sampler:

  @gin.register
  def draw(self, n=1):
    return n


def accepts(fn):
  try:
    fn()
    return True
  except (ValueError, KeyError):
    return False


gin.bind_parameter('Sampler.draw.n', 3)
results = {
    "get_configurable('draw')": accepts(lambda: gin.get_configurable('draw')),
    "get_bindings('draw')": accepts(lambda: gin.get_bindings('draw')),
    "reference '@draw'": accepts(lambda: gin.config.parse_value('@draw')),
    "query_parameter('draw.n')": accepts(lambda: gin.query_parameter('draw.n')),
    "bind_parameter('draw.n', 4)":
        accepts(lambda: gin.bind_parameter('draw.n', 4)),
    "parse_config('draw.n = 4')":
        accepts(lambda: gin.parse_config('draw.n = 4')),
}
assert len(set(results.values())) == 1, (
    "the unambiguous spelling 'draw' of '__main__.Sampler.draw' is not treated "
    'identically by every API: %r' % (results,))
print('PASS')
