# C08 existing defect 4: two spellings of the same configurable give references
# that compare equal but hash differently.
#
# Property: "... references ... all treat every unambiguous spelling ... as the
# same key."
#
# ConfigurableReference.__eq__ (gin/config.py) compares the *resolved*
# configurable, so `@fn` == `@pkg.mod.fn`.  ConfigurableReference.__hash__ is
# `hash(repr(self))`, and __repr__ prints the selector *as it was spelled*.
# Equal references therefore have different hashes, which breaks every use of a
# reference as a key: a set keeps both, a dict literal in a config file keeps
# two entries for one configurable, and looking a reference up under another
# spelling misses.

import gin


@gin.configurable('fn', module='pkg.mod')
def fn(x=1):
  return x


short = gin.config.parse_value('@fn')
long_ = gin.config.parse_value('@pkg.mod.fn')
assert short.configurable is long_.configurable
assert short == long_

problems = []
if hash(short) != hash(long_):
  problems.append('@fn == @pkg.mod.fn but hash(@fn) != hash(@pkg.mod.fn)')
if len({short, long_}) != 1:
  problems.append('{@fn, @pkg.mod.fn} has %d elements' % len({short, long_}))
table = gin.config.parse_value("{@fn: 'a'}")
if long_ not in table:
  problems.append("@pkg.mod.fn not found in {@fn: 'a'} although @fn == "
                  '@pkg.mod.fn')
both = gin.config.parse_value("{@fn: 'a', @mod.fn: 'b'}")
if len(both) != 1:
  problems.append('a dict literal keyed by @fn and @mod.fn keeps %d entries '
                  'for one configurable' % len(both))

assert not problems, '\n  '.join(
    ['references spelled differently are not the same key:'] + problems)
print('PASS')
