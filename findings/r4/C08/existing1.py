# C08 existing defect 1: a query string that contains the component '$' crashes
# name resolution instead of being reported unknown.
#
# Property: "a name ... matching none is reported unknown", for every query
# string.  SelectorMap stores the complete selector of an entry inside its
# suffix tree under the reserved key '$' (selector_map._TERMINAL_KEY).
# matching_selectors() (gin/selector_map.py, the loop
# `for component in reversed(selector_components): ... node = node[component]`)
# walks the tree with the *query's* components without excluding that reserved
# key, so the query '$.<complete name>' descends into the terminal marker (a
# str, not a dict) and the following DFS calls `.copy()` on a string:
#   AttributeError: 'str' object has no attribute 'copy'
# The insertion path validates names with SELECTOR_RE, the lookup path does not,
# and neither do bind_parameter / query_parameter / get_configurable /
# get_bindings, so the crash is reachable through every public lookup API.

import gin
from gin import selector_map


def outcome(fn):
  try:
    return ('ok', fn())
  except (ValueError, KeyError) as e:  # How gin reports unknown / ambiguous.
    return ('rejected', type(e).__name__)
  except Exception as e:  # pylint: disable=broad-except
    return ('crash', '%s: %s' % (type(e).__name__, e))


sm = selector_map.SelectorMap()
sm['a.b'] = 1
problems = []

r = outcome(lambda: sm.matching_selectors('$.a.b'))
if r != ('ok', []):
  problems.append("SelectorMap.matching_selectors('$.a.b') -> %r" % (r,))
r = outcome(lambda: sm.get_match('$.a.b', 'dflt'))
if r != ('ok', 'dflt'):
  problems.append("SelectorMap.get_match('$.a.b', 'dflt') -> %r" % (r,))

# Through the gin APIs ('gin.macro' is always registered).  A name that matches
# nothing must be reported as unknown (ValueError), exactly like 'nonexistent'.
assert outcome(lambda: gin.get_configurable('nonexistent'))[0] == 'rejected'
for what, fn in [
    ("get_configurable('$.gin.macro')",
     lambda: gin.get_configurable('$.gin.macro')),
    ("get_bindings('$.gin.macro')", lambda: gin.get_bindings('$.gin.macro')),
    ("query_parameter('$.gin.macro.value')",
     lambda: gin.query_parameter('$.gin.macro.value')),
    ("bind_parameter('$.gin.macro.value', 1)",
     lambda: gin.bind_parameter('$.gin.macro.value', 1)),
    ("bind_parameter(('', '$.gin.macro', 'value'), 1)",
     lambda: gin.bind_parameter(('', '$.gin.macro', 'value'), 1)),
]:
  r = outcome(fn)
  if r[0] != 'rejected':
    problems.append('%s -> %r' % (what, r))

assert not problems, (
    "query strings containing '$' are not reported unknown:\n  " +
    '\n  '.join(problems))
print('PASS')
