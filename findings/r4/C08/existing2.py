# C08 existing defect 2: a binding made for a registered *method* before its
# class is registered is keyed under the method's provisional name and is
# orphaned when the class registration renames the method.
#
# Property: "Binding, querying, references, scoped lookups ... all treat every
# unambiguous spelling of one parameter as the same key", after any history of
# additions and removals.
#
# A method decorated with @gin.register inside a class body is first registered
# as '<module>.<method>'.  When the class itself is registered later,
# _find_registered_methods (gin/config.py, `_REGISTRY.pop(old_selector)` /
# `_REGISTRY[new_selector] = method_info`) renames the entry to
# '<module>.<Class>.<method>' and records the rename in _RENAMED_SELECTORS, but
# the keys of _CONFIG / _CONFIG_PROVENANCE (and _OPERATIVE_CONFIG) are not
# migrated, and gin_wrapper only looks up the *new* selector.  Consequences:
#   * the value bound earlier is silently ignored when the method is called;
#   * query_parameter through the new spelling says nothing is bound;
#   * config_str() raises KeyError on the orphaned key.
# With dynamic registration the *same spelling* `mod.A.m.x` lands under a
# different key depending on whether the class was referenced before or after
# the binding line.

import sys
import types

import gin

SRC = '''
import gin

class A:
  def __init__(self, k=0):
    self.k = k

  @gin.register
  def m(self, x=1):
    return x

class B:
  @gin.register
  def n(self, y=1):
    return y

@gin.configurable
def make(obj=None):
  return obj
'''
mod = types.ModuleType('c08mod')
sys.modules['c08mod'] = mod
exec(compile(SRC, 'c08mod.py', 'exec'), mod.__dict__)  # pylint: disable=exec-used

problems = []

# --- Flavour 1: dynamic registration, binding line before the class reference.
gin.parse_config('''
from __gin__ import dynamic_registration
import c08mod
c08mod.A.m.x = 5
c08mod.make.obj = @c08mod.A()
''')
instance = mod.make()
if instance.m() != 5:
  problems.append('`c08mod.A.m.x = 5` followed by `@c08mod.A()`: the method '
                  'returns %r, the binding was dropped' % (instance.m(),))
try:
  if gin.query_parameter('A.m.x') != 5:
    problems.append('query_parameter("A.m.x") != 5')
except ValueError as e:
  problems.append('query_parameter("A.m.x") -> ValueError: %s' % e)
try:
  gin.config_str()
except KeyError as e:
  problems.append('config_str() -> KeyError(%s)' % e)
gin.clear_config()

# --- Flavour 2: plain Python API.
gin.bind_parameter('n.y', 7)  # 'n' is the unique (provisional) name here.
assert gin.query_parameter('c08mod.n.y') == 7
gin.register(mod.B)  # Renames 'c08mod.n' -> 'c08mod.B.n'.
bound = gin.get_configurable(mod.B)().n()
if bound != 7:
  problems.append('bind_parameter("n.y", 7) then register(B): B().n() '
                  'returns %r' % (bound,))
try:
  if gin.query_parameter('B.n.y') != 7:
    problems.append('query_parameter("B.n.y") != 7')
except ValueError as e:
  problems.append('query_parameter("B.n.y") -> ValueError: %s' % e)
try:
  gin.config_str()
except KeyError as e:
  problems.append('config_str() -> KeyError(%s)' % e)

assert not problems, (
    'bindings made under the pre-rename name of a method are orphaned:\n  ' +
    '\n  '.join(problems))
print('PASS')
