# C08 existing defect 3: query_parameter() and bind_parameter() do not treat the
# same spelling as the same key when a *constant* happens to end with it.
#
# Property: "Binding, querying ... all treat every unambiguous spelling of one
# parameter as the same key."
#
# query_parameter (gin/config.py, the block starting
# `if config_parser.MODULE_RE.match(binding_key): matching_selectors =
# _CONSTANTS.matching_selectors(binding_key)`) first suffix-matches the whole
# binding key -- configurable name *and* parameter name -- against the table of
# constants, and only falls through to the configuration when no constant
# matches.  bind_parameter has no such step.  So with a constant such as
# 'hparams.optimizer.lr' defined, the unambiguous binding key 'optimizer.lr'
#   * binds the parameter `lr` of configurable `optimizer`, but
#   * queries the constant (a different namespace, matched by dotted suffix);
# and if two constants end with it the query is even rejected as "ambiguous"
# although exactly one parameter has that name.

import gin


@gin.configurable('optimizer', module='lib')
def optimizer(lr=1.0):
  return lr


gin.bind_parameter('optimizer.lr', 0.5)
assert gin.query_parameter('optimizer.lr') == 0.5
assert gin.query_parameter('lib.optimizer.lr') == 0.5

gin.constant('hparams.optimizer.lr', 0.1)  # An unrelated constant.

problems = []
assert optimizer() == 0.5
got = gin.query_parameter('optimizer.lr')
if got != 0.5:
  problems.append(
      "after bind_parameter('optimizer.lr', 0.5), query_parameter("
      "'optimizer.lr') returns %r (the constant 'hparams.optimizer.lr') while "
      "query_parameter('lib.optimizer.lr') returns %r" %
      (got, gin.query_parameter('lib.optimizer.lr')))

gin.constant('defaults.optimizer.lr', 0.2)
try:
  got = gin.query_parameter('optimizer.lr')
  if got != 0.5:
    problems.append('second constant: query returns %r' % (got,))
except ValueError as e:
  problems.append("query_parameter('optimizer.lr') rejected although it names "
                  'exactly one parameter: %s' % e)

assert not problems, '\n  '.join(['binding and querying disagree:'] + problems)
print('PASS')
