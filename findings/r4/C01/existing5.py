"""EXISTING DEFECT 5 (C01): a registered *static* method of a registered class
stops being static in gin's configurable version of the class.

`_find_registered_methods` (config.py) collects `method_info.wrapper` - a plain
function - and `_decorate_fn_or_cls` installs it in the dynamically created
subclass via `overrides.update(method_overrides)` without re-applying
`staticmethod`.  Called through an instance the wrapper is therefore bound: the
instance arrives as the first positional argument, gin takes it for a caller
supplied value of the first parameter, drops that parameter's binding, and the
function receives the instance where the caller passed nothing.
(A registered classmethod is the mirror image: it is not overridden at all, so
`Configurable.make()` never sees its bindings.)
"""
import gin


@gin.register
class Units:

  @staticmethod
  @gin.register
  def scale(factor=1, offset=0):
    return factor, offset


ConfigurableUnits = gin.get_configurable(Units)
gin.bind_parameter('Units.scale.factor', 7)
gin.bind_parameter('Units.scale.offset', 2)

assert Units().scale() == (1, 0)  # The original class is untouched.
assert ConfigurableUnits.scale() == (7, 2)  # Through the class: fine.
got = ConfigurableUnits().scale()  # Through an instance.
assert got == (7, 2), (
    'caller passed nothing, bindings are factor=7, offset=2, but the static '
    'method received %r' % (got,))
print('PASS')
