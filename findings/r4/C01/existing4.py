"""EXISTING DEFECT 4 (C01): a binding made for a registered method *before* its
class is registered is silently lost when the class is registered.

`@gin.register def step(...)` inside a class body registers `<module>.step`.
Until the class itself is registered that is the method's only selector, and
`bind_parameter('step.lr', ...)` is accepted and stored under it.  Registering
the class later runs `_find_registered_methods` (config.py), which renames the
configurable to `<module>.Trainer.step`, pops the old selector from the
registry and records the rename in _RENAMED_SELECTORS - but leaves the entry
`_CONFIG[('', '<module>.step')]` where it is.  gin_wrapper now looks bindings up
under the new selector, so the bound value never reaches the method (and
gin.config_str() raises KeyError on the orphaned key).
"""
import gin


class Trainer:

  @gin.register
  def step(self, lr=0.1):
    return lr


# Legal at this point: `step` is a registered configurable.
gin.bind_parameter('step.lr', 0.5)
assert gin.get_configurable(Trainer.step)(Trainer()) == 0.5

ConfigurableTrainer = gin.external_configurable(Trainer)  # Renames the method.
got = ConfigurableTrainer().step()
assert got == 0.5, (
    'step.lr was bound to 0.5 before the class was registered; after '
    'registering the class the method received %r' % (got,))
gin.config_str()
print('PASS')
