"""EXISTING DEFECT 6 (C01, shape outside the listed ones): bindings for
positional-only parameters are accepted but can never be delivered.

inspect.getfullargspec lists positional-only parameters in `.args`, so
`_might_have_parameter` accepts `f.b = ...`; gin_wrapper then always injects
bindings by keyword (`fn(*new_args, **new_kwargs)`), which Python rejects for a
positional-only parameter: TypeError on every call that relies on the binding.
"""
import gin


@gin.configurable
def clamp(value, low=0, /, high=10):
  return value, low, high


gin.bind_parameter('clamp.high', 5)
assert clamp(1) == (1, 0, 5)
gin.bind_parameter('clamp.low', -5)  # Accepted.
try:
  got = clamp(1)
except TypeError as e:
  raise AssertionError('bound value for `low` not delivered: %s' %
                       str(e).splitlines()[0])
assert got == (1, -5, 5), got
print('PASS')
