"""EXISTING DEFECT 8 (C01, method shape): a registered method that is inherited
can belong to only one registered class; registering a second class that
inherits it raises, so its bindings can never be applied there.

`_find_registered_methods` (config.py) walks the MRO, finds the inherited
method, and - because the first class registration already rewrote its module to
`<module>.<FirstClass>` - takes that for a user supplied custom module and
raises ValueError("... was registered with a custom module ...").  This hits
both `class Sub(Base)` with Base registered, and two registered users of one
mixin.
"""
import gin


class Mixin:

  @gin.register
  def describe(self, style='plain'):
    return type(self).__name__, style


try:
  @gin.register
  class First(Mixin):
    pass

  @gin.register
  class Second(Mixin):
    pass
except ValueError as e:
  raise AssertionError('cannot register a second class inheriting a '
                       'registered method: %s' % str(e)[:160])

gin.bind_parameter('First.describe.style', 'bold')
gin.bind_parameter('Second.describe.style', 'italic')
assert gin.get_configurable(First)().describe() == ('First', 'bold')
assert gin.get_configurable(Second)().describe() == ('Second', 'italic')
print('PASS')
