"""EXISTING DEFECT 1 (C01): a positional caller value collides with a binding
when the signature function carries a `__wrapped__` chain.

gin_wrapper maps the caller's positional arguments to parameter names with
`inspect.getfullargspec(signature_fn)` (config.py `_get_cached_arg_spec`,
`_get_supplied_positional_parameter_names`, used at the top of `gin_wrapper`).
`getfullargspec` does NOT follow `__wrapped__`, so for a function whose visible
signature is `(*args, **kwargs)` gin sees no named positional parameter at all:
the binding for a parameter the caller supplied positionally is not dropped,
and the function is called with both -> TypeError "multiple values".
(`_might_have_parameter` does unwrap, so the binding itself is accepted.)

Two ordinary ways to get there:
 (a) a @gin.configurable subclass that inherits __init__ from a
     @gin.configurable base class (the inherited __init__ *is* gin's wrapper);
 (b) @gin.configurable on top of any functools.wraps decorator.
C01: "every parameter the caller passes (positionally or by keyword) reaches the
function unchanged" - here the call fails instead.
"""
import functools
import gin


@gin.configurable
class Base:

  def __init__(self, x=1, y=2):
    self.x, self.y = x, y


@gin.configurable
class Child(Base):  # No __init__ of its own.
  pass


def logged(f):
  @functools.wraps(f)
  def wrapper(*args, **kwargs):
    return f(*args, **kwargs)
  return wrapper


@gin.configurable
@logged
def decorated(a, b=2):
  return a, b


def call(label, thunk):
  try:
    return thunk()
  except TypeError as e:
    raise AssertionError(
        '%s: caller value passed positionally did not reach the function; '
        'gin also injected the binding for the same parameter: %s' %
        (label, str(e).splitlines()[0]))


gin.bind_parameter('Child.x', 5)
gin.bind_parameter('Child.y', 6)
c = Child()
assert (c.x, c.y) == (5, 6), (c.x, c.y)
c = Child(x=7)  # Keyword: fine.
assert (c.x, c.y) == (7, 6), (c.x, c.y)
c = call('Child(7)', lambda: Child(7))  # Positional: must be x=7, y=6.
assert (c.x, c.y) == (7, 6), (c.x, c.y)

gin.bind_parameter('decorated.a', 9)
assert decorated() == (9, 2)
assert call('decorated(1)', lambda: decorated(1)) == (1, 2)
print('PASS')
