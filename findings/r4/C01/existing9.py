"""EXISTING DEFECT 9 (C01, debatable): for a @gin.configurable class defining
both __new__ and __init__, bindings reach __init__ only.

`_find_class_construction_fn` (config.py) returns the first of __init__/__new__
found in the MRO with a preference for __init__, and `_decorate_fn_or_cls`
(avoid_class_mutation=False) wraps only that function.  `type.__call__` passes
the *caller's* arguments to __new__, so __new__'s parameter of the same name
silently keeps its default while __init__ gets the bound value.  The very same
class registered with gin.register / gin.external_configurable (metaclass
__call__ wrapped) delivers the binding to both.
"""
import gin


class _Both:

  def __new__(cls, size=1):
    obj = super().__new__(cls)
    obj.new_size = size
    return obj

  def __init__(self, size=1):
    self.init_size = size


Registered = gin.external_configurable(_Both, name='Registered')
Decorated = gin.configurable('Decorated')(type('Decorated', (_Both,), {
    '__new__': _Both.__new__, '__init__': _Both.__init__}))

gin.bind_parameter('Registered.size', 4)
gin.bind_parameter('Decorated.size', 4)
r = Registered()
assert (r.new_size, r.init_size) == (4, 4), (r.new_size, r.init_size)
d = Decorated()
assert (d.new_size, d.init_size) == (4, 4), (
    'Decorated.size bound to 4: __new__ received %r, __init__ received %r' %
    (d.new_size, d.init_size))
print('PASS')
