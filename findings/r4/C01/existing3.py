"""EXISTING DEFECT 3 (C01): a constructor parameter called `new_cls` cannot be
injected into, nor passed by keyword to, a class registered with
gin.register / gin.external_configurable.

Such classes are made configurable by wrapping the metaclass call in
`_make_meta_call_wrapper` (config.py):
    def meta_call_wrapper(new_cls, *args, **kwargs)
The first parameter has an ordinary (non positional-only) name, so a binding
`C.new_cls = ...` - which gin accepts, the constructor does have that
parameter - or a caller keyword `new_cls=...` collides with it:
TypeError "got multiple values for argument 'new_cls'".
"""
import gin


@gin.register
class Cloner:

  def __init__(self, new_cls=None, depth=1):
    self.new_cls, self.depth = new_cls, depth


ConfigurableCloner = gin.get_configurable(Cloner)


def call(label, thunk):
  try:
    return thunk()
  except TypeError as e:
    raise AssertionError('%s: %s' % (label, str(e).splitlines()[0]))


gin.bind_parameter('Cloner.depth', 3)
obj = call('keyword new_cls', lambda: ConfigurableCloner(new_cls=dict))
assert (obj.new_cls, obj.depth) == (dict, 3)

gin.bind_parameter('Cloner.new_cls', 'bound')
obj = call('bound new_cls', lambda: ConfigurableCloner())
assert (obj.new_cls, obj.depth) == ('bound', 3)
print('PASS')
