"""EXISTING DEFECT 2 (C01): callable objects and bound (class)methods made
configurable have their positional arguments attributed to the wrong names.

`_get_cached_arg_spec` (config.py) uses inspect.getfullargspec, which keeps the
bound first parameter (`self` / `cls`) in `.args` for bound methods, and for a
callable object falls back to / resolves `__call__` with `self` included.  But
the callable is invoked *without* that argument, so in `gin_wrapper`
`arg_names = spec.args[:len(args)]` is shifted by one: the first positional
argument is taken to be `self`, the binding of the parameter it really fills is
kept and passed again by keyword -> TypeError "multiple values"; symmetric
damage for the following parameters.
"""
import gin


class Scaler:

  def __call__(self, x, factor=1):
    return x, factor


class Factory:

  @classmethod
  def make(cls, size, colour='red'):
    return size, colour


scaler = gin.external_configurable(Scaler(), name='scaler')
make = gin.external_configurable(Factory.make, name='make_thing')


def call(label, thunk):
  try:
    return thunk()
  except TypeError as e:
    raise AssertionError('%s: %s' % (label, str(e).splitlines()[0]))


gin.bind_parameter('scaler.x', 10)
gin.bind_parameter('scaler.factor', 3)
assert scaler() == (10, 3)
assert scaler(x=4) == (4, 3)
# The caller passes x positionally: x=4 must win, factor=3 is injected.
assert call('scaler(4)', lambda: scaler(4)) == (4, 3)

gin.bind_parameter('make_thing.size', 1)
gin.bind_parameter('make_thing.colour', 'blue')
assert make() == (1, 'blue')
assert call('make(2)', lambda: make(2)) == (2, 'blue')
assert call('make(2, "green")', lambda: make(2, 'green')) == (2, 'green')
print('PASS')
