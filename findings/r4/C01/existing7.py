"""EXISTING DEFECT 7 (C01): a bound value that cannot be deep-copied makes every
call of the configurable fail, even though bind_parameter accepted it.

gin_wrapper runs `copy.deepcopy(new_kwargs)` on everything it injects
(config.py, in `gin_wrapper`).  Modules, locks, open files, generators,
sockets ... are legal Python values and legal arguments to bind_parameter, but
deepcopy raises TypeError for them, so "receives the bound value" fails.
"""
import math
import threading
import gin


@gin.configurable
def worker(lock=None, backend=None):
  return lock, backend


the_lock = threading.Lock()
gin.bind_parameter('worker.backend', math)
gin.bind_parameter('worker.lock', the_lock)
assert gin.query_parameter('worker.lock') is the_lock
try:
  got = worker()
except TypeError as e:
  raise AssertionError('bound values not delivered: %s' %
                       str(e).splitlines()[0])
assert got == (the_lock, math)
print('PASS')
