"""C07 pre-existing defect 6: gin.macro used directly, without a macro name.

`gin.macro` is an ordinary registered configurable, so
`gin.macro.value = 3` and `ex6_f.x = @gin.macro()` are legal.  The call is
recorded under ('', 'gin.macro').  _config_str prints every macro entry as
`<scope> = <value>` (config.py, _config_str, "# Macros:" block) -- with an
empty scope that is the line ` = 3`, which is not parseable; and
ConfigurableReference.__repr__ renders the reference as a bare '%', so
`ex6_f.x` (supplied by Gin, evaluating to 3) is dropped from f's section as
"not representable".  The text neither lists what Gin supplied nor parses.
"""
import gin


@gin.configurable
def ex6_f(x=None):
  return x


gin.clear_config()
gin.parse_config("""
gin.macro.value = 3
ex6_f.x = @gin.macro()
""")
assert ex6_f() == 3
text = gin.operative_config_str()
gin.clear_config()
try:
  gin.parse_config(text)
except Exception as e:  # pylint: disable=broad-except
  raise AssertionError(
      'the operative config does not parse back (%s: %s):\n%s' %
      (type(e).__name__, str(e).splitlines()[0], text))
assert ex6_f() == 3, 'replay gave x=%r instead of 3:\n%s' % (ex6_f(), text)
print('PASS')
