"""C07 pre-existing defect 1: a failed macro evaluation poisons operative_config_str().

`f.x = %undefined_macro` is legal to parse (macros need not be defined yet, and
gin.finalize() -- which would complain -- is optional).  Calling f() fails with
a TypeError because gin.macro gets no `value`; the application catches that and
goes on.  But gin_wrapper has already recorded an (empty) operative entry for
('undefined_macro', 'gin.macro') (config.py, gin_wrapper: the
`_OPERATIVE_CONFIG.setdefault(...)` happens before the call), and _config_str
does `config['value']` for every macro entry (config.py, _config_str, the
`macros = {}` loop) -> KeyError: 'value'.  From then on operative_config_str()
raises for the rest of the program, so "after any sequence of calls
operative_config_str() has a section for exactly the pairs that were called"
is false.
"""
import gin


@gin.configurable
def ex1_f(x=1):
  return x


@gin.configurable
def ex1_g(y=2):
  return y


gin.clear_config()
gin.parse_config('ex1_f.x = %ex1_undefined_macro')
try:
  ex1_f()
except Exception:  # the application survives the bad binding
  pass
assert ex1_g() == 2

try:
  text = gin.operative_config_str()
except Exception as e:  # pylint: disable=broad-except
  raise AssertionError(
      'operative_config_str() raised %s: %s after a call whose macro argument '
      'could not be evaluated' % (type(e).__name__, e))
assert 'ex1_g.y = 2' in text, text
assert '# Parameters for ex1_f:' in text, text
print('PASS')
