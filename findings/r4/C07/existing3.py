"""C07 pre-existing defect 3: a scope name containing a period cannot be replayed.

Scope names are validated with MODULE_RE (config.py, config_scope), i.e. they
may contain periods -- this is needed for `%some.module.CONSTANT`, and the
parser explicitly allows it in references (`@a.b/g()`, config_parser.py,
_maybe_parse_configurable_reference: allow_periods_in_scope=True).  The call of
g made through such a reference runs in scope 'a.b', so the operative config
gets a section 'a.b/ex3_g'.  But binding keys are parsed with
allow_periods_in_scope=False (config_parser.py, parse_statement ->
_parse_selector: scope_re = IDENTIFIER_RE), so the emitted line
`a.b/ex3_g.p = 1` is a SyntaxError ("Malformatted scope or selector"): every
recorded value is representable, yet the text does not parse back.
(`with gin.config_scope('a.b'):` triggers the same thing from Python.)
"""
import gin


@gin.configurable
def ex3_g(p=1):
  return p


@gin.configurable
def ex3_f(x=None):
  return x


gin.clear_config()
gin.parse_config('ex3_f.x = @a.b/ex3_g()')
assert ex3_f() == 1
text = gin.operative_config_str()
assert 'a.b/ex3_g.p = 1' in text, text

gin.clear_config()
try:
  gin.parse_config(text)
except Exception as e:  # pylint: disable=broad-except
  raise AssertionError(
      'the operative config does not parse back (%s: %s):\n%s' %
      (type(e).__name__, e, text))
assert ex3_f() == 1
assert gin.operative_config_str() == text
print('PASS')
