"""C07 pre-existing defect 2: a method registered (and called) before its class.

`@gin.register` on a method inside a class body registers it as
'<module>.m'.  It can be configured and called through Gin right away
(gin.get_configurable / an `@m` reference), which records an operative entry
under ('', '<module>.m').  When the class itself is registered later
(gin.register(C) / gin.external_configurable(C) / first use under dynamic
registration), _find_registered_methods (config.py) renames the method to
'<module>.C.m' and does `_REGISTRY.pop(old_selector)`, but neither
_OPERATIVE_CONFIG nor _CONFIG is re-keyed.  _config_str then does
`_REGISTRY[selector]` (in sort_key and in the macro loop) for the stale key and
raises KeyError, for operative_config_str() and config_str() alike.
"""
import gin


class Ex2C:

  @gin.register
  def ex2_m(self, y=2):
    return y


gin.clear_config()
gin.bind_parameter('ex2_m.y', 7)
assert gin.get_configurable(Ex2C.ex2_m)(Ex2C()) == 7
before = gin.operative_config_str()
assert 'ex2_m.y = 7' in before, before

gin.register(Ex2C)  # the class is registered after its method was used

try:
  after = gin.operative_config_str()
except Exception as e:  # pylint: disable=broad-except
  raise AssertionError(
      'operative_config_str() raised %s: %s once the class of an already '
      'called registered method was registered' % (type(e).__name__, e))
assert 'ex2_m.y = 7' in after, after

# ... and the text must replay.
gin.clear_config()
gin.parse_config(after)
assert gin.get_configurable(Ex2C.ex2_m)(Ex2C()) == 7
assert gin.operative_config_str() == after
print('PASS')
