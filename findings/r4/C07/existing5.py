"""C07 pre-existing defect 5: the operative config aliases mutable signature defaults.

gin_wrapper seeds the operative values with
`initial_configurable_defaults.copy()` (config.py, gin_wrapper) -- a shallow
copy, so the recorded value IS the function's default object.  (Bound values
are deep-copied before being handed to the function, defaults are not.)  If the
function mutates that default (the classic accumulator), the operative config
silently changes after the fact: it no longer shows the value the call was
given, and replaying the text gives the first call a different argument.
"""
import gin


@gin.configurable
def ex5_f(acc=[]):  # pylint: disable=dangerous-default-value
  seen = list(acc)
  acc.append(len(acc))
  return seen


gin.clear_config()
first = ex5_f()
assert first == []
text = gin.operative_config_str()
assert 'ex5_f.acc = []' in text, (
    'the only call so far received acc=[], but the operative config says:\n' +
    text)

gin.clear_config()
gin.parse_config(text)
assert ex5_f() == first
print('PASS')
