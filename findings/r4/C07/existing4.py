"""C07 pre-existing defect 4: a **kwargs parameter whose name is not an identifier.

bind_parameter accepts a (scope, selector, arg_name) tuple, and for a
configurable taking **kwargs any arg_name is accepted
(ParsedBindingKey.parse -> _might_have_parameter returns True for **kwargs; the
name itself is never checked against IDENTIFIER_RE).  Gin then really supplies
that keyword (`f(**{'learning.rate': 0.5})` is legal Python), and _config_str
emits `ex4_f.learning.rate = 0.5`, which parses as parameter `rate` of a
configurable `ex4_f.learning` -> "No configurable matching 'ex4_f.learning'".
The value is representable but the text does not replay.
"""
import gin


@gin.configurable
def ex4_f(**kwargs):
  return kwargs


gin.clear_config()
gin.bind_parameter(('', 'ex4_f', 'learning.rate'), 0.5)
first = ex4_f()
assert first == {'learning.rate': 0.5}
text = gin.operative_config_str()

gin.clear_config()
try:
  gin.parse_config(text)
except Exception as e:  # pylint: disable=broad-except
  raise AssertionError(
      'the operative config does not parse back (%s: %s):\n%s' %
      (type(e).__name__, str(e).splitlines()[0], text))
assert ex4_f() == first
assert gin.operative_config_str() == text
print('PASS')
