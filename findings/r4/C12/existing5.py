"""C12 pre-existing defect 5 (lower severity / arguable): a REJECTED finalize()
does modify the configuration when a bound value is a one-shot iterable.

Property: "... and on rejection leaves the configuration unlocked and
unmodified".

Cause: the built-in hooks walk every bound value with
`_iterate_flattened_values` (gin/config.py ~line 2757), which iterates ANY
`collections.abc.Iterable`, including iterators bound through the Python API
(gin.bind_parameter('fn.x', iter(...)) -- any Python object is a legal value).
Iterating an iterator consumes it, so after finalize() -- successful or
rejected -- the configurable receives an exhausted iterator.  (An unbounded
iterator such as itertools.count() makes finalize() never return.)
"""
import gin
from gin import config


@gin.configurable
def ex5_fn(x=None, y=None):
  return x


gin.clear_config()
gin.bind_parameter('ex5_fn.x', iter([1, 2, 3]))
gin.parse_config('ex5_fn.y = %EX5_UNBOUND')
try:
  gin.finalize()
except ValueError:
  pass
else:
  raise AssertionError('unbound macro must be rejected')
assert not config.config_is_locked()

# Repair the config; the rejected finalize must not have changed anything.
gin.bind_parameter('ex5_fn.y', None)
got = list(ex5_fn())
gin.clear_config()
assert got == [1, 2, 3], (
    'the rejected finalize() consumed the iterator bound to ex5_fn.x: the '
    'configurable now receives %r instead of [1, 2, 3]' % (got,))
print('PASS')
