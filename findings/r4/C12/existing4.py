"""C12 pre-existing defect 4 (interleaving): two overlapping unlock_config
blocks in different threads leave a finalized configuration permanently
unlocked (and can re-lock it in the middle of another thread's block).

Property: "Once the configuration is finalized, every attempt to add or change
a binding ... raises ..., until clear_config or an unlock_config block; leaving
an unlock_config block ... restores the lock state that held on entry."

Cause: gin/config.py, unlock_config (~line 2662) saves/restores the single
process-wide flag _CONFIG_IS_LOCKED with no nesting count and no thread
ownership:

    config_was_locked = config_is_locked()
    _set_config_is_locked(False)
    try: yield
    finally: _set_config_is_locked(config_was_locked)

Interleaving (made deterministic with events below):
    T1 enters  (saves True,  flag := False)
    T2 enters  (saves False, flag := False)   <- sees T1's temporary unlock
    T1 leaves  (flag := True)                 <- T2 is still inside its block!
    T2 leaves  (flag := False)                <- finalized config now unlocked
After both blocks are over nobody holds an unlock, yet bind_parameter succeeds.
Half-way (after T1 left) T2 is inside its own unlock_config block but its
bind_parameter raises "Attempted to modify locked Gin config".
"""
import threading

import gin
from gin import config


@gin.configurable
def ex4_fn(x=0):
  return x


gin.clear_config()
gin.finalize()
assert config.config_is_locked()

t1_entered = threading.Event()
t2_entered = threading.Event()
t1_left = threading.Event()
results = {}


def t1():
  with gin.unlock_config():
    t1_entered.set()
    t2_entered.wait(10)
  t1_left.set()


def t2():
  t1_entered.wait(10)
  with gin.unlock_config():
    t2_entered.set()
    t1_left.wait(10)
    # Still inside this thread's unlock_config block.
    try:
      gin.bind_parameter('ex4_fn.x', 1)
      results['t2_bind_inside_block'] = 'ok'
    except RuntimeError as e:
      results['t2_bind_inside_block'] = 'raised: %s' % e


threads = [threading.Thread(target=t1), threading.Thread(target=t2)]
for t in threads:
  t.start()
for t in threads:
  t.join(20)

problems = []
if results.get('t2_bind_inside_block') != 'ok':
  problems.append('bind_parameter inside an unlock_config block was refused '
                  '(%s)' % results.get('t2_bind_inside_block'))
if not config.config_is_locked():
  problems.append('all unlock_config blocks have been left but the finalized '
                  'config is unlocked')
  try:
    gin.bind_parameter('ex4_fn.x', 2)
    problems.append('bind_parameter on the finalized config succeeded '
                    '(ex4_fn() == %r)' % (ex4_fn(),))
  except RuntimeError:
    pass

gin.clear_config()
assert not problems, '; '.join(problems)
print('PASS')
