"""C12 pre-existing defect 1: finalize() inside a config_scope accepts unbound
and unevaluated macros.

Property: "Finalizing ... rejects unbound or unevaluated macros ... and on
rejection leaves the configuration unlocked".

Cause (gin/config.py, validate_macros_hook, ~line 2911):

    for ref in iterate_references(config, to=get_configurable(macro)):

`get_configurable(macro)` goes through `_as_scope_and_selector`, which, for a
function argument, uses the CURRENT ACTIVE SCOPE, and then
`_decorate_with_scope(...)`.  When any config scope is active this returns a
fresh scoping wrapper instead of the registered wrapper, so the filter
`value.configurable.wrapper == to` in iterate_references matches nothing and no
macro reference is validated at all.  gin.finalize() (or
parse_config_files_and_bindings(..., finalize_config=True)) called from code
running under `with gin.config_scope(...)` -- e.g. from a configurable that was
itself reached through a scoped reference -- therefore locks a configuration
that contains unbound / unevaluated macros.
"""
import gin
from gin import config


@gin.configurable
def ex1_fn(x=None):
  return x


def finalize_rejects():
  try:
    gin.finalize()
  except ValueError:
    return True
  return False


# Unbound macro.
gin.clear_config()
gin.parse_config('ex1_fn.x = %EX1_UNBOUND')
assert finalize_rejects(), 'sanity: rejected outside of any scope'
assert not config.config_is_locked()

with gin.config_scope('some_scope'):
  rejected = finalize_rejects()
assert rejected, (
    'finalize() inside `with gin.config_scope(...)` accepted (and locked) a '
    'config that references the unbound macro %EX1_UNBOUND; locked=' +
    str(config.config_is_locked()))
assert not config.config_is_locked()

# Unevaluated macro.
gin.clear_config()
gin.parse_config("""
  EX1_M = 1
  ex1_fn.x = @EX1_M/gin.macro
""")
with gin.config_scope('some_scope'):
  rejected = finalize_rejects()
assert rejected, 'unevaluated macro accepted by finalize() inside a scope'

gin.clear_config()
print('PASS')
