"""C12 pre-existing defect 3: a REJECTED parse_config on a locked configuration
(and even a plain gin.get_configurable) re-registers methods and orphans
finalized bindings.

Property: "Once the configuration is finalized, every attempt to add or change
a binding or to register a configurable raises AND CHANGES NOTHING".

Set-up (all legal): a class decorated with @gin.configurable that has a method
decorated with @gin.register.  Because @gin.configurable mutates the class in
place (avoid_class_mutation=False branch of _decorate_fn_or_cls, gin/config.py
~line 649), `_find_registered_methods` is NOT run at registration, so the
method stays registered under `<module>.<method>`.  It is run lazily the first
time somebody builds a *scoped* version of the class:
`_decorate_with_scope` -> `_decorate_fn_or_cls(avoid_class_mutation=True)` ->
`_find_registered_methods` (gin/config.py lines 472-515), which pops the method
from _REGISTRY, re-inserts it as `<module>.<Class>.<method>` and records the
rename in _RENAMED_SELECTORS -- with no check of the lock.

parse_config builds the value of a statement (ConfigurableReference('s/Cls'))
BEFORE bind_parameter checks the lock, so on a locked config

    gin.parse_config('other.x = @some_scope/Cls')

raises RuntimeError as it should, but has already renamed the method: the
finalized binding `method.p = 5` is now stored under a selector that no longer
exists, query_parameter raises, gin.config_str() raises KeyError, and the
configurable method silently stops receiving the value.  The same happens,
without any exception at all, for gin.get_configurable('some_scope/Cls').
"""
import gin
from gin import config


@gin.configurable
class Ex3Class:

  def __init__(self, a=0):
    self.a = a

  @gin.register
  def ex3_method(self, p=0):
    return p


@gin.configurable
def ex3_other(x=None):
  return x


def snapshot():
  out = {}
  try:
    out['query'] = gin.query_parameter('ex3_method.p')
  except Exception as e:  # pylint: disable=broad-except
    out['query'] = 'raised %s: %s' % (type(e).__name__, e)
  try:
    out['config_str'] = gin.config_str()
  except Exception as e:  # pylint: disable=broad-except
    out['config_str'] = 'raised %s: %s' % (type(e).__name__, e)
  return out


gin.clear_config()
gin.parse_config('ex3_method.p = 5')
gin.finalize()
before = snapshot()
assert before['query'] == 5, before

# An attempt to add a binding while locked: must raise and change nothing.
try:
  gin.parse_config('ex3_other.x = @some_scope/Ex3Class')
except RuntimeError:
  pass
else:
  raise AssertionError('parse_config on a locked config must raise')
assert config.config_is_locked()
after = snapshot()
assert after == before, (
    'a parse_config REJECTED because the config is locked nevertheless changed '
    'the registry/effective configuration:\n  before: %r\n  after:  %r' %
    (before, after))

gin.clear_config()
print('PASS')
