"""C12 pre-existing defect 2: finalize() does not look at dictionary KEYS.

Property: "Finalizing ... rejects unbound or unevaluated macros, references to
unknown configurables ...".

Gin's syntax allows references and macros as dict keys (`{%M: 1}`,
`{@fn(): 1}`), and they are evaluated at call time like any other reference
(copy.deepcopy copies keys).  But `_iterate_flattened_values`
(gin/config.py ~line 2757) replaces every Mapping by its ValuesView:

    if isinstance(value, collections.abc.Mapping):
      value = collections.abc.ValuesView(value)

so validate_macros_hook / find_unknown_references_hook never see keys.  An
unbound macro, an unevaluated macro or (with skip_unknown) a reference to an
unknown configurable used as a dict key passes finalize(), and only blows up
later when the configurable is called.
"""
import gin
from gin import config


@gin.configurable
def ex2_fn(x=None):
  return x


def finalize_rejects():
  try:
    gin.finalize()
  except ValueError:
    return True
  return False


failures = []

# (a) unbound macro as a dict key.
gin.clear_config()
gin.parse_config('ex2_fn.x = {%EX2_UNBOUND: 1}')
if not finalize_rejects():
  try:
    ex2_fn()
    called = 'call succeeded'
  except Exception as e:  # pylint: disable=broad-except
    called = 'call later fails with %s' % type(e).__name__
  failures.append('unbound macro used as dict key accepted (%s)' % called)

# Control: the same macro as a dict VALUE is rejected.
gin.clear_config()
gin.parse_config('ex2_fn.x = {1: %EX2_UNBOUND}')
assert finalize_rejects(), 'sanity: unbound macro as dict value is rejected'

# (b) unevaluated macro as a dict key.
gin.clear_config()
gin.parse_config("""
  EX2_M = 1
  ex2_fn.x = {@EX2_M/gin.macro: 1}
""")
if not finalize_rejects():
  failures.append('unevaluated macro used as dict key accepted')

# (c) reference to an unknown configurable as a dict key (skip_unknown).
gin.clear_config()
gin.parse_config('ex2_fn.x = {@ex2_no_such_configurable: 1}', skip_unknown=True)
if not finalize_rejects():
  failures.append('reference to unknown configurable as dict key accepted')

gin.clear_config()
assert not failures, '; '.join(failures)
print('PASS')
