"""C12 pre-existing defect 6 (arguable / borderline): parse_config on a LOCKED
configuration is accepted, and changes gin.config_str(), when the parsed text
consists only of import statements.

Property: "Finalize locks the configuration ... every attempt to add or change
a binding ... raises and changes nothing".  An `import` statement is not a
binding, so whether this counts depends on how strictly "the configuration" is
read; but the recorded imports ARE part of the saved configuration
(gin.config_str() / operative_config_str() emit them), and they are modified on
a locked config without any exception.

Cause: gin/config.py parse_config (~line 2341) never checks the lock itself;
only bind_parameter does.  With no binding statement in the input nothing
raises, and `_IMPORTS.update(parse_context.imports)` (~line 2463) runs.
"""
import gin
from gin import config

gin.clear_config()
gin.finalize()
before = gin.config_str()
raised = False
try:
  gin.parse_config('import json')
except RuntimeError:
  raised = True
after = gin.config_str()
gin.clear_config()
assert raised or after == before, (
    'parse_config on a locked config did not raise and changed config_str() '
    'from %r to %r' % (before, after))
print('PASS')
