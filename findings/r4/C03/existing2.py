"""C03, pre-existing: block layout and flat layout of the same statements differ
(dynamic registration + skip_unknown + a reference spelled by bare name).

"Two layouts of the same statements therefore produce the same configuration."

    from __gin__ import dynamic_registration
    import textwrap
    textwrap.indent.prefix = '> '
    textwrap.indent.predicate = @indent      # bare name: not importable

parsed with skip_unknown=True raises NameError("'indent' was not provided by an
import statement"), because by the time the second value is parsed the first
statement has registered `textwrap.indent`, so '@indent' matches a known
configurable and is not skipped.  The same statements grouped in a block

    textwrap.indent:
      prefix = '> '
      predicate = @indent

are accepted without any error and bind `predicate` to an
_UnknownConfigurableReference.

Cause: gin/config_parser.py ConfigParser._parse_binding_block() parses *all*
the values of a block (calling the delegate, gin/config.py
ParserDelegate.configurable_reference -> _should_skip(), which consults the
registry as it is at that moment) before the BlockDeclaration and the first
binding are handed to parse_config and register the configurable; in the flat
layout each value is parsed after the preceding statements were applied.
"""
import gin

HEADER = 'from __gin__ import dynamic_registration\nimport textwrap\n'
FLAT = HEADER + ("textwrap.indent.prefix = '> '\n"
                 'textwrap.indent.predicate = @indent\n')
BLOCK = HEADER + ('textwrap.indent:\n'
                  "  prefix = '> '\n"
                  '  predicate = @indent\n')


def outcome(text):
  gin.clear_config()
  try:
    gin.parse_config(text, skip_unknown=True)
  except Exception as e:  # pylint: disable=broad-except
    return 'raised ' + type(e).__name__
  bindings = gin.get_bindings('textwrap.indent', resolve_references=False)
  return 'accepted: ' + ', '.join(
      '%s=%s' % (k, type(v).__name__) for k, v in sorted(bindings.items()))


# The block layout first: nothing is registered yet in this process (once
# textwrap.indent is registered both layouts raise).
block = outcome(BLOCK)
flat = outcome(FLAT)
assert block == flat, (
    'two layouts of the same statements behave differently:\n'
    '  block layout: %s\n  flat layout : %s' % (block, flat))
print('PASS')
