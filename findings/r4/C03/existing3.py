"""C03, pre-existing (weaker, error path): the statements preceding a faulty one
are applied in the flat layout but not in the block layout.

The parser hands out each complete statement before looking at the next line
(so that `a.x = 1` followed by a broken line still binds a.x, cf. the comment
in ConfigParser.parse_statement: "a tokenizer error on the following line must
not prevent this (complete) statement from being returned and applied").  That
holds for the flat layout only:

    net.units = 1                    net:
    net.sub = @nope                    units = 1
                                       sub = @nope

Both raise, but afterwards the flat layout has bound net.units = 1 while the
block layout has bound nothing: the configuration left behind by two layouts of
the same statements is different.

Cause: gin/config_parser.py ConfigParser._parse_binding_block() parses the whole
block eagerly (all values, up to the DEDENT) and only then returns the
BlockDeclaration and queues the bindings in _statements_queue.
"""
import gin


@gin.configurable
def net(units=0, sub=None):
  return units, sub


CASES = {
    'unknown reference': ('net.units = 1\nnet.sub = @nope\n',
                          'net:\n  units = 1\n  sub = @nope\n'),
    'bad literal': ('net.units = 1\nnet.sub = Garbage\n',
                    'net:\n  units = 1\n  sub = Garbage\n'),
    'unterminated list': ('net.units = 1\nnet.sub = [1, 2\n',
                          'net:\n  units = 1\n  sub = [1, 2\n'),
}

diffs = []
for name, (flat, block) in CASES.items():
  left = []
  for text in (flat, block):
    gin.clear_config()
    try:
      gin.parse_config(text)
    except Exception as e:  # pylint: disable=broad-except
      left.append((type(e).__name__, gin.get_bindings('net')))
    else:
      raise AssertionError('expected an error for %r' % text)
  if left[0] != left[1]:
    diffs.append('%s: flat -> %r, block -> %r' % (name, left[0], left[1]))
assert not diffs, (
    'configuration left behind differs between the flat and the block layout '
    'of the same statements:\n  ' + '\n  '.join(diffs))
print('PASS')
