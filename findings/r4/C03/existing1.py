"""C03, pre-existing: a stray '-' in front of a reference or macro is silently dropped.

"A config text is read as exactly the sequence of statements it spells."  The
text  `net.units = -%M`  does not spell the statement  `net.units = %M`
(nor does `net.sub = -@net` spell `net.sub = @net`): a minus sign is only
meaningful in front of a number.  `-[1]`, `-(1)`, `-'a'`, `-None`, `--1`, `+1`
are all rejected with a SyntaxError, but in front of '@' or '%' the sign is
silently swallowed and a *different* statement is recovered.

Cause: gin/config_parser.py, ConfigParser._maybe_parse_basic_type(): it
consumes a leading '-' (`self._advance()`), then finds that the next token is
not NAME/NUMBER/STRING and returns `(False, None)` without having restored the
consumed token, so parse_value() goes on to try _maybe_parse_configurable_
reference / _maybe_parse_macro on the token *after* the '-'.
"""
import gin


@gin.configurable
def net(units=0, sub=None):
  return units, sub


def outcome(text):
  gin.clear_config()
  try:
    gin.parse_config('M = 5\n' + text)
  except SyntaxError:
    return 'rejected'
  return gin.get_bindings('net', resolve_references=False)


# What a sign in front of a non-number does elsewhere.
for text in ['net.units = -[1]', 'net.units = -(1)', "net.units = -'a'",
             'net.units = -None', 'net.units = --1', 'net.units = +1']:
  assert outcome(text) == 'rejected', (text, outcome(text))
assert outcome('net.units = - 1') == {'units': -1}

bad = {}
for text in ['net.units = -%M', 'net.sub = -@net', 'net.sub = [1, -@net()]',
             'net.sub = {-%M: 1}', 'net.units = - \\\n  %M']:
  got = outcome(text)
  if got != 'rejected':
    bad[text] = got
assert not bad, (
    'texts that spell no valid statement were silently read as a different '
    'statement (the minus sign was dropped): %r' % bad)
print('PASS')
