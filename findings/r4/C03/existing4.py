"""C03, pre-existing (borderline: shows in config_str): the number of blank lines
between two import statements decides which alias the configuration reports.

"Two layouts of the same statements therefore produce the same configuration."
The statements

    import json as first
    import json as second
    net.units = 1

are laid out with j blank lines before and k blank lines between the two
imports.  gin.config_str()
then starts with `import json as first` for some k and `import json as second`
for others (and the choice changes from process to process with the string hash
seed).

Cause: gin/config.py.  The ImportStatements recorded in the global `_IMPORTS`
*set* carry their Location (file, line number, line text), so their hashes - and
the set's iteration order - depend on the layout.  ImportManager.__init__ sorts
them with the key (not __gin__, module, not is_from), which ties for two imports
of one module; sorted() is stable, so the tie is broken by set iteration order,
and add_import() keeps only the first statement for a module.
"""
import gin


@gin.configurable
def net(units=0):
  return units


seen = {}
for j in range(20):      # blank lines before the first import
  for k in range(20):    # blank lines between the two imports
    gin.clear_config()
    gin.parse_config('\n' * j + 'import json as first\n' + '\n' * k +
                     'import json as second\nnet.units = 1\n')
    seen.setdefault(gin.config_str().splitlines()[0], []).append((j, k))

assert len(seen) == 1, (
    'the same statements, laid out with k blank lines between the imports, '
    'give different config_str() outputs: ' +
    '; '.join('%r for (j, k) in %s...' % (line, ks[:6])
              for line, ks in seen.items()))
print('PASS')
