"""C17, pre-existing defect 2 (unchanged tree).

Exception groups whose `.args` do not carry `(message, exceptions)`.

`BaseExceptionGroup.__new__` requires exactly `(message, exceptions)`.  The
proxy construction in gin/utils.py tries, in order,

    ExceptionProxy(*exception.args)          # line 43
    ExceptionProxy()                         # line 46
    new = next(klass.__new__ for klass in type(exception).__mro__
               if inspect.isbuiltin(klass.__new__))
    proxy = new(ExceptionProxy)              # lines 50-52

The last resort assumes that the first C-level `__new__` in the MRO accepts no
arguments.  For exception groups that is `BaseExceptionGroup.__new__`, which
does not, so its TypeError escapes and REPLACES the group: `except
ExceptionGroup` / `except*` no longer see it and `.exceptions` is lost.

This happens for an ExceptionGroup subclass with an ordinary `__init__` that
passes only the message on to `super().__init__` (so `.args == (message,)`),
and equally for any group whose `.args` was re-assigned.
"""
import gin


class TaskErrors(ExceptionGroup):

  def __init__(self, message, excs):
    super().__init__(message)          # .args == (message,)
    self.count = len(excs)


@gin.configurable
def run_tasks():
  raise TaskErrors('tasks failed', [ValueError(1), KeyError('k')])


@gin.configurable
def run_tasks_plain():
  group = ExceptionGroup('tasks failed', [ValueError(1), KeyError('k')])
  group.args = ('tasks failed',)       # legal: args is writable
  raise group


def check(fn, cls):
  try:
    fn()
  except ExceptionGroup as e:
    assert isinstance(e, cls), type(e)
    assert e.message == 'tasks failed', e.message
    assert [type(x) for x in e.exceptions] == [ValueError, KeyError]
    assert e.args == ('tasks failed',), e.args
    assert 'In call to configurable' in str(e), str(e)
    return
  except Exception as e:  # pylint: disable=broad-except
    raise AssertionError(
        'C17 violated: %s raised an exception group (%s) but the caller '
        'received %s: %s -- the fallback `new(ExceptionProxy)` in '
        'gin/utils.py calls BaseExceptionGroup.__new__ without arguments' %
        (fn.__name__, cls.__name__, type(e).__name__, e))
  raise AssertionError('no exception at all')


check(run_tasks, TaskErrors)
check(run_tasks_plain, ExceptionGroup)
print('PASS')
