"""C17, pre-existing defect 5 (unchanged tree) -- borderline: dunder attributes.

`raise X from Y` / `raise X from None` inside a configurable record the chain on
the exception in `__cause__` / `__suppress_context__` (documented, readable
attributes of every exception, though spelled with double underscores).  The
slot-copying loop in gin/utils.py (lines 56-64) skips every name starting with
'__', and these two live in C-level slots, so `__getattr__` never forwards
them: on the exception that reaches the caller `__cause__` is None and
`__suppress_context__` is False.  `except SomeError as e: handle(e.__cause__)`
in the caller -- the standard way to unwrap a translated error -- sees nothing,
and a traceback printed for it no longer says "The above exception was the
direct cause" (resp. shows a context that the author suppressed with
`from None`).
"""
import gin


class ConfigError(Exception):
  pass


@gin.configurable
def translate():
  try:
    {}['missing']
  except KeyError as k:
    raise ConfigError('bad config') from k


@gin.configurable
def suppress():
  try:
    {}['missing']
  except KeyError:
    raise ConfigError('bad config') from None


try:
  translate()
except ConfigError as e:
  assert isinstance(e.__cause__, KeyError) and e.__cause__.args == ('missing',), (
      'C17 violated: `raise ConfigError(...) from KeyError` inside a '
      'configurable reached the caller with __cause__ = %r (gin/utils.py '
      'skips dunder slots when copying)' % (e.__cause__,))
  assert e.__suppress_context__ is True

try:
  suppress()
except ConfigError as e:
  assert e.__suppress_context__ is True, (
      'C17 violated: `raise ... from None` inside a configurable reached the '
      'caller with __suppress_context__ = %r' % (e.__suppress_context__,))
print('PASS')
