"""C17, pre-existing defect 4 (unchanged tree).

gin/config.py, gin_wrapper, lines 1646-1666: for a TypeError the hint text is
first produced with `fmt.format(...)` (it contains the *names* of the bound and
caller-supplied keyword arguments) and then the whole accumulated string is
passed through `str.format` a second time:

    err_str += "\n  In call to configurable '{}' ({}){}"
    ...
    err_str = err_str.format(name, fn_or_cls, scope_info)

Keyword names are arbitrary strings for a function that takes **kwargs
(`f(**{'{x}': 1})`, or `gin.bind_parameter('f.{x}', 1)`).  A name containing
braces is re-interpreted as a replacement field, `str.format` raises
KeyError / ValueError / IndexError inside the except block, and that exception
REPLACES the TypeError raised by the call.
"""
import gin


@gin.configurable
def needs(a, b, **options):
  return a, b, options


def check(label, call):
  try:
    call()
  except TypeError as e:
    assert "missing 1 required positional argument: 'b'" in str(e), str(e)
    assert "In call to configurable 'needs'" in str(e), str(e)
    return
  except Exception as e:  # pylint: disable=broad-except
    raise AssertionError(
        'C17 violated (%s): the call raised TypeError (missing argument b) but '
        'the caller received %s: %s -- err_str is formatted twice in '
        'gin_wrapper (gin/config.py)' % (label, type(e).__name__, e))
  raise AssertionError('no exception at all')


# Sanity: an ordinary keyword name behaves.
check('plain name', lambda: needs(1, verbose=True))
# Caller-supplied keyword whose name contains braces.
check('caller kwarg {x}', lambda: needs(1, **{'{x}': True}))
# The same through a binding.
gin.bind_parameter('needs.{level}', 3)
check('bound kwarg {level}', lambda: needs(1))
gin.clear_config()
print('PASS')
