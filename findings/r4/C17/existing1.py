"""C17, pre-existing defect 1 (unchanged tree).

augment_exception_message_and_reraise (gin/utils.py, lines 40-52) builds the
proxy by calling the exception class with the original's `.args`:

    try:
      proxy = ExceptionProxy(*exception.args)
    except TypeError:
      ...

Only TypeError is caught.  A user exception class whose Python-level `__new__`
takes the constructor arguments (legal: "required constructor arguments in
__new__") while `__init__` stores a *formatted message* in `.args` makes that
call run `__new__` on data it was never meant for.  Whatever `__new__` raises
then (here ValueError from int('code 5')) escapes from Gin's except block and
REPLACES the exception the configurable raised: the caller can no longer catch
it with `except CodeError`, and type, args and `.code` are all gone.
"""
import gin


class CodeError(Exception):
  """An error identified by an integer code; __new__ validates the code."""

  def __new__(cls, code):
    self = super().__new__(cls)
    self.code = int(code)
    return self

  def __init__(self, code):
    super().__init__('code %d' % code)   # .args == ('code 5',)


@gin.configurable
def failing():
  raise CodeError(5)


@gin.configurable
def outer():
  with gin.config_scope('scope'):
    return failing()


def check(fn):
  try:
    fn()
  except CodeError as e:
    assert e.code == 5, e.code
    assert e.args == ('code 5',), e.args
    assert "In call to configurable 'failing'" in str(e), str(e)
    return
  except Exception as e:  # pylint: disable=broad-except
    raise AssertionError(
        'C17 violated: the configurable raised CodeError(5) but the caller '
        'received %s: %r (not catchable by `except CodeError`, .code and '
        '.args lost); cause: gin/utils.py only catches TypeError around '
        '`ExceptionProxy(*exception.args)`' % (type(e).__name__, str(e)))
  raise AssertionError('no exception at all')


check(failing)
check(outer)
print('PASS')
