"""C17, pre-existing defect 3 (unchanged tree).

The proxy is a *subclass* of the exception's class, created on the fly
(gin/utils.py line 25: `class ExceptionProxy(type(exception))`).  Creating a
subclass runs the class's `__init_subclass__` (and its metaclass).  A user
exception hierarchy that requires a class keyword argument (a common pattern:
`class NotFound(ApiError, status=404)`), or that forbids further subclassing,
makes that class statement raise TypeError inside Gin's except block, and this
TypeError REPLACES the exception raised by the configurable.
"""
import gin


class ApiError(Exception):
  by_status = {}

  def __init_subclass__(cls, status, **kwargs):
    super().__init_subclass__(**kwargs)
    cls.status = status
    ApiError.by_status[status] = cls


class NotFound(ApiError, status=404):
  pass


class Sealed(Exception):
  """May not be subclassed any further."""

  def __init_subclass__(cls, **kwargs):
    raise TypeError('Sealed may not be subclassed')


@gin.configurable
def lookup():
  raise NotFound('no such thing')


@gin.configurable
def sealed():
  raise Sealed('boom')


def check(fn, cls, arg):
  try:
    fn()
  except cls as e:
    assert e.args == (arg,), e.args
    assert 'In call to configurable' in str(e), str(e)
    return
  except Exception as e:  # pylint: disable=broad-except
    raise AssertionError(
        'C17 violated: %s raised %s(%r) but the caller received %s: %s -- '
        '`class ExceptionProxy(type(exception))` in gin/utils.py triggered '
        '__init_subclass__ of the user class' %
        (fn.__name__, cls.__name__, arg, type(e).__name__, e))
  raise AssertionError('no exception at all')


registry_before = dict(ApiError.by_status)
check(lookup, NotFound, 'no such thing')
check(sealed, Sealed, 'boom')
assert ApiError.by_status == registry_before
print('PASS')
