"""C18, pre-existing: a call made in one thread fails because another thread is
reading the operative config (dynamic registration in use).

`_config_str` (gin/config.py, `with _parse_scope(import_manager=...)`, ~line
2229) pushes a "parse only" ParseContext onto the *process-global* list
`_PARSE_CONTEXTS` (lines 350-360, 407) for the duration of the formatting. That
list is not thread-local, so while thread R is inside
`gin.operative_config_str()`, `_parse_context()` returns R's context in *every*
thread. When the config uses `from __gin__ import dynamic_registration`, R's
context resolves selectors through its import symbol table instead of the
registry, so in another thread T a perfectly ordinary

    gin.query_parameter('train.steps')

(here issued from inside the body of the configurable `train` that T is in the
middle of calling when R starts to read) raises
`NameError: 'train' was not provided by an import statement.` The same call
succeeds before and after R's read, and in any sequential execution.

The interleaving is forced deterministically with a parameter value whose
`__repr__` (called by the reader while it formats the config) lets T run.
"""
import sys
import threading
import types

import gin

READER_INSIDE = threading.Event()
CALLER_DONE = threading.Event()
ARMED = []


class Probe(int):

  def __repr__(self):
    if ARMED and threading.current_thread().name == 'reader':
      ARMED.pop()
      READER_INSIDE.set()
      CALLER_DONE.wait(2.0)  # Let the other thread's call run "now".
    return int.__repr__(self)


# A user module, imported by the config through dynamic registration.
mod = types.ModuleType('c18_existing1_mod')
exec('''
import gin

def train(steps=1, probe=None):
  before_query()  # Test hook: lets the other thread start its read here.
  # Documented public API; a configurable looking at its own configuration.
  return steps, gin.query_parameter('train.steps')
''', mod.__dict__)
mod.before_query = lambda: None
mod.train.__module__ = 'c18_existing1_mod'
mod.train.__defaults__ = (1, Probe(5))
sys.modules['c18_existing1_mod'] = mod


def main():
  gin.clear_config()
  gin.parse_config("""
    from __gin__ import dynamic_registration
    import c18_existing1_mod
    c18_existing1_mod.train.steps = 7
  """)
  train = gin.get_configurable(mod.train)

  # Sequentially everything works: call, read, call.
  assert train() == (7, 7)
  text = gin.operative_config_str()
  assert 'c18_existing1_mod.train.steps = 7' in text
  assert train() == (7, 7)

  errors = []
  results = []

  def reader():
    try:
      assert body_entered.wait(10)
      results.append(gin.operative_config_str())
    except BaseException as e:  # pylint: disable=broad-except
      errors.append(('reader', repr(e)))

  body_entered = threading.Event()

  def before_query():
    # The call is already past Gin's wrapper and running the function body;
    # now the reader starts and gets half-way through formatting.
    body_entered.set()
    assert READER_INSIDE.wait(10)

  def caller():
    try:
      mod.before_query = before_query
      results.append(train())
    except BaseException as e:  # pylint: disable=broad-except
      errors.append(('caller', repr(e)))
    finally:
      CALLER_DONE.set()

  ARMED.append(True)
  threads = [threading.Thread(target=reader, name='reader', daemon=True),
             threading.Thread(target=caller, name='caller', daemon=True)]
  for t in threads:
    t.start()
  for t in threads:
    t.join(20)
  assert not any(t.is_alive() for t in threads), 'threads hung'
  assert not errors, (
      'a call failed only because another thread was reading the operative '
      'config (global _PARSE_CONTEXTS leaked the reader\'s parse context): %r'
      % (errors,))
  print('PASS')


if __name__ == '__main__':
  main()
