"""C18, pre-existing (borderline: needs a clear_config that overlaps a first use):
clear_config does not forget a singleton that is being constructed.

`clear_config` (gin/config.py ~line 1046) empties `_SINGLETONS` without taking
`_SINGLETONS_LOCK`, while `singleton_value` (~line 2829) stores the constructed
object only after the user constructor returns. A `clear_config()` issued while
the constructor runs -- from another thread, or re-entrantly from the
constructor itself -- therefore clears nothing, and the object built under the
*old* configuration is published afterwards and outlives the clear: every later
use under the *new* configuration receives the stale object, and the new
configuration's constructor/bindings for that scope name are never used.
"""
import threading

import gin

IN_CONSTRUCTOR = threading.Event()
CLEARED = threading.Event()


@gin.configurable
class Table:

  def __init__(self, size=1):
    self.size = size
    if size == 3:  # Only the first (old-config) construction is slow.
      IN_CONSTRUCTOR.set()
      CLEARED.wait(5)


@gin.configurable
def use(table=None):
  return table


def config(size):
  return """
    use.table = @shared/gin.singleton()
    shared/gin.singleton.constructor = @Table
    Table.size = %d
  """ % size


def main():
  gin.clear_config()
  gin.parse_config(config(3))

  old = []
  t = threading.Thread(target=lambda: old.append(use()), daemon=True)
  t.start()
  assert IN_CONSTRUCTOR.wait(5)

  # Meanwhile the main thread starts a new experiment.
  gin.clear_config()
  gin.parse_config(config(9))
  CLEARED.set()
  t.join(10)
  assert old and old[0].size == 3

  fresh = use()
  assert fresh is not old[0] and fresh.size == 9, (
      'after clear_config + new config (Table.size = 9) the singleton "shared" '
      'is still the object built under the cleared config (size=%d): '
      'clear_config did not forget it' % fresh.size)
  print('PASS')


if __name__ == '__main__':
  main()
