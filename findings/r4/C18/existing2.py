"""C18, pre-existing: first uses of two *different* singletons in two threads
can block each other for ever.

`singleton_value` (gin/config.py ~line 2819) runs the user-supplied constructor
while holding the single process-wide `_SINGLETONS_LOCK` (line 413), whatever
the scope name. So while thread A constructs the singleton `loader`, no other
thread can make the first use of (or even look up) any other singleton, e.g.
`vocab`. If A's constructor needs a result from such a thread -- the classic
case is a data loader that starts a worker thread and waits for it to be ready,
the worker itself being configured through Gin -- A waits for B and B waits for
the lock A holds: both calls hang because of the other thread, although they
use different singletons and neither depends on the other's object.

(Sequentially, or with `vocab` used once before, the same program runs fine.
The constructor below waits with a timeout so that this demo terminates; with
an unbounded wait -- the usual way to write it -- the program never finishes.)
"""
import threading

import gin


@gin.configurable
class Vocab:

  def __init__(self, size=100):
    self.size = size


@gin.configurable
def worker_setup(vocab=None):
  return vocab


@gin.configurable
class Loader:
  """Starts a helper thread and waits until that thread is ready."""

  def __init__(self, timeout=3.0):
    self.ready = threading.Event()
    self.worker_vocab = None

    def work():
      self.worker_vocab = worker_setup()  # First use of the `vocab` singleton.
      self.ready.set()

    self.thread = threading.Thread(target=work, daemon=True)
    self.thread.start()
    self.worker_ready_in_time = self.ready.wait(timeout)


@gin.configurable
def run(loader=None):
  return loader


CONFIG = """
  run.loader = @loader/gin.singleton()
  loader/gin.singleton.constructor = @Loader
  worker_setup.vocab = @vocab/gin.singleton()
  vocab/gin.singleton.constructor = @Vocab
"""


def main():
  gin.clear_config()
  gin.parse_config(CONFIG)

  out = []
  t = threading.Thread(target=lambda: out.append(run()), daemon=True)
  t.start()
  t.join(20)
  assert out, 'run() hung'
  loader = out[0]
  assert loader.worker_ready_in_time, (
      'the first use of singleton "vocab" in the worker thread was blocked for '
      'as long as another thread was constructing the unrelated singleton '
      '"loader" (one global _SINGLETONS_LOCK is held across user constructors)')
  loader.thread.join(5)
  assert isinstance(loader.worker_vocab, Vocab)
  assert run() is loader
  print('PASS')


if __name__ == '__main__':
  main()
