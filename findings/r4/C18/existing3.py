"""C18, pre-existing: a read of the operative config can hang for ever, and then
every call of every configurable in every other thread hangs with it.

`operative_config_str` (gin/config.py ~line 2307) holds the non re-entrant
`_OPERATIVE_CONFIG_LOCK` (a plain `threading.Lock`, line 389) for the whole of
`_config_str`, which calls user code: `repr(value)` and `parsed == value` for
every recorded parameter value (`_format_value`, ~line 1010). `gin_wrapper`
takes the same lock on every call of a configurable (~line 1597). So if the
`__repr__` (or `__eq__`) of a recorded value itself calls a configurable --
here a Gin-configured number format -- the reading thread dead-locks on the
lock it already owns. The lock is never released, so from then on *any* call of
*any* configurable from *any* thread blocks for ever as well: calls fail
because of another thread.

(The same `repr` works everywhere else, e.g. in `gin.config_str()`.)
"""
import threading

import gin


@gin.configurable
def float_digits(digits=2):
  return digits


class Tolerance(float):
  """A float printed with a Gin-configured number of digits."""

  def __repr__(self):
    return '%.*f' % (float_digits(), float(self))


@gin.configurable
def solve(tol=Tolerance(0.5)):
  return tol


@gin.configurable
def unrelated(x=1):
  return x


def main():
  gin.clear_config()
  gin.parse_config('float_digits.digits = 3')
  assert repr(Tolerance(0.25)) == '0.250'

  solve()
  unrelated()

  reads = []
  reader = threading.Thread(
      target=lambda: reads.append(gin.operative_config_str()), daemon=True)
  reader.start()
  reader.join(3)
  read_hung = reader.is_alive()

  calls = []
  caller = threading.Thread(
      target=lambda: calls.append(unrelated()), daemon=True)
  caller.start()
  caller.join(3)
  call_hung = caller.is_alive()

  assert not read_hung, (
      'gin.operative_config_str() dead-locked on _OPERATIVE_CONFIG_LOCK (a '
      'value\'s __repr__ called a configurable while the lock was held); a '
      'call of an unrelated configurable from another thread then hung too: %r'
      % call_hung)
  assert not call_hung
  assert 'solve.tol = 0.500' in reads[0], reads[0]
  gin.clear_config()
  gin.parse_config(reads[0])  # The read parses.
  print('PASS')


if __name__ == '__main__':
  main()
