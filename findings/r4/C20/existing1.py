"""Pre-existing C20 violation: clear_config() inside `with gin.unlock_config():`
leaves the (now empty) configuration LOCKED once the block is left.

C20 says that after any history -- explicitly including locked configurations --
clear_config() leaves an *unlocked* configuration, indistinguishable from a
fresh process.  gin.unlock_config() is the documented way to touch a finalized
config, so clearing inside it is a natural thing to do.  But unlock_config()
remembers `config_was_locked = True` on entry and blindly restores it in its
`finally:` (gin/config.py, unlock_config(), `_set_config_is_locked(
config_was_locked)`), undoing the unlock done by clear_config()
(`_set_config_is_locked(False)` at the top of clear_config()).  The result is a
pristine-looking, empty config on which bind_parameter / parse_config / finalize
/ @gin.configurable registration all fail with "locked" errors -- a fresh
process would accept them.
"""
import gin


@gin.configurable
def fn(x=1):
  return x


gin.clear_config()
gin.bind_parameter('fn.x', 5)
gin.finalize()
assert gin.config_is_locked()

with gin.unlock_config():
  gin.clear_config()
  assert not gin.config_is_locked()  # Holds: unlocked right after the clear.

# The block has been left; the clear must still have "taken".
assert gin.config_str() == ''
problems = []
if gin.config_is_locked():
  problems.append('config_is_locked() is True after clear_config()')
try:
  gin.bind_parameter('fn.x', 3)
except RuntimeError as e:
  problems.append('bind_parameter on the cleared config failed: {}'.format(e))
try:
  gin.parse_config('fn.x = 4')
except RuntimeError as e:
  problems.append('parse_config on the cleared config failed: {}'.format(e))

gin.clear_config()  # Leave things tidy.
assert not problems, (
    'C20 violated: clear_config() inside unlock_config() leaves an empty but '
    'locked configuration: ' + '; '.join(problems))
print('PASS')
