"""Pre-existing C20 violation: a singleton whose construction is in flight when
clear_config() runs is cached *after* the clear, so the "cleared" process still
holds a singleton built from the old configuration.

C20: after any history (singleton use, re-entrancy, other threads) clear_config()
leaves no cached singletons; the process is indistinguishable from a fresh one.

Cause: gin/config.py, singleton_value(): `_SINGLETONS[key] = constructor()`.
The constructor runs first and its result is stored unconditionally afterwards;
clear_config() just does `_SINGLETONS.clear()` -- it neither takes
_SINGLETONS_LOCK nor invalidates constructions that are in progress.  Hence

  (A) re-entrancy: a constructor (or anything it calls) that calls
      gin.clear_config() -- e.g. a "reset and reload config" helper -- ends up
      cached although the clear happened after its construction started; and
  (B) threads: thread T is inside a slow singleton constructor, the main thread
      calls clear_config() (it does not wait for T, the lock is not taken), T
      finishes and caches an object that was built under the old bindings.

In both cases a later `@key/gin.singleton()` with a *new* configuration silently
returns the old object instead of constructing one, which a fresh process with
the same registrations would never do.
"""
import threading

import gin
from gin import config

problems = []


@gin.configurable
def make(tag='default'):
  return ['made with', tag]


# ---- (A) re-entrancy ---------------------------------------------------------
@gin.configurable
def resetting_constructor():
  obj = make()
  gin.clear_config()  # e.g. a component that resets Gin while being built.
  return obj


gin.clear_config()
gin.bind_parameter('make.tag', 'old')
old = config.singleton_value('shared', resetting_constructor)
assert old == ['made with', 'old']
# clear_config() has run (inside the constructor) and nothing else since.
assert gin.config_str() == ''
gin.bind_parameter('make.tag', 'new')
now = config.singleton_value('shared', make)  # Fresh process: builds with 'new'.
if now is old:
  problems.append(
      "(A) singleton 'shared' built under the old config survived a "
      'clear_config() issued during its construction: got {}'.format(now))
gin.clear_config()

# ---- (B) another thread is constructing while we clear -----------------------
started, release = threading.Event(), threading.Event()


@gin.configurable
def slow_constructor():
  obj = make()
  started.set()
  assert release.wait(30)
  return obj


gin.bind_parameter('make.tag', 'old')
worker = threading.Thread(
    target=lambda: config.singleton_value('slow', slow_constructor),
    daemon=True)
worker.start()
assert started.wait(30)
gin.clear_config()  # Returns at once; the in-flight construction is unaffected.
release.set()
worker.join(30)
assert not worker.is_alive()
gin.bind_parameter('make.tag', 'new')
now = config.singleton_value('slow', make)
if now != ['made with', 'new']:
  problems.append(
      "(B) singleton 'slow' built by another thread under the old config was "
      'cached after clear_config(): got {}'.format(now))
gin.clear_config()

assert not problems, 'C20 violated: ' + ' | '.join(problems)
print('PASS')
