"""EXISTING DEFECT 4 (C10): signature-level gin.REQUIRED hidden behind a
functools.wraps decorator.

Same root cause as existing3.py: _get_cached_arg_spec uses
inspect.getfullargspec, which does not follow `__wrapped__`, while
_might_have_parameter / _validate_parameters *do* unwrap.  For

    @gin.configurable
    @some_decorator        # uses functools.wraps
    def f(x=gin.REQUIRED): ...

Gin accepts `f.x = ...` bindings (so x is a configurable parameter of f), but
signature_required_kwargs is empty.  So calling f() with no binding does not
fail: the body runs and receives the gin.REQUIRED marker.  And
denylist=['x'] is accepted at registration.
"""
import functools
import gin

seen = []


def logged(f):
  @functools.wraps(f)
  def wrapper(*args, **kwargs):
    return f(*args, **kwargs)
  return wrapper


@gin.configurable
@logged
def load(x=gin.REQUIRED):
  seen.append(x)
  return x


# x is a configurable parameter of `load` as far as Gin is concerned:
gin.bind_parameter('load.x', 7)
assert load() == 7
gin.clear_config()
del seen[:]

errors = []
try:
  got = load()
  errors.append('load() with no binding for REQUIRED x did not fail; returned '
                '%s' % ('the gin.REQUIRED marker' if got is gin.REQUIRED
                        else repr(got)))
except RuntimeError as e:
  assert 'load' in str(e) and "['x']" in str(e), e
if any(v is gin.REQUIRED for v in seen):
  errors.append('the gin.REQUIRED marker was passed into the function body')

try:
  @gin.configurable(denylist=['x'])
  @logged
  def load2(x=gin.REQUIRED):
    return x
  errors.append("denylist=['x'] with signature-level REQUIRED x was accepted")
except ValueError as e:
  assert 'marked REQUIRED but denylisted' in str(e), e

assert not errors, 'C10 violated:\n  ' + '\n  '.join(errors)
print('PASS')
