"""EXISTING DEFECT 1 (C10): positional-only parameter with a signature-level
gin.REQUIRED default.

gin_wrapper (gin/config.py, _make_gin_wrapper) always supplies bindings for
parameters the caller did not pass as *keyword* arguments
(`fn(*new_args, **new_kwargs)`).  inspect.getfullargspec lists positional-only
parameters in `.args`, so Gin treats `a` in `def f(a=gin.REQUIRED, /, **kw)` as
an ordinary configurable parameter: `f.a = 1` is accepted, the "required" check
sees `a` in new_kwargs and is satisfied, and then `f(a=1)` is executed.  For a
positional-only parameter Python routes `a=1` into **kw, and the parameter `a`
itself keeps its default: the gin.REQUIRED marker is passed into the body.
Without **kw the same call dies with a TypeError ("positional-only arguments
passed as keyword arguments") instead of being filled.

C10: "filled from the applicable binding, in the correct position ... The
REQUIRED marker itself is never passed to the wrapped function".
"""
import gin

seen = []


@gin.configurable
def with_varkw(a=gin.REQUIRED, /, **kw):
  seen.append((a, kw))
  return a


@gin.configurable
def without_varkw(a=gin.REQUIRED, /, b=2):
  seen.append((a, b))
  return a


gin.bind_parameter('with_varkw.a', 1)
gin.bind_parameter('without_varkw.a', 1)

# The caller-marked form works (filled in position) ...
assert with_varkw(gin.REQUIRED) == 1
assert without_varkw(gin.REQUIRED) == 1
del seen[:]

# ... the signature-default form must be filled the same way (or fail cleanly).
try:
  got = with_varkw()
except RuntimeError:
  got = None  # a clean "required bindings" failure would also be acceptable
assert not any(a is gin.REQUIRED for a, _ in seen), (
    'C10 violated: body of with_varkw ran with a=gin.REQUIRED (marker passed to '
    'the wrapped function); the binding with_varkw.a=1 ended up in **kw: %r'
    % (seen,))
assert got in (1, None)

try:
  got = without_varkw()
except TypeError as e:
  raise AssertionError(
      'C10 violated: without_varkw.a is bound to 1 and marked REQUIRED in the '
      'signature, but the call is neither filled nor rejected with the '
      '"Required bindings" error: TypeError: %s' % e)
assert got == 1

print('PASS')
