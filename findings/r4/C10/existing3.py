"""EXISTING DEFECT 3 (C10): configurable class that inherits its constructor
from another *configurable* class (and, same cause, a function wrapped by a
functools.wraps decorator - see existing4.py).

`@gin.configurable class B(A): pass`, where A is configurable too: B's
construction function is A.__init__, which has already been replaced by A's
gin_wrapper.  _make_gin_wrapper / _make_configurable compute the signature with
inspect.getfullargspec(signature_fn), which does NOT follow `__wrapped__`, so B
is treated as having the signature (*args, **kwargs).  (In contrast,
_might_have_parameter *does* unwrap, so `B.x = ...` bindings and
`denylist=['x']` are accepted.)  Consequences:

  1. B(gin.REQUIRED) is rejected with "gin.REQUIRED is not allowed for unnamed
     (vararg) parameters" although `x` is a named parameter and B.x is bound;
  2. `@gin.configurable(denylist=['x']) class C(A)` is accepted although the
     signature default of x is gin.REQUIRED (must be rejected at registration);
     afterwards C() can never be satisfied from C's config.
"""
import gin


@gin.configurable
class A:

  def __init__(self, x=gin.REQUIRED, y=0):
    self.x, self.y = x, y


@gin.configurable
class B(A):
  pass


gin.bind_parameter('B.x', 5)
assert B().x == 5                      # signature default form works (via A)
assert B(x=gin.REQUIRED).x == 5        # keyword form works

errors = []
try:
  got = B(gin.REQUIRED).x
  if got != 5:
    errors.append('B(REQUIRED).x == %r' % (got,))
except ValueError as e:
  errors.append('B(gin.REQUIRED): x is a named, bound parameter but: %s'
                % str(e).splitlines()[0])

try:
  @gin.configurable(denylist=['x'])
  class C(A):
    pass
  errors.append("denylist=['x'] on a class whose signature marks x REQUIRED "
                'was accepted at registration')
except ValueError as e:
  assert 'marked REQUIRED but denylisted' in str(e), e

try:
  @gin.configurable(allowlist=['y'])
  class D(A):
    pass
  errors.append("allowlist=['y'] on a class whose signature marks x REQUIRED "
                'was accepted at registration')
except ValueError as e:
  assert 'marked REQUIRED but not allowlisted' in str(e), e

assert not errors, 'C10 violated:\n  ' + '\n  '.join(errors)
print('PASS')
