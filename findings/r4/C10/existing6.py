"""EXISTING (design limitation, lower confidence) 6 (C10): class whose own
__new__ shadows an inherited __init__ that carries the REQUIRED parameter.

_find_class_construction_fn (gin/config.py) walks the MRO and takes, per class,
__init__ if defined there, else __new__.  For

    class Base:            def __init__(self, x=gin.REQUIRED)
    @gin.configurable
    class C(Base):         def __new__(cls, *a, **k)

it picks C.__new__ (signature (cls, *a, **k)) and wraps only that.  `C.x = 1`
is accepted (varkw), is injected into __new__, but type.__call__ then invokes
Base.__init__ with the caller's *original* arguments: x keeps its default and
the constructor body runs with the gin.REQUIRED marker, binding or no binding.
"""
import gin


class Base:

  def __init__(self, x=gin.REQUIRED):
    self.x = x


@gin.configurable
class C(Base):

  def __new__(cls, *args, **kwargs):
    return super().__new__(cls)


gin.bind_parameter('C.x', 1)   # accepted: x "might be a parameter" of C
try:
  obj = C()
except RuntimeError:
  obj = None
assert obj is None or obj.x is not gin.REQUIRED, (
    'C10 violated: C.x is bound to 1 and x is REQUIRED in the constructor '
    'signature, but the constructor body received the gin.REQUIRED marker')
print('PASS')
