"""EXISTING DEFECT 2 (C10): bound methods / classmethods / callable instances
registered with gin.external_configurable - positional bookkeeping is off by one.

_get_cached_arg_spec (gin/config.py) uses inspect.getfullargspec, which for a
bound method (and for `obj.__call__` of a callable instance, the documented
fallback in that function) still lists the already-bound first parameter
(`self` / `cls`).  gin_wrapper maps the caller's positional arguments onto
`arg_spec.args[:len(args)]` (_get_supplied_positional_parameter_names), so every
positional argument is attributed to the parameter *before* the one it really
fills:

  * m(gin.REQUIRED)      -> the marker is attributed to 'self'; the error says
                            "Required bindings ... ['self']" although kmeth.x
                            is bound;
  * m(1, gin.REQUIRED)   -> the marker (really for `y`) is attributed to `x`, so
                            `y` is filled with the binding of `x`
                            (wrong parameter / wrong position);
  * build(5)             -> signature-level REQUIRED `x` supplied positionally
                            by the caller is reported as unfilled.
"""
import gin


class K:

  def __init__(self, tag):
    self.tag = tag

  def meth(self, x, y=2):
    return (self.tag, x, y)

  @classmethod
  def build(cls, x=gin.REQUIRED):
    return (cls.__name__, x)

  def __call__(self, x, y=2):
    return ('call', x, y)


k = K('k')
meth = gin.external_configurable(k.meth, name='kmeth')
build = gin.external_configurable(K.build, name='kbuild')
inst = gin.external_configurable(k, name='kinst')

gin.bind_parameter('kmeth.x', 10)
gin.bind_parameter('kinst.x', 10)

# Keyword placement works, so the configurables themselves are fine.
assert meth(x=gin.REQUIRED) == ('k', 10, 2)
assert inst(x=gin.REQUIRED) == ('call', 10, 2)

errors = []

for label, fn in (('bound method', meth), ('callable instance', inst)):
  head = 'k' if fn is meth else 'call'
  # (a) first positional argument marked REQUIRED, x is bound -> must be filled.
  try:
    got = fn(gin.REQUIRED)
    if got != (head, 10, 2):
      errors.append('%s: f(REQUIRED) gave %r' % (label, got))
  except RuntimeError as e:
    errors.append("%s: x is bound but f(REQUIRED) failed: %s" % (label, e))
  # (b) second positional (y) marked REQUIRED, only x bound -> must fail naming
  #     exactly ['y'], never put x's value into y.
  try:
    got = fn(1, gin.REQUIRED)
    errors.append('%s: f(1, REQUIRED) with y unbound returned %r (y was filled '
                  "from x's binding)" % (label, got))
  except RuntimeError as e:
    if "['y']" not in str(e):
      errors.append('%s: wrong parameters named: %s' % (label, e))

# (c) classmethod: signature-level REQUIRED supplied positionally by the caller.
try:
  got = build(5)
  if got != ('K', 5):
    errors.append('classmethod: build(5) gave %r' % (got,))
except RuntimeError as e:
  errors.append('classmethod: x supplied positionally by the caller, yet: %s' % e)

assert not errors, 'C10 violated:\n  ' + '\n  '.join(errors)
print('PASS')
